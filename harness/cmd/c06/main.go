// C06 generator: drives proxy.NewEntityFormatter(backend).Format, the decoders selected by
// config (is_collection) through the http proxy, and the whole pipeline behind the gin
// router, and records what they did.
package main

import (
	"context"
	"encoding/json"
	"fmt"
	"io"
	"net/http"
	"net/http/httptest"
	"sort"
	"strings"
	"time"

	"github.com/gin-gonic/gin"
	"github.com/luraproject/lura/v2/config"
	"github.com/luraproject/lura/v2/logging"
	"github.com/luraproject/lura/v2/proxy"
	krakendgin "github.com/luraproject/lura/v2/router/gin"

	"verif/harness/internal/emit"
	"verif/harness/internal/out"
	"verif/harness/internal/rng"
)

type obj = map[string]interface{}

// ---- configuration of the manipulation ----
type fcfg struct {
	Target  string
	Allow   []string
	Deny    []string
	Mapping map[string]string
	Group   string
	// hand the formatter explicit EMPTY (non-nil) lists / mapping where the configuration has
	// none - what a JSON configuration with "allow": [] yields - instead of nil ones
	ExplicitEmpty bool
}

func (c fcfg) backend() *config.Backend {
	b := &config.Backend{Target: c.Target, Group: c.Group}
	b.AllowList = append([]string(nil), c.Allow...)
	b.DenyList = append([]string(nil), c.Deny...)
	if c.Mapping != nil {
		b.Mapping = map[string]string{}
		for k, v := range c.Mapping {
			b.Mapping[k] = v
		}
	}
	if c.ExplicitEmpty {
		if b.AllowList == nil {
			b.AllowList = []string{}
		}
		if b.DenyList == nil {
			b.DenyList = []string{}
		}
		if b.Mapping == nil {
			b.Mapping = map[string]string{}
		}
	}
	return b
}

func (c fcfg) coq() string {
	return fmt.Sprintf("{| target := %s; allow := %s; deny := %s; mapping := %s; group := %s |}",
		emit.Str(c.Target), emit.StrList(c.Allow), emit.StrList(c.Deny), emit.StrMap(c.Mapping), emit.Str(c.Group))
}

func (c fcfg) js() obj {
	return obj{"target": c.Target, "allow": c.Allow, "deny": c.Deny, "mapping": c.Mapping, "group": c.Group, "absent_lists_given_as_empty_non_nil": c.ExplicitEmpty}
}

func (c fcfg) targetOnly() fcfg { return fcfg{Target: c.Target, ExplicitEmpty: c.ExplicitEmpty} }
func (c fcfg) filterOnly() fcfg {
	return fcfg{Target: c.Target, Allow: c.Allow, Deny: c.Deny, ExplicitEmpty: c.ExplicitEmpty}
}

// names of the (sanitised) mapping overlap: outside the quantifier of C06
func (c fcfg) overlapping() bool {
	src := map[string]bool{}
	for s := range c.Mapping {
		src[s] = true
	}
	dst := map[string]bool{}
	for _, d := range c.Mapping {
		d = strings.Split(d, ".")[0]
		if dst[d] || src[d] {
			return true
		}
		dst[d] = true
	}
	return false
}

func prefixFree(l []string) bool {
	for i := range l {
		for j := range l {
			if i != j && l[i] != l[j] && strings.HasPrefix(l[j], l[i]+".") {
				return false
			}
		}
	}
	return true
}

// ---- observations ----
type obsv struct {
	panicked bool
	msg      string
	data     obj
}

func (o obsv) coq() string {
	if o.panicked {
		return "OPanic"
	}
	return emit.App("OData", emit.Obj(o.data))
}

func (o obsv) js() interface{} {
	if o.panicked {
		return obj{"panic": o.msg}
	}
	if o.data == nil {
		return obj{}
	}
	return o.data
}

func (o obsv) canon() string {
	if o.panicked {
		return "PANIC"
	}
	if len(o.data) == 0 {
		return "{}"
	}
	b, err := json.Marshal(o.data)
	if err != nil {
		return "ERR:" + err.Error()
	}
	return string(b)
}

func deepCopy(v interface{}) interface{} {
	switch t := v.(type) {
	case []interface{}:
		if t == nil {
			return t
		}
		a := make([]interface{}, len(t))
		for i := range t {
			a[i] = deepCopy(t[i])
		}
		return a
	case map[string]interface{}:
		if t == nil {
			return t
		}
		m := make(obj, len(t))
		for k, x := range t {
			m[k] = deepCopy(x)
		}
		return m
	}
	return v
}

func runFormat(c fcfg, doc obj) (o obsv) {
	defer func() {
		if r := recover(); r != nil {
			o = obsv{panicked: true, msg: fmt.Sprint(r)}
		}
	}()
	var in obj
	if doc != nil {
		in = deepCopy(doc).(obj)
	}
	res := proxy.NewEntityFormatter(c.backend()).Format(proxy.Response{Data: in, IsComplete: true})
	return observed(res.Data)
}

const repeats = 3

// the distinct observations of `repeats` runs (Go's map iteration order varies between runs)
func runs(f func() obsv) []obsv {
	var res []obsv
	seen := map[string]bool{}
	for i := 0; i < repeats; i++ {
		o := f()
		k := o.canon()
		if !seen[k] {
			seen[k] = true
			res = append(res, o)
		}
	}
	return res
}

// ---- documents ----
var leafKinds = []func(r *rng.R) interface{}{
	func(r *rng.R) interface{} { return nil },
	func(r *rng.R) interface{} { return r.Bool() },
	func(r *rng.R) interface{} {
		return json.Number([]string{"0", "1", "-2", "3.50", "1e3", "12345678901234567890", "0.1"}[r.Intn(7)])
	},
	func(r *rng.R) interface{} { return []string{"", "s", "a.b", "hé", "null", "x\"y"}[r.Intn(6)] },
}

var docKeys = []string{"a", "b", "c", "", "a.b", "d", "collection", "ké", "x y"}
var segs = []string{"a", "b", "c", "", "d", "collection"}

func genVal(r *rng.R, depth, width int) interface{} {
	k := r.Intn(9)
	if depth <= 0 && k >= 4 {
		k = r.Intn(4)
	}
	switch {
	case k < 4:
		return leafKinds[k](r)
	case k == 4:
		n := r.Intn(3)
		a := make([]interface{}, n)
		for i := range a {
			a[i] = genVal(r, depth-1, width)
		}
		return a
	default:
		return genObj(r, depth-1, width)
	}
}

func genObj(r *rng.R, depth, width int) obj {
	m := obj{}
	n := r.Intn(width + 1)
	for i := 0; i < n; i++ {
		var k string
		if r.Chance(2, 3) {
			k = docKeys[r.Intn(4)]
		} else {
			k = docKeys[r.Intn(len(docKeys))]
		}
		m[k] = genVal(r, depth, width)
	}
	return m
}

func sortedKeys(m obj) []string {
	ks := make([]string, 0, len(m))
	for k := range m {
		ks = append(ks, k)
	}
	sort.Strings(ks)
	return ks
}

// a dot-path: often one that walks the document (keys without dots), possibly extended
// past a leaf / into an array, otherwise random segments
func genPath(r *rng.R, doc obj) string {
	var p []string
	if doc != nil && r.Chance(3, 5) {
		var cur interface{} = doc
		for len(p) < 4 {
			m, ok := cur.(obj)
			if !ok || len(m) == 0 {
				break
			}
			ks := sortedKeys(m)
			k := ks[r.Intn(len(ks))]
			if strings.Contains(k, ".") {
				break
			}
			p = append(p, k)
			cur = m[k]
			if r.Chance(1, 3) {
				break
			}
		}
		if len(p) > 0 {
			if r.Chance(1, 6) {
				p = append(p, segs[r.Intn(len(segs))])
			}
			return strings.Join(p, ".")
		}
	}
	n := 1 + r.Intn(3)
	for i := 0; i < n; i++ {
		p = append(p, segs[r.Intn(len(segs))])
	}
	return strings.Join(p, ".")
}

func genList(r *rng.R, doc obj, wantPrefixFree bool) []string {
	for {
		n := 1 + r.Intn(4)
		var l []string
		for i := 0; i < n; i++ {
			l = append(l, genPath(r, doc))
		}
		if !wantPrefixFree || prefixFree(l) {
			return l
		}
	}
}

var dests = []string{"x", "y.z", "c", "a", "", "a.b", "z", "collection", "b"}

func genCfg(r *rng.R, doc obj) fcfg {
	var c fcfg
	if r.Chance(1, 3) {
		c.Target = genPath(r, doc)
	}
	fdoc := doc
	if c.Target != "" {
		// paths of the filter should walk the extracted object
		if o := runFormat(c.targetOnly(), doc); !o.panicked {
			fdoc = o.data
		}
	}
	switch r.Intn(3) {
	case 0:
		c.Allow = genList(r, fdoc, !r.Chance(1, 8))
		if r.Chance(1, 10) {
			c.Deny = genList(r, fdoc, false) // allow takes precedence
		}
	case 1:
		c.Deny = genList(r, fdoc, false)
	}
	if r.Chance(1, 3) {
		c.Mapping = map[string]string{}
		n := 1 + r.Intn(3)
		for i := 0; i < n; i++ {
			var s string
			if ks := sortedKeys(fdoc); len(ks) > 0 && r.Chance(2, 3) {
				s = ks[r.Intn(len(ks))]
			} else {
				s = docKeys[r.Intn(len(docKeys))]
			}
			c.Mapping[s] = dests[r.Intn(len(dests))]
		}
		if c.overlapping() && r.Chance(3, 4) {
			// mostly inside the quantifier: make the names distinct
			i := 0
			for _, s := range sortedKeys(toObj(c.Mapping)) {
				c.Mapping[s] = fmt.Sprintf("m%d.%s", i, s)
				i++
			}
		}
	}
	if r.Chance(1, 3) {
		c.Group = []string{"g", "a", "x.y", "collection"}[r.Intn(4)]
	}
	return c
}

func toObj(m map[string]string) obj {
	o := obj{}
	for k, v := range m {
		o[k] = v
	}
	return o
}

func branchTags(c fcfg, doc obj) []string {
	var t []string
	if c.Target != "" {
		t = append(t, "target")
	}
	if len(c.Allow) > 0 {
		t = append(t, "allow")
		if !prefixFree(c.Allow) {
			t = append(t, "allow-not-prefix-free")
		}
	} else if len(c.Deny) > 0 {
		t = append(t, "deny")
	}
	if len(c.Mapping) > 0 {
		t = append(t, "mapping")
		if c.overlapping() {
			t = append(t, "mapping-overlapping")
		}
	}
	if c.Group != "" {
		t = append(t, "group")
	}
	if len(t) == 0 {
		t = append(t, "plain")
	}
	return t
}

const sigOverlap = "mapping-colliding-destinations"

func main() {
	cfg := out.ParseFlags("C06")
	gin.SetMode(gin.ReleaseMode)
	if cfg.Extra == "reuse-child" {
		concurrentChild()
		return
	}
	if strings.HasPrefix(cfg.Extra, "child:") {
		childMain(cfg.Extra)
		return
	}
	r := rng.New(cfg.Seed)
	w := out.NewWriter(cfg, "Verif.Corr.C06", 300)
	orderDependent := 0
	formatRuns := 0

	fmtCase := func(stream string, c fcfg, doc obj) {
		// every other case: absent lists are handed over as explicit empty ones ("allow": [])
		c.ExplicitEmpty = c.ExplicitEmpty || w.N()%2 == 1
		ots := runs(func() obsv { return runFormat(c.targetOnly(), doc) })
		ofs := runs(func() obsv { return runFormat(c.filterOnly(), doc) })
		os := runs(func() obsv { return runFormat(c, doc) })
		formatRuns += 3 * repeats
		sig := ""
		if c.overlapping() {
			sig = sigOverlap
		}
		if len(ots) > 1 || len(ofs) > 1 || len(os) > 1 {
			orderDependent++
		}
		// exactly one case per input (indices stay the same from run to run): the first run's
		// observations, and whether every run gave the same result
		stable := len(ots) == 1 && len(ofs) == 1 && len(os) == 1
		ot, of, o := ots[0], ofs[0], os[0]
		var variants []interface{}
		for _, x := range os {
			variants = append(variants, x.js())
		}
		for _, x := range ofs[1:] {
			variants = append(variants, obj{"target_filter": x.js()})
		}
		for _, x := range ots[1:] {
			variants = append(variants, obj{"target_only": x.js()})
		}
		term := emit.App("CFmt", c.coq(), emit.Obj(doc), ot.coq(), of.coq(), o.coq(), emit.Bool(stable))
		js := obj{"level": "format", "stream": stream, "config": c.js(), "document": doc,
			"observed":                 obj{"target_only": ot.js(), "target_filter": of.js(), "full": o.js()},
			"same_result_in_every_run": stable, "distinct_results": variants}
		cb, _ := json.Marshal(obj{"c": c.js(), "d": doc})
		w.Count("level:format")
		w.Count("stream:" + stream)
		tags := branchTags(c, doc)
		for _, t := range tags {
			w.Count("branch:" + t)
		}
		if o.panicked || of.panicked || ot.panicked {
			w.Count("observed:panic")
		}
		w.Add(term, js, sig, "F|"+string(cb), tags[0] != "plain")
	}

	// ------------------------------------------------------------------ corpus
	num := func(s string) json.Number { return json.Number(s) }
	arr := func(xs ...interface{}) []interface{} { return append([]interface{}{}, xs...) }
	corpusDocs := []obj{
		{"a": num("1"), "b": num("2")},
		{"supu": num("42"), "tupu": false, "foo": "bar", "a": obj{"b": true, "c": num("42"), "d": "tupu"}},
		{"a": obj{"b": obj{"c": num("1")}, "d": num("2")}, "e": num("3")},
		{"a": obj{"b": obj{}}, "c": obj{}},
		{"a": arr(obj{"b": num("1")}, num("2")), "b": "x"},
		{"a": nil, "b": obj{"a": nil}},
		{"": obj{"": obj{"": num("1")}, "a": num("2")}, "a": num("3")},
		{"a.b": num("1"), "a": obj{"b": num("2"), "b.c": num("3")}},
		{"a": obj{"a": obj{"a": obj{"a": obj{"a": num("1"), "b": num("2")}, "b": num("3")}, "b": num("4")}, "b": num("5")}, "b": num("6")},
		{"collection": arr(obj{"a": num("1")}, obj{"a": num("2")})},
		{"a": "scalar", "b": obj{"a": "scalar"}},
		{},
		nil,
		{"c": num("9"), "a": num("1"), "b": num("2"), "x": obj{"c": num("1")}},
	}
	corpusCfgs := []fcfg{
		{},
		{Allow: []string{"a"}}, {Allow: []string{"a.b"}}, {Allow: []string{"a.b", "a.d"}}, {Allow: []string{"a.b.c"}},
		{Allow: []string{"a.b.c.d"}}, {Allow: []string{"a", "b"}}, {Allow: []string{"a.b", "a"}}, {Allow: []string{"a", "a.b"}},
		{Allow: []string{"a", "a"}}, {Allow: []string{""}}, {Allow: []string{"."}}, {Allow: []string{".."}}, {Allow: []string{".a"}},
		{Allow: []string{"a."}}, {Allow: []string{"zz"}}, {Allow: []string{"a.zz", "b"}}, {Allow: []string{"a.a.a.a.a"}},
		{Allow: []string{"a.a.a.a.b", "a.b"}}, {Allow: []string{"supu", "a.b"}}, {Allow: []string{"a.b"}, Deny: []string{"a"}},
		{Allow: []string{"collection"}}, {Allow: []string{"collection.a"}},
		{Deny: []string{"a"}}, {Deny: []string{"a.b"}}, {Deny: []string{"a.b", "a.d"}}, {Deny: []string{"a.b.c"}},
		{Deny: []string{"a", "a.b"}}, {Deny: []string{"a.b", "a"}}, {Deny: []string{"a.b.c", "a.b"}}, {Deny: []string{"a.b", "a.b.c"}},
		{Deny: []string{""}}, {Deny: []string{"."}}, {Deny: []string{".a"}}, {Deny: []string{"a."}}, {Deny: []string{"a", "b", "c", "e", ""}},
		{Deny: []string{"zz"}}, {Deny: []string{"a.a.a.a.a"}}, {Deny: []string{"a", "a"}}, {Deny: []string{"collection.a"}},
		{Target: "a"}, {Target: "a.b"}, {Target: "b"}, {Target: "zz"}, {Target: "a.zz"}, {Target: "."}, {Target: "a."}, {Target: "a.b.c"},
		{Target: "a", Group: "g"}, {Target: "b", Group: "g"}, {Target: "zz", Group: "a"}, {Group: "g"}, {Group: "a.b"},
		{Target: "a", Allow: []string{"b"}}, {Target: "a", Deny: []string{"b"}}, {Target: "a", Allow: []string{"zz"}, Group: "g"},
		{Mapping: map[string]string{"a": "x"}}, {Mapping: map[string]string{"a": "x.y"}}, {Mapping: map[string]string{"a": "b"}},
		{Mapping: map[string]string{"a": "a"}}, {Mapping: map[string]string{"a": "c", "b": "c"}}, {Mapping: map[string]string{"a": "b", "b": "a"}},
		{Mapping: map[string]string{"a": "b", "b": "c"}}, {Mapping: map[string]string{"a": ""}}, {Mapping: map[string]string{"": "e"}},
		{Mapping: map[string]string{"a.b": "ab"}}, {Mapping: map[string]string{"zz": "x"}}, {Mapping: map[string]string{"a": "x", "b": "y", "c": "z"}},
		{Mapping: map[string]string{"a": ".x"}}, {Mapping: map[string]string{"a": "c"}},
		{Allow: []string{"a"}, Mapping: map[string]string{"a": "b"}}, {Deny: []string{"a"}, Mapping: map[string]string{"a": "x", "b": "a"}},
		{Allow: []string{"b"}, Mapping: map[string]string{"a": "x"}, Group: "g"},
		{Target: "a", Allow: []string{"b", "d"}, Mapping: map[string]string{"d": "D"}, Group: "g"},
		{Target: "a", Deny: []string{"b.c"}, Mapping: map[string]string{"b": "B.x"}, Group: "g"},
	}
	for _, d := range corpusDocs {
		for _, c := range corpusCfgs {
			fmtCase("corpus", c, d)
		}
	}

	// ------------------------------------------------------------------ instance reuse (corpus)
	sequentialReuse(w, "reuse-sequential", reuseCorpus())

	// ------------------------------------------------------------------ small scope, exhaustive
	var vals []interface{}
	var keys []string
	var paths []string
	if cfg.Thorough() {
		keys = []string{"a", "b", ""}
		vals = []interface{}{num("1"), arr(obj{"a": num("1")}), obj{"a": nil}, obj{"a": obj{"b": num("1")}, "": obj{}, "b": "s"}}
	} else {
		keys = []string{"a", "b"}
		vals = []interface{}{num("1"), arr(obj{"a": num("1")}), obj{}, obj{"a": num("1")}, obj{"a": obj{"b": num("1")}, "b": "s"}}
	}
	for _, k := range keys {
		paths = append(paths, k)
	}
	for _, k := range keys {
		for _, k2 := range keys {
			paths = append(paths, k+"."+k2)
		}
	}
	if cfg.Thorough() {
		for _, k := range []string{"a", "b"} {
			for _, k2 := range []string{"a", "b"} {
				for _, k3 := range []string{"a", "b"} {
					paths = append(paths, k+"."+k2+"."+k3)
				}
			}
		}
	} else {
		paths = append(paths, "a.a.b", "b.a.a")
	}
	var lists [][]string
	for i, p := range paths {
		lists = append(lists, []string{p})
		for j, q := range paths {
			if j > i || (cfg.Thorough() && j != i && strings.HasPrefix(p, q)) {
				lists = append(lists, []string{p, q})
			}
		}
	}
	var smallDocs []obj
	var build func(i int, cur obj)
	build = func(i int, cur obj) {
		if i == len(keys) {
			smallDocs = append(smallDocs, deepCopy(cur).(obj))
			return
		}
		build(i+1, cur)
		for _, v := range vals {
			cur[keys[i]] = v
			build(i+1, cur)
		}
		delete(cur, keys[i])
	}
	build(0, obj{})
	w.Meta["small_scope"] = obj{"documents": len(smallDocs), "path_lists": len(lists), "keys": keys, "values_per_key": len(vals) + 1}
	for _, d := range smallDocs {
		for _, l := range lists {
			fmtCase("small-allow", fcfg{Allow: l}, d)
			fmtCase("small-deny", fcfg{Deny: l}, d)
		}
	}
	// every shaping feature over the small documents
	shapes := []fcfg{{Target: "a"}, {Target: "a.a"}, {Target: "a", Group: "g"}, {Group: "a"}, {Mapping: map[string]string{"a": "b"}},
		{Mapping: map[string]string{"a": "x", "b": "y.z"}}, {Target: "b", Allow: []string{"a"}, Group: "g"}, {Target: "a", Deny: []string{"a"}, Mapping: map[string]string{"b": "a"}}}
	for _, d := range smallDocs {
		for _, c := range shapes {
			fmtCase("small-shape", c, d)
		}
	}

	// ------------------------------------------------------------------ random
	nRandom := 1500
	if cfg.Thorough() {
		nRandom = 20000
	}
	for i := 0; i < nRandom; i++ {
		depth, width := 1+r.Intn(6), 1+r.Intn(5)
		doc := genObj(r, depth, width)
		fmtCase("random", genCfg(r, doc), doc)
	}

	// ------------------------------------------------------------------ instance reuse (random, concurrent)
	nSeq := 50
	if cfg.Thorough() {
		nSeq = 1000
	}
	var seqs []reuseSeq
	for i := 0; i < nSeq; i++ {
		doc := genObj(r, 2+r.Intn(4), 2+r.Intn(4))
		seqs = append(seqs, reuseSeq{genCfg(r, doc), relatives(r, doc, 3+r.Intn(4))})
	}
	sequentialReuse(w, "reuse-sequential-random", seqs)
	concurrentReuse(w, cfg)

	// ------------------------------------------------------------------ decoder + formatter
	nResp := 300
	if cfg.Thorough() {
		nResp = 3000
	}
	respPayloads := []interface{}{
		arr(), arr(num("1"), "two", nil), arr(obj{"a": num("1")}, obj{"a": num("2"), "b": obj{"c": arr()}}), arr(arr(num("1")), obj{}),
		obj{"a": num("1")}, obj{}, obj{"collection": arr(num("1"))}, nil, num("7"), "str", true,
	}
	respCfgs := []fcfg{{}, {Target: "collection"}, {Allow: []string{"collection"}}, {Allow: []string{"collection.a"}}, {Deny: []string{"collection"}},
		{Deny: []string{"collection.a"}}, {Group: "g"}, {Mapping: map[string]string{"collection": "items"}}, {Mapping: map[string]string{"collection": "data.x"}, Group: "g"},
		{Allow: []string{"a"}}, {Target: "a"}, {Deny: []string{"zz"}, Mapping: map[string]string{"collection": "a", "a": "b"}}}
	for _, p := range respPayloads {
		for _, c := range respCfgs {
			for _, ic := range []bool{false, true} {
				respCase(w, "corpus", c, ic, p, false)
				if c.Group == "" && c.Target == "" {
					respCase(w, "corpus", c, ic, p, true)
				}
			}
		}
	}
	reusePayloads := []interface{}{
		arr(obj{"a": num("1"), "b": num("2")}), arr(), obj{"collection": arr(num("1")), "a": obj{"b": num("3")}}, arr(num("1"), obj{"a": nil}),
		obj{"a": num("1")}, nil, arr(arr(), obj{"b": obj{"a": num("4")}}), obj{"a": obj{"b": num("5"), "c": num("6")}, "b": "x"},
	}
	for _, c := range []fcfg{{}, {Allow: []string{"collection", "a.b"}}, {Deny: []string{"collection.a", "a.c"}}, {Target: "a", Group: "g"},
		{Mapping: map[string]string{"collection": "items", "a": "A"}, Group: "g"}} {
		for _, ic := range []bool{true, false} {
			proxyReuse(w, c, ic, reusePayloads)
		}
	}
	for i := 0; i < nResp; i++ {
		var p interface{}
		switch r.Intn(8) {
		case 0, 1, 2:
			n := r.Intn(4)
			a := make([]interface{}, n)
			for j := range a {
				a[j] = genVal(r, 1+r.Intn(3), 3)
			}
			p = a
		case 3, 4, 5:
			p = genObj(r, 1+r.Intn(4), 4)
		case 6:
			p = nil
		default:
			p = genVal(r, 0, 0)
		}
		ic := r.Chance(1, 2)
		var ddoc obj
		if a, ok := p.([]interface{}); ok {
			ddoc = obj{"collection": a}
		} else if m, ok := p.(obj); ok {
			ddoc = m
		}
		c := genCfg(r, ddoc)
		respCase(w, "random", c, ic, p, r.Chance(1, 3))
	}

	if cfg.Only >= 0 {
		// replay of a single case: the writer may have sampled nothing; keep "samples" a list
		w.Meta["samples"] = []interface{}{}
	}
	// ------------------------------------------------------------------ extra_config: which formatter
	nExtra := 150
	if cfg.Thorough() {
		nExtra = 3000
	}
	extraStream(w, r, nExtra)

	// ------------------------------------------------------------------ several backends, end to end
	nE2E := 250
	if cfg.Thorough() {
		nE2E = 5000
	}
	e2eStream(w, cfg, r, nE2E)

	// ------------------------------------------------------------------ concurrent first use
	nFirst := 50
	if cfg.Thorough() {
		nFirst = 600
	}
	firstUseStream(w, cfg, r, nFirst)

	w.Meta["format_runs"] = formatRuns
	w.Meta["repeats_per_configuration"] = repeats
	w.Meta["inputs_with_run_dependent_output"] = orderDependent
	w.Close(fmt.Sprintf("corpus %d documents x %d configurations; small scope: every document over the keys x every allow and deny list of <=2 paths (see small_scope) and 8 shaping configurations; random documents (depth<=6, width<=5, keys empty/dotted/non-ASCII, arrays, null) x random target/allow|deny/mapping/group with paths walking the document; decoder+formatter through the http proxy and the gin pipeline (arrays/objects/null/scalars x is_collection); backends whose extra_config has shapes that do / do not select the flatmap formatter (NewEntityFormatter's choice is modelled; only the entity formatter is judged); every other configuration hands absent lists over as explicit empty (non-nil) ones, as a JSON configuration with \"allow\": [] does; the consumer scribbles into every returned Data map after copying it; concurrent first use of fresh formatters with 50-200 listed paths (child process); endpoints with 2-3 backends in a child process, arrival order at the merge imposed, target misses arriving first (own options each; disjoint and overlapping top-level keys; failing decoders) through the default factory's parallel merge and the gin JSON render, client body compared with the composed model (overlap winner open) and with the boolean no-leak form; instance reuse: one formatter / http proxy per configuration driven through sequences of 3-9 related documents (corpus + random) and hit by 8 goroutines x 150 calls (each distinct (document, observation) pair is a case); every other Format configuration run %d times on fresh copies (map order), a case carries the first observation and whether all runs agreed; nontrivial = some option set", len(corpusDocs), len(corpusCfgs), repeats), true)
}

// ---- decoder + formatter: http proxy level and whole pipeline behind gin ----
func respCase(w *out.Writer, stream string, c fcfg, isCollection bool, payload interface{}, client bool) {
	c.ExplicitEmpty = c.ExplicitEmpty || w.N()%2 == 1
	body, err := json.Marshal(payload)
	if err != nil {
		panic(err)
	}
	if payload == nil {
		client = false // a nil map under a group renders as null: outside what C06 speaks of
	}
	var o *obsv
	os := runs(func() obsv {
		var x *obsv
		if client {
			x = runClient(c, isCollection, body)
		} else {
			x = runProxy(c, isCollection, body)
		}
		if x == nil {
			return obsv{panicked: true, msg: "<no response>"}
		}
		return *x
	})
	// the formatter's partial runs on the document the statement says the decoder yields
	var ddoc obj
	defined := false
	if a, ok := payload.([]interface{}); ok && isCollection {
		ddoc, defined = obj{"collection": a}, true
	} else if m, ok := payload.(obj); ok && !isCollection {
		ddoc, defined = m, true
	}
	ot, of := obsv{data: obj{}}, obsv{data: obj{}}
	if defined {
		ot, of = runFormat(c.targetOnly(), ddoc), runFormat(c.filterOnly(), ddoc)
	}
	sig := ""
	if c.overlapping() {
		sig = sigOverlap
	}
	stable := len(os) == 1
	o = &os[0]
	var variants []interface{}
	for _, x := range os {
		variants = append(variants, x.js())
	}
	{
		oc, oj := "None", interface{}("<no response>")
		if !(o.panicked && o.msg == "<no response>") {
			oc, oj = emit.Some(o.coq()), o.js()
		}
		level := "proxy"
		if client {
			level = "client"
		}
		term := emit.App("CResp", c.coq(), emit.Bool(isCollection), emit.Json(payload), ot.coq(), of.coq(), oc, emit.Bool(stable))
		js := obj{"level": level, "stream": stream, "config": c.js(), "is_collection": isCollection, "payload": string(body),
			"observed":                 obj{"target_only": ot.js(), "target_filter": of.js(), "full": oj},
			"same_result_in_every_run": stable, "distinct_results": variants}
		cb, _ := json.Marshal(obj{"c": c.js(), "ic": isCollection, "p": string(body), "l": level})
		w.Count("level:" + level)
		w.Count("stream:resp-" + stream)
		if isCollection {
			w.Count("branch:is_collection")
		}
		if !defined {
			w.Count("branch:decoder-outside-statement")
		}
		w.Add(term, js, sig, "R|"+string(cb), isCollection)
	}
}

func backendFor(c fcfg, isCollection bool) (*config.ServiceConfig, *config.EndpointConfig) {
	be := c.backend()
	be.URLPattern = "/b"
	be.IsCollection = isCollection
	ep := &config.EndpointConfig{Endpoint: "/x", Method: "GET", Backend: []*config.Backend{be}}
	sc := &config.ServiceConfig{Version: config.ConfigVersion, Timeout: 10 * time.Minute, Host: []string{"http://127.0.0.1:8081"}, Endpoints: []*config.EndpointConfig{ep}}
	if err := sc.Init(); err != nil {
		panic(err)
	}
	return sc, ep
}

func executor(body []byte) func(context.Context, *http.Request) (*http.Response, error) {
	return func(_ context.Context, _ *http.Request) (*http.Response, error) {
		h := http.Header{}
		h.Set("Content-Type", "application/json")
		return &http.Response{StatusCode: 200, Header: h, Body: io.NopCloser(strings.NewReader(string(body)))}, nil
	}
}

// nil: no response (the decoder failed)
func runProxy(c fcfg, isCollection bool, body []byte) (res *obsv) {
	defer func() {
		if r := recover(); r != nil {
			res = &obsv{panicked: true, msg: fmt.Sprint(r)}
		}
	}()
	_, ep := backendFor(c, isCollection)
	be := ep.Backend[0]
	p := proxy.NewHTTPProxyWithHTTPExecutor(be, executor(body), be.Decoder)
	resp, err := p(context.Background(), &proxy.Request{Method: "GET", URL: mustURL("http://h/b"), Headers: map[string][]string{}})
	if err != nil || resp == nil {
		return nil
	}
	o := observed(resp.Data)
	return &o
}

// whole pipeline: default factory + gin endpoint handler; the JSON body the client gets
func runClient(c fcfg, isCollection bool, body []byte) (res *obsv) {
	defer func() {
		if r := recover(); r != nil {
			res = &obsv{panicked: true, msg: fmt.Sprint(r)}
		}
	}()
	_, ep := backendFor(c, isCollection)
	bf := func(be *config.Backend) proxy.Proxy {
		return proxy.NewHTTPProxyWithHTTPExecutor(be, executor(body), be.Decoder)
	}
	p, err := proxy.NewDefaultFactory(bf, logging.NoOp).New(ep)
	if err != nil {
		panic(err)
	}
	rec := httptest.NewRecorder()
	e := gin.New()
	e.GET("/x", krakendgin.EndpointHandler(ep, p))
	e.ServeHTTP(rec, httptest.NewRequest("GET", "/x", nil))
	if rec.Code != 200 {
		return nil
	}
	d := json.NewDecoder(strings.NewReader(rec.Body.String()))
	d.UseNumber()
	var v interface{}
	if err := d.Decode(&v); err != nil {
		return &obsv{data: obj{"<client body is not JSON>": rec.Body.String()}}
	}
	m, ok := v.(map[string]interface{})
	if !ok && v != nil {
		return &obsv{data: obj{"<client body is not an object>": v}}
	}
	return &obsv{data: m}
}
