// Streams that involve more than one goroutine (the parallel merge, concurrent batches) run in
// a child process of this binary: Go's "fatal error: concurrent map writes" cannot be
// recovered, so the parent turns a dead child into a failing case that carries the crash text.
package main

import (
	"bufio"
	"bytes"
	"context"
	"encoding/json"
	"fmt"
	"os"
	"os/exec"
	"strings"
	"time"

	"verif/harness/internal/out"
)

// the consumer of a formatted response owns its Data and writes into it (the merge uses the
// first part's map as its accumulator, static/plugin modifiers add keys): so does the harness,
// after it has taken its copy of the observation
const scribbleKey = "\x01scribbled-by-the-consumer"

func scribble(m obj) {
	if m == nil {
		return
	}
	for _, v := range m {
		if sub, ok := v.(obj); ok && sub != nil {
			sub[scribbleKey] = true
		}
	}
	m[scribbleKey] = true
}

func observed(m obj) obsv {
	var c obj
	if m != nil {
		c = deepCopy(m).(obj)
	}
	scribble(m)
	return obsv{data: c}
}

type childLine struct {
	Begin *int            `json:"begin,omitempty"`
	I     *int            `json:"i,omitempty"`
	Res   json.RawMessage `json:"res,omitempty"`
}

// runUnits runs units [0,n) of `mode` in child processes. input: JSON handed to the child on
// stdin (the specs). done(i, res): unit i completed. crashed(i, text): the child died (or hung)
// while working on unit i; the remaining units are run by a new child.
func runUnits(cfg out.Config, mode string, input interface{}, n int, done func(i int, res json.RawMessage), crashed func(i int, text string)) {
	in, err := json.Marshal(input)
	if err != nil {
		panic(err)
	}
	self, err := os.Executable()
	if err != nil {
		panic(err)
	}
	next := 0
	for launches := 0; next < n && launches < 12; launches++ {
		ctx, cancel := context.WithTimeout(context.Background(), 5*time.Minute)
		cmd := exec.CommandContext(ctx, self, "--tier", cfg.Tier, "--seed", fmt.Sprint(cfg.Seed), "--out", cfg.Dir,
			"--extra", fmt.Sprintf("child:%s:%d", mode, next))
		cmd.Stdin = bytes.NewReader(in)
		var stderr bytes.Buffer
		cmd.Stderr = &stderr
		stdout, err := cmd.StdoutPipe()
		if err != nil {
			panic(err)
		}
		if err := cmd.Start(); err != nil {
			panic(err)
		}
		sc := bufio.NewScanner(stdout)
		sc.Buffer(make([]byte, 1<<20), 1<<28)
		current := -1
		for sc.Scan() {
			var l childLine
			d := json.NewDecoder(bytes.NewReader(sc.Bytes()))
			d.UseNumber()
			if d.Decode(&l) != nil {
				continue
			}
			if l.Begin != nil {
				current = *l.Begin
			}
			if l.I != nil {
				done(*l.I, l.Res)
				next = *l.I + 1
				current = -1
			}
		}
		werr := cmd.Wait()
		cancel()
		if next >= n && werr == nil {
			return
		}
		if werr == nil && current < 0 {
			return // the child stopped early without an error: nothing more to do
		}
		if current < 0 {
			current = next
		}
		text := stderr.String()
		if i := strings.Index(text, "\n\n"); i > 0 {
			text = text[:i]
		}
		if len(text) > 500 {
			text = text[:500]
		}
		if ctx.Err() != nil {
			text = "no answer within 5 minutes (deadlock?) " + text
		}
		crashed(current, fmt.Sprintf("the process died: %v: %s", werr, text))
		next = current + 1
	}
}

// child side
type childOut struct{ w *bufio.Writer }

func newChildOut() *childOut { return &childOut{bufio.NewWriter(os.Stdout)} }
func (c *childOut) begin(i int) {
	b, _ := json.Marshal(childLine{Begin: &i})
	c.w.Write(b)
	c.w.WriteByte('\n')
	c.w.Flush()
}
func (c *childOut) done(i int, res interface{}) {
	rb, err := json.Marshal(res)
	if err != nil {
		rb, _ = json.Marshal(map[string]string{"marshal_error": err.Error()})
	}
	b, _ := json.Marshal(childLine{I: &i, Res: rb})
	c.w.Write(b)
	c.w.WriteByte('\n')
	c.w.Flush()
}

func readChildInput(v interface{}) {
	d := json.NewDecoder(bufio.NewReaderSize(os.Stdin, 1<<20))
	d.UseNumber()
	if err := d.Decode(v); err != nil {
		fmt.Fprintln(os.Stderr, "child input:", err)
		os.Exit(4)
	}
}

func childMain(extra string) {
	var mode string
	var from int
	parts := strings.Split(extra, ":")
	mode = parts[1]
	fmt.Sscanf(parts[2], "%d", &from)
	switch mode {
	case "e2e":
		e2eChild(from)
	case "first-use":
		firstUseChild(from)
	default:
		fmt.Fprintln(os.Stderr, "unknown child mode", mode)
		os.Exit(5)
	}
}
