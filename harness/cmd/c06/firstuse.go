// Concurrent FIRST use: many fresh formatter instances (long deny / allow lists, deep
// documents), each hit by several goroutines released by a start gate with no prior call.
// A formatter that builds its trees lazily without synchronisation shows here. Child process.
package main

import (
	"encoding/json"
	"fmt"
	"sort"
	"strings"
	"sync"

	"github.com/luraproject/lura/v2/proxy"

	"verif/harness/internal/out"
	"verif/harness/internal/rng"
)

type firstUseSpec struct {
	C    fcfg  `json:"c"`
	Docs []obj `json:"docs"`
	G    int   `json:"g"`
}
type firstUseRec struct {
	Doc int     `json:"doc"`
	O   wireObs `json:"o"`
}

func objectPaths(v interface{}, prefix []string, acc *[]string) {
	m, ok := v.(obj)
	if !ok {
		return
	}
	for _, k := range sortedKeys(m) {
		if strings.Contains(k, ".") {
			continue
		}
		p := append(append([]string{}, prefix...), k)
		*acc = append(*acc, strings.Join(p, "."))
		objectPaths(m[k], p, acc)
	}
}

func firstUseSpecs(r *rng.R, n int) []firstUseSpec {
	var specs []firstUseSpec
	for i := 0; i < n; i++ {
		var doc obj
		var paths []string
		for tries := 0; tries < 20; tries++ {
			doc = genObj(r, 5+r.Intn(2), 4+r.Intn(2))
			paths = paths[:0]
			objectPaths(doc, nil, &paths)
			if len(paths) >= 12 {
				break
			}
		}
		want := 50 + r.Intn(151)
		var list []string
		for len(list) < want {
			switch {
			case len(paths) > 0 && r.Chance(2, 5):
				list = append(list, paths[r.Intn(len(paths))])
			case len(paths) > 0 && r.Chance(1, 2):
				list = append(list, paths[r.Intn(len(paths))]+"."+fmt.Sprintf("x%d", r.Intn(40)))
			default:
				list = append(list, fmt.Sprintf("n%d.%s", r.Intn(60), segs[r.Intn(len(segs))]))
			}
		}
		var c fcfg
		if r.Chance(4, 5) {
			c.Deny = list
		} else {
			// an allow list must be prefix-free to be inside the quantifier
			sort.Strings(list)
			var pf []string
			for _, p := range list {
				if len(pf) > 0 && (p == pf[len(pf)-1] || strings.HasPrefix(p, pf[len(pf)-1]+".")) {
					continue
				}
				pf = append(pf, p)
			}
			for i := len(pf) - 1; i > 0; i-- { // configured order is not sorted order
				j := r.Intn(i + 1)
				pf[i], pf[j] = pf[j], pf[i]
			}
			c.Allow = pf
		}
		docs := []obj{doc, relatives(r, doc, 2)[1]}
		specs = append(specs, firstUseSpec{c, docs, 4 + r.Intn(5)})
	}
	return specs
}

func firstUseChild(from int) {
	var specs []firstUseSpec
	readChildInput(&specs)
	co := newChildOut()
	for i := from; i < len(specs); i++ {
		s := specs[i]
		co.begin(i)
		f := proxy.NewEntityFormatter(s.C.backend()) // never used before the gate opens
		found := make([]map[string]firstUseRec, s.G)
		start := make(chan struct{})
		var wg sync.WaitGroup
		for g := 0; g < s.G; g++ {
			found[g] = map[string]firstUseRec{}
			wg.Add(1)
			go func(g int) {
				defer wg.Done()
				<-start
				for k := 0; k < 3; k++ {
					di := (g + k) % len(s.Docs)
					o := formatWith(f, s.Docs[di])
					key := fmt.Sprintf("%d|%s", di, o.canon())
					if _, ok := found[g][key]; !ok {
						found[g][key] = firstUseRec{di, toWire(o)}
					}
				}
			}(g)
		}
		close(start)
		wg.Wait()
		all := map[string]firstUseRec{}
		for g := range found {
			for k, v := range found[g] {
				all[k] = v
			}
		}
		keys := make([]string, 0, len(all))
		for k := range all {
			keys = append(keys, k)
		}
		sort.Strings(keys)
		recs := make([]firstUseRec, 0, len(keys))
		for _, k := range keys {
			recs = append(recs, all[k])
		}
		co.done(i, recs)
	}
}

func firstUseStream(w *out.Writer, cfg out.Config, r *rng.R, n int) {
	specs := firstUseSpecs(r, n)
	results := make([][]firstUseRec, len(specs))
	crashes := map[int]string{}
	runUnits(cfg, "first-use", specs, len(specs),
		func(i int, raw json.RawMessage) {
			var recs []firstUseRec
			d := json.NewDecoder(strings.NewReader(string(raw)))
			d.UseNumber()
			if d.Decode(&recs) == nil {
				results[i] = recs
			} else {
				crashes[i] = "unreadable result from the child process"
			}
		},
		func(i int, text string) { crashes[i] = text })
	calls := 0
	for i, s := range specs {
		note := fmt.Sprintf("concurrent first use: a fresh formatter (%d listed paths) hit by %d goroutines at once, no prior call; each distinct (document, observation) once", len(s.C.Deny)+len(s.C.Allow), s.G)
		calls += 3 * s.G
		if text, ok := crashes[i]; ok {
			crash := obsv{panicked: true, msg: text}
			emitReuse(w, "first-use-concurrent", i, 0, s.C, s.Docs[0], triple{runFormat(s.C.targetOnly(), s.Docs[0]), crash, crash}, note+"; THE PROCESS DIED")
			w.Count("first-use-concurrent:process-died")
			continue
		}
		for j, rec := range results[i] {
			d := s.Docs[rec.Doc]
			o := fromWire(rec.O)
			emitReuse(w, "first-use-concurrent", i, j, s.C, d, triple{runFormat(s.C.targetOnly(), d), o, o}, note)
		}
	}
	w.Count(fmt.Sprintf("first-use-concurrent:instances=%d calls=%d", len(specs), calls))
}
