// End to end: an endpoint with 2-3 backends, each with its own manipulation options, behind
// the default factory (parallel merge) and the gin JSON render; the decoded client body.
package main

import (
	"context"
	"encoding/json"
	"fmt"
	"net/http"
	"net/http/httptest"
	"strings"
	"time"

	"github.com/gin-gonic/gin"
	"github.com/luraproject/lura/v2/config"
	"github.com/luraproject/lura/v2/logging"
	"github.com/luraproject/lura/v2/proxy"
	krakendgin "github.com/luraproject/lura/v2/router/gin"

	"verif/harness/internal/emit"
	"verif/harness/internal/out"
	"verif/harness/internal/rng"
)

type beSpec struct {
	c       fcfg
	ic      bool
	payload interface{}
}

// nil: the client got an error status (no document)
func runEndpoint(bes []beSpec, bodies [][]byte) (res *obsv) {
	defer func() {
		if r := recover(); r != nil {
			res = &obsv{panicked: true, msg: fmt.Sprint(r)}
		}
	}()
	ep := &config.EndpointConfig{Endpoint: "/x", Method: "GET"}
	for i, b := range bes {
		be := b.c.backend()
		be.URLPattern = fmt.Sprintf("/b%d", i)
		be.IsCollection = b.ic
		ep.Backend = append(ep.Backend, be)
	}
	sc := &config.ServiceConfig{Version: config.ConfigVersion, Timeout: 10 * time.Minute, Host: []string{"http://127.0.0.1:8081"}, Endpoints: []*config.EndpointConfig{ep}}
	if err := sc.Init(); err != nil {
		panic(err)
	}
	bf := func(be *config.Backend) proxy.Proxy {
		for i := range bes {
			if be.URLPattern == fmt.Sprintf("/b%d", i) {
				return proxy.NewHTTPProxyWithHTTPExecutor(be, executor(bodies[i]), be.Decoder)
			}
		}
		panic("unknown backend " + be.URLPattern)
	}
	p, err := proxy.NewDefaultFactory(bf, logging.NoOp).New(ep)
	if err != nil {
		panic(err)
	}
	rec := httptest.NewRecorder()
	e := gin.New()
	e.GET("/x", krakendgin.EndpointHandler(ep, p))
	e.ServeHTTP(rec, httptest.NewRequest("GET", "/x", nil))
	if rec.Code != http.StatusOK {
		return nil
	}
	d := json.NewDecoder(strings.NewReader(rec.Body.String()))
	d.UseNumber()
	var v interface{}
	if err := d.Decode(&v); err != nil {
		return &obsv{data: obj{"<client body is not JSON>": rec.Body.String()}}
	}
	m, ok := v.(map[string]interface{})
	if !ok && v != nil {
		return &obsv{data: obj{"<client body is not an object>": v}}
	}
	return &obsv{data: m}
}

func e2eCase(w *out.Writer, stream string, bes []beSpec) {
	bodies := make([][]byte, len(bes))
	var items []string
	var bjs []interface{}
	sig := ""
	for i, b := range bes {
		body, err := json.Marshal(b.payload)
		if err != nil {
			panic(err)
		}
		bodies[i] = body
		o := runProxy(b.c, b.ic, body)
		var ddoc obj
		defined := false
		if a, ok := b.payload.([]interface{}); ok && b.ic {
			ddoc, defined = obj{"collection": a}, true
		} else if m, ok := b.payload.(obj); ok && !b.ic {
			ddoc, defined = m, true
		}
		ot, of := obsv{data: obj{}}, obsv{data: obj{}}
		if defined {
			ot, of = runFormat(b.c.targetOnly(), ddoc), runFormat(b.c.filterOnly(), ddoc)
		}
		oc, oj := "None", interface{}("<no response>")
		if o != nil {
			oc, oj = emit.Some(o.coq()), o.js()
		}
		if b.c.overlapping() {
			sig = sigOverlap
		}
		items = append(items, emit.Tuple(b.c.coq(), emit.Bool(b.ic), emit.Json(b.payload), ot.coq(), of.coq(), oc))
		bjs = append(bjs, obj{"config": b.c.js(), "is_collection": b.ic, "payload": string(body),
			"observed": obj{"target_only": ot.js(), "target_filter": of.js(), "full": oj}})
	}
	os := runs(func() obsv {
		x := runEndpoint(bes, bodies)
		if x == nil {
			return obsv{panicked: true, msg: "<no document>"}
		}
		return *x
	})
	o := os[0]
	var variants []interface{}
	for _, x := range os {
		variants = append(variants, x.js())
	}
	cc, cj := "None", interface{}("<error status>")
	if !(o.panicked && o.msg == "<no document>") {
		if o.panicked {
			// a panic below the router: shown as a document no backend produced
			cc, cj = emit.Some(emit.Obj(obj{"<panic>": o.msg})), o.js()
		} else {
			cc, cj = emit.Some(emit.Obj(o.data)), o.js()
		}
	}
	term := emit.App("CE2E", emit.List(items), cc, emit.Bool(len(os) == 1))
	js := obj{"level": "endpoint", "stream": stream, "backends": bjs, "client": cj,
		"same_result_in_every_run": len(os) == 1, "distinct_results": variants}
	cb, _ := json.Marshal(bjs)
	w.Count("level:endpoint")
	w.Count("stream:" + stream)
	w.Count(fmt.Sprintf("endpoint:backends=%d", len(bes)))
	if cc == "None" {
		w.Count("endpoint:no-document")
	}
	w.Add(term, js, sig, "E|"+string(cb), true)
}

func e2eStream(w *out.Writer, r *rng.R, n int) {
	num := func(s string) json.Number { return json.Number(s) }
	arr := func(xs ...interface{}) []interface{} { return append([]interface{}{}, xs...) }
	user := obj{"id": num("7"), "name": "n", "secret": obj{"token": "T", "hint": "h"}, "tags": arr("a", "b")}
	orders := arr(obj{"id": num("1"), "card": "4111"}, obj{"id": num("2"), "card": "4222"})
	acct := obj{"id": num("9"), "balance": num("10.50"), "secret": obj{"pin": "0000"}, "name": "acct"}
	corpus := [][]beSpec{
		// disjoint by group
		{{fcfg{Allow: []string{"id", "name"}, Group: "user"}, false, user}, {fcfg{Group: "orders"}, true, orders}},
		{{fcfg{Deny: []string{"secret"}, Group: "user"}, false, user}, {fcfg{Deny: []string{"secret", "balance"}, Group: "account"}, false, acct}},
		// overlapping top-level keys (id, name, secret): winner open, hidden fields of both stay hidden
		{{fcfg{Allow: []string{"id", "name"}}, false, user}, {fcfg{Deny: []string{"secret"}}, false, acct}},
		{{fcfg{Deny: []string{"secret.token"}}, false, user}, {fcfg{Allow: []string{"secret.pin", "balance"}}, false, acct}},
		{{fcfg{Deny: []string{"secret"}}, false, user}, {fcfg{}, false, acct}},
		{{fcfg{Allow: []string{"secret.hint"}}, false, user}, {fcfg{Allow: []string{"secret.pin"}}, false, acct}, {fcfg{Deny: []string{"collection"}}, true, orders}},
		// mapping destinations / targets meeting another backend's fields
		{{fcfg{Mapping: map[string]string{"name": "title"}, Deny: []string{"secret"}}, false, user}, {fcfg{Mapping: map[string]string{"name": "title"}, Allow: []string{"name"}}, false, acct}},
		{{fcfg{Target: "secret"}, false, user}, {fcfg{Target: "secret", Group: "a"}, false, acct}, {fcfg{Mapping: map[string]string{"collection": "hint"}}, true, orders}},
		{{fcfg{Target: "zz", Group: "g"}, false, user}, {fcfg{Allow: []string{"zz"}}, false, acct}},
		// a backend whose decoder fails; all of them failing
		{{fcfg{Allow: []string{"id"}}, false, user}, {fcfg{}, false, orders}},
		{{fcfg{}, true, user}, {fcfg{Allow: []string{"collection"}}, true, orders}, {fcfg{}, false, "scalar"}},
		{{fcfg{}, true, user}, {fcfg{}, false, orders}},
		{{fcfg{}, false, num("1")}, {fcfg{Group: "g"}, true, obj{}}, {fcfg{}, true, true}},
		// same payload, different views
		{{fcfg{Allow: []string{"id"}, Group: "a"}, false, user}, {fcfg{Deny: []string{"id"}, Group: "b"}, false, user}, {fcfg{Target: "secret", Group: "c"}, false, user}},
		{{fcfg{Allow: []string{"collection"}, Mapping: map[string]string{"collection": "list"}}, true, orders}, {fcfg{Group: "collection"}, true, arr()}},
	}
	for _, bes := range corpus {
		e2eCase(w, "endpoint-corpus", bes)
	}
	for i := 0; i < n; i++ {
		nb := 2 + r.Intn(2)
		var bes []beSpec
		share := r.Chance(1, 2) // relatives of one document: overlapping top-level keys
		base := genObj(r, 1+r.Intn(3), 2+r.Intn(3))
		for j := 0; j < nb; j++ {
			var p interface{}
			ic := false
			switch k := r.Intn(10); {
			case k < 6:
				if share {
					p = relatives(r, base, 2)[r.Intn(2)]
				} else {
					p = genObj(r, 1+r.Intn(3), 1+r.Intn(4))
				}
			case k < 9:
				a := make([]interface{}, r.Intn(3))
				for x := range a {
					a[x] = genVal(r, 1+r.Intn(2), 3)
				}
				p, ic = a, true
			default:
				p, ic = genVal(r, 0, 0), r.Bool()
				if p == nil {
					p = "s"
				}
			}
			var ddoc obj
			if a, ok := p.([]interface{}); ok {
				ddoc = obj{"collection": a}
			} else if m, ok := p.(obj); ok {
				ddoc = m
			}
			c := genCfg(r, ddoc)
			if !share && r.Chance(1, 2) {
				c.Group = fmt.Sprintf("g%d", j)
			}
			bes = append(bes, beSpec{c, ic, p})
		}
		e2eCase(w, "endpoint-random", bes)
	}
	_ = context.Background
}
