// End to end: an endpoint with 2-3 backends, each with its own manipulation options, behind
// the default factory (parallel merge) and the gin JSON render; the decoded client body.
// The arrival order of the answers at the merge is imposed (per-backend gates + the dequeue
// hook). Runs in a child process (child.go).
package main

import (
	"context"
	"encoding/json"
	"fmt"
	"net/http"
	"net/http/httptest"
	"strings"
	"time"

	"github.com/gin-gonic/gin"
	"github.com/luraproject/lura/v2/config"
	"github.com/luraproject/lura/v2/logging"
	"github.com/luraproject/lura/v2/proxy"
	krakendgin "github.com/luraproject/lura/v2/router/gin"

	"verif/harness/internal/emit"
	"verif/harness/internal/out"
	"verif/harness/internal/rng"
)

type beSpec struct {
	C       fcfg        `json:"c"`
	IC      bool        `json:"ic"`
	Payload interface{} `json:"p"`
}

// Bes in ARRIVAL order at the merge
type e2eSpec struct {
	Bes []beSpec `json:"bes"`
}

type e2eBackendRes struct {
	O      *wireObs `json:"o"` // nil: no response (decoder error)
	OT, OF wireObs
}
type e2eRes struct {
	Backends []e2eBackendRes `json:"backends"`
	Client   []wireObs       `json:"client"` // distinct results of the runs; P with M "<no document>": error status
}

var deqCh = make(chan struct{}, 256)

// nil: the client got an error status (no document)
func runEndpoint(bes []beSpec, bodies [][]byte) (res *obsv) {
	defer func() {
		if r := recover(); r != nil {
			res = &obsv{panicked: true, msg: fmt.Sprint(r)}
		}
	}()
	ep := &config.EndpointConfig{Endpoint: "/x", Method: "GET"}
	for i, b := range bes {
		be := b.C.backend()
		be.URLPattern = fmt.Sprintf("/b%d", i)
		be.IsCollection = b.IC
		ep.Backend = append(ep.Backend, be)
	}
	sc := &config.ServiceConfig{Version: config.ConfigVersion, Timeout: 10 * time.Minute, Host: []string{"http://127.0.0.1:8081"}, Endpoints: []*config.EndpointConfig{ep}}
	if err := sc.Init(); err != nil {
		panic(err)
	}
	gates := make([]chan struct{}, len(bes))
	for i := range gates {
		gates[i] = make(chan struct{})
	}
	bf := func(be *config.Backend) proxy.Proxy {
		for i := range bes {
			if be.URLPattern == fmt.Sprintf("/b%d", i) {
				ex := executor(bodies[i])
				gate := gates[i]
				return proxy.NewHTTPProxyWithHTTPExecutor(be, func(ctx context.Context, rq *http.Request) (*http.Response, error) {
					<-gate
					return ex(ctx, rq)
				}, be.Decoder)
			}
		}
		panic("unknown backend " + be.URLPattern)
	}
	p, err := proxy.NewDefaultFactory(bf, logging.NoOp).New(ep)
	if err != nil {
		panic(err)
	}
	for len(deqCh) > 0 {
		<-deqCh
	}
	stop := make(chan struct{})
	defer close(stop)
	go func() { // release the backends one by one: the next after the merge dequeued the previous
		for i := range gates {
			close(gates[i])
			select {
			case <-deqCh:
			case <-stop:
				for j := i + 1; j < len(gates); j++ {
					close(gates[j])
				}
				return
			}
		}
	}()
	rec := httptest.NewRecorder()
	e := gin.New()
	e.GET("/x", krakendgin.EndpointHandler(ep, p))
	e.ServeHTTP(rec, httptest.NewRequest("GET", "/x", nil))
	if rec.Code != http.StatusOK {
		return nil
	}
	d := json.NewDecoder(strings.NewReader(rec.Body.String()))
	d.UseNumber()
	var v interface{}
	if err := d.Decode(&v); err != nil {
		return &obsv{data: obj{"<client body is not JSON>": rec.Body.String()}}
	}
	m, ok := v.(map[string]interface{})
	if !ok && v != nil {
		return &obsv{data: obj{"<client body is not an object>": v}}
	}
	return &obsv{data: m}
}

func specDoc(b beSpec) (obj, bool) {
	if a, ok := b.Payload.([]interface{}); ok && b.IC {
		return obj{"collection": a}, true
	} else if m, ok := b.Payload.(map[string]interface{}); ok && !b.IC {
		return m, true
	}
	return nil, false
}

func e2eObserve(s e2eSpec) e2eRes {
	var res e2eRes
	bodies := make([][]byte, len(s.Bes))
	for i, b := range s.Bes {
		body, err := json.Marshal(b.Payload)
		if err != nil {
			panic(err)
		}
		bodies[i] = body
		var br e2eBackendRes
		if o := runProxy(b.C, b.IC, body); o != nil {
			x := toWire(*o)
			br.O = &x
		}
		br.OT, br.OF = toWire(obsv{data: obj{}}), toWire(obsv{data: obj{}})
		if ddoc, ok := specDoc(b); ok {
			br.OT, br.OF = toWire(runFormat(b.C.targetOnly(), ddoc)), toWire(runFormat(b.C.filterOnly(), ddoc))
		}
		res.Backends = append(res.Backends, br)
	}
	for _, o := range runs(func() obsv {
		x := runEndpoint(s.Bes, bodies)
		if x == nil {
			return obsv{panicked: true, msg: "<no document>"}
		}
		return *x
	}) {
		res.Client = append(res.Client, toWire(o))
	}
	return res
}

func e2eChild(from int) {
	var specs []e2eSpec
	readChildInput(&specs)
	proxy.SetVerifOnDequeue(func(site string) {
		if site == "merge" {
			select {
			case deqCh <- struct{}{}:
			default:
			}
		}
	})
	co := newChildOut()
	for i := from; i < len(specs); i++ {
		co.begin(i)
		co.done(i, e2eObserve(specs[i]))
	}
}

func e2eEmit(w *out.Writer, stream string, s e2eSpec, res *e2eRes, crash string) {
	var items []string
	var bjs []interface{}
	sig := ""
	for i, b := range s.Bes {
		body, _ := json.Marshal(b.Payload)
		ot, of := obsv{data: obj{}}, obsv{data: obj{}}
		oc, oj := "None", interface{}("<no response>")
		if res != nil {
			br := res.Backends[i]
			ot, of = fromWire(br.OT), fromWire(br.OF)
			if br.O != nil {
				o := fromWire(*br.O)
				oc, oj = emit.Some(o.coq()), o.js()
			}
		} else {
			// the process died in this unit: nothing was observed
			crashObs := obsv{panicked: true, msg: crash}
			ot, of, oc, oj = crashObs, crashObs, emit.Some(crashObs.coq()), crashObs.js()
		}
		if b.C.overlapping() {
			sig = sigOverlap
		}
		items = append(items, emit.Tuple(b.C.coq(), emit.Bool(b.IC), emit.Json(b.Payload), ot.coq(), of.coq(), oc))
		bjs = append(bjs, obj{"config": b.C.js(), "is_collection": b.IC, "payload": string(body), "arrives": i + 1,
			"observed": obj{"target_only": ot.js(), "target_filter": of.js(), "full": oj}})
	}
	cc, cj := "None", interface{}("<error status>")
	stable := true
	var variants []interface{}
	if res != nil {
		o := fromWire(res.Client[0])
		stable = len(res.Client) == 1
		for _, x := range res.Client {
			variants = append(variants, fromWire(x).js())
		}
		if !(o.panicked && o.msg == "<no document>") {
			if o.panicked {
				cc, cj = emit.Some(emit.Obj(obj{"<panic>": o.msg})), o.js()
			} else {
				cc, cj = emit.Some(emit.Obj(o.data)), o.js()
			}
		}
	} else {
		cc, cj = emit.Some(emit.Obj(obj{"<crash>": crash})), obj{"crash": crash}
		w.Count("endpoint:process-died")
	}
	term := emit.App("CE2E", emit.List(items), cc, emit.Bool(stable))
	js := obj{"level": "endpoint", "stream": stream, "backends": bjs, "client": cj,
		"arrival_order":            "imposed: the backends are listed in the order their answers reach the merge",
		"same_result_in_every_run": stable, "distinct_results": variants}
	cb, _ := json.Marshal(bjs)
	w.Count("level:endpoint")
	w.Count("stream:" + stream)
	w.Count(fmt.Sprintf("endpoint:backends=%d", len(s.Bes)))
	if cc == "None" {
		w.Count("endpoint:no-document")
	}
	w.Add(term, js, sig, "E|"+string(cb), true)
}

func e2eSpecs(r *rng.R, n int) ([]e2eSpec, int) {
	num := func(s string) json.Number { return json.Number(s) }
	arr := func(xs ...interface{}) []interface{} { return append([]interface{}{}, xs...) }
	user := obj{"id": num("7"), "name": "n", "secret": obj{"token": "T", "hint": "h"}, "tags": arr("a", "b")}
	orders := arr(obj{"id": num("1"), "card": "4111"}, obj{"id": num("2"), "card": "4222"})
	acct := obj{"id": num("9"), "balance": num("10.50"), "secret": obj{"pin": "0000"}, "name": "acct"}
	corpus := [][]beSpec{
		// a target miss ARRIVES FIRST: the merge uses that part's (empty) map as its accumulator
		// and writes the siblings' fields into it; every later target miss must still be {}
		{{fcfg{Target: "zz"}, false, user}, {fcfg{Deny: []string{"secret"}}, false, acct}},
		{{fcfg{Target: "zz", Group: "g"}, false, user}, {fcfg{Target: "name"}, false, acct}},
		{{fcfg{Target: "tags"}, false, user}, {fcfg{Allow: []string{"balance"}}, false, acct}, {fcfg{Target: "collection"}, true, orders}},
		{{fcfg{Target: "collection.id"}, true, orders}, {fcfg{Target: "secret.nope"}, false, user}},
		{{fcfg{Target: "zz"}, false, acct}, {fcfg{Target: "zz"}, false, user}},
		{{fcfg{Deny: []string{"secret"}}, false, acct}, {fcfg{Target: "zz"}, false, user}},
		// disjoint by group
		{{fcfg{Allow: []string{"id", "name"}, Group: "user"}, false, user}, {fcfg{Group: "orders"}, true, orders}},
		{{fcfg{Deny: []string{"secret"}, Group: "user"}, false, user}, {fcfg{Deny: []string{"secret", "balance"}, Group: "account"}, false, acct}},
		// overlapping top-level keys (id, name, secret): winner open, hidden fields of both stay hidden
		{{fcfg{Allow: []string{"id", "name"}}, false, user}, {fcfg{Deny: []string{"secret"}}, false, acct}},
		{{fcfg{Deny: []string{"secret"}}, false, acct}, {fcfg{Allow: []string{"id", "name"}}, false, user}},
		{{fcfg{Deny: []string{"secret.token"}}, false, user}, {fcfg{Allow: []string{"secret.pin", "balance"}}, false, acct}},
		{{fcfg{Deny: []string{"secret"}}, false, user}, {fcfg{}, false, acct}},
		{{fcfg{Allow: []string{"secret.hint"}}, false, user}, {fcfg{Allow: []string{"secret.pin"}}, false, acct}, {fcfg{Deny: []string{"collection"}}, true, orders}},
		// mapping destinations / targets meeting another backend's fields
		{{fcfg{Mapping: map[string]string{"name": "title"}, Deny: []string{"secret"}}, false, user}, {fcfg{Mapping: map[string]string{"name": "title"}, Allow: []string{"name"}}, false, acct}},
		{{fcfg{Target: "secret"}, false, user}, {fcfg{Target: "secret", Group: "a"}, false, acct}, {fcfg{Mapping: map[string]string{"collection": "hint"}}, true, orders}},
		{{fcfg{Target: "zz", Group: "g"}, false, user}, {fcfg{Allow: []string{"zz"}}, false, acct}},
		// a backend whose decoder fails (first / last); all of them failing
		{{fcfg{Allow: []string{"id"}}, false, user}, {fcfg{}, false, orders}},
		{{fcfg{}, false, orders}, {fcfg{Target: "zz"}, false, user}, {fcfg{Allow: []string{"id"}}, false, acct}},
		{{fcfg{}, true, user}, {fcfg{Allow: []string{"collection"}}, true, orders}, {fcfg{}, false, "scalar"}},
		{{fcfg{}, true, user}, {fcfg{}, false, orders}},
		{{fcfg{}, false, num("1")}, {fcfg{Group: "g"}, true, obj{}}, {fcfg{}, true, true}},
		// same payload, different views
		{{fcfg{Allow: []string{"id"}, Group: "a"}, false, user}, {fcfg{Deny: []string{"id"}, Group: "b"}, false, user}, {fcfg{Target: "secret", Group: "c"}, false, user}},
		{{fcfg{Allow: []string{"collection"}, Mapping: map[string]string{"collection": "list"}}, true, orders}, {fcfg{Group: "collection"}, true, arr()}},
		// and a target miss after all that
		{{fcfg{Target: "nope"}, false, user}, {fcfg{Target: "id"}, false, acct}},
	}
	var specs []e2eSpec
	for i, bes := range corpus {
		for j := range bes {
			bes[j].C.ExplicitEmpty = (i+j)%2 == 1
		}
		specs = append(specs, e2eSpec{bes})
	}
	for i := 0; i < n; i++ {
		nb := 2 + r.Intn(2)
		var bes []beSpec
		share := r.Chance(1, 2) // relatives of one document: overlapping top-level keys
		base := genObj(r, 1+r.Intn(3), 2+r.Intn(3))
		for j := 0; j < nb; j++ {
			var p interface{}
			ic := false
			switch k := r.Intn(10); {
			case k < 6:
				if share {
					p = relatives(r, base, 2)[r.Intn(2)]
				} else {
					p = genObj(r, 1+r.Intn(3), 1+r.Intn(4))
				}
			case k < 9:
				a := make([]interface{}, r.Intn(3))
				for x := range a {
					a[x] = genVal(r, 1+r.Intn(2), 3)
				}
				p, ic = a, true
			default:
				p, ic = genVal(r, 0, 0), r.Bool()
				if p == nil {
					p = "s"
				}
			}
			var ddoc obj
			if a, ok := p.([]interface{}); ok {
				ddoc = obj{"collection": a}
			} else if m, ok := p.(obj); ok {
				ddoc = m
			}
			c := genCfg(r, ddoc)
			if r.Chance(1, 6) { // a target that misses
				c.Target = []string{"zz", "a.zz", "collection.zz"}[r.Intn(3)]
			}
			if !share && r.Chance(1, 2) {
				c.Group = fmt.Sprintf("g%d", j)
			}
			c.ExplicitEmpty = (i+j)%2 == 0
			bes = append(bes, beSpec{c, ic, p})
		}
		// the list order is the imposed arrival order: shuffle it
		pm := r.Perm(len(bes))
		sh := make([]beSpec, len(bes))
		for a, b := range pm {
			sh[a] = bes[b]
		}
		specs = append(specs, e2eSpec{sh})
	}
	return specs, len(corpus)
}

func e2eStream(w *out.Writer, cfg out.Config, r *rng.R, n int) {
	specs, nCorpus := e2eSpecs(r, n)
	results := make([]*e2eRes, len(specs))
	crashes := map[int]string{}
	runUnits(cfg, "e2e", specs, len(specs),
		func(i int, raw json.RawMessage) {
			var res e2eRes
			d := json.NewDecoder(strings.NewReader(string(raw)))
			d.UseNumber()
			if d.Decode(&res) == nil && len(res.Backends) == len(specs[i].Bes) && len(res.Client) > 0 {
				results[i] = &res
			} else {
				crashes[i] = "unreadable result from the child process"
			}
		},
		func(i int, text string) { crashes[i] = text })
	for i, s := range specs {
		stream := "endpoint-random"
		if i < nCorpus {
			stream = "endpoint-corpus"
		}
		if results[i] != nil {
			e2eEmit(w, stream, s, results[i], "")
		} else if text, ok := crashes[i]; ok {
			e2eEmit(w, stream, s, nil, text)
		} else {
			w.Count("endpoint:not-run-after-repeated-crashes")
		}
	}
}
