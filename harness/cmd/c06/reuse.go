// Instance reuse: ONE formatter (or http proxy) per configuration formats a SEQUENCE of
// different documents, and is hit concurrently from several goroutines.  A formatter that
// caches or mutates its allow/deny tree (or anything else) across calls shows here; the
// model is stateless per call, so the ordinary case constructors apply unchanged.
package main

import (
	"bytes"
	"context"
	"encoding/json"
	"fmt"
	"net/http"
	"os"
	"os/exec"
	"sort"
	"strings"
	"sync"

	"github.com/luraproject/lura/v2/proxy"

	"verif/harness/internal/emit"
	"verif/harness/internal/out"
	"verif/harness/internal/rng"
)

type triple struct{ ot, of, o obsv }

// the three formatter instances the oracle looks at, built once
type instances struct{ ft, ff, fo proxy.EntityFormatter }

func newInstances(c fcfg) instances {
	return instances{
		ft: proxy.NewEntityFormatter(c.targetOnly().backend()),
		ff: proxy.NewEntityFormatter(c.filterOnly().backend()),
		fo: proxy.NewEntityFormatter(c.backend()),
	}
}

func formatWith(f proxy.EntityFormatter, doc obj) (o obsv) {
	defer func() {
		if r := recover(); r != nil {
			o = obsv{panicked: true, msg: fmt.Sprint(r)}
		}
	}()
	var in obj
	if doc != nil {
		in = deepCopy(doc).(obj)
	}
	return observed(f.Format(proxy.Response{Data: in, IsComplete: true}).Data)
}

func (in instances) run(doc obj) triple {
	return triple{formatWith(in.ft, doc), formatWith(in.ff, doc), formatWith(in.fo, doc)}
}

func emitReuse(w *out.Writer, stream string, seq, step int, c fcfg, doc obj, t triple, note string) {
	sig := ""
	if c.overlapping() {
		sig = sigOverlap
	}
	term := emit.App("CFmt", c.coq(), emit.Obj(doc), t.ot.coq(), t.of.coq(), t.o.coq(), emit.Bool(true))
	js := obj{"level": "format", "stream": stream, "config": c.js(), "document": doc,
		"observed":  obj{"target_only": t.ot.js(), "target_filter": t.of.js(), "full": t.o.js()},
		"reuse":     note,
		"sequence":  seq,
		"step":      step,
		"instances": "one formatter per (target | target+filter | full) configuration, reused for the whole sequence"}
	cb, _ := json.Marshal(obj{"c": c.js(), "d": doc})
	w.Count("level:format")
	w.Count("stream:" + stream)
	for _, tg := range branchTags(c, doc) {
		w.Count("branch:" + tg)
	}
	if t.o.panicked || t.of.panicked || t.ot.panicked {
		w.Count("observed:panic")
	}
	w.Add(term, js, sig, fmt.Sprintf("FR|%s|%d|%d|%s", stream, seq, step, cb), true)
}

type reuseSeq struct {
	c    fcfg
	docs []obj
}

func jn(s string) json.Number { return json.Number(s) }

// consecutive documents differ in exactly what the lists speak of: a listed field present,
// then absent, then a scalar / an array where an object was, then present again ...
func reuseCorpus() []reuseSeq {
	full := obj{"a": obj{"b": jn("1"), "c": jn("2"), "d": obj{"e": jn("3")}}, "b": jn("4"), "c": obj{"b": jn("5")}}
	noAB := obj{"a": obj{"c": jn("2")}, "b": jn("4")}
	aScalar := obj{"a": "scalar", "c": jn("6")}
	aArray := obj{"a": []interface{}{obj{"b": jn("7")}}, "b": nil}
	onlyC := obj{"c": obj{"b": jn("8"), "x": jn("9")}}
	deep := obj{"a": obj{"b": obj{"c": obj{"d": jn("10")}}, "d": obj{"e": nil, "f": jn("11")}}}
	docs := []obj{full, noAB, aScalar, full, aArray, onlyC, obj{}, deep, full}
	rev := []obj{deep, obj{}, onlyC, aArray, full, aScalar, noAB, full}
	cfgs := []fcfg{
		{Allow: []string{"a.b"}}, {Allow: []string{"a.b", "c"}}, {Allow: []string{"a.d.e", "b"}}, {Allow: []string{"a.b.c.d", "a.d.f"}},
		{Deny: []string{"a.b"}}, {Deny: []string{"a.b", "c"}}, {Deny: []string{"a.d.e", "b"}}, {Deny: []string{"a.b.c", "a.b", "c.b"}},
		{Target: "a"}, {Target: "a.d", Group: "g"}, {Target: "a", Allow: []string{"b", "d.e"}, Mapping: map[string]string{"b": "B"}, Group: "g"},
		{Mapping: map[string]string{"a": "x", "c": "y.z"}}, {Deny: []string{"a.c"}, Mapping: map[string]string{"b": "bb"}, Group: "a"},
	}
	cfgs = append(cfgs, fcfg{Target: "zz"}, fcfg{Target: "a.b"}, fcfg{Target: "a.zz", Group: "g"}, fcfg{Target: "b", Deny: []string{"x"}})
	var res []reuseSeq
	for i, c := range cfgs {
		if i%2 == 0 {
			res = append(res, reuseSeq{c, docs})
		} else {
			res = append(res, reuseSeq{c, rev})
		}
	}
	return res
}

// a document and relatives of it: members dropped, objects replaced by scalars/arrays
func relatives(r *rng.R, doc obj, n int) []obj {
	res := []obj{doc}
	for len(res) < n {
		d := deepCopy(doc).(obj)
		ks := sortedKeys(d)
		for _, k := range ks {
			switch r.Intn(5) {
			case 0:
				delete(d, k)
			case 1:
				d[k] = genVal(r, 0, 0)
			case 2:
				if m, ok := d[k].(obj); ok && len(m) > 0 {
					mk := sortedKeys(m)
					delete(m, mk[r.Intn(len(mk))])
				}
			case 3:
				d[k] = genVal(r, 2, 3)
			}
		}
		if r.Chance(1, 6) {
			d = genObj(r, 3, 4)
		}
		res = append(res, d)
	}
	if r.Chance(1, 2) { // the richest document last: everything "learned" from the poor ones shows
		res[0], res[len(res)-1] = res[len(res)-1], res[0]
	}
	return res
}

func sequentialReuse(w *out.Writer, stream string, seqs []reuseSeq) {
	for si, s := range seqs {
		in := newInstances(s.c)
		for step, d := range s.docs {
			emitReuse(w, stream, si, step, s.c, d, in.run(d), fmt.Sprintf("sequential: step %d of %d through one instance", step+1, len(s.docs)))
		}
	}
}

// ---- concurrent reuse, in a child process (a concurrent map write is a fatal error that
// cannot be recovered: the parent turns a dead child into a failing case) ----
const concGoroutines = 8
const concIterations = 150

type wireObs struct {
	P bool   `json:"p"`
	M string `json:"m"`
	D obj    `json:"d"`
}
type wireRec struct {
	Set int        `json:"set"`
	Doc int        `json:"doc"`
	T   [3]wireObs `json:"t"`
}

func toWire(o obsv) wireObs { return wireObs{o.panicked, o.msg, o.data} }
func fromWire(x wireObs) obsv {
	return obsv{panicked: x.P, msg: x.M, data: x.D}
}

func concurrentSets() []reuseSeq {
	all := reuseCorpus()
	var res []reuseSeq
	for i, s := range all {
		if i%2 == 0 || i == 5 {
			res = append(res, reuseSeq{s.c, s.docs[:6]})
		}
	}
	return res
}

func concurrentChild() {
	var recs []wireRec
	for si, s := range concurrentSets() {
		in := newInstances(s.c)
		found := make([]map[string]wireRec, concGoroutines)
		start := make(chan struct{})
		var wg sync.WaitGroup
		for g := 0; g < concGoroutines; g++ {
			found[g] = map[string]wireRec{}
			wg.Add(1)
			go func(g int) {
				defer wg.Done()
				<-start
				for k := 0; k < concIterations; k++ {
					di := (g*5 + k) % len(s.docs)
					t := in.run(s.docs[di])
					key := fmt.Sprintf("%02d|%s|%s|%s", di, t.ot.canon(), t.of.canon(), t.o.canon())
					if _, ok := found[g][key]; !ok {
						found[g][key] = wireRec{si, di, [3]wireObs{toWire(t.ot), toWire(t.of), toWire(t.o)}}
					}
				}
			}(g)
		}
		close(start)
		wg.Wait()
		all := map[string]wireRec{}
		for g := range found {
			for k, v := range found[g] {
				all[k] = v
			}
		}
		keys := make([]string, 0, len(all))
		for k := range all {
			keys = append(keys, k)
		}
		sort.Strings(keys)
		for _, k := range keys {
			recs = append(recs, all[k])
		}
	}
	b, err := json.Marshal(recs)
	if err != nil {
		fmt.Fprintln(os.Stderr, err)
		os.Exit(3)
	}
	os.Stdout.Write(b)
}

func concurrentReuse(w *out.Writer, cfg out.Config) {
	sets := concurrentSets()
	self, err := os.Executable()
	if err != nil {
		panic(err)
	}
	cmd := exec.CommandContext(context.Background(), self, "--tier", cfg.Tier, "--seed", fmt.Sprint(cfg.Seed), "--out", cfg.Dir, "--extra", "reuse-child")
	var stdout, stderr bytes.Buffer
	cmd.Stdout, cmd.Stderr = &stdout, &stderr
	runErr := cmd.Run()
	var recs []wireRec
	if runErr == nil {
		d := json.NewDecoder(bytes.NewReader(stdout.Bytes()))
		d.UseNumber()
		runErr = d.Decode(&recs)
	}
	if runErr != nil {
		// the formatter did not survive concurrent use (e.g. fatal error: concurrent map writes)
		msg := stderr.String()
		if i := strings.Index(msg, "\n\n"); i > 0 {
			msg = msg[:i]
		}
		if len(msg) > 600 {
			msg = msg[:600]
		}
		crash := obsv{panicked: true, msg: "concurrent use of one formatter instance: " + runErr.Error() + ": " + msg}
		s := sets[0]
		emitReuse(w, "reuse-concurrent", 0, 0, s.c, s.docs[0], triple{crash, crash, crash}, "concurrent: the process died")
		w.Count("reuse-concurrent:crashed")
		return
	}
	for i, rec := range recs {
		s := sets[rec.Set]
		t := triple{fromWire(rec.T[0]), fromWire(rec.T[1]), fromWire(rec.T[2])}
		emitReuse(w, "reuse-concurrent", rec.Set, i, s.c, s.docs[rec.Doc], t,
			fmt.Sprintf("concurrent: %d goroutines x %d calls on one instance; each distinct (document, observation) once", concGoroutines, concIterations))
	}
	w.Count(fmt.Sprintf("reuse-concurrent:calls=%d", len(sets)*concGoroutines*concIterations))
}

// ---- one http proxy (decoder + formatter built once) answering a sequence of payloads ----
func proxyReuse(w *out.Writer, c fcfg, isCollection bool, payloads []interface{}) {
	var cur []byte
	_, ep := backendFor(c, isCollection)
	be := ep.Backend[0]
	p := proxy.NewHTTPProxyWithHTTPExecutor(be, func(ctx context.Context, rq *http.Request) (*http.Response, error) {
		return executor(cur)(ctx, rq)
	}, be.Decoder)
	call := func() (res *obsv) {
		defer func() {
			if r := recover(); r != nil {
				res = &obsv{panicked: true, msg: fmt.Sprint(r)}
			}
		}()
		resp, err := p(context.Background(), &proxy.Request{Method: "GET", URL: mustURL("http://h/b"), Headers: map[string][]string{}})
		if err != nil || resp == nil {
			return nil
		}
		o := observed(resp.Data)
		return &o
	}
	for step, payload := range payloads {
		body, err := json.Marshal(payload)
		if err != nil {
			panic(err)
		}
		cur = body
		o := call()
		var ddoc obj
		defined := false
		if a, ok := payload.([]interface{}); ok && isCollection {
			ddoc, defined = obj{"collection": a}, true
		} else if m, ok := payload.(obj); ok && !isCollection {
			ddoc, defined = m, true
		}
		ot, of := obsv{data: obj{}}, obsv{data: obj{}}
		if defined {
			ot, of = runFormat(c.targetOnly(), ddoc), runFormat(c.filterOnly(), ddoc)
		}
		oc, oj := "None", interface{}("<no response>")
		if o != nil {
			oc, oj = emit.Some(o.coq()), o.js()
		}
		sig := ""
		if c.overlapping() {
			sig = sigOverlap
		}
		term := emit.App("CResp", c.coq(), emit.Bool(isCollection), emit.Json(payload), ot.coq(), of.coq(), oc, emit.Bool(true))
		js := obj{"level": "proxy", "stream": "reuse-proxy", "config": c.js(), "is_collection": isCollection, "payload": string(body),
			"observed": obj{"target_only": ot.js(), "target_filter": of.js(), "full": oj},
			"reuse":    fmt.Sprintf("sequential: payload %d of %d through one http proxy instance", step+1, len(payloads))}
		cb, _ := json.Marshal(obj{"c": c.js(), "ic": isCollection, "p": string(body), "step": step})
		w.Count("level:proxy")
		w.Count("stream:reuse-proxy")
		w.Add(term, js, sig, "RR|"+string(cb), true)
	}
}
