// Loop-back backend (scripted replies, flushed chunks) and gateways built from the real
// lura configuration / proxy factory / router handlers, served by real HTTP servers.
package main

import (
	"context"
	"crypto/sha1"
	"encoding/hex"
	"fmt"
	"io"
	"net/http"
	"net/http/httptest"
	"strconv"
	"sync"
	"sync/atomic"
	"time"

	"github.com/gin-gonic/gin"
	"github.com/luraproject/lura/v2/config"
	"github.com/luraproject/lura/v2/logging"
	"github.com/luraproject/lura/v2/proxy"
	"github.com/luraproject/lura/v2/proxy/plugin"
	krakendgin "github.com/luraproject/lura/v2/router/gin"
	"github.com/luraproject/lura/v2/router/mux"
	"github.com/luraproject/lura/v2/transport/http/client"
)

const fixedDate = "Tue, 01 Oct 2024 10:00:00 GMT"

type script struct {
	status   int
	headers  [][2]string // appended to the header map in this order, keys as given
	chunks   [][]byte    // written and flushed one by one (empty chunks dropped)
	fixedLen bool        // announce Content-Length
	members  int         // gzip members of the body (0: not gzip)
}

func (s *script) total() int {
	n := 0
	for _, c := range s.chunks {
		n += len(c)
	}
	return n
}

func (s *script) body() []byte {
	b := make([]byte, 0, s.total())
	for _, c := range s.chunks {
		b = append(b, c...)
	}
	return b
}

type world struct {
	cur      atomic.Pointer[script]
	calls    atomic.Int64
	backend  *httptest.Server
	front    *httptest.Server
	mu       sync.Mutex
	handlers map[string]http.Handler
	table    map[string]*script // scripts by id (concurrent stream)
	client   *http.Client       // the end client: no transparent decompression, no redirects
	rawBE    *http.Client       // gateway -> backend, compression handling disabled
}

type gwcfg struct {
	router string // Gin | Mux
	be     string // json | safejson | string | no-op
	coll   bool
	oe     string // json | json-collection | string | no-op
	cc     int
	raw    bool   // gateway->backend transport with DisableCompression (backend gzip reaches lura's parser)
	byID   bool   // the endpoint forwards the query parameter id: the backend picks its script per request
	ef     string // backend extra_config of the http client: "" | details (return_error_details) | code (return_error_code)
	fwdAE  bool   // the endpoint forwards Accept-Encoding and the client sends "gzip": Go's transport leaves a gzip body alone
	plug   string // pass-through response-modifier plugin named in extra_config: "" | endpoint | backend | both
	empty  bool   // explicitly empty manipulation lists on the backend: allow [], deny [], mapping {}
}

func (g gwcfg) key() string {
	return fmt.Sprintf("%s-%s-%v-%s-%d-%v-%v-%s-%v", g.router, g.be, g.coll, g.oe, g.cc, g.raw, g.byID, g.ef, g.fwdAE) + fmt.Sprintf("-%s-%v", g.plug, g.empty)
}

// a response-modifier plugin that observes and hands back what it got (registered in-process, the
// way a loaded .so plugin registers itself)
const observerName = "c13-observer"

var observed atomic.Int64

func init() {
	plugin.RegisterModifier(observerName, func(map[string]interface{}) func(interface{}) (interface{}, error) {
		return func(in interface{}) (interface{}, error) {
			observed.Add(1)
			return in, nil
		}
	}, false, true)
}

func newWorld() *world {
	w := &world{handlers: map[string]http.Handler{}, table: map[string]*script{}}
	w.backend = httptest.NewServer(http.HandlerFunc(func(rw http.ResponseWriter, r *http.Request) {
		s := w.cur.Load()
		if id := r.URL.Query().Get("id"); id != "" {
			w.mu.Lock()
			s = w.table[id]
			w.mu.Unlock()
		}
		w.calls.Add(1)
		h := rw.Header()
		hasDate := false
		for _, kv := range s.headers {
			h[kv[0]] = append(h[kv[0]], kv[1])
			if http.CanonicalHeaderKey(kv[0]) == "Date" {
				hasDate = true
			}
		}
		if !hasDate {
			h.Set("Date", fixedDate)
		}
		if s.fixedLen {
			h.Set("Content-Length", strconv.Itoa(s.total()))
		}
		rw.WriteHeader(s.status)
		fl, _ := rw.(http.Flusher)
		for _, c := range s.chunks {
			if _, err := rw.Write(c); err != nil {
				return
			}
			if fl != nil {
				fl.Flush()
			}
		}
	}))
	w.front = httptest.NewServer(http.HandlerFunc(func(rw http.ResponseWriter, r *http.Request) {
		w.mu.Lock()
		h := w.handlers[r.URL.Query().Get("g")]
		w.mu.Unlock()
		if h == nil {
			http.Error(rw, "no such gateway", 599)
			return
		}
		h.ServeHTTP(rw, r)
	}))
	noRedirect := func(*http.Request, []*http.Request) error { return http.ErrUseLastResponse }
	w.client = &http.Client{Transport: &http.Transport{DisableCompression: true, MaxIdleConnsPerHost: 8}, CheckRedirect: noRedirect}
	w.rawBE = &http.Client{Transport: &http.Transport{DisableCompression: true, MaxIdleConnsPerHost: 8}}
	return w
}

// gateway builds (once per configuration) the real stack: config.Init, default proxy factory
// over the HTTP backend proxy, router endpoint handler.
func (w *world) gateway(g gwcfg) string {
	k := g.key()
	w.mu.Lock()
	_, ok := w.handlers[k]
	w.mu.Unlock()
	if ok {
		return k
	}
	sc := config.ServiceConfig{Version: config.ConfigVersion, Timeout: 5 * time.Minute, Host: []string{w.backend.URL}}
	ep := &config.EndpointConfig{Endpoint: "/e", Method: "GET", OutputEncoding: g.oe, ConcurrentCalls: g.cc,
		Backend: []*config.Backend{{URLPattern: "/b", Encoding: g.be, IsCollection: g.coll}}}
	if g.byID {
		ep.QueryString = []string{"id"}
	}
	if g.fwdAE {
		ep.HeadersToPass = []string{"Accept-Encoding"}
	}
	if g.empty {
		ep.Backend[0].AllowList = []string{}
		ep.Backend[0].DenyList = []string{}
		ep.Backend[0].Mapping = map[string]string{}
	}
	plugCfg := func() map[string]interface{} { return map[string]interface{}{"name": []interface{}{observerName}} }
	if g.plug == "endpoint" || g.plug == "both" {
		ep.ExtraConfig = config.ExtraConfig{plugin.Namespace: plugCfg()}
	}
	backendExtra := config.ExtraConfig{}
	if g.plug == "backend" || g.plug == "both" {
		backendExtra[plugin.Namespace] = plugCfg()
	}
	switch g.ef {
	case "details":
		backendExtra[client.Namespace] = map[string]interface{}{"return_error_details": "be1"}
	case "code":
		backendExtra[client.Namespace] = map[string]interface{}{"return_error_code": true}
	}
	if len(backendExtra) > 0 {
		ep.Backend[0].ExtraConfig = backendExtra
	}
	sc.Endpoints = []*config.EndpointConfig{ep}
	if err := sc.Init(); err != nil {
		panic(err)
	}
	var f proxy.Factory
	if g.raw {
		f = proxy.NewDefaultFactory(proxy.CustomHTTPProxyFactory(func(context.Context) *http.Client { return w.rawBE }), logging.NoOp)
	} else {
		f = proxy.DefaultFactory(logging.NoOp)
	}
	p, err := f.New(ep)
	if err != nil {
		panic(err)
	}
	var h http.Handler
	if g.router == "Gin" {
		e := gin.New()
		e.GET("/e", krakendgin.EndpointHandler(ep, p))
		h = e
	} else {
		m := http.NewServeMux()
		m.Handle("/e", mux.EndpointHandler(ep, p))
		h = m
	}
	w.mu.Lock()
	w.handlers[k] = h
	w.mu.Unlock()
	return k
}

type reply struct {
	status int
	header http.Header
	body   []byte
	err    string // transport / read error seen by the client ("" = none)
}

func fetch(c *http.Client, url string, acceptGzip bool) reply {
	req, err := http.NewRequest("GET", url, nil)
	if err != nil {
		return reply{err: "request: " + err.Error()}
	}
	if acceptGzip {
		req.Header.Set("Accept-Encoding", "gzip")
	}
	resp, err := c.Do(req)
	if err != nil {
		return reply{err: "get: " + err.Error()}
	}
	defer resp.Body.Close()
	b, err := io.ReadAll(resp.Body)
	r := reply{status: resp.StatusCode, header: resp.Header, body: b}
	if err != nil {
		r.err = "read: " + err.Error()
	}
	return r
}

// call sends one client request through the gateway while the backend plays s
func (w *world) call(g gwcfg, s *script) reply {
	k := w.gateway(g)
	w.cur.Store(s)
	return fetch(w.client, w.front.URL+"/e?g="+k, g.fwdAE)
}

// callID / directID: the backend plays the script registered under id (safe for concurrent use)
func (w *world) register(id string, s *script) {
	w.mu.Lock()
	w.table[id] = s
	w.mu.Unlock()
}

func (w *world) callID(g gwcfg, id string) reply {
	return fetch(w.client, w.front.URL+"/e?g="+w.gateway(g)+"&id="+id, g.fwdAE)
}

func (w *world) directID(id string) reply { return fetch(w.client, w.backend.URL+"/b?id="+id, false) }

// direct asks the backend itself (reference: what the backend emits on the wire)
func (w *world) direct(s *script) reply {
	w.cur.Store(s)
	return fetch(w.client, w.backend.URL+"/b", false)
}

// chunk token: short chunks literally, long ones by digest
func token(b []byte) string {
	if len(b) <= 16 {
		return string(b)
	}
	h := sha1.Sum(b)
	return hex.EncodeToString(h[:])
}

// cut the received bytes at the boundaries of the sent chunks (+ one leftover piece)
func cutLike(sent [][]byte, got []byte) [][]byte {
	var res [][]byte
	for _, c := range sent {
		if len(got) == 0 {
			return res
		}
		n := len(c)
		if n > len(got) {
			n = len(got)
		}
		res = append(res, got[:n])
		got = got[n:]
	}
	if len(got) > 0 {
		res = append(res, got)
	}
	return res
}
