// JSON document generator with its own serialiser: the expected tree of a case comes from
// the generator (not from a parser), the text sent by the backend from writeDoc.
package main

import (
	"bytes"
	"encoding/json"
	"fmt"
	"sort"
	"strings"
	"unicode/utf8"

	"verif/harness/internal/rng"
)

type arr = []interface{}
type obj = map[string]interface{}

func num(s string) json.Number { return json.Number(s) }

// number literals that float64 / int64 cannot hold or would re-format
var trickyNums = []string{
	"0", "-0", "-0.0", "0.0", "1", "-1", "10", "1.0", "2.50", "1e2", "1E2", "1e+2", "1E-2", "1.5e300", "1e400", "-1e-400", "1E+999",
	"9223372036854775807", "9223372036854775808", "-9223372036854775809", "18446744073709551616",
	"12345678901234567890", "123456789012345678901234567890", "9007199254740993", "-9007199254740993",
	"0.1234567890123456789012345678901234567890", "3.141592653589793238462643383279502884197",
	"12345678901234567890.000", "0.000000000000000000000000000001", "100000000000000000000000", "1.000000000000000000001e-5",
	"4.9e-324", "2.2250738585072011e-308", "0e0", "0E+0", "-0e-0", "1.7976931348623157e309", "0.30000000000000004", "123e00005",
}

var trickyStrs = []string{
	"", "a", "plain text", "<script>alert(1)</script> & more", "quote\" backslash\\ slash/", "tab\tnl\ncr\rbs\bff\f",
	"\x00", "\x01\x1f\x7f", "café", "  ", "\U0001F600", "\U0001F468\u200d\U0001F469\u200d\U0001F467", "\U00010000\U0010FFFF",
	"\ufffd", "\ufeffbom", "абв", "中文", "%d %s %v %%", "{\"not\":\"nested\"}", "null", "12345678901234567890",
	"\\u0041", "\\n", "é", " 　", "collection", "content",
}

var trickyKeys = []string{"a", "b", "id", "collection", "content", "", " ", "A", "a.b", "k\"q", "k\\b", "é", "\U0001F600", "<k>", "0", "null", "k\n", "x-y_z", "Z9", "long_key_with_many_characters_0123456789"}

func genNum(r *rng.R) string {
	if r.Chance(2, 5) {
		return trickyNums[r.Intn(len(trickyNums))]
	}
	var b strings.Builder
	if r.Chance(1, 3) {
		b.WriteByte('-')
	}
	digits := func(n int, first bool) {
		for i := 0; i < n; i++ {
			d := r.Intn(10)
			if first && i == 0 && n > 1 && d == 0 {
				d = 1 + r.Intn(9)
			}
			b.WriteByte(byte('0' + d))
		}
	}
	lens := []int{1, 1, 2, 5, 10, 16, 17, 19, 20, 21, 30, 40}
	if r.Chance(1, 4) {
		b.WriteByte('0')
	} else {
		digits(lens[r.Intn(len(lens))], true)
	}
	if r.Chance(1, 2) {
		b.WriteByte('.')
		digits(lens[r.Intn(len(lens))], false)
	}
	if r.Chance(1, 3) {
		b.WriteByte("eE"[r.Intn(2)])
		switch r.Intn(3) {
		case 0:
			b.WriteByte('+')
		case 1:
			b.WriteByte('-')
		}
		digits(1+r.Intn(4), false)
	}
	return b.String()
}

func genRune(r *rng.R) rune {
	switch r.Intn(12) {
	case 0:
		return rune(r.Intn(0x20)) // control
	case 1:
		return []rune{'"', '\\', '/', '<', '>', '&', '\'', '%', 0x7f}[r.Intn(9)]
	case 2:
		return rune(0x80 + r.Intn(0x780)) // 2-byte
	case 3:
		c := rune(0x800 + r.Intn(0xF800))
		if c >= 0xD800 && c <= 0xDFFF {
			c = 0x2028
		}
		return c
	case 4:
		return rune(0x10000 + r.Intn(0x100000)) // astral
	case 5:
		return []rune{0x2028, 0x2029, 0xFFFD, 0xFEFF, 0xFFFF, 0x10FFFF, 0x10000, 0xD7FF, 0xE000}[r.Intn(9)]
	}
	return rune(0x20 + r.Intn(0x5f))
}

func genStr(r *rng.R, pool []string) string {
	if r.Chance(2, 5) {
		return pool[r.Intn(len(pool))]
	}
	n := []int{0, 1, 2, 3, 5, 8, 13, 40}[r.Intn(8)]
	var b strings.Builder
	for i := 0; i < n; i++ {
		b.WriteRune(genRune(r))
	}
	return b.String()
}

func genLeaf(r *rng.R) interface{} {
	switch r.Intn(8) {
	case 0:
		return nil
	case 1:
		return r.Bool()
	case 2, 3, 4:
		return num(genNum(r))
	}
	return genStr(r, trickyStrs)
}

// genDoc: kind 0 object, 1 array, 2 any
func genDoc(r *rng.R, depth int, kind int) interface{} {
	if kind == 2 {
		if depth <= 0 || r.Chance(2, 5) {
			return genLeaf(r)
		}
		kind = r.Intn(2)
	}
	width := []int{0, 1, 1, 2, 3, 4, 6}[r.Intn(7)]
	if depth <= 0 {
		width = 0
	}
	if kind == 0 {
		m := obj{}
		for i := 0; i < width; i++ {
			m[genStr(r, trickyKeys)] = genDoc(r, depth-1, 2)
		}
		return m
	}
	a := arr{}
	for i := 0; i < width; i++ {
		a = append(a, genDoc(r, depth-1, 2))
	}
	return a
}

// deep chain of alternating containers around a leaf
func deepDoc(r *rng.R, depth int, top int) interface{} {
	var v interface{} = genLeaf(r)
	for d := depth; d >= 1; d-- {
		k := r.Intn(2)
		if d == 1 {
			k = top
		}
		if k == 0 {
			m := obj{genStr(r, trickyKeys): v}
			if r.Chance(1, 3) {
				m["sib"+fmt.Sprint(d)] = num(genNum(r))
			}
			v = m
		} else {
			a := arr{v}
			if r.Chance(1, 3) {
				a = append(a, num(genNum(r)))
			}
			v = a
		}
	}
	return v
}

type style struct {
	ws      bool // random insignificant whitespace
	escapes int  // 0 minimal, 1 random, 2 everything as \uXXXX
}

func ws(b *bytes.Buffer, r *rng.R, st style) {
	if !st.ws {
		return
	}
	for n := r.Intn(3); n > 0; n-- {
		b.WriteByte(" \t\n\r"[r.Intn(4)])
	}
}

func writeStr(b *bytes.Buffer, s string, r *rng.R, st style) {
	start := b.Len() + 1
	defer func() {
		raw := string(b.Bytes()[start : b.Len()-1])
		if len(raw) <= 400 && !srcSeen[raw] && len(srcLits) < litLimit {
			srcSeen[raw] = true
			srcLits = append(srcLits, litPair{raw, s, "generator"})
		}
	}()
	b.WriteByte('"')
	for _, c := range s {
		if c == utf8.RuneError {
			// strings are valid UTF-8 by construction, U+FFFD itself is legitimate
		}
		u := func(x rune) {
			if r.Bool() {
				fmt.Fprintf(b, "\\u%04x", x)
			} else {
				fmt.Fprintf(b, "\\u%04X", x)
			}
		}
		esc := func() {
			if c >= 0x10000 {
				c2 := c - 0x10000
				u(0xD800 + (c2 >> 10))
				u(0xDC00 + (c2 & 0x3ff))
			} else {
				u(c)
			}
		}
		short := map[rune]string{'"': `\"`, '\\': `\\`, '/': `\/`, '\b': `\b`, '\f': `\f`, '\n': `\n`, '\r': `\r`, '\t': `\t`}
		must := c < 0x20 || c == '"' || c == '\\'
		switch {
		case st.escapes == 2:
			esc()
		case must || (st.escapes == 1 && r.Chance(1, 4)):
			if sh, ok := short[c]; ok && r.Chance(2, 3) {
				b.WriteString(sh)
			} else {
				esc()
			}
		default:
			b.WriteRune(c)
		}
	}
	b.WriteByte('"')
}

func writeDoc(b *bytes.Buffer, v interface{}, r *rng.R, st style) {
	switch x := v.(type) {
	case nil:
		b.WriteString("null")
	case bool:
		if x {
			b.WriteString("true")
		} else {
			b.WriteString("false")
		}
	case json.Number:
		b.WriteString(string(x))
	case string:
		writeStr(b, x, r, st)
	case []interface{}:
		b.WriteByte('[')
		ws(b, r, st)
		for i, e := range x {
			if i > 0 {
				b.WriteByte(',')
				ws(b, r, st)
			}
			writeDoc(b, e, r, st)
			ws(b, r, st)
		}
		b.WriteByte(']')
	case map[string]interface{}:
		ks := make([]string, 0, len(x))
		for k := range x {
			ks = append(ks, k)
		}
		sort.Strings(ks)
		p := r.Perm(len(ks))
		b.WriteByte('{')
		ws(b, r, st)
		for i, pi := range p {
			if i > 0 {
				b.WriteByte(',')
				ws(b, r, st)
			}
			writeStr(b, ks[pi], r, st)
			ws(b, r, st)
			b.WriteByte(':')
			ws(b, r, st)
			writeDoc(b, x[ks[pi]], r, st)
			ws(b, r, st)
		}
		b.WriteByte('}')
	default:
		panic(fmt.Sprintf("writeDoc: %T", v))
	}
}

func docText(v interface{}, r *rng.R, st style) []byte {
	var b bytes.Buffer
	ws(&b, r, st)
	writeDoc(&b, v, r, st)
	ws(&b, r, st)
	return b.Bytes()
}

func kindOf(v interface{}) string {
	switch v.(type) {
	case map[string]interface{}:
		return "object"
	case []interface{}:
		return "array"
	case nil:
		return "null"
	}
	return "scalar"
}

func depthOf(v interface{}) int {
	d := 0
	switch x := v.(type) {
	case map[string]interface{}:
		for _, e := range x {
			if k := depthOf(e); k > d {
				d = k
			}
		}
		return d + 1
	case []interface{}:
		for _, e := range x {
			if k := depthOf(e); k > d {
				d = k
			}
		}
		return d + 1
	}
	return 0
}

// regression corpus: documents the example-based tests never send
func corpusDocs() []interface{} {
	all := arr{}
	for _, n := range trickyNums {
		all = append(all, num(n))
	}
	strs := arr{}
	keyed := obj{}
	for i, s := range trickyStrs {
		strs = append(strs, s)
		keyed[s] = num(fmt.Sprint(i))
	}
	return []interface{}{
		obj{},
		obj{"a": num("1")},
		obj{"big": num("12345678901234567890"), "dec": num("0.1234567890123456789012345678901234567890"), "exp": num("1e400"), "negz": num("-0.0"), "int64max1": num("9223372036854775808"), "f53": num("9007199254740993")},
		obj{"nums": all},
		obj{"strs": strs},
		keyed,
		obj{"collection": arr{num("1")}, "content": "x"},
		obj{"n": nil, "t": true, "f": false, "e": obj{}, "ea": arr{}, "nested": obj{"e": obj{"e": obj{}}, "a": arr{arr{arr{}}}}},
		obj{"a": obj{"b": obj{"c": obj{"d": arr{num("1.10"), obj{"e": num("2.00")}}}}}},
		arr{},
		arr{num("1"), num("2.50"), obj{"x": num("1e999")}},
		arr{arr{}, obj{}, nil, true, "s", num("-0")},
		all,
		strs,
		num("12345678901234567890.000"),
		num("0"),
		num("1e400"),
		"just a string \U0001F600 <&>",
		"",
		true,
		false,
		nil,
	}
}

// documents larger than the buffers of the decoders / copy loops (> 64 KiB of text), with the
// delicate literals behind the long members (long plain strings are cheap for coqc, long lists are not)
func bigDocs() []interface{} {
	// long members are kept under 3000 characters each: coqc overflows its stack on much longer literals
	pad := func(c byte, i int) string {
		return strings.Repeat(string([]byte{c, 'x', 'y', 'z', ' ', byte('0' + i%10), '1'}), 400)
	}
	bigObj := obj{}
	bigArr := arr{}
	for i := 0; i < 26; i++ {
		bigObj[fmt.Sprintf("pad_%02d", i)] = pad('a', i)
		bigObj[fmt.Sprintf("num_%02d", i)] = num(trickyNums[(i*3)%len(trickyNums)])
		bigArr = append(bigArr, pad('A', i), num(trickyNums[(i*5+1)%len(trickyNums)]))
	}
	bigObj["zz_last"] = obj{"deep": arr{num("12345678901234567890"), num("-0.0"), num("1e400")}}
	bigArr = append(bigArr, obj{"k": pad('C', 0), "n": num("1E+999")})
	return []interface{}{bigObj, bigArr}
}
