// C13 generator: payload fidelity end to end. A real loop-back backend plays scripted replies
// (documents with own serialiser, bodies in flushed chunks, headers, statuses); gateways are
// built from the real config.Init / default proxy factory / gin and mux endpoint handlers and
// served by a real HTTP server; a real client records status, headers and body bytes.
package main

import (
	"bytes"
	"compress/gzip"
	"encoding/json"
	"fmt"
	"io"
	"net/http"
	"os"
	"os/exec"
	"path/filepath"
	"sort"
	"strconv"
	"strings"
	"sync"
	"unicode/utf8"

	"github.com/gin-gonic/gin"

	"verif/harness/internal/emit"
	"verif/harness/internal/out"
	"verif/harness/internal/rng"
)

var (
	cfg out.Config
	w   *out.Writer
	wd  *world
)

func beCoq(s string) string {
	return map[string]string{"json": "EJson", "safejson": "ESafe", "string": "EString"}[s]
}
func oeCoq(s string) string {
	return map[string]string{"json": "OJson", "json-collection": "OJsonCollection", "string": "OString"}[s]
}

func clip(b []byte) string {
	if len(b) > 1500 {
		return fmt.Sprintf("%q...(%d bytes)", b[:1500], len(b))
	}
	return fmt.Sprintf("%q", b)
}

func gz(b []byte) []byte {
	var buf bytes.Buffer
	zw := gzip.NewWriter(&buf)
	zw.Write(b)
	zw.Close()
	return buf.Bytes()
}

// gzMembers compresses b as a series of gzip members (RFC 1952 2.2: a gzip file is a series of
// members), one per size bytes of input
func gzMembers(b []byte, size int) ([]byte, int) {
	var buf bytes.Buffer
	n := 0
	for first := true; first || len(b) > 0; first = false {
		k := size
		if k > len(b) {
			k = len(b)
		}
		zw := gzip.NewWriter(&buf)
		zw.Write(b[:k])
		zw.Close()
		b = b[k:]
		n++
	}
	return buf.Bytes(), n
}

// forceMember > 0: every gzip body of a body case is written with members of that size
var forceMember int

func split(b []byte, r *rng.R, mode int) [][]byte {
	if len(b) == 0 {
		return nil
	}
	switch mode {
	case 0:
		return [][]byte{b}
	case 1: // two pieces
		k := r.Intn(len(b) + 1)
		return nonEmpty([][]byte{b[:k], b[k:]})
	}
	var res [][]byte
	for len(b) > 0 {
		k := 1 + r.Intn(7)
		if k > len(b) {
			k = len(b)
		}
		res = append(res, b[:k])
		b = b[k:]
		if len(res) > 40 {
			res = append(res, b)
			break
		}
	}
	return nonEmpty(res)
}

func nonEmpty(cs [][]byte) [][]byte {
	var res [][]byte
	for _, c := range cs {
		if len(c) > 0 {
			res = append(res, c)
		}
	}
	return res
}

// parse what the client received (json.Number preserving); the whole body must be one value
func parseClient(b []byte) (interface{}, bool) {
	d := json.NewDecoder(bytes.NewReader(b))
	d.UseNumber()
	var v interface{}
	if err := d.Decode(&v); err != nil {
		return nil, false
	}
	if _, err := d.Token(); err != io.EOF {
		return nil, false
	}
	return v, true
}

// long texts are sent as n copies of a unit and emitted compactly as (rep n unit): a list literal
// of tens of thousands of byte codes costs coqc gigabytes
type repText struct {
	unit string
	n    int
}

func (t repText) String() string { return strings.Repeat(t.unit, t.n) }

func textCoq(s string, big *repText) string {
	if big != nil && s == big.String() {
		return emit.App("rep", emit.Nat(big.n), emit.Str(big.unit))
	}
	return longStr(s)
}

// longStr: a long text that is not of the compact form (only seen when the code under test
// returns something unexpected) is emitted in pieces, (cat [p1; p2; ...]): one literal of tens of
// thousands of characters overflows coqc's stack
func longStr(s string) string {
	if len(s) <= 3000 {
		return emit.Str(s)
	}
	var ps []string
	for len(s) > 0 {
		k := 2000
		if k > len(s) {
			k = len(s)
		}
		ps = append(ps, emit.Str(s[:k]))
		s = s[k:]
	}
	return emit.App("cat", emit.List(ps))
}

// jsonCoq is emit.Json with long periodic strings (the padding of the big documents) written
// as (rep n unit)
func jsonCoq(v interface{}) string {
	switch x := v.(type) {
	case string:
		if n := len(x); n >= 700 && n%7 == 0 && x == strings.Repeat(x[:7], n/7) {
			return emit.App("JStr", emit.App("rep", emit.Nat(n/7), emit.Str(x[:7])))
		}
		return emit.App("JStr", longStr(x))
	case []interface{}:
		ys := make([]string, len(x))
		for i, e := range x {
			ys[i] = jsonCoq(e)
		}
		return emit.App("JArr", emit.List(ys))
	case map[string]interface{}:
		ks := make([]string, 0, len(x))
		for k := range x {
			ks = append(ks, k)
		}
		sort.Strings(ks)
		ys := make([]string, len(ks))
		for i, k := range ks {
			ys[i] = emit.Pair(emit.Str(k), jsonCoq(x[k]))
		}
		return emit.App("JObj", emit.List(ys))
	}
	return emit.Json(v)
}

type bodyIn struct {
	big   *repText
	doc   interface{} // expected tree (when isDoc)
	isDoc bool
	text  []byte // what the backend sends (before gzip)
	bad   bool   // text is not a JSON document
}

func (b bodyIn) coq(be string) string {
	if be == "string" {
		return emit.App("BText", textCoq(string(b.text), b.big))
	}
	if b.bad {
		return "BBad"
	}
	return emit.App("BDoc", jsonCoq(b.doc))
}

func hasInteresting(v interface{}) bool {
	switch x := v.(type) {
	case json.Number:
		f, err := strconv.ParseFloat(string(x), 64)
		return err != nil || strconv.FormatFloat(f, 'g', -1, 64) != string(x) && strconv.FormatFloat(f, 'f', -1, 64) != string(x)
	case string:
		for _, c := range x {
			if c < 0x20 || c > 0x7e || c == '"' || c == '\\' || c == '<' || c == '>' || c == '&' {
				return true
			}
		}
	case []interface{}:
		for _, e := range x {
			if hasInteresting(e) {
				return true
			}
		}
	case map[string]interface{}:
		for k, e := range x {
			if hasInteresting(k) || hasInteresting(e) {
				return true
			}
		}
	}
	return false
}

// one body case: configuration g, backend body in, wire variations
func bodyCase(stream string, g gwcfg, in bodyIn, r *rng.R, gzipped bool, status int, chunkMode int) {
	s := bodyScript(g, in, r, gzipped, status, chunkMode)
	progress(buildBody(stream, g, in, s, crashReply, gzipped, status), "")
	rep := wd.call(g, s)
	if g.oe != "string" && rep.status == 200 && rep.err == "" {
		collectLits(rep.body, g.router)
	}
	emitBody(stream, g, in, s, rep, gzipped, status)
}

// ---- literals: the byte-level model of encoding/json (Model go_escape / go_unquote /
// scan_number) is validated against what the real encoder wrote and the real decoder read ----
type litPair struct{ raw, val, from string }

var (
	outLits  []litPair // string literals found in gateway replies: text between the quotes, Go's decoding of it
	outSeen  = map[string]bool{}
	numLits  []litPair // number literals found in gateway replies: text, the bytes that follow
	numSeen  = map[string]bool{}
	srcLits  []litPair // string literals written by the generator's serialiser: text, the intended value
	srcSeen  = map[string]bool{}
	litLimit = 350
)

func collectLits(b []byte, from string) {
	for i := 0; i < len(b); {
		c := b[i]
		switch {
		case c == '"':
			j := i + 1
			for j < len(b) && b[j] != '"' {
				if b[j] == '\\' {
					j++
				}
				j++
			}
			if j >= len(b) {
				return
			}
			raw := string(b[i+1 : j])
			var v string
			if len(raw) <= 400 && !outSeen[raw] && len(outLits) < litLimit && json.Unmarshal(b[i:j+1], &v) == nil {
				outSeen[raw] = true
				outLits = append(outLits, litPair{raw, v, from})
			}
			i = j + 1
		case c == '-' || (c >= '0' && c <= '9'):
			j := i
			for j < len(b) && strings.IndexByte("0123456789+-.eE", b[j]) >= 0 {
				j++
			}
			k := j + 6
			if k > len(b) {
				k = len(b)
			}
			key := string(b[i:k])
			if !numSeen[key] && len(numLits) < litLimit {
				numSeen[key] = true
				numLits = append(numLits, litPair{string(b[i:j]), string(b[j:k]), from})
			}
			i = j
		default:
			i++
		}
	}
}

func emitLits() {
	add := func(kind, ctor string, ps []litPair) {
		for _, p := range ps {
			term := emit.App(ctor, emit.Str(p.raw), emit.Str(p.val))
			js := map[string]interface{}{"stream": "literals", "kind": kind, "text": fmt.Sprintf("%q", p.raw), "value_or_rest": fmt.Sprintf("%q", p.val), "router": p.from,
				"observed": "the text is what the real encoding/json wrote (gateway reply) or read (backend reply); the models go_escape / go_unquote / scan_number are evaluated on it"}
			w.Count("stream:literals")
			w.Count("literal:" + kind)
			w.Add(term, js, "", "L|"+kind+"|"+p.raw+"|"+p.val, true)
		}
	}
	add("reply-string", "CLit", outLits)
	add("reply-number", "CNumLit", numLits)
	add("backend-string", "CSrcLit", srcLits)
}

// the backend reply for a body case
func bodyScript(g gwcfg, in bodyIn, r *rng.R, gzipped bool, status int, chunkMode int) *script {
	payload := in.text
	hdrs := [][2]string{{"Content-Type", "application/json"}}
	if g.be == "string" {
		hdrs = [][2]string{{"Content-Type", "text/plain"}}
	}
	members := 0
	if gzipped {
		size := 0
		if forceMember > 0 {
			size = forceMember
		} else if r.Chance(1, 2) {
			size = []int{16, 64, 1000, 16384}[r.Intn(4)]
		}
		if size > 0 {
			payload, members = gzMembers(payload, size)
		} else {
			payload, members = gz(payload), 1
		}
		hdrs = append(hdrs, [2]string{"Content-Encoding", "gzip"})
	}
	return &script{status: status, headers: hdrs, chunks: split(payload, r, chunkMode), fixedLen: chunkMode == 0 && r.Bool(), members: members}
}

// one case ready to be written
type caseRec struct {
	term, sig, canon string
	js               map[string]interface{}
	nontrivial       bool
	counts           []string
}

func (c caseRec) add() {
	for _, k := range c.counts {
		w.Count(k)
	}
	w.Add(c.term, c.js, c.sig, c.canon, c.nontrivial)
}

func emitBody(stream string, g gwcfg, in bodyIn, s *script, rep reply, gzipped bool, status int) {
	buildBody(stream, g, in, s, rep, gzipped, status).add()
}

func buildBody(stream string, g gwcfg, in bodyIn, s *script, rep reply, gzipped bool, status int) caseRec {
	var rec caseRec
	var body string
	parsed := false
	if g.oe != "string" && rep.err == "" {
		if v, ok := parseClient(rep.body); ok {
			body = emit.App("BJson", jsonCoq(v))
			parsed = true
		}
	}
	if !parsed {
		body = emit.App("BRaw", textCoq(string(rep.body), in.big))
	}
	obs := fmt.Sprintf("{| c_status := %s; c_body := %s |}", emit.Z(int64(rep.status)), body)
	term := emit.App("CBody", g.router, beCoq(g.be), emit.Bool(g.coll), oeCoq(g.oe), emit.Nat(g.cc), xCoq(g), in.coq(g.be), obs)
	kind := "text"
	if in.bad {
		kind = "bad"
	} else if in.isDoc {
		kind = kindOf(in.doc)
	}
	js := map[string]interface{}{
		"stream": stream, "router": g.router, "encoding": g.be, "is_collection": g.coll, "output_encoding": g.oe,
		"concurrent_calls": g.cc, "raw_transport": g.raw, "gzip": gzipped, "gzip_members": s.members, "forward_accept_encoding": g.fwdAE, "passthrough_plugin": g.plug, "explicit_empty_lists": g.empty, "backend_status": status, "chunks": len(s.chunks),
		"backend_body": clip(in.text), "kind": kind,
		"observed": map[string]interface{}{"status": rep.status, "body": clip(rep.body), "error": rep.err, "content_type": rep.header.Get("Content-Type")},
	}
	rec.counts = append(rec.counts, "stream:"+stream)
	rec.counts = append(rec.counts, "router:"+g.router)
	rec.counts = append(rec.counts, fmt.Sprintf("config:%s/coll=%v/%s", g.be, g.coll, g.oe))
	rec.counts = append(rec.counts, fmt.Sprintf("cc:%d", g.cc))
	rec.counts = append(rec.counts, "kind:"+kind)
	if g.plug != "" {
		rec.counts = append(rec.counts, "passthrough-plugin:"+g.plug)
	}
	if g.empty {
		rec.counts = append(rec.counts, "explicit-empty-lists")
	}
	if gzipped {
		rec.counts = append(rec.counts, "gzip")
		if s.members > 1 {
			rec.counts = append(rec.counts, "gzip-multi-member")
		}
		if g.raw || g.fwdAE {
			rec.counts = append(rec.counts, "gzip-reaches-lura-parser")
		}
	}
	if in.isDoc {
		d := depthOf(in.doc)
		switch {
		case d >= 32:
			rec.counts = append(rec.counts, "depth:32..64")
		case d >= 8:
			rec.counts = append(rec.counts, "depth:8..31")
		default:
			rec.counts = append(rec.counts, "depth:0..7")
		}
	}
	nontrivial := in.bad || !in.isDoc || hasInteresting(in.doc) || depthOf(in.doc) >= 8 || gzipped || g.cc > 1
	canon := fmt.Sprintf("B|%s|%s|%v|%s", g.key(), kind, gzipped, in.text)
	rec.term, rec.js, rec.canon, rec.nontrivial = term, js, canon, nontrivial
	return rec
}

func flatten(h http.Header) [][2]string {
	ks := make([]string, 0, len(h))
	for k := range h {
		ks = append(ks, k)
	}
	sort.Strings(ks)
	var res [][2]string
	for _, k := range ks {
		for _, v := range h[k] {
			res = append(res, [2]string{k, v})
		}
	}
	return res
}

func hdrCoq(hs [][2]string) string {
	xs := make([]string, len(hs))
	for i, kv := range hs {
		xs[i] = emit.Pair(emit.Str(kv[0]), emit.Str(kv[1]))
	}
	return emit.List(xs)
}

func chunksCoq(cs [][]byte) string {
	xs := make([]string, len(cs))
	for i, c := range cs {
		xs[i] = emit.Pair(emit.N(uint64(len(c))), emit.Str(token(c)))
	}
	return emit.List(xs)
}

func noopCase(stream string, router string, cc int, raw bool, s *script) {
	noopCaseG(stream, gwcfg{router: router, be: "no-op", oe: "no-op", cc: cc, raw: raw}, s)
}

func noopG(router string, raw bool, ef string, fwdAE bool) gwcfg {
	return gwcfg{router: router, be: "no-op", oe: "no-op", cc: 1, raw: raw, ef: ef, fwdAE: fwdAE}
}

func noopCaseG(stream string, g gwcfg, s *script) {
	ref := wd.direct(s)
	checkRef(ref, s)
	progress(buildNoop(stream, g, s, ref, crashReply), "")
	emitNoop(stream, g, s, ref, wd.call(g, s))
}

func xCoq(g gwcfg) string {
	pl := map[string]string{"": "PNone", "endpoint": "PEndpoint", "backend": "PBackend", "both": "PBoth"}[g.plug]
	return fmt.Sprintf("{| x_plugin := %s; x_empty_lists := %s |}", pl, emit.Bool(g.empty))
}

func efCoq(ef string) string {
	switch ef {
	case "details":
		return emit.App("FDetails", emit.Str("be1"))
	case "code":
		return "FCode"
	}
	return "FNone"
}

func checkRef(ref reply, s *script) {
	if ref.err != "" || ref.status != s.status || !bytes.Equal(ref.body, s.body()) {
		panic(fmt.Sprintf("harness self-check: the stub backend did not emit its script: %v status %d/%d body %d/%d", ref.err, ref.status, s.status, len(ref.body), s.total()))
	}
}

func emitNoop(stream string, g gwcfg, s *script, ref, rep reply) {
	buildNoop(stream, g, s, ref, rep).add()
}

func buildNoop(stream string, g gwcfg, s *script, ref, rep reply) caseRec {
	var rec caseRec
	router, cc, raw := g.router, g.cc, g.raw
	sent := flatten(ref.header)
	got := flatten(rep.header)
	obs := fmt.Sprintf("{| n_status := %s; n_headers := %s; n_body := %s; n_err := %s |}",
		emit.Z(int64(rep.status)), hdrCoq(got), chunksCoq(cutLike(s.chunks, rep.body)), emit.Bool(rep.err != ""))
	term := emit.App("CNoop", router, emit.Nat(cc), efCoq(g.ef), xCoq(g), emit.Z(int64(s.status)), hdrCoq(sent), chunksCoq(s.chunks), obs)
	sig := ""
	if cc > 1 {
		sig = "noop-concurrent-calls"
	}
	sizes := make([]int, 0, 8)
	for i, c := range s.chunks {
		if i < 8 {
			sizes = append(sizes, len(c))
		}
	}
	js := map[string]interface{}{
		"stream": stream, "router": router, "encoding": "no-op", "concurrent_calls": cc, "raw_transport": raw, "backend_extra_config": g.ef, "passthrough_plugin": g.plug, "forward_accept_encoding": g.fwdAE, "gzip_members": s.members,
		"backend_status": s.status, "backend_headers": sent, "body_bytes": s.total(), "chunks": len(s.chunks), "first_chunk_sizes": sizes,
		"fixed_length": s.fixedLen, "body_head": clip(head(s.body(), 64)),
		"observed": map[string]interface{}{"status": rep.status, "headers": got, "body_bytes": len(rep.body), "error": rep.err,
			"body_equal": bytes.Equal(rep.body, s.body()), "body_head": clip(head(rep.body, 64))},
	}
	rec.counts = append(rec.counts, "stream:"+stream)
	rec.counts = append(rec.counts, "router:"+router)
	rec.counts = append(rec.counts, "config:no-op")
	rec.counts = append(rec.counts, fmt.Sprintf("cc:%d", cc))
	switch n := s.total(); {
	case n == 0:
		rec.counts = append(rec.counts, "noop-size:0")
	case n <= 32*1024:
		rec.counts = append(rec.counts, "noop-size:1..32KiB")
	case n <= 128*1024:
		rec.counts = append(rec.counts, "noop-size:32..128KiB")
	default:
		rec.counts = append(rec.counts, "noop-size:128..512KiB")
	}
	hs := ""
	for _, kv := range s.headers {
		hs += kv[0] + "=" + kv[1] + ";"
	}
	if g.ef != "" {
		rec.counts = append(rec.counts, "noop-extra_config:return_error_"+g.ef)
	}
	if g.plug != "" {
		rec.counts = append(rec.counts, "passthrough-plugin:"+g.plug)
	}
	if g.fwdAE {
		rec.counts = append(rec.counts, "noop-forward-accept-encoding")
	}
	canon := fmt.Sprintf("N|%s|%s|%v|%d|%v|%d|%s|%d|%d|%v|%s", router, g.ef, g.fwdAE, cc, raw, s.status, hs, s.total(), len(s.chunks), s.fixedLen, token(s.body()))
	rec.term, rec.js, rec.sig, rec.canon, rec.nontrivial = term, js, sig, canon, s.total() > 32*1024 || len(s.chunks) > 1 || s.status != 200 || len(s.headers) > 2
	return rec
}

func head(b []byte, n int) []byte {
	if len(b) > n {
		return b[:n]
	}
	return b
}

func randBytes(r *rng.R, n int, mode int) []byte {
	b := make([]byte, n)
	switch mode {
	case 0: // pseudo random binary
		for i := 0; i < n; i += 8 {
			x := r.U64()
			for j := 0; j < 8 && i+j < n; j++ {
				b[i+j] = byte(x >> (8 * j))
			}
		}
	case 1: // position dependent text: a shifted or duplicated block is visible
		for i := range b {
			b[i] = "0123456789abcdefghijklmnopqrstuvwxyz\n"[(i+i/37)%37]
		}
	default:
		for i := range b {
			b[i] = byte(i * 131 >> 3)
		}
	}
	return b
}

// chunkings of a body: sizes around the copy buffer (32 KiB) and the transport buffers (4 KiB)
func chunkBody(b []byte, r *rng.R, mode int) [][]byte {
	switch mode {
	case 0:
		return nonEmpty([][]byte{b})
	case 1: // equal pieces
		n := 2 + r.Intn(30)
		var res [][]byte
		sz := (len(b) + n - 1) / n
		if sz == 0 {
			sz = 1
		}
		for len(b) > 0 {
			k := sz
			if k > len(b) {
				k = len(b)
			}
			res = append(res, b[:k])
			b = b[k:]
		}
		return res
	case 2: // boundary sized pieces
		szs := []int{1, 4095, 4096, 4097, 32767, 32768, 32769, 65536, 16384, 511, 8192}
		var res [][]byte
		for len(b) > 0 {
			k := szs[r.Intn(len(szs))]
			if k > len(b) {
				k = len(b)
			}
			res = append(res, b[:k])
			b = b[k:]
		}
		return res
	}
	// random pieces
	var res [][]byte
	for len(b) > 0 {
		k := 1 + r.Intn(20000)
		if r.Chance(1, 4) {
			k = 1 + r.Intn(16)
		}
		if k > len(b) {
			k = len(b)
		}
		res = append(res, b[:k])
		b = b[k:]
	}
	return res
}

var headerSets = [][][2]string{
	{{"Content-Type", "application/octet-stream"}},
	{{"Content-Type", "text/plain; charset=utf-8"}, {"X-Backend", "b1"}, {"Set-Cookie", "a=1; Path=/"}, {"Set-Cookie", "b=2; HttpOnly"}},
	{{"Content-Type", "application/json"}, {"X-Dup", "same"}, {"X-Dup", "same"}, {"X-Dup", "other"}, {"Etag", "\"abc\""}, {"Cache-Control", "no-store"}},
	{{"Content-Type", "image/png"}, {"x-lower-case", "v"}, {"X-Empty", ""}, {"X-Spaces", "a  b , c"}, {"Last-Modified", "Mon, 02 Jan 2006 15:04:05 GMT"}, {"Vary", "Accept"}, {"Vary", "Origin"}},
	{{"Content-Type", "application/xml"}, {"Date", "Sun, 06 Nov 1994 08:49:37 GMT"}, {"Server", "stub/1.0"}, {"X-Request-Id", "0123456789abcdef0123456789abcdef"}, {"Link", "<https://x/y?page=2>; rel=\"next\""}, {"Www-Authenticate", "Basic realm=\"r\""}, {"Retry-After", "120"}},
	{{"Content-Type", "text/html"}, {"Content-Language", "en, de"}, {"Content-Disposition", "attachment; filename=\"a b.txt\""}, {"Accept-Ranges", "bytes"}, {"Age", "0"}, {"Expires", "0"}, {"Pragma", "no-cache"}, {"X-Utf8", "café"}, {"X-Long", strings.Repeat("v", 600)}},
	{{"Content-Type", "application/octet-stream"}, {"Content-Encoding", "br"}, {"X-Content-Type-Options", "nosniff"}, {"Strict-Transport-Security", "max-age=1"}},
	{},
	// names the gateway sets itself (the backend is another KrakenD node, or a front middleware set them):
	// the backend's lines must arrive too, next to the gateway's own values
	{{"Content-Type", "application/json"}, {"X-Krakend", "Version 2.7.0"}, {"X-Krakend-Completed", "true"}},
	{{"Content-Type", "text/plain"}, {"X-Krakend-Completed", "false"}, {"Cache-Control", "public, max-age=60"}, {"Vary", "Accept-Encoding"}, {"Server", "krakend-node"}},
	{{"Content-Type", "application/octet-stream"}, {"x-krakend", "Version lower"}, {"x-krakend-completed", "true"}, {"Date", "Sun, 06 Nov 1994 08:49:37 GMT"}, {"Vary", "Origin"}},
	{{"X-Krakend", "a"}, {"X-Krakend", "b"}, {"X-Krakend-Completed", "true"}, {"X-Krakend-Completed", "true"}, {"Cache-Control", "no-store"}, {"Cache-Control", "private"}, {"Server", "s1"}},
}

const ownedFrom = 8 // headerSets[ownedFrom:] carry gateway-owned names

var statuses = []int{200, 201, 202, 203, 206, 207, 226, 299, 300, 304, 400, 401, 403, 404, 409, 410, 418, 422, 429, 451, 499, 500, 501, 502, 503, 504, 511, 599, 204, 205}

// what the client of a dead gateway sees
var crashReply = reply{err: "no reply: the gateway process died"}

// progress records (worker) the case that is about to run, as it would look if the gateway died
// while serving it: an unrecoverable runtime error in the code under test (e.g. "fatal error:
// concurrent map writes") must end as a failing case, not as a dead generator
func progress(c caseRec, note string) {
	if cfg.Extra != "worker" {
		return
	}
	js := map[string]interface{}{}
	for k, v := range c.js {
		js[k] = v
	}
	if note != "" {
		js["batch"] = note
	}
	b, _ := json.Marshal(map[string]interface{}{"term": c.term, "js": js, "sig": c.sig, "canon": c.canon})
	os.WriteFile(filepath.Join(cfg.Dir, "progress.json"), b, 0o644)
}

// supervise runs the generator proper in a child process
func supervise() {
	args := []string{"--tier", cfg.Tier, "--seed", fmt.Sprint(cfg.Seed), "--out", cfg.Dir, "--only", fmt.Sprint(cfg.Only), "--extra", "worker"}
	cmd := exec.Command(os.Args[0], args...)
	var errBuf bytes.Buffer
	cmd.Stdout = os.Stdout
	cmd.Stderr = &errBuf
	err := cmd.Run()
	trace := errBuf.String()
	if err == nil {
		os.Stderr.WriteString(trace)
		return
	}
	if len(trace) > 4000 {
		trace = trace[:4000]
	}
	pb, perr := os.ReadFile(filepath.Join(cfg.Dir, "progress.json"))
	var p struct {
		Term, Sig, Canon string
		Js               map[string]interface{}
	}
	if perr != nil || json.Unmarshal(pb, &p) != nil || p.Term == "" {
		os.Stderr.WriteString(trace)
		fmt.Fprintln(os.Stderr, "C13 worker died before its first case:", err)
		os.Exit(2)
	}
	files, _ := filepath.Glob(filepath.Join(cfg.Dir, "cases*"))
	for _, f := range files {
		os.Remove(f)
	}
	os.Remove(filepath.Join(cfg.Dir, "meta.json"))
	c2 := cfg
	c2.Only = -1
	w = out.NewWriter(c2, "Verif.Corr.C13", 300)
	p.Js["gateway_died"] = fmt.Sprintf("%v", err)
	p.Js["trace"] = trace
	w.Count("gateway-died")
	w.Add(p.Term, p.Js, p.Sig, p.Canon, true)
	w.Close("the generator's worker process (real gateways, backend and client in one process) died with an unrecoverable runtime error while serving the recorded input; the single case is that input with the observation 'no reply'", false)
}

func main() {
	cfg = out.ParseFlags("C13")
	if cfg.Extra == "" {
		supervise()
		return
	}
	gin.SetMode(gin.ReleaseMode)
	r := rng.New(cfg.Seed)
	w = out.NewWriter(cfg, "Verif.Corr.C13", 300)
	wd = newWorld()
	if cfg.Extra == "redirect" {
		// hand probe (not part of the check): a no-op backend answering 302 with a Location
		for _, rt := range []string{"Gin", "Mux"} {
			s := &script{status: 302, headers: [][2]string{{"Location", "/elsewhere"}, {"Content-Type", "text/plain"}}, chunks: [][]byte{[]byte("moved")}}
			rep := wd.call(gwcfg{router: rt, be: "no-op", oe: "no-op", cc: 1}, s)
			fmt.Printf("%s: backend 302 Location=/elsewhere -> client status %d, Location=%q, body=%q, err=%q, backend calls=%d\n", rt, rep.status, rep.header.Get("Location"), clip(rep.body), rep.err, wd.calls.Load())
		}
		return
	}
	thorough := cfg.Thorough()
	mul := 1
	if thorough {
		mul = 12
		litLimit = 2500
	}
	routers := []string{"Gin", "Mux"}

	// sensible configurations (the property speaks about them) per kind of document
	type conf struct {
		be   string
		coll bool
		oe   string
	}
	forKind := func(kind string) []conf {
		switch kind {
		case "object":
			return []conf{{"json", false, "json"}, {"safejson", false, "json"}, {"safejson", true, "json"}}
		case "array":
			return []conf{{"json", true, "json"}, {"json", true, "json-collection"}, {"safejson", false, "json"}, {"safejson", true, "json-collection"}}
		}
		return []conf{{"safejson", false, "json"}, {"safejson", true, "json"}}
	}
	docIn := func(v interface{}, rr *rng.R, st style) bodyIn {
		return bodyIn{doc: v, isDoc: true, text: docText(v, rr, st)}
	}

	// ---- 1. regression corpus ----
	for _, d := range corpusDocs() {
		for _, c := range forKind(kindOf(d)) {
			for _, rt := range routers {
				for cc := 1; cc <= 3; cc++ {
					if cc > 1 && !thorough && r.Chance(1, 2) {
						continue
					}
					raw := r.Bool()
					bodyCase("corpus", gwcfg{rt, c.be, c.coll, c.oe, cc, raw, false, "", false, "", false}, docIn(d, r, style{ws: r.Bool(), escapes: r.Intn(3)}), r, r.Chance(1, 4), 200+r.Intn(2), r.Intn(3))
				}
			}
		}
	}
	for i, d := range bigDocs() {
		for j, rt := range routers {
			cs := forKind(kindOf(d))
			c := cs[(i+j)%len(cs)]
			bodyCase("corpus", gwcfg{rt, c.be, c.coll, c.oe, 1, j == 0, false, "", false, "", false}, docIn(d, r, style{}), r, true, 200, 2*j)
		}
	}
	// F-C13 (recorded finding): no-op endpoint with concurrent calls, large chunked body
	{
		b := randBytes(r, 300000, 1)
		for _, rt := range routers {
			for cc := 1; cc <= 3; cc++ {
				noopCase("corpus", rt, cc, false, &script{status: 200, headers: headerSets[1], chunks: chunkBody(b, r, 1)})
			}
		}
	}

	for hi := ownedFrom; hi < len(headerSets); hi++ {
		for _, rt := range routers {
			for k := 0; k < 4; k++ {
				var b []byte
				if k != 1 {
					b = randBytes(r, []int{300, 0, 40000, 7}[k], 1)
				}
				noopCase("corpus", rt, 1, k%2 == 0, &script{status: []int{200, 202, 404, 500}[k], headers: headerSets[hi], chunks: chunkBody(b, r, k), fixedLen: k == 3})
			}
		}
	}
	// no-op backends whose extra_config carries the http client's error-reporting flags (meaningless
	// for no-op, ignored by the code): every kind of status must still pass with headers and body
	for _, rt := range routers {
		for _, ef := range []string{"details", "code"} {
			for k, st := range []int{404, 503, 200, 201, 302, 500, 418, 204} {
				var b []byte
				if st != 204 {
					b = randBytes(r, []int{300, 5000, 40000}[k%3], 1)
				}
				noopCaseG("corpus", noopG(rt, k%2 == 0, ef, false), &script{status: st, headers: headerSets[1+k%3], chunks: chunkBody(b, r, k%4), fixedLen: k%3 == 0})
			}
		}
	}
	// glue: response-modifier plugins that hand back what they got (endpoint / backend / both) in front
	// of a no-op backend answering other statuses than 200, and explicitly empty allow / deny / mapping
	{
		for _, rt := range routers {
			for pi, pl := range []string{"endpoint", "backend", "both"} {
				for k, st := range []int{201, 404, 503, 200, 207, 302} {
					g := noopG(rt, (k+pi)%2 == 0, "", false)
					g.plug = pl
					noopCaseG("corpus", g, &script{status: st, headers: headerSets[1+(k+pi)%3], chunks: chunkBody(randBytes(r, []int{128 * 1024, 300, 0}[k%3], 1), r, k%4), fixedLen: k%3 == 1})
				}
			}
			ds := corpusDocs()
			for k, d := range []interface{}{ds[2], ds[7], ds[10], ds[16], ds[0]} {
				for _, c := range forKind(kindOf(d)) {
					g := gwcfg{router: rt, be: c.be, coll: c.coll, oe: c.oe, cc: 1 + k%2, raw: k%2 == 0, plug: []string{"", "endpoint", "backend", "both"}[k%4], empty: true}
					bodyCase("corpus", g, docIn(d, r, style{ws: true, escapes: 1}), r, k == 1, 200+k%2, k%3)
					g.empty, g.plug = false, "both"
					bodyCase("corpus", g, docIn(d, r, style{}), r, false, 200, 0)
				}
			}
			g := gwcfg{router: rt, be: "string", oe: "string", cc: 1, empty: true, plug: "endpoint"}
			bodyCase("corpus", g, bodyIn{text: []byte("text through an observer, explicit empty lists")}, r, false, 200, 0)
		}
	}
	// gzip bodies that reach lura itself: the endpoint forwards the client's Accept-Encoding: gzip (or the
	// transport has compression handling off), so the default parser's gzip branch inflates - bodies of one
	// member and of several members; for no-op the compressed bytes pass as they are
	{
		text := []byte(strings.Repeat("line of text 0123456789 abcdefghij\n", 1500))
		for _, rt := range routers {
			for vi, via := range []gwcfg{{raw: true}, {fwdAE: true}} {
				for _, size := range []int{64, 16384, 0} {
					forceMember = size
					mk := func(be string, coll bool, oe string) gwcfg {
						return gwcfg{router: rt, be: be, coll: coll, oe: oe, cc: 1 + vi, raw: via.raw, fwdAE: via.fwdAE}
					}
					ds := corpusDocs()
					bodyCase("corpus", mk("json", false, "json"), docIn(ds[2], r, style{ws: true}), r, true, 200, 2)
					bodyCase("corpus", mk("safejson", false, "json"), docIn(ds[3], r, style{}), r, true, 200, 0)
					bodyCase("corpus", mk("json", true, "json-collection"), docIn(ds[12], r, style{}), r, true, 201, 1)
					bodyCase("corpus", mk("safejson", false, "json"), docIn(ds[13], r, style{escapes: 2}), r, true, 200, 0)
					big := &repText{unit: "0123456789abcdefghijklmnopqrstuvwxyz\n", n: 1500}
					bodyCase("corpus", mk("string", false, "string"), bodyIn{text: []byte(big.String()), big: big}, r, true, 200, 2)
					forceMember = 0
					var payload []byte
					members := 1
					if size > 0 {
						payload, members = gzMembers(text, size*8)
					} else {
						payload = gz(text)
					}
					noopCaseG("corpus", noopG(rt, via.raw, "", via.fwdAE), &script{status: 200, headers: [][2]string{{"Content-Type", "text/plain"}, {"Content-Encoding", "gzip"}, {"Vary", "Accept-Encoding"}}, chunks: chunkBody(payload, r, 1+vi), fixedLen: size == 0, members: members})
				}
			}
		}
	}
	// instance reuse, sequential: ONE long-lived gateway per configuration (all gateways of this
	// generator are built once and serve every case of their configuration) is sent consecutive
	// requests whose documents / statuses / header sets / bodies differ: anything kept from an
	// earlier request (a decoded map, a status, a header, a buffer) shows in a later reply
	{
		objSeq := []interface{}{
			obj{"a": num("1"), "b": obj{"x": arr{num("1"), num("2")}}, "only_first": num("12345678901234567890")},
			obj{"c": "second", "b": obj{"y": nil}},
			obj{},
			obj{"a": num("2.50")},
			obj{"collection": arr{num("7")}, "content": "z"},
			obj{"a": num("1"), "b": obj{"x": arr{num("1"), num("2")}}, "only_first": num("12345678901234567890")},
		}
		anySeq := []interface{}{obj{"k": num("1e400")}, arr{num("1"), "two"}, num("-0.0"), obj{}, arr{}, nil, "s", obj{"k2": true}}
		arrSeq := []interface{}{arr{num("1"), num("2"), num("3")}, arr{}, arr{obj{"k": num("1")}}, arr{num("9007199254740993")}, arr{"x"}, arr{num("1"), num("2"), num("3")}}
		for _, rt := range routers {
			for _, cc := range []int{1, 2} {
				for _, d := range objSeq {
					bodyCase("reuse-seq", gwcfg{rt, "json", false, "json", cc, false, false, "", false, "", false}, docIn(d, r, style{}), r, false, 200, 0)
				}
				for _, d := range anySeq {
					bodyCase("reuse-seq", gwcfg{rt, "safejson", false, "json", cc, true, false, "", false, "", false}, docIn(d, r, style{}), r, cc == 2, 200, 1)
				}
			}
			for _, d := range arrSeq {
				bodyCase("reuse-seq", gwcfg{rt, "json", true, "json-collection", 1, false, false, "", false, "", false}, docIn(d, r, style{}), r, false, 201, 0)
			}
			for _, d := range arrSeq {
				bodyCase("reuse-seq", gwcfg{rt, "json", true, "json", 1, false, false, "", false, "", false}, docIn(d, r, style{}), r, false, 200, 0)
			}
			for _, t := range []string{"first text, rather long, 0123456789", "", "%d %s", "second", "\x00\xff", "first text, rather long, 0123456789"} {
				bodyCase("reuse-seq", gwcfg{rt, "string", false, "string", 1, false, false, "", false, "", false}, bodyIn{text: []byte(t)}, r, false, 200, 0)
			}
			for _, raw := range []bool{false, true} {
				seq := []*script{
					{status: 207, headers: headerSets[1], chunks: chunkBody(randBytes(r, 5000, 1), r, 1)},
					{status: 404, headers: headerSets[0]},
					{status: 200, headers: headerSets[2], chunks: chunkBody(randBytes(r, 70000, 0), r, 2)},
					{status: 500, headers: headerSets[7], chunks: [][]byte{[]byte("x")}},
					{status: 204, headers: headerSets[3]},
					{status: 200, headers: headerSets[1], chunks: [][]byte{[]byte("small")}, fixedLen: true},
					{status: 207, headers: headerSets[4], chunks: chunkBody(randBytes(r, 5000, 2), r, 3)},
					{status: 202, headers: headerSets[ownedFrom], chunks: [][]byte{[]byte("payload")}},
					{status: 200, headers: headerSets[0], chunks: [][]byte{[]byte("plain")}},
					{status: 200, headers: headerSets[ownedFrom+3], chunks: chunkBody(randBytes(r, 9000, 1), r, 1)},
					{status: 404, headers: headerSets[ownedFrom+2]},
				}
				for _, sc := range seq {
					noopCase("reuse-seq", rt, 1, raw, sc)
				}
			}
		}
	}
	// instance reuse, concurrent: ONE gateway hit from 12 goroutines released by a start gate, each
	// request naming (query parameter id, forwarded by the endpoint) which of 10 distinct backend
	// replies it wants; every distinct (input, observation) pair is emitted once
	{
		iters := 50
		if thorough {
			iters = 400
		}
		type cconf struct {
			g    gwcfg
			kind int // 0 objects, 1 arrays, 2 any, 3 text, 4 no-op
		}
		confs := []cconf{
			{gwcfg{"Gin", "json", false, "json", 1, false, true, "", false, "", false}, 0},
			{gwcfg{"Mux", "json", false, "json", 2, true, true, "", false, "", false}, 0},
			{gwcfg{"Gin", "safejson", false, "json", 1, true, true, "", false, "", false}, 2},
			{gwcfg{"Mux", "json", true, "json-collection", 1, false, true, "", false, "", false}, 1},
			{gwcfg{"Mux", "string", false, "string", 1, false, true, "", false, "", false}, 3},
			{gwcfg{"Gin", "string", false, "json", 1, false, true, "", false, "", false}, 3},
			{gwcfg{router: "Gin", be: "no-op", oe: "no-op", cc: 1, raw: false, byID: true}, 4},
			{gwcfg{router: "Mux", be: "no-op", oe: "no-op", cc: 1, raw: true, byID: true}, 4},
		}
		const distinct = 10
		const goroutines = 12
		for ci, cf := range confs {
			ins := make([]bodyIn, distinct)
			scs := make([]*script, distinct)
			refs := make([]reply, distinct)
			gzs := make([]bool, distinct)
			for j := 0; j < distinct; j++ {
				rr := r.Sub()
				id := fmt.Sprintf("%d-%d", ci, j)
				switch cf.kind {
				case 4:
					n := []int{0, 1, 100, 4096, 33000, 70000, 150000, 5, 40000, 2000}[j]
					scs[j] = &script{status: statuses[(j*3)%(len(statuses)-2)], headers: headerSets[j%len(headerSets)], chunks: chunkBody(randBytes(rr, n, j%3), rr, j%4), fixedLen: j%3 == 0}
					if scs[j].status == 304 {
						scs[j].status = 206
					}
					wd.register(id, scs[j])
					refs[j] = wd.directID(id)
					checkRef(refs[j], scs[j])
				case 3:
					ins[j] = bodyIn{text: []byte(fmt.Sprintf("text-%d-%s", j, genStr(rr, trickyStrs)))}
				default:
					ins[j] = docIn(genDoc(rr, 1+rr.Intn(4), cf.kind), rr, style{ws: rr.Bool(), escapes: rr.Intn(3)})
				}
				if cf.kind != 4 {
					gzs[j] = j%4 == 3
					scs[j] = bodyScript(cf.g, ins[j], rr, gzs[j], 200+j%2, j%3)
					wd.register(id, scs[j])
				}
			}
			type seen struct {
				j   int
				rep reply
			}
			res := make([]map[string]seen, goroutines)
			start := make(chan struct{})
			var wg sync.WaitGroup
			for gi := 0; gi < goroutines; gi++ {
				res[gi] = map[string]seen{}
				wg.Add(1)
				go func(gi int) {
					defer wg.Done()
					<-start
					for k := 0; k < iters; k++ {
						j := (gi*7 + k*3 + k/distinct) % distinct
						rep := wd.callID(cf.g, fmt.Sprintf("%d-%d", ci, j))
						key := fmt.Sprintf("%02d|%d|%s|%s", j, rep.status, token(rep.body), rep.err)
						if cf.kind == 4 {
							key += fmt.Sprint(flatten(rep.header))
						}
						if _, ok := res[gi][key]; !ok {
							res[gi][key] = seen{j, rep}
						}
					}
				}(gi)
			}
			note := fmt.Sprintf("one gateway hit by %d goroutines x %d requests over %d distinct backend replies (this one is reply 0)", goroutines, iters, distinct)
			if cf.kind == 4 {
				progress(buildNoop("reuse-concurrent", cf.g, scs[0], refs[0], crashReply), note)
			} else {
				progress(buildBody("reuse-concurrent", cf.g, ins[0], scs[0], crashReply, gzs[0], scs[0].status), note)
			}
			close(start)
			wg.Wait()
			all := map[string]seen{}
			for gi := range res {
				for k, v := range res[gi] {
					all[k] = v
				}
			}
			keys := make([]string, 0, len(all))
			for k := range all {
				keys = append(keys, k)
			}
			sort.Strings(keys)
			for _, k := range keys {
				v := all[k]
				if cf.kind == 4 {
					emitNoop("reuse-concurrent", cf.g, scs[v.j], refs[v.j], v.rep)
				} else {
					emitBody("reuse-concurrent", cf.g, ins[v.j], scs[v.j], v.rep, gzs[v.j], scs[v.j].status)
				}
			}
			w.Count(fmt.Sprintf("reuse-concurrent-requests:%d", goroutines*iters))
		}
	}

	// ---- 2. exhaustive small scope: every router x encoding x is_collection x output x cc x kind of document ----
	kinds := []interface{}{obj{"k": num("12345678901234567890"), "content": "c", "collection": arr{num("1.0")}}, arr{num("1e400"), "s", nil}, "str", num("-0.0"), true, nil}
	for _, rt := range routers {
		for _, be := range []string{"json", "safejson", "string"} {
			for _, coll := range []bool{false, true} {
				for _, oe := range []string{"json", "json-collection", "string"} {
					for cc := 1; cc <= 3; cc++ {
						for _, d := range kinds {
							in := docIn(d, r, style{})
							if be == "string" {
								in.isDoc = false
							}
							bodyCase("scope", gwcfg{rt, be, coll, oe, cc, false, false, "", false, "", false}, in, r, false, 200, 0)
						}
					}
				}
			}
		}
	}
	// every status x router for no-op, with a small body and a header set
	for _, rt := range routers {
		for i, st := range statuses {
			var b []byte
			if st != 204 && st != 304 {
				b = randBytes(r, []int{0, 1, 100, 5000}[i%4], i%3)
			}
			for _, ef := range []string{"", "details", "code"} {
				noopCaseG("scope", noopG(rt, i%2 == 0, ef, false), &script{status: st, headers: headerSets[i%len(headerSets)], chunks: chunkBody(b, r, i%4), fixedLen: i%3 == 0})
			}
			gp := noopG(rt, i%2 == 1, "", false)
			gp.plug = []string{"endpoint", "backend", "both"}[i%3]
			noopCaseG("scope", gp, &script{status: st, headers: headerSets[i%len(headerSets)], chunks: chunkBody(b, r, i%4), fixedLen: i%3 == 0})
		}
	}

	// ---- 3. structured random ----
	nDocs := 900 * mul
	for i := 0; i < nDocs; i++ {
		rr := r.Sub()
		var d interface{}
		switch rr.Intn(10) {
		case 0:
			d = genLeaf(rr)
		case 1, 2, 3:
			d = genDoc(rr, 1+rr.Intn(5), 1)
		default:
			d = genDoc(rr, 1+rr.Intn(5), 0)
		}
		cs := forKind(kindOf(d))
		c := cs[rr.Intn(len(cs))]
		g := gwcfg{routers[rr.Intn(2)], c.be, c.coll, c.oe, 1 + rr.Intn(3), rr.Bool(), false, "", false, "", false}
		g.fwdAE = !g.raw && rr.Chance(1, 3)
		g.empty = rr.Chance(1, 4)
		g.plug = []string{"", "", "", "", "endpoint", "backend", "both", ""}[rr.Intn(8)]
		bodyCase("random", g, docIn(d, rr, style{ws: rr.Bool(), escapes: rr.Intn(3)}), rr, rr.Chance(1, 5), 200+rr.Intn(2), rr.Intn(3))
	}
	// deep nesting 1..64
	for depth := 1; depth <= 64; depth++ {
		reps := 1
		if thorough {
			reps = 6
		}
		for k := 0; k < reps; k++ {
			rr := r.Sub()
			top := rr.Intn(2)
			d := deepDoc(rr, depth, top)
			cs := forKind(kindOf(d))
			c := cs[rr.Intn(len(cs))]
			bodyCase("deep", gwcfg{routers[(depth+k)%2], c.be, c.coll, c.oe, 1 + rr.Intn(3), rr.Bool(), false, "", false, "", false}, docIn(d, rr, style{ws: rr.Bool(), escapes: rr.Intn(3)}), rr, rr.Chance(1, 5), 200, rr.Intn(3))
		}
	}
	// string encoding: arbitrary bytes to the string render, valid UTF-8 to the json render
	nStr := 120 * mul
	for i := 0; i < nStr; i++ {
		rr := r.Sub()
		var text []byte
		var big *repText
		oe := "string"
		switch rr.Intn(5) {
		case 0:
			text = []byte(genStr(rr, trickyStrs))
			oe = "json"
		case 1:
			text = []byte(genStr(rr, trickyStrs) + genStr(rr, trickyStrs))
		case 2:
			text = randBytes(rr, rr.Intn(2500), 0)
			if i%20 == 2 { // larger than one copy buffer
				big = &repText{unit: string(randBytes(rr, 13+rr.Intn(50), 0)), n: 700 + rr.Intn(1500)}
				text = []byte(big.String())
			}
		case 3:
			text = randBytes(rr, rr.Intn(300), 0)
		default:
			text = docText(genDoc(rr, 3, 2), rr, style{ws: true, escapes: 1})
			if rr.Bool() && utf8.Valid(text) {
				oe = "json"
			}
		}
		g := gwcfg{routers[rr.Intn(2)], "string", rr.Bool(), oe, 1 + rr.Intn(3), rr.Bool(), false, "", false, "", false}
		bodyCase("string", g, bodyIn{text: text, big: big}, rr, rr.Chance(1, 6), 200+rr.Intn(2), rr.Intn(3))
	}
	// no-op: body sizes 0 B .. 512 KiB in flushed chunks, statuses, header sets
	sizes := []int{0, 1, 2, 17, 100, 511, 512, 1024, 4095, 4096, 4097, 8192, 16384, 32767, 32768, 32769, 40000, 65535, 65536, 65537, 100000, 131072, 200000, 262144, 320000, 400000, 524288}
	for si, n := range sizes {
		reps := 4
		if thorough {
			reps = 24
		}
		for k := 0; k < reps; k++ {
			rr := r.Sub()
			b := randBytes(rr, n, rr.Intn(3))
			st := 200
			if rr.Chance(1, 3) {
				st = statuses[rr.Intn(len(statuses)-2)]
				if st == 304 {
					st = 207
				}
			}
			s := &script{status: st, headers: headerSets[rr.Intn(len(headerSets))], chunks: chunkBody(b, rr, rr.Intn(4)), fixedLen: rr.Chance(1, 3)}
			noopCaseG("noop", noopG(routers[(si+k)%2], rr.Bool(), []string{"", "", "details", "code"}[rr.Intn(4)], false), s)
		}
	}
	// random sizes
	nNoop := 60 * mul
	for i := 0; i < nNoop; i++ {
		rr := r.Sub()
		n := rr.Intn(1 << uint(4+rr.Intn(16)))
		s := &script{status: statuses[rr.Intn(len(statuses)-2)], headers: headerSets[rr.Intn(len(headerSets))], chunks: chunkBody(randBytes(rr, n, rr.Intn(3)), rr, rr.Intn(4)), fixedLen: rr.Chance(1, 3)}
		if s.status == 304 {
			s.status = 200
		}
		noopCaseG("noop", noopG(routers[rr.Intn(2)], rr.Bool(), []string{"", "", "details", "code"}[rr.Intn(4)], false), s)
	}
	// probe stream of the recorded finding: no-op with concurrent_calls 2..3
	for i, n := range []int{0, 100, 4096, 40000, 100000, 320000, 524288} {
		for cc := 2; cc <= 3; cc++ {
			for _, rt := range routers {
				rr := r.Sub()
				s := &script{status: []int{200, 207, 404}[i%3], headers: headerSets[rr.Intn(len(headerSets))], chunks: chunkBody(randBytes(rr, n, 1), rr, 1+rr.Intn(3)), fixedLen: rr.Chance(1, 3)}
				noopCase("noop-concurrent", rt, cc, rr.Bool(), s)
			}
		}
	}

	// ---- 4. malformed stream: bodies that are not (complete) JSON documents ----
	bads := [][]byte{[]byte(""), []byte("{"), []byte(`{"a":1`), []byte(`{"a":}`), []byte(`[1,2`), []byte("nul"), []byte(`{"a":01}`), []byte(`{'a':1}`), []byte("\xff\xfe"), []byte(`{"a":1e}`), []byte(`"unterminated`), []byte(`{"a":"\ud800"`)}
	for i, b := range bads {
		for _, c := range []conf{{"json", false, "json"}, {"json", true, "json"}, {"safejson", false, "json"}} {
			bodyCase("malformed", gwcfg{routers[i%2], c.be, c.coll, c.oe, 1 + i%3, i%2 == 0, false, "", false, "", false}, bodyIn{text: b, bad: true}, r, false, 200, i%3)
		}
	}

	emitLits()
	os.Remove(filepath.Join(cfg.Dir, "progress.json"))
	w.Meta["backend_calls"] = wd.calls.Load()
	w.Close("regression corpus (22 documents: 40 tricky number literals, escaped/astral strings, reserved keys, empty containers; F-C13 input) x sensible configurations x gin/mux x concurrent_calls 1..3; exhaustive scope: 2 routers x 3 encodings x is_collection x 3 output encodings x cc 1..3 x 6 kinds of document, and every listed status x router for no-op; random documents (own serialiser: random whitespace, escape styles, member order, chunking, gzip, 200/201), nesting depth 1..64, string bodies (binary, format verbs), no-op bodies 0 B..512 KiB around the 4 KiB/32 KiB/64 KiB buffer sizes in flushed chunks with 8 header sets and 28 statuses; malformed bodies; nontrivial = number literal not reproducible through float64, non-ASCII/escaped text, depth >= 8, gzip, cc > 1, multi-chunk or > 32 KiB no-op body", true)
}
