// C02 generator: drives the real sequential merger (proxy.NewMergeDataMiddleware with
// "sequential": true) with scripted stub backends that log enter/exit and the path they
// are called with; level 0 wires the stubs behind the request builder middleware, level 1
// goes through config.ServiceConfig.Init (placeholder rewriting) and the default proxy
// factory, successful answers being decoded from an HTTP body by the real HTTP proxy.
package main

import (
	"context"
	"encoding/json"
	"errors"
	"fmt"
	"io"
	"net/http"
	"regexp"
	"runtime"
	"sort"
	"strconv"
	"strings"
	"sync"
	"time"

	"github.com/luraproject/lura/v2/config"
	"github.com/luraproject/lura/v2/logging"
	"github.com/luraproject/lura/v2/proxy"

	"verif/harness/internal/emit"
	"verif/harness/internal/out"
	"verif/harness/internal/rng"
)

// ---------- templates ----------

type seg struct {
	kind int // 0 literal, 1 {{.Resp<j>_<p>}}, 2 {{.<k>}}
	s    string
	j    int
	p    []string
}
type tmpl []seg

func lit(s string) seg                 { return seg{kind: 0, s: s} }
func hole(j int, p ...string) seg      { return seg{kind: 1, j: j, p: p} }
func phole(k string) seg               { return seg{kind: 2, s: k} }
func destKey(j int, p []string) string { return "Resp" + strconv.Itoa(j) + "_" + strings.Join(p, ".") }

// the pattern as the merger reads it
func (t tmpl) render() string {
	var b strings.Builder
	for _, s := range t {
		switch s.kind {
		case 0:
			b.WriteString(s.s)
		case 1:
			b.WriteString("{{." + destKey(s.j, s.p) + "}}")
		case 2:
			b.WriteString("{{." + s.s + "}}")
		}
	}
	return b.String()
}

// the pattern as written in a configuration file
func (t tmpl) renderCfg() string {
	var b strings.Builder
	for _, s := range t {
		switch s.kind {
		case 0:
			b.WriteString(s.s)
		case 1:
			b.WriteString("{resp" + strconv.Itoa(s.j) + "_" + strings.Join(s.p, ".") + "}")
		case 2:
			b.WriteString("{" + strings.ToLower(s.s[:1]) + s.s[1:] + "}")
		}
	}
	return b.String()
}

func (t tmpl) coq() string {
	xs := make([]string, len(t))
	for i, s := range t {
		switch s.kind {
		case 0:
			xs[i] = emit.App("Lit", emit.Str(s.s))
		case 1:
			xs[i] = emit.App("Hole", emit.Nat(s.j), emit.StrList(s.p))
		case 2:
			xs[i] = emit.App("PHole", emit.Str(s.s))
		}
	}
	return emit.List(xs)
}

// ---------- scripted outcomes ----------

type outcome struct {
	kind     int // 0 response, 1 error, 2 (nil, nil)
	data     map[string]interface{}
	complete bool
	tag      string
}

func (o outcome) coq() string {
	switch o.kind {
	case 0:
		return emit.App("OResp", fmt.Sprintf("{| data := %s; complete := %s |}", emit.OptObj(o.data), emit.Bool(o.complete)))
	case 1:
		return emit.App("OErr", emit.App("EBackend", emit.Str(o.tag)))
	case 3:
		return emit.App("OErr", emit.App("EOther", emit.Str("context canceled")))
	}
	return "OEmpty"
}

func (o outcome) js() interface{} {
	switch o.kind {
	case 0:
		return map[string]interface{}{"response": map[string]interface{}{"data": o.data, "complete": o.complete}}
	case 1:
		return map[string]interface{}{"error": o.tag}
	case 3:
		return "context canceled"
	}
	return "nil,nil"
}

func deepCopy(v interface{}) interface{} {
	switch x := v.(type) {
	case map[string]interface{}:
		if x == nil {
			return x
		}
		m := make(map[string]interface{}, len(x))
		for k, e := range x {
			m[k] = deepCopy(e)
		}
		return m
	case []interface{}:
		l := make([]interface{}, len(x))
		for i, e := range x {
			l[i] = deepCopy(e)
		}
		return l
	}
	return v
}

type scenario struct {
	lvl       int
	ts        []tmpl
	outs      []outcome
	ps0       map[string]string
	unsafe    bool // level 0: a non GET backend makes the merger deep-clone the request
	prop      []string
	kind      string
	step      string      // reuse streams: which request of which shared instance this is
	propHoles []propRef   // propagated-params stream: sc.prop as (index, path) pairs, emitted as CSeqP
	cancel    *cancelSpec // cancellation stream: the caller's context is cancelled while a backend runs
	hb        []hback     // HTTP stream: every backend is the real HTTP proxy over a stub executor
}

// ---------- observation ----------

type event struct {
	call   bool
	i      int
	path   string
	params map[string]string // request.Params as the backend saw them
}

type recorder struct {
	mu      sync.Mutex
	evs     []event
	active  int
	overlap bool
}

func (r *recorder) enter(i int, path string, params map[string]string) {
	r.mu.Lock()
	if r.active > 0 {
		r.overlap = true
	}
	r.active++
	r.evs = append(r.evs, event{true, i, path, copyParams(params)})
	r.mu.Unlock()
}

func (r *recorder) exit(i int) {
	r.mu.Lock()
	r.active--
	r.evs = append(r.evs, event{false, i, "", nil})
	r.mu.Unlock()
}

type observation struct {
	pats    []string
	evs     []event
	resp    *proxy.Response
	err     error
	panicv  interface{}
	initErr error
}

const seqNS = proxy.Namespace

func scripted(sc scenario, i int, errs []error) (*proxy.Response, error) {
	o := sc.outs[i]
	switch o.kind {
	case 0:
		var d map[string]interface{}
		if o.data != nil {
			d = deepCopy(o.data).(map[string]interface{})
		}
		return &proxy.Response{Data: d, IsComplete: o.complete}, nil
	case 1:
		return nil, errs[i]
	}
	return nil, nil
}

func extra(sc scenario) config.ExtraConfig {
	m := map[string]interface{}{"sequential": true}
	if len(sc.prop) > 0 {
		l := make([]interface{}, len(sc.prop))
		for i, p := range sc.prop {
			l[i] = p
		}
		m["sequential_propagated_params"] = l
	}
	return config.ExtraConfig{seqNS: m}
}

func copyParams(m map[string]string) map[string]string {
	r := make(map[string]string, len(m))
	for k, v := range m {
		r[k] = v
	}
	return r
}

// per-request state, carried to the stubs through the context so that one proxy instance
// can serve many (also concurrent) requests
type reqState struct {
	sc     scenario
	errs   []error
	rec    *recorder
	cancel context.CancelFunc
}

type ctxKey struct{}

func stateOf(ctx context.Context) *reqState { return ctx.Value(ctxKey{}).(*reqState) }

// one endpoint proxy built from one configuration (templates, level, cloning mode,
// propagated params); call drives one request through it
type instance struct {
	lvl     int
	n       int
	pats    []string
	p       proxy.Proxy
	initErr error
}

func newInstance(sc scenario) (in *instance) {
	n := len(sc.ts)
	in = &instance{lvl: sc.lvl, n: n, pats: make([]string, n)}
	stub := func(i int, produce func(context.Context, *proxy.Request) (*proxy.Response, error)) proxy.Proxy {
		return func(ctx context.Context, r *proxy.Request) (*proxy.Response, error) {
			st := stateOf(ctx)
			st.rec.enter(i, r.Path, r.Params)
			runtime.Gosched()
			resp, err := produce(ctx, r)
			runtime.Gosched()
			st.rec.exit(i)
			return resp, err
		}
	}
	if sc.lvl == 0 {
		ep := &config.EndpointConfig{Endpoint: "/x", Method: "GET", Timeout: 10 * time.Minute, ExtraConfig: extra(sc)}
		for i, t := range sc.ts {
			m := "GET"
			if sc.unsafe && i == n-1 {
				m = "POST"
			}
			ep.Backend = append(ep.Backend, &config.Backend{URLPattern: t.render(), Method: m})
			in.pats[i] = ep.Backend[i].URLPattern
		}
		stubs := make([]proxy.Proxy, n)
		for i := range sc.ts {
			i := i
			stubs[i] = proxy.NewRequestBuilderMiddleware(ep.Backend[i])(stub(i, func(ctx context.Context, _ *proxy.Request) (*proxy.Response, error) {
				st := stateOf(ctx)
				if c := st.sc.cancel; c != nil {
					// well-behaved backends: return at once when the context is already done
					if ctx.Err() != nil {
						return nil, ctx.Err()
					}
					if i == c.at {
						st.cancel() // the caller goes away while this backend is working
						if c.failInFlight {
							return nil, ctx.Err()
						}
					}
				}
				return scripted(st.sc, i, st.errs)
			}))
		}
		in.p = proxy.NewMergeDataMiddleware(logging.NoOp, ep)(stubs...)
		return
	}
	svc := config.ServiceConfig{Version: config.ConfigVersion, Timeout: 10 * time.Minute, Host: []string{"http://127.0.0.1:8081"}}
	ep := &config.EndpointConfig{Endpoint: "/x/{id}/{name}", Method: "GET", ExtraConfig: extra(sc)}
	for i, t := range sc.ts {
		be := &config.Backend{URLPattern: t.renderCfg()}
		if sc.hb != nil {
			be.ExtraConfig = sc.hb[i].extra()
		}
		ep.Backend = append(ep.Backend, be)
	}
	svc.Endpoints = []*config.EndpointConfig{ep}
	if err := svc.Init(); err != nil {
		in.initErr = err
		return
	}
	for i := range sc.ts {
		in.pats[i] = ep.Backend[i].URLPattern
	}
	bf := func(be *config.Backend) proxy.Proxy {
		for i := range ep.Backend {
			if ep.Backend[i] != be {
				continue
			}
			i := i
			// a successful answer travels as an HTTP body through the real HTTP proxy
			exec := func(ctx context.Context, _ *http.Request) (*http.Response, error) {
				if hb := stateOf(ctx).sc.hb; hb != nil {
					h := http.Header{}
					if hb[i].enc != "" {
						h.Set("Content-Type", hb[i].enc)
					}
					return &http.Response{StatusCode: hb[i].code, Header: h, Body: io.NopCloser(strings.NewReader(hb[i].body))}, nil
				}
				body, err := json.Marshal(stateOf(ctx).sc.outs[i].data)
				if err != nil {
					panic(err)
				}
				return &http.Response{StatusCode: 200, Header: http.Header{"Content-Type": []string{"application/json"}},
					Body: io.NopCloser(strings.NewReader(string(body)))}, nil
			}
			viaHTTP := proxy.NewHTTPProxyWithHTTPExecutor(be, exec, be.Decoder)
			return stub(i, func(ctx context.Context, r *proxy.Request) (*proxy.Response, error) {
				st := stateOf(ctx)
				o := st.sc.outs[i]
				if st.sc.hb != nil || (o.kind == 0 && o.complete && o.data != nil) {
					return viaHTTP(ctx, r)
				}
				return scripted(st.sc, i, st.errs)
			})
		}
		panic("unknown backend")
	}
	var err error
	in.p, err = proxy.NewDefaultFactory(bf, logging.NoOp).New(ep)
	if err != nil {
		in.initErr = err
	}
	return
}

// call sends one request (outcomes and endpoint parameters of sc) through the instance
func (in *instance) call(sc scenario) (obs observation) {
	obs.pats = in.pats
	if in.initErr != nil {
		obs.initErr = in.initErr
		return
	}
	st := &reqState{sc: sc, errs: make([]error, in.n), rec: &recorder{}}
	for i := range st.errs {
		st.errs[i] = errors.New(sc.outs[i].tag)
	}
	defer func() {
		if p := recover(); p != nil {
			obs.panicv = p
		}
		st.rec.mu.Lock()
		obs.evs = append([]event(nil), st.rec.evs...)
		st.rec.mu.Unlock()
	}()
	req := &proxy.Request{Method: "GET", Params: copyParams(sc.ps0), Headers: map[string][]string{}}
	if in.lvl == 1 {
		req.Query = map[string][]string{}
	}
	ctx, cancel := context.WithCancel(context.WithValue(context.Background(), ctxKey{}, st))
	defer cancel()
	st.cancel = cancel
	obs.resp, obs.err = in.p(ctx, req)
	// translate the error values into tags
	obs.err = tagErr(obs.err, st.errs, sc)
	return
}

// a fresh instance for one request
func run(sc scenario) observation { return newInstance(sc).call(sc) }

type taggedErr struct {
	coq string
	js  interface{}
}

func (t taggedErr) Error() string { return t.coq }

func oneErr(e error, errs []error, sc scenario) (string, interface{}) {
	for i, x := range errs {
		if e == x {
			return emit.App("EBackend", emit.Str(sc.outs[i].tag)), sc.outs[i].tag
		}
	}
	if e == proxy.VerifErrNullResult {
		return "ENull", "null-result"
	}
	return emit.App("EOther", emit.Str(e.Error())), "other:" + e.Error()
}

func tagErr(e error, errs []error, sc scenario) error {
	if e == nil {
		return nil
	}
	if m, ok := e.(interface{ Errors() []error }); ok {
		var cs []string
		var js []interface{}
		for _, x := range m.Errors() {
			c, j := oneErr(x, errs, sc)
			cs = append(cs, c)
			js = append(js, j)
		}
		return taggedErr{emit.App("RMerge", emit.List(cs)), map[string]interface{}{"merge_error": js}}
	}
	c, j := oneErr(e, errs, sc)
	return taggedErr{emit.App("RRaw", c), map[string]interface{}{"raw_error": j}}
}

// ---------- emission ----------

func sortedKeys(m map[string]string) []string {
	ks := make([]string, 0, len(m))
	for k := range m {
		ks = append(ks, k)
	}
	sort.Strings(ks)
	return ks
}

// the inputs on which the unrepaired merger (parts[0] aliased with the accumulator) hands a
// later backend a value of the wrong response: a placeholder of backend i refers to response
// j and a response strictly between j and i has the first path segment as a key
func aliasSig(sc scenario) bool {
	for i, t := range sc.ts {
		for _, s := range t {
			if s.kind != 1 || s.j >= i || len(s.p) == 0 {
				continue
			}
			for m := s.j + 1; m < i; m++ {
				if sc.outs[m].kind == 0 && sc.outs[m].data != nil {
					if _, ok := sc.outs[m].data[s.p[0]]; ok {
						return true
					}
				}
			}
		}
	}
	return false
}

var strLit = regexp.MustCompile(`"[^"]*"`)

// coqc spends its time type-checking string literals (one constructor per bit): bind every
// literal that occurs more than once in a case to a let-variable
func shareStrings(term string) string {
	count := map[string]int{}
	var order []string
	for _, l := range strLit.FindAllString(term, -1) {
		if count[l] == 0 {
			order = append(order, l)
		}
		count[l]++
	}
	names := map[string]string{}
	var b strings.Builder
	b.WriteString("(")
	for _, l := range order {
		if count[l] > 1 && len(l) > 3 {
			n := fmt.Sprintf("z%d_", len(names))
			names[l] = n
			b.WriteString("let " + n + " := " + l + "%string in ")
		}
	}
	if len(names) == 0 {
		return term
	}
	b.WriteString(strLit.ReplaceAllStringFunc(term, func(l string) string {
		if n, ok := names[l]; ok {
			return n
		}
		return l
	}))
	b.WriteString(")")
	return b.String()
}

// one case ready to be written
type built struct {
	Term       string                 `json:"term"`
	Js         map[string]interface{} `json:"js"`
	Sig        string                 `json:"sig"`
	Canon      string                 `json:"canon"`
	Nontrivial bool                   `json:"nontrivial"`
	Counts     []string               `json:"counts"`
}

func (b built) add(w *out.Writer) {
	for _, c := range b.Counts {
		w.Count(c)
	}
	w.Add(b.Term, b.Js, b.Sig, b.Canon, b.Nontrivial)
}

func emitCase(w *out.Writer, sc scenario) { buildCase(sc, run(sc)).add(w) }

type counter struct{ keys []string }

func (c *counter) Count(k string) { c.keys = append(c.keys, k) }

func buildCase(sc scenario, obs observation) built {
	w := &counter{}
	if obs.initErr != nil {
		// a generated configuration must initialise: make it visible as a failing case
		w.Count("init_error")
		obs.pats = []string{"<init error: " + obs.initErr.Error() + ">"}
	}
	n := len(sc.ts)
	tsC := make([]string, n)
	outsC := make([]string, n)
	var tsJ, outsJ []interface{}
	for i := range sc.ts {
		tsC[i] = sc.ts[i].coq()
		outsC[i] = sc.outs[i].coq()
		tsJ = append(tsJ, sc.ts[i].render())
		outsJ = append(outsJ, sc.outs[i].js())
	}
	evC := make([]string, len(obs.evs))
	var evJ []interface{}
	for i, e := range obs.evs {
		if e.call {
			evC[i] = emit.App("ECall", emit.Nat(e.i), emit.Str(e.path))
			evJ = append(evJ, fmt.Sprintf("enter %d %q", e.i, e.path))
		} else {
			evC[i] = emit.App("ERet", emit.Nat(e.i))
			evJ = append(evJ, fmt.Sprintf("exit %d", e.i))
		}
	}
	respC, errC := "None", "RNone"
	var respJ, errJ interface{}
	if obs.resp != nil && sc.hb != nil {
		// the details of a failed backend are a Go struct: bring the data to plain JSON values
		obs.resp.Data = normaliseData(obs.resp.Data)
	}
	if obs.resp != nil {
		respC = emit.Some(fmt.Sprintf("{| data := %s; complete := %s |}", emit.OptObj(obs.resp.Data), emit.Bool(obs.resp.IsComplete)))
		respJ = map[string]interface{}{"data": obs.resp.Data, "complete": obs.resp.IsComplete}
	}
	if te, ok := obs.err.(taggedErr); ok {
		errC, errJ = te.coq, te.js
	}
	if obs.panicv != nil {
		errC = emit.App("RRaw", emit.App("EOther", emit.Str(fmt.Sprintf("panic: %v", obs.panicv))))
		errJ = fmt.Sprintf("panic: %v", obs.panicv)
	}
	term := shareStrings(emit.App("CSeq", emit.Nat(sc.lvl), emit.List(tsC), emit.StrList(obs.pats), emit.List(outsC),
		emit.StrMap(sc.ps0), emit.List(evC), emit.Pair(respC, errC)))
	if sc.propHoles != nil {
		prC := make([]string, len(sc.propHoles))
		for i, p := range sc.propHoles {
			prC[i] = emit.Pair(emit.Nat(p.j), emit.StrList(p.p))
		}
		var parC []string
		for _, e := range obs.evs {
			if e.call {
				parC = append(parC, emit.Pair(emit.Nat(e.i), emit.StrMap(e.params)))
			}
		}
		term = shareStrings(emit.App("CSeqP", emit.List(tsC), emit.StrList(obs.pats), emit.List(prC), emit.List(outsC),
			emit.StrMap(sc.ps0), emit.List(evC), emit.List(parC), emit.Pair(respC, errC)))
	}
	var hbJ []interface{}
	if sc.hb != nil {
		hbC := make([]string, len(sc.hb))
		for i, h := range sc.hb {
			hbC[i] = h.coq()
			hbJ = append(hbJ, h.js())
		}
		term = shareStrings(emit.App("CSeqH", emit.List(tsC), emit.StrList(obs.pats), emit.List(hbC),
			emit.StrMap(sc.ps0), emit.List(evC), emit.Pair(respC, errC)))
	}
	js := map[string]interface{}{
		"level":    []string{"merge middleware + request builder", "config.Init + default proxy factory", "config.Init + default proxy factory, backends = real HTTP proxy over a stub executor"}[lvlName(sc)],
		"kind":     sc.kind,
		"patterns": tsJ, "patterns_in_use": obs.pats, "outcomes": outsJ, "params": sc.ps0,
		"deep_clone": sc.unsafe, "propagated_params": sc.prop, "http_backends": hbJ,
		"observed": map[string]interface{}{"events": evJ, "response": respJ, "error": errJ},
	}
	sig := ""
	if aliasSig(sc) {
		sig = "seq-parts-aliased"
		w.Count("sig:seq-parts-aliased")
	}
	var canon strings.Builder
	fmt.Fprintf(&canon, "%d|%v|%v|", sc.lvl, sc.unsafe, sc.prop)
	for i := range sc.ts {
		canon.WriteString(sc.ts[i].render() + "|" + outsC[i] + "|")
	}
	for _, k := range sortedKeys(sc.ps0) {
		canon.WriteString(k + "=" + sc.ps0[k] + "|")
	}
	// distribution
	w.Count(fmt.Sprintf("level:%d", sc.lvl))
	w.Count(fmt.Sprintf("N:%d", n))
	w.Count("kind:" + sc.kind)
	bad, badKind := n, "none"
	for i, o := range sc.outs {
		if !(o.kind == 0 && o.complete) {
			bad = i
			badKind = []string{"incomplete", "error", "empty", "context-cancelled"}[o.kind]
			break
		}
	}
	w.Count("first_non_success:" + badKind)
	if bad < n {
		w.Count(fmt.Sprintf("first_non_success_pos:%d", bad))
	}
	holes, resolved := 0, 0
	for i, t := range sc.ts {
		for _, s := range t {
			if s.kind == 1 {
				holes++
				if i <= bad && s.j < i {
					resolved++
				}
			}
		}
	}
	if holes > 0 {
		w.Count("has_placeholders")
	}
	if sc.step != "" {
		js["reuse"] = sc.step
		canon.WriteString("|" + sc.step)
	}
	return built{term, js, sig, canon.String(), bad < n || resolved > 0, w.keys}
}

func main() {
	cfg := out.ParseFlags("C02")
	if cfg.Extra == concurrentChild {
		concurrentChildMain(cfg)
		return
	}
	r := rng.New(cfg.Seed)
	w := out.NewWriter(cfg, "Verif.Corr.C02", 150)
	for _, sc := range corpus() {
		emitCase(w, sc)
	}
	nExh := exhaustive(cfg, func(sc scenario) { emitCase(w, sc) })
	nRand := 400
	maxN := 5
	if cfg.Thorough() {
		nRand = 5000
		maxN = 8
	}
	for lvl := 0; lvl <= 1; lvl++ {
		for k := 0; k < nRand; k++ {
			emitCase(w, randomScenario(r, lvl, maxN))
		}
	}
	for k := 0; k < nRand/4; k++ {
		emitCase(w, malformedScenario(r))
	}
	w.Meta["http_status_cases"] = httpStream(cfg, r, w)
	w.Meta["cancel_cases"] = cancelStream(cfg, r, w)
	w.Meta["propagated_params_cases"] = propStream(cfg, r, w)
	nSeq, nConc := reuseStreams(cfg, r, w)
	w.Meta["reuse_sequential_cases"] = nSeq
	w.Meta["reuse_concurrent_cases"] = nConc
	w.Meta["exhaustive_scenarios"] = nExh
	w.Close(fmt.Sprintf("regression corpus; exhaustive: N=2..5 x position 0..N-1 of the first non-successful backend x kind {error, (nil,nil), incomplete payload, incomplete nil-data payload, complete nil-data payload} + all successful, every later backend referencing every earlier response with paths of depth 1..3, x value variants (strings incl. empty/spaces/unicode/url metacharacters, booleans, json.Number literals incl. big ints/decimals/exponents, arrays, null, objects) x 2 levels (merge middleware behind the request builder; config.Init + default factory with HTTP-decoded answers); random: N=2..%d, random documents/templates (existing, missing, partially missing paths, later/own/out-of-range indexes, repeated placeholders, endpoint parameters, overlapping keys, propagated params); malformed: values and parameters with braces, empty path segments, parameters named like destinations; HTTP stream: config.Init + default factory with every backend behind the real HTTP proxy (stub executor returning *http.Response), the varied backend at every position of chains of N=2..3 (thorough 2..5) x 24 statuses over 100..599 (every class, 200/201/204/301/400/401/403/404/429/500/502/503 and neighbours) x {default, return_error_code, return_error_details}, other backends answering 200 with data referenced by later placeholders, plus per-mode reuse sequences 200->404->503->429->201 through one instance; propagated params: sequential_propagated_params referring to existing / missing / partially missing paths, non-scalars, own / later / out-of-range indexes, with and without the same placeholder in a pattern, the request.Params every entered backend saw compared with the extended model (case kind CSeqP); cancellation: the caller's context is cancelled while backend k of N=2..4 runs (k at every position; the backend either returns its answer, which the merger's select may or may not still deliver, or returns the context error), later backends return at once on a dead context - the resolution of the select is read off the observation and the case is checked like any other; instance reuse: ONE proxy per configuration serving a sequence of 3-6 requests that differ in propagated values / endpoint parameters / outcome kinds (corpus orders + random sequences, both levels), and one proxy hit by 12 goroutines behind a start gate over 8 distinct requests (run in a child process; every distinct (request, observation) pair emitted once). nontrivial = some backend is non-successful or some placeholder is resolved", maxN), true)
}
