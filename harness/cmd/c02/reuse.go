package main

// Instance reuse: ONE endpoint proxy per configuration serving several requests. The model
// is stateless per request, so every step is an ordinary case; state that leaks from one
// request into the next (a registry, a flag or a table built once per endpoint and filled in
// per request) shows as a disagreement from the second request on.

import (
	"bufio"
	"bytes"
	"encoding/json"
	"fmt"
	"os"
	"os/exec"
	"sort"
	"strings"
	"sync"

	"verif/harness/internal/out"
	"verif/harness/internal/rng"
)

const concurrentChild = "c02-concurrent-child"

func withReq(base scenario, step string, outs []outcome, ps0 map[string]string) scenario {
	sc := base
	sc.outs = outs
	for i := range sc.outs {
		if sc.outs[i].kind == 1 && sc.outs[i].tag == "" {
			sc.outs[i].tag = fmt.Sprintf("e%d", i)
		}
	}
	sc.ps0 = ps0
	sc.step = step
	return sc
}

// the most telling orders
func seqCorpus() [][]scenario {
	var res [][]scenario
	P := func(id, name string) map[string]string { return map[string]string{"Id": id, "Name": name} }
	for lvl := 0; lvl <= 1; lvl++ {
		// different propagated values and endpoint parameters, request after request
		base := scenario{lvl: lvl, kind: "reuse:values", ts: []tmpl{
			{lit("/b0/"), phole("Id")},
			{lit("/b1/"), hole(0, "id")},
			{lit("/b2/"), hole(0, "id"), lit("/"), hole(1, "o", "k"), lit("/"), phole("Name")}}}
		mk := func(id, k interface{}) []outcome {
			return []outcome{succ(obj{"id": id}), succ(obj{"o": obj{"k": k}}), succ(obj{"z": true})}
		}
		res = append(res, []scenario{
			withReq(base, "values/1", mk("alice", "k1"), P("1", "n1")),
			withReq(base, "values/2", mk("bob", "k2"), P("2", "n2")),
			withReq(base, "values/3", mk("", "k3"), P("3", "n3")),
			withReq(base, "values/4", mk("carol", "k1"), P("4", "n1")),
			withReq(base, "values/5", mk(num("7"), true), P("5", "n5")),
			withReq(base, "values/6", mk("alice", num("1.50")), P("1", "n1")),
		})
		// complete, then incomplete, then failures, then complete again
		base = scenario{lvl: lvl, kind: "reuse:kinds", unsafe: true, ts: []tmpl{
			{lit("/b0")}, {lit("/b1/"), hole(0, "id")}, {lit("/b2/"), hole(0, "id"), lit("/"), hole(1, "v")}}}
		ok := func(id, v string) []outcome {
			return []outcome{succ(obj{"id": id}), succ(obj{"v": v}), succ(obj{"w": id + v})}
		}
		s2 := ok("bob", "v2")
		s2[1] = outcome{kind: 0, data: obj{"v": "v2"}, complete: false}
		s3 := ok("carol", "v3")
		s3[0] = outcome{kind: 1}
		s4 := ok("dave", "v4")
		s4[1] = outcome{kind: 2}
		s6 := ok("frank", "v6")
		s6[0] = outcome{kind: 0, data: nil, complete: true}
		res = append(res, []scenario{
			withReq(base, "kinds/1", ok("alice", "v1"), P("1", "n")),
			withReq(base, "kinds/2", s2, P("1", "n")),
			withReq(base, "kinds/3", s3, P("1", "n")),
			withReq(base, "kinds/4", s4, P("1", "n")),
			withReq(base, "kinds/5", ok("erin", "v5"), P("1", "n")),
			withReq(base, "kinds/6", s6, P("1", "n")),
		})
		// a value that is there, then absent, then of another type
		base = scenario{lvl: lvl, kind: "reuse:presence", ts: []tmpl{
			{lit("/b0")}, {lit("/b1/"), hole(0, "a", "id")}, {lit("/b2/"), hole(0, "a", "id"), lit("/"), hole(1, "id")}}}
		pr := func(a interface{}, id1 interface{}) []outcome {
			return []outcome{succ(obj{"a": a}), succ(obj{"id": id1}), succ(obj{})}
		}
		res = append(res, []scenario{
			withReq(base, "presence/1", pr(obj{"id": "alice"}, "one"), P("1", "n")),
			withReq(base, "presence/2", pr(obj{"other": "x"}, "two"), P("1", "n")),
			withReq(base, "presence/3", pr(obj{"id": true}, false), P("1", "n")),
			withReq(base, "presence/4", pr("scalar", num("4")), P("1", "n")),
			withReq(base, "presence/5", pr(obj{"id": "erin"}, "five"), P("1", "n")),
		})
	}
	return res
}

func varyDoc(r *rng.R, lvl int, v interface{}) interface{} {
	switch x := v.(type) {
	case obj:
		m := obj{}
		ks := make([]string, 0, len(x))
		for k := range x {
			ks = append(ks, k)
		}
		sort.Strings(ks)
		for _, k := range ks {
			if r.Chance(1, 10) {
				continue
			}
			m[k] = varyDoc(r, lvl, x[k])
		}
		return m
	case string, bool, json.Number:
		if r.Chance(2, 3) {
			return scalar(lvl, r.Intn(1000))
		}
		return x
	}
	return deepCopy(v)
}

func vary(r *rng.R, base scenario, step string) scenario {
	outs := make([]outcome, len(base.outs))
	for j, o := range base.outs {
		var d obj
		if o.data != nil {
			d = varyDoc(r, base.lvl, o.data).(obj)
		} else {
			d = randDoc(r, base.lvl, j, 1)
		}
		if r.Chance(1, 6) {
			outs[j] = badOutcome(r.Intn(5), j, d)
		} else {
			outs[j] = succ(d)
		}
	}
	ps0 := map[string]string{}
	for _, k := range sortedKeys(base.ps0) {
		ps0[k] = fmt.Sprint(scalar(1, r.Intn(30)))
	}
	return withReq(base, step, outs, ps0)
}

// the requests of the concurrent stream: 8 distinct requests for one configuration
func concurrentSet(lvl int) []scenario {
	base := scenario{lvl: lvl, kind: "reuse:concurrent", unsafe: lvl == 0, ts: []tmpl{
		{lit("/b0/"), phole("Id")},
		{lit("/b1/"), hole(0, "id"), lit("/"), phole("Id")},
		{lit("/b2/"), hole(0, "id"), lit("/"), hole(1, "v")}}}
	var res []scenario
	for j := 0; j < 8; j++ {
		outs := []outcome{succ(obj{"id": fmt.Sprintf("u%d", j)}), succ(obj{"v": fmt.Sprintf("w%d", j)}), succ(obj{fmt.Sprintf("z%d", j): num(fmt.Sprint(j))})}
		switch j {
		case 5:
			outs[1] = outcome{kind: 0, data: obj{"v": "w5"}, complete: false}
		case 6:
			outs[0] = outcome{kind: 1}
		case 7:
			outs[1] = outcome{kind: 2}
		}
		res = append(res, withReq(base, fmt.Sprintf("concurrent/%d", j), outs, map[string]string{"Id": fmt.Sprint(j), "Name": "n"}))
	}
	return res
}

// child process: 12 goroutines behind a start gate, every distinct (request, observation)
// pair is reported once. A run without interference prints one case per distinct request.
// (Unsynchronised shared state can kill the process - "concurrent map writes" cannot be
// recovered - which is why this runs in a child: the parent turns a crash into a case.)
func concurrentChildMain(cfg out.Config) {
	const goroutines, calls = 12, 40
	var all []built
	for lvl := 0; lvl <= 1; lvl++ {
		set := concurrentSet(lvl)
		in := newInstance(set[0])
		seen := make([]map[string]built, goroutines)
		start := make(chan struct{})
		var wg sync.WaitGroup
		for g := 0; g < goroutines; g++ {
			seen[g] = map[string]built{}
			wg.Add(1)
			go func(g int) {
				defer wg.Done()
				<-start
				for k := 0; k < calls; k++ {
					j := (g*5 + k) % len(set)
					b := buildCase(set[j], in.call(set[j]))
					key := fmt.Sprintf("%d|%02d|%s", lvl, j, b.Term)
					if _, ok := seen[g][key]; !ok {
						seen[g][key] = b
					}
				}
			}(g)
		}
		close(start)
		wg.Wait()
		merged := map[string]built{}
		for g := range seen {
			for k, v := range seen[g] {
				merged[k] = v
			}
		}
		keys := make([]string, 0, len(merged))
		for k := range merged {
			keys = append(keys, k)
		}
		sort.Strings(keys)
		for _, k := range keys {
			all = append(all, merged[k])
		}
	}
	o := bufio.NewWriter(os.Stdout)
	for _, b := range all {
		line, err := json.Marshal(b)
		if err != nil {
			panic(err)
		}
		o.Write(line)
		o.WriteByte('\n')
	}
	o.Flush()
}

func reuseStreams(cfg out.Config, r *rng.R, w *out.Writer) (nSeq, nConc int) {
	// 1. sequential reuse
	runSeq := func(seq []scenario) {
		in := newInstance(seq[0])
		for _, sc := range seq {
			buildCase(sc, in.call(sc)).add(w)
			nSeq++
		}
	}
	for _, seq := range seqCorpus() {
		runSeq(seq)
	}
	nCfg, maxN := 40, 5
	if cfg.Thorough() {
		nCfg, maxN = 400, 8
	}
	for c := 0; c < nCfg; c++ {
		base := randomScenario(r, c%2, maxN)
		base.kind = "reuse:random"
		steps := 3 + r.Intn(3)
		seq := []scenario{withReq(base, fmt.Sprintf("random%d/1", c), base.outs, base.ps0)}
		for s := 1; s < steps; s++ {
			seq = append(seq, vary(r, base, fmt.Sprintf("random%d/%d", c, s+1)))
		}
		runSeq(seq)
	}
	// 2. concurrent reuse, in a child process
	cmd := exec.Command(os.Args[0], "--tier", cfg.Tier, "--seed", fmt.Sprint(cfg.Seed), "--out", cfg.Dir, "--extra", concurrentChild)
	var stdout, stderr bytes.Buffer
	cmd.Stdout, cmd.Stderr = &stdout, &stderr
	err := cmd.Run()
	sc := bufio.NewScanner(&stdout)
	sc.Buffer(make([]byte, 1<<20), 1<<26)
	for sc.Scan() {
		var b built
		if json.Unmarshal(sc.Bytes(), &b) == nil && b.Term != "" {
			b.add(w)
			nConc++
		}
	}
	if err != nil || nConc == 0 {
		// the shared instance did not survive concurrent requests: report it as the
		// observation of the first request of the set
		msg := strings.SplitN(strings.TrimSpace(stderr.String()), "\n", 2)[0]
		first := concurrentSet(0)[0]
		obs := observation{pats: newInstance(first).pats, panicv: fmt.Sprintf("process died while one proxy instance served concurrent requests: %v: %s", err, msg)}
		buildCase(first, obs).add(w)
		nConc++
		w.Count("reuse_concurrent_crash")
	}
	return
}
