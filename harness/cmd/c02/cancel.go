package main

// Cancellation in the middle of the chain: the context the endpoint proxy was called with is
// cancelled while backend k is working (deterministically, by the stub itself - no timers).
// sequentialRequestPart then chooses between handing over the backend's answer and the
// context error (a select with both branches ready: either is a legal execution); when the
// answer is taken the loop goes on and enters backend k+1 with a dead context, which a
// well-behaved backend answers with the context error at once. Both resolutions are ordinary
// outcome vectors of the model; which one happened is read off the observation.

import (
	"fmt"

	"verif/harness/internal/out"
	"verif/harness/internal/rng"
)

type cancelSpec struct {
	at           int
	failInFlight bool // the backend in flight returns the context error instead of its answer
}

var ctxErrOutcome = outcome{kind: 3}

func cancelStream(cfg out.Config, r *rng.R, w *out.Writer) int {
	count := 0
	maxN, variants := 4, 2
	if cfg.Thorough() {
		maxN, variants = 6, 8
	}
	for n := 2; n <= maxN; n++ {
		for k := 0; k < n; k++ {
			for _, fail := range []bool{false, true} {
				for v := 0; v < variants; v++ {
					sc := scenario{lvl: 0, kind: "cancel", unsafe: v%2 == 1, ps0: map[string]string{"Id": fmt.Sprint(v)},
						cancel: &cancelSpec{at: k, failInFlight: fail}}
					for j := 0; j < n; j++ {
						sc.outs = append(sc.outs, succ(obj{fmt.Sprintf("k%d", j): scalar(0, v*5+j), "id": fmt.Sprintf("u%d", j)}))
						t := tmpl{lit(fmt.Sprintf("/b%d/", j)), phole("Id")}
						for i := 0; i < j; i++ {
							t = append(t, lit("/"), hole(i, fmt.Sprintf("k%d", i)))
						}
						sc.ts = append(sc.ts, t)
					}
					obs := run(sc)
					// which branch of the select was taken
					delivered := false
					if !fail {
						if k == n-1 {
							delivered = obs.err == nil
						} else {
							for _, e := range obs.evs {
								if e.call && e.i == k+1 {
									delivered = true
								}
							}
						}
					}
					eff := sc
					eff.outs = append([]outcome(nil), sc.outs...)
					if delivered {
						if k+1 < n {
							eff.outs[k+1] = ctxErrOutcome
						}
						w.Count("cancel:answer-delivered")
					} else {
						eff.outs[k] = ctxErrOutcome
						w.Count("cancel:context-error")
					}
					eff.step = fmt.Sprintf("cancel while backend %d of %d runs (in flight returns error: %v)", k, n, fail)
					buildCase(eff, obs).add(w)
					count++
				}
			}
		}
	}
	return count
}
