package main

import (
	"encoding/json"
	"fmt"

	"verif/harness/internal/out"
	"verif/harness/internal/rng"
)

type obj = map[string]interface{}

func num(s string) json.Number { return json.Number(s) }

// scalars that survive every stage of level 1 (valid UTF-8, no control bytes, no '%')
var scalarsSafe = []interface{}{
	"v", "", "a b", "Zoë-ü→✓", "x/y", "a.b", "a?b=c&d", "#frag", "1e5", "true", "null",
	true, false,
	num("0"), num("-1"), num("12345678901234567890"), num("1.50"), num("1e-7"), num("6.02E23"), num("-0"),
	num("0.1000"), num("3.141592653589793238462643383279"), "..", "~user", "a+b", "日本",
}

// level 0 only: arbitrary bytes
var scalarsRaw = []interface{}{"\x00\x01", "\xff\xfe", "a\nb", "%zz", "\x7f", "100%", "tab\there"}

var nonScalars = []interface{}{
	nil, []interface{}{}, []interface{}{"a", num("2"), true, nil}, []interface{}{[]interface{}{num("1"), num("2")}, obj{"k": "v", "a": num("1")}},
	obj{"m": num("1")}, []interface{}{"only"}, obj{},
}

func scalar(lvl, k int) interface{} {
	if k < 0 {
		k = -k
	}
	if lvl == 0 {
		n := len(scalarsSafe) + len(scalarsRaw)
		k %= n
		if k >= len(scalarsSafe) {
			return scalarsRaw[k-len(scalarsSafe)]
		}
		return scalarsSafe[k]
	}
	return scalarsSafe[k%len(scalarsSafe)]
}

func succ(d obj) outcome { return outcome{kind: 0, data: d, complete: true} }

func badOutcome(kind, i int, d obj) outcome {
	switch kind {
	case 0:
		return outcome{kind: 1, tag: fmt.Sprintf("e%d", i)}
	case 1:
		return outcome{kind: 2}
	case 2:
		return outcome{kind: 0, data: d, complete: false}
	case 3:
		return outcome{kind: 0, data: nil, complete: false}
	}
	return outcome{kind: 0, data: nil, complete: true}
}

// ---------- regression corpus ----------

func corpus() []scenario {
	var res []scenario
	add := func(kind string, lvl int, ts []tmpl, outs []outcome, ps0 map[string]string) {
		for i := range outs {
			if outs[i].kind == 1 && outs[i].tag == "" {
				outs[i].tag = fmt.Sprintf("e%d", i)
			}
		}
		if lvl == 1 && ps0 == nil {
			ps0 = map[string]string{"Id": "42", "Name": "n"}
		}
		if ps0 == nil {
			ps0 = map[string]string{}
		}
		res = append(res, scenario{lvl: lvl, ts: ts, outs: outs, ps0: ps0, kind: "corpus:" + kind})
	}
	for lvl := 0; lvl <= 1; lvl++ {
		// F-C02: response 1 offers the key that backend 2 reads from response 0 (the unrepaired
		// merger hands backend 2 the value of response 1)
		add("alias-overlapping-key", lvl,
			[]tmpl{{lit("/b0")}, {lit("/b1")}, {lit("/b2/"), hole(0, "id"), lit("/"), hole(1, "id")}},
			[]outcome{succ(obj{"id": num("1")}), succ(obj{"id": num("7")}), succ(obj{"z": true})}, nil)
		add("alias-key-only-in-later-response", lvl,
			[]tmpl{{lit("/b0")}, {lit("/b1")}, {lit("/b2/"), hole(0, "only1")}},
			[]outcome{succ(obj{"id": num("1")}), succ(obj{"only1": "x"}), succ(obj{})}, nil)
		add("alias-nested", lvl,
			[]tmpl{{lit("/b0")}, {lit("/b1")}, {lit("/b2/"), hole(0, "o", "k")}},
			[]outcome{succ(obj{"o": obj{"k": "zero"}}), succ(obj{"o": obj{"k": "one"}}), succ(obj{})}, nil)
		// the registry keeps the first value handed out
		add("alias-registry", lvl,
			[]tmpl{{lit("/b0")}, {lit("/b1/"), hole(0, "id")}, {lit("/b2/"), hole(0, "id")}},
			[]outcome{succ(obj{"id": num("1")}), succ(obj{"id": num("7")}), succ(obj{})}, nil)
		// missing intermediate segment: the last key is looked up in the shallower object
		add("shallower-object-quirk", lvl,
			[]tmpl{{lit("/b0")}, {lit("/b1/"), hole(0, "a", "b", "c"), lit("/"), hole(0, "s", "c")}},
			[]outcome{succ(obj{"a": obj{"c": "shallow"}, "s": "str", "c": "top"}), succ(obj{"x": num("1")})}, nil)
		add("missing-path-stays", lvl,
			[]tmpl{{lit("/b0")}, {lit("/b1/"), hole(0, "nope"), lit("/"), hole(0, "a", "nope")}},
			[]outcome{succ(obj{"a": obj{"c": "v"}}), succ(obj{})}, nil)
		add("non-scalars", lvl,
			[]tmpl{{lit("/b0")}, {lit("/b1/"), hole(0, "e"), lit("/"), hole(0, "l"), lit("/"), hole(0, "n"), lit("/"), hole(0, "o"), lit("/"), hole(0, "ll")}},
			[]outcome{succ(obj{"e": []interface{}{}, "l": []interface{}{"a", num("2"), true, nil}, "n": nil, "o": obj{"b": num("1"), "a": "x"},
				"ll": []interface{}{[]interface{}{num("1"), "t"}, obj{"k": "v"}}}), succ(obj{})}, nil)
		add("numbers", lvl,
			[]tmpl{{lit("/b0")}, {lit("/b1/"), hole(0, "big"), lit("/"), hole(0, "d"), lit("/"), hole(0, "e"), lit("/"), hole(0, "t"), lit("/"), hole(0, "f")}},
			[]outcome{succ(obj{"big": num("12345678901234567890"), "d": num("1.50"), "e": num("1E+2"), "t": true, "f": false}), succ(obj{})}, nil)
		add("own-and-later-index", lvl,
			[]tmpl{{lit("/b0/"), hole(0, "a"), lit("/"), hole(1, "a")}, {lit("/b1/"), hole(1, "a"), lit("/"), hole(2, "a"), lit("/"), hole(7, "a"), lit("/"), hole(0, "a")}, {lit("/b2/"), hole(1, "a")}},
			[]outcome{succ(obj{"a": "A0"}), succ(obj{"a": "A1"}), succ(obj{"a": "A2"})}, nil)
		add("repeated-placeholder", lvl,
			[]tmpl{{lit("/b0")}, {lit("/b1/"), hole(0, "a"), lit("/"), hole(0, "a"), lit("-"), hole(0, "a")}},
			[]outcome{succ(obj{"a": "A0"}), succ(obj{})}, nil)
		add("empty-string-value", lvl,
			[]tmpl{{lit("/b0")}, {lit("/b1/"), hole(0, "a"), lit("/x")}, {lit("/b2/"), hole(0, "a"), lit("/y")}},
			[]outcome{succ(obj{"a": ""}), succ(obj{}), succ(obj{})}, nil)
		add("first-fails", lvl, []tmpl{{lit("/b0")}, {lit("/b1")}}, []outcome{{kind: 1}, succ(obj{"a": num("1")})}, nil)
		add("first-empty", lvl, []tmpl{{lit("/b0")}, {lit("/b1")}}, []outcome{{kind: 2}, succ(obj{"a": num("1")})}, nil)
		add("first-incomplete", lvl, []tmpl{{lit("/b0")}, {lit("/b1")}}, []outcome{{kind: 0, data: obj{"p": "q"}, complete: false}, succ(obj{"a": num("1")})}, nil)
		add("nil-data-first", lvl, []tmpl{{lit("/b0")}, {lit("/b1")}, {lit("/b2/"), hole(1, "a")}},
			[]outcome{{kind: 0, data: nil, complete: true}, succ(obj{"a": num("1")}), succ(obj{"a": num("2"), "b": "x"})}, nil)
		add("nil-data-twice", lvl, []tmpl{{lit("/b0")}, {lit("/b1")}, {lit("/b2/"), hole(1, "a")}},
			[]outcome{{kind: 0, data: nil, complete: true}, {kind: 0, data: nil, complete: true}, succ(obj{"a": num("2")})}, nil)
		add("endpoint-params", lvl, []tmpl{{lit("/b0/"), phole("Id")}, {lit("/b1/"), phole("Name"), lit("/"), hole(0, "a"), lit("/"), phole("Id")}},
			[]outcome{succ(obj{"a": "A0"}), succ(obj{})}, map[string]string{"Id": "42", "Name": "n m"})
		add("last-fails", lvl, []tmpl{{lit("/b0")}, {lit("/b1")}, {lit("/b2")}},
			[]outcome{succ(obj{"a": num("1")}), succ(obj{"b": num("2")}), {kind: 1}}, nil)
		add("middle-empty", lvl, []tmpl{{lit("/b0")}, {lit("/b1")}, {lit("/b2")}},
			[]outcome{succ(obj{"a": num("1")}), {kind: 2}, succ(obj{"c": num("3")})}, nil)
		add("dash-and-underscore-keys", lvl, []tmpl{{lit("/b0")}, {lit("/b1/"), hole(0, "x-y", "K_1")}},
			[]outcome{succ(obj{"x-y": obj{"K_1": "dash"}}), succ(obj{})}, nil)
	}
	// level 0 only
	res = append(res, scenario{lvl: 0, kind: "corpus:propagated-params", prop: []string{"resp0_a", "resp0", "Resp1_b.c"},
		ts:   []tmpl{{lit("/b0")}, {lit("/b1")}, {lit("/b2/"), hole(0, "a")}},
		outs: []outcome{succ(obj{"a": "A0"}), succ(obj{"b": obj{"c": "C"}}), succ(obj{})}, ps0: map[string]string{}})
	res = append(res, scenario{lvl: 0, kind: "corpus:deep-clone", unsafe: true,
		ts:   []tmpl{{lit("/b0")}, {lit("/b1/"), hole(0, "a")}, {lit("/b2/"), hole(0, "a"), hole(1, "b")}},
		outs: []outcome{succ(obj{"a": "A0"}), succ(obj{"b": "B1"}), succ(obj{})}, ps0: map[string]string{"Id": "1"}})
	return res
}

// ---------- exhaustive small scope ----------

func pathOfDepth(j, d int) []string {
	switch d {
	case 1:
		return []string{fmt.Sprintf("k%d", j)}
	case 2:
		return []string{fmt.Sprintf("o%d", j), "k"}
	}
	return []string{fmt.Sprintf("o%d", j), "n", "k"}
}

func exhaustive(cfg out.Config, emit func(scenario)) int {
	variants := 6
	if cfg.Thorough() {
		variants = 20
	}
	count := 0
	for n := 2; n <= 5; n++ {
		for pos := 0; pos <= n; pos++ {
			kinds := 5
			if pos == n {
				kinds = 1
			}
			for kind := 0; kind < kinds; kind++ {
				for v := 0; v < variants; v++ {
					for lvl := 0; lvl <= 1; lvl++ {
						sc := scenario{lvl: lvl, kind: "exhaustive", unsafe: v%2 == 1}
						sc.ps0 = map[string]string{"Id": "42", "Name": "n m"}
						if lvl == 0 && v%3 == 0 {
							sc.ps0 = map[string]string{}
						}
						for j := 0; j < n; j++ {
							var d obj
							if v%5 == 4 && j%2 == 1 {
								// a non scalar where the scalar is expected
								d = obj{fmt.Sprintf("k%d", j): nonScalars[(v+j)%len(nonScalars)],
									fmt.Sprintf("o%d", j): obj{"k": nonScalars[(v+j+1)%len(nonScalars)], "n": obj{"k": nonScalars[(v+j+2)%len(nonScalars)]}}}
							} else {
								d = obj{fmt.Sprintf("k%d", j): scalar(lvl, v*7+j*3+1),
									fmt.Sprintf("o%d", j): obj{"k": scalar(lvl, v*7+j*3+2), "n": obj{"k": scalar(lvl, v*7+j*3+3)}}}
							}
							if v%4 == 2 {
								d["id"] = scalar(lvl, v+j) // a key every answer offers
							}
							if j == pos {
								sc.outs = append(sc.outs, badOutcome(kind, j, d))
							} else {
								sc.outs = append(sc.outs, succ(d))
							}
							t := tmpl{lit(fmt.Sprintf("/b%d", j))}
							if j == 0 && v%2 == 1 && len(sc.ps0) > 0 {
								t = append(t, lit("/"), phole("Id"))
							}
							for i := 0; i < j; i++ {
								t = append(t, lit("/"), hole(i, pathOfDepth(i, (i+j+v)%3+1)...))
							}
							if v%4 == 3 {
								t = append(t, lit("/"), hole(j, pathOfDepth(j, 1)...), lit("/"), hole(j+1, pathOfDepth(j+1, 2)...))
							}
							if v%4 == 2 && j >= 1+(v/4)%2 {
								t = append(t, lit("/"), hole(0, "id"))
							}
							sc.ts = append(sc.ts, t)
						}
						emit(sc)
						count++
					}
				}
			}
		}
	}
	return count
}

// ---------- random ----------

var keyPool = []string{"a", "b", "c", "id", "x-y", "K_1", "n", "k"}

func randDoc(r *rng.R, lvl, j, depth int) obj {
	d := obj{}
	m := r.Intn(5)
	for x := 0; x < m; x++ {
		k := keyPool[r.Intn(len(keyPool))]
		if r.Chance(1, 2) {
			k = fmt.Sprintf("%s%d", k, j) // mostly keys of its own
		}
		switch {
		case depth < 3 && r.Chance(1, 3):
			d[k] = randDoc(r, lvl, j, depth+1)
		case r.Chance(1, 6):
			d[k] = deepCopy(nonScalars[r.Intn(len(nonScalars))])
		default:
			d[k] = scalar(lvl, r.Intn(1000))
		}
	}
	return d
}

type pv struct {
	p []string
	v interface{}
}

func collect(d obj, prefix []string, acc *[]pv) {
	ks := make([]string, 0, len(d))
	for k := range d {
		ks = append(ks, k)
	}
	sortStrings(ks)
	for _, k := range ks {
		p := append(append([]string{}, prefix...), k)
		*acc = append(*acc, pv{p, d[k]})
		if m, ok := d[k].(obj); ok {
			collect(m, p, acc)
		}
	}
}

func sortStrings(a []string) {
	for i := 1; i < len(a); i++ {
		for j := i; j > 0 && a[j] < a[j-1]; j-- {
			a[j], a[j-1] = a[j-1], a[j]
		}
	}
}

func randomScenario(r *rng.R, lvl, maxN int) scenario {
	n := 2 + r.Intn(maxN-1)
	sc := scenario{lvl: lvl, kind: "random", unsafe: r.Bool()}
	sc.ps0 = map[string]string{"Id": fmt.Sprint(scalar(1, r.Intn(12))), "Name": fmt.Sprint(scalar(1, r.Intn(30)))}
	if lvl == 0 {
		if r.Chance(1, 3) {
			sc.ps0 = map[string]string{}
		} else if r.Chance(1, 3) {
			delete(sc.ps0, "Name")
		}
	}
	failAt := n
	if r.Chance(3, 5) {
		failAt = r.Intn(n)
	}
	for j := 0; j < n; j++ {
		d := randDoc(r, lvl, j, 1)
		if j == failAt {
			sc.outs = append(sc.outs, badOutcome(r.Intn(5), j, d))
		} else if j > failAt && r.Chance(1, 3) {
			sc.outs = append(sc.outs, badOutcome(r.Intn(5), j, d))
		} else {
			sc.outs = append(sc.outs, succ(d))
		}
	}
	for i := 0; i < n; i++ {
		t := tmpl{lit(fmt.Sprintf("/b%d", i))}
		m := r.Intn(5)
		for x := 0; x < m; x++ {
			sep := "/"
			if r.Chance(1, 8) {
				sep = []string{"-", "", "/p/", "?q="}[r.Intn(4)]
			}
			if sep != "" {
				t = append(t, lit(sep))
			}
			j := r.Intn(n + 1)
			if i > 0 && r.Chance(3, 4) {
				j = r.Intn(i)
			}
			var paths []pv
			if j < n && sc.outs[j].kind == 0 && sc.outs[j].data != nil {
				collect(sc.outs[j].data, nil, &paths)
			}
			switch c := r.Intn(10); {
			case c < 6 && len(paths) > 0: // an existing path (scalar or not)
				t = append(t, hole(j, paths[r.Intn(len(paths))].p...))
			case c < 7 && len(paths) > 0: // partially missing: existing prefix, then unknown segments
				p := append([]string{}, paths[r.Intn(len(paths))].p...)
				p = append(p[:r.Intn(len(p))+1:len(p)], keyPool[r.Intn(len(keyPool))])
				if r.Bool() {
					p = append(p, keyPool[r.Intn(len(keyPool))])
				}
				t = append(t, hole(j, p...))
			case c < 8: // unknown path
				p := []string{keyPool[r.Intn(len(keyPool))]}
				for r.Chance(1, 2) && len(p) < 4 {
					p = append(p, keyPool[r.Intn(len(keyPool))])
				}
				t = append(t, hole(j, p...))
			case c < 9:
				t = append(t, phole([]string{"Id", "Name"}[r.Intn(2)]))
			default:
				t = append(t, lit([]string{"static", "v1", "a.b", "x_y"}[r.Intn(4)]))
			}
		}
		// level 1: every endpoint parameter used must exist (Init rejects the others)
		sc.ts = append(sc.ts, t)
	}
	if lvl == 0 && r.Chance(1, 10) {
		sc.prop = [][]string{{"resp0_a"}, {"resp0_a0.b", "resp1_id"}, {"resp0"}, {"Resp0_k", "junk"}}[r.Intn(4)]
	}
	return sc
}

// values and parameters with braces, empty path segments, parameters named like destinations;
// every scenario keeps the textual replacement independent of the map iteration order (at
// most one parameter value contains an opening brace and no key can be completed by a value)
func malformedScenario(r *rng.R) scenario {
	sc := scenario{lvl: 0, kind: "malformed", unsafe: r.Bool(), ps0: map[string]string{}}
	braces := []string{"{x}", "}}", "{", "a{b}c", "{{", "{.Id}", "}", "{{.}}"}
	v := braces[r.Intn(len(braces))]
	switch r.Intn(4) {
	case 0: // a braced value propagated from a response
		sc.ts = []tmpl{{lit("/b0")}, {lit("/b1/"), hole(0, "a"), lit("/t")}, {lit("/b2/"), hole(0, "a"), lit("/"), hole(1, "b")}}
		sc.outs = []outcome{succ(obj{"a": v}), succ(obj{"b": "plain"}), succ(obj{})}
	case 1: // empty path segments and a leading/trailing dot
		sc.ts = []tmpl{{lit("/b0")}, {lit("/b1/"), hole(0, "a", "", "b"), lit("/"), hole(0, "", "a"), lit("/"), hole(0, "a", "")}}
		sc.outs = []outcome{succ(obj{"a": obj{"": obj{"b": "deep"}, "b": "shallow"}, "": obj{"a": "under-empty"}}), succ(obj{})}
	case 2: // an endpoint parameter named like a destination: overwritten when the path exists, used otherwise
		sc.ps0 = map[string]string{"Resp0_a": "evil", "Resp0_zz": "kept", "Resp1_a": "early"}
		sc.ts = []tmpl{{lit("/b0/"), hole(1, "a")}, {lit("/b1/"), hole(0, "a"), lit("/"), hole(0, "zz")}, {lit("/b2/"), hole(1, "a")}}
		sc.outs = []outcome{succ(obj{"a": "real0"}), succ(obj{"a": "real1"}), succ(obj{})}
	default: // literal text that looks like a placeholder of an absent parameter, braces in a literal
		sc.ps0 = map[string]string{"Id": v}
		sc.ts = []tmpl{{lit("/b0/{{.Nope}}/"), phole("Id")}, {lit("/b1/{x}/"), hole(0, "a")}}
		sc.outs = []outcome{succ(obj{"a": "A"}), succ(obj{})}
	}
	if r.Chance(1, 3) {
		k := r.Intn(len(sc.outs))
		sc.outs[k] = badOutcome(r.Intn(5), k, sc.outs[k].data)
	}
	return sc
}
