package main

// sequential_propagated_params: values of earlier answers written into request.Params of
// every later backend whether or not its url_pattern mentions them. The stubs record the
// Params they are called with; the extended model (seq_run_x) predicts them.

import (
	"fmt"
	"strings"

	"verif/harness/internal/out"
	"verif/harness/internal/rng"
)

type propRef struct {
	j int
	p []string
}

func (p propRef) text(capital bool) string {
	r := "resp"
	if capital {
		r = "Resp"
	}
	return fmt.Sprintf("%s%d_%s", r, p.j, strings.Join(p.p, "."))
}

func propScenario(r *rng.R, n int, refs []propRef, withHoles bool, kind string) scenario {
	sc := scenario{lvl: 0, kind: kind, unsafe: r.Bool(), ps0: map[string]string{"Id": fmt.Sprint(scalar(1, r.Intn(12)))}}
	if r.Chance(1, 4) {
		sc.ps0 = map[string]string{}
	}
	for j := 0; j < n; j++ {
		d := obj{"id": scalar(0, r.Intn(1000)), "o": obj{"k": scalar(0, r.Intn(1000)), "n": obj{"k": scalar(0, r.Intn(1000))}},
			"l": deepCopy(nonScalars[r.Intn(len(nonScalars))]), fmt.Sprintf("k%d", j): scalar(0, r.Intn(1000))}
		sc.outs = append(sc.outs, succ(d))
		t := tmpl{lit(fmt.Sprintf("/b%d", j))}
		if withHoles && j > 0 {
			t = append(t, lit("/"), hole(j-1, "id"))
			if len(refs) > 0 && r.Bool() {
				x := refs[r.Intn(len(refs))]
				t = append(t, lit("/"), hole(x.j, x.p...))
			}
		}
		sc.ts = append(sc.ts, t)
	}
	if r.Chance(1, 3) {
		k := r.Intn(n)
		sc.outs[k] = badOutcome(r.Intn(5), k, sc.outs[k].data)
	}
	sc.propHoles = refs
	for i, x := range refs {
		sc.prop = append(sc.prop, x.text(i%3 == 2))
	}
	return sc
}

func propStream(cfg out.Config, r *rng.R, w *out.Writer) int {
	count := 0
	paths := [][]string{{"id"}, {"o", "k"}, {"o", "n", "k"}, {"l"}, {"o"}, {"nope"}, {"o", "nope", "k"}, {"id", "k"}, {"k1"}, {"x-y", "K_1"}}
	// corpus
	for _, withHoles := range []bool{false, true} {
		for n := 2; n <= 4; n++ {
			refs := []propRef{{0, paths[0]}, {0, paths[1]}, {1, paths[2]}, {0, paths[3]}, {n - 1, paths[0]}, {n, paths[0]}, {9, paths[0]}, {0, paths[6]}, {1, paths[5]}}
			emitCase(w, propScenario(r, n, refs, withHoles, "propagated:corpus"))
			count++
		}
	}
	nr := 60
	if cfg.Thorough() {
		nr = 1200
	}
	for k := 0; k < nr; k++ {
		n := 2 + r.Intn(4)
		var refs []propRef
		for x := r.Intn(5); x >= 0; x-- {
			refs = append(refs, propRef{r.Intn(n + 2), paths[r.Intn(len(paths))]})
		}
		emitCase(w, propScenario(r, n, refs, r.Bool(), "propagated:random"))
		count++
	}
	return count
}
