package main

// HTTP stream: sequential endpoints whose backends are the real HTTP proxy
// (proxy.NewHTTPProxyWithHTTPExecutor) over a stub executor that returns a chosen status,
// body and content type; status handling in the three modes of the backend configuration.

import (
	"bytes"
	"encoding/json"
	"fmt"
	"strings"

	"github.com/luraproject/lura/v2/config"
	"github.com/luraproject/lura/v2/transport/http/client"

	"verif/harness/internal/emit"
	"verif/harness/internal/out"
	"verif/harness/internal/rng"
)

type hback struct {
	mode int // 0 default, 1 return_error_code, 2 return_error_details
	name string
	code int
	body string
	enc  string
}

func (h hback) extra() config.ExtraConfig {
	switch h.mode {
	case 1:
		return config.ExtraConfig{client.Namespace: map[string]interface{}{"return_error_code": true}}
	case 2:
		return config.ExtraConfig{client.Namespace: map[string]interface{}{"return_error_details": h.name}}
	}
	return config.ExtraConfig{}
}

// an independent decoding of the body (json.Number kept), nil when it is not a JSON object
func (h hback) decoded() map[string]interface{} {
	d := json.NewDecoder(strings.NewReader(h.body))
	d.UseNumber()
	var m map[string]interface{}
	if err := d.Decode(&m); err != nil {
		return nil
	}
	return m
}

func (h hback) coq() string {
	mode := "HDefault"
	switch h.mode {
	case 1:
		mode = "HErrorCode"
	case 2:
		mode = emit.App("HDetails", emit.Str(h.name))
	}
	return emit.Pair(mode, fmt.Sprintf("{| h_code := %s; h_body := %s; h_enc := %s; h_decoded := %s |}",
		emit.Z(int64(h.code)), emit.Str(h.body), emit.Str(h.enc), emit.OptObj(h.decoded())))
}

func (h hback) js() interface{} {
	return map[string]interface{}{"mode": []string{"default", "return_error_code", "return_error_details:" + h.name}[h.mode],
		"status": h.code, "body": h.body, "content_type": h.enc}
}

// what the statement calls the outcome of the step (used for the distribution counters and
// the error tags only; the Coq side classifies the reply itself)
func (h hback) outcome(i int) outcome {
	if h.code == 200 || h.code == 201 {
		return succ(h.decoded())
	}
	switch h.mode {
	case 2:
		return outcome{kind: 0, data: obj{"error_" + h.name: true}, complete: false}
	}
	return outcome{kind: 1, tag: fmt.Sprintf("status%d@%d", h.code, i)}
}

func lvlName(sc scenario) int {
	if sc.hb != nil {
		return 2
	}
	return sc.lvl
}

func normaliseData(d map[string]interface{}) map[string]interface{} {
	if d == nil {
		return nil
	}
	b, err := json.Marshal(d)
	if err != nil {
		return map[string]interface{}{"<unserialisable>": err.Error()}
	}
	dec := json.NewDecoder(bytes.NewReader(b))
	dec.UseNumber()
	var m map[string]interface{}
	if err := dec.Decode(&m); err != nil {
		return map[string]interface{}{"<unserialisable>": err.Error()}
	}
	return m
}

var httpStatuses = []int{100, 101, 199, 200, 201, 202, 204, 299, 301, 302, 304, 400, 401, 403, 404, 405, 429, 499, 500, 502, 503, 504, 599, 418}

var failBodies = []struct{ body, enc string }{
	{`{"msg":"not here","id":"FAIL"}`, "application/json"},
	{"plain failure text", "text/plain"},
	{"", ""},
	{`{"id":"from-a-failed-backend"}`, ""},
}

func httpScenario(n, pos, mode, code, v int, kind string) scenario {
	sc := scenario{lvl: 1, kind: kind, ps0: map[string]string{"Id": "42", "Name": "n m"}}
	for j := 0; j < n; j++ {
		h := hback{mode: 0, code: 200 + (j+v)%2, enc: "application/json",
			body: fmt.Sprintf(`{"id":"u%d-%d","k%d":%d,"o":{"k":"v%d"}}`, j, v, j, j*7+v, j)}
		if (j+v)%3 == 1 {
			// successful backends are configured in the other modes too
			h.mode, h.name = 1+(j+v)%2, fmt.Sprintf("ok%d", j)
		}
		if j == pos {
			fb := failBodies[(code+mode+v)%len(failBodies)]
			h = hback{mode: mode, name: fmt.Sprintf("n%d", j), code: code, body: fb.body, enc: fb.enc}
			if code == 200 || code == 201 {
				h.body, h.enc = fmt.Sprintf(`{"id":"s%d","k%d":true}`, code, j), "application/json"
			}
		}
		sc.hb = append(sc.hb, h)
		t := tmpl{lit(fmt.Sprintf("/b%d", j))}
		for i := 0; i < j; i++ {
			t = append(t, lit("/"), hole(i, "id"))
		}
		if j > 0 && v%2 == 1 {
			t = append(t, lit("/"), hole(j-1, "o", "k"), lit("/"), phole("Id"))
		}
		sc.ts = append(sc.ts, t)
	}
	for j, h := range sc.hb {
		sc.outs = append(sc.outs, h.outcome(j))
	}
	return sc
}

func httpStream(cfg out.Config, r *rng.R, w *out.Writer) int {
	count := 0
	maxN := 3
	if cfg.Thorough() {
		maxN = 5
	}
	for n := 2; n <= maxN; n++ {
		for pos := 0; pos < n; pos++ {
			for mode := 0; mode < 3; mode++ {
				for ci, code := range httpStatuses {
					emitCase(w, httpScenario(n, pos, mode, code, ci+pos+n, "http:status"))
					count++
				}
			}
		}
	}
	// random status codes over the whole range
	nr := 60
	if cfg.Thorough() {
		nr = 1500
	}
	for k := 0; k < nr; k++ {
		n := 2 + r.Intn(maxN-1)
		emitCase(w, httpScenario(n, r.Intn(n), r.Intn(3), 100+r.Intn(500), r.Intn(50), "http:random-status"))
		count++
	}
	// one instance per mode serving replies of different status one after the other
	for mode := 0; mode < 3; mode++ {
		for pos := 0; pos < 3; pos++ {
			var seq []scenario
			for s, code := range []int{200, 404, 503, 429, 201, 404} {
				sc := httpScenario(3, pos, mode, code, 4, "reuse:http-status")
				sc.step = fmt.Sprintf("http-mode%d-pos%d/%d", mode, pos, s+1)
				seq = append(seq, sc)
			}
			in := newInstance(seq[0])
			for _, sc := range seq {
				buildCase(sc, in.call(sc)).add(w)
				count++
			}
		}
	}
	return count
}
