package main

import (
	"fmt"
	"net/textproto"
	"strings"

	"verif/harness/internal/emit"
	"verif/harness/internal/rng"
)

func L(xs ...string) []string { return xs }

func P(kv ...string) [][2]string {
	var res [][2]string
	for i := 0; i+1 < len(kv); i += 2 {
		res = append(res, [2]string{kv[i], kv[i+1]})
	}
	return res
}

// ---- regression corpus --------------------------------------------------------------

func corpus(g *gen) {
	i := 0
	each := func(cs cfgSpec, reqs ...reqSpec) {
		// every corpus configuration runs under every adapter
		for _, a := range adapters {
			cs.adapter = a
			g.run("corpus", cs, reqs)
		}
		i++
	}
	// F-C08a: duplicate names in the backend list, one listed header present next to a secret
	each(cfgSpec{epH: L("*"), epQ: L("*"), bes: []beSpec{{h: L("x-a", "X-A"), q: L("x", "x")}}},
		reqSpec{lines: P("X-A", "1", "Cookie", "session=secret"), query: P("x", "1", "y", "2")},
		reqSpec{lines: P("Cookie", "session=secret"), query: P("y", "2")},
		reqSpec{lines: P("x-a", "1", "X-a", "2"), query: P("x", "1", "x", "")})
	// the same with the duplicate spelled identically, and with enough duplicates to reach the
	// size of the request map (the gateway adds three headers of its own)
	each(cfgSpec{epH: L("X-A", "Cookie", "Authorization"), epQ: L("x", "y", "z"), bes: []beSpec{{h: L("X-A", "X-A", "X-A", "X-A", "X-A"), q: L("x", "x", "x")}}},
		reqSpec{lines: P("X-A", "1", "Cookie", "c=1", "Authorization", "Bearer t"), query: P("x", "1", "y", "2", "z", "3")},
		reqSpec{lines: P("X-A", "1", "Cookie", "c=1"), query: P("x", "1", "y", "2")})
	// F-C08b: backend query list, client sends a listed and an unlisted parameter
	each(cfgSpec{epQ: L("*"), bes: []beSpec{{q: L("x")}}},
		reqSpec{query: P("x", "1", "y", "2")},
		reqSpec{query: P("y", "2")},
		reqSpec{query: P("x", "1")})
	each(cfgSpec{epQ: L("x", "y"), bes: []beSpec{{q: L("y"), static: "s=1&x=0"}}},
		reqSpec{query: P("x", "1", "y", "2", "y", "", "z", "9")})
	// wildcard in every position of the endpoint lists
	for _, l := range [][]string{L("*"), L("X-A", "*"), L("*", "X-A"), L("X-B", "*", "X-A"), L("x-b", "X-A")} {
		var q []string
		for _, x := range l {
			q = append(q, strings.ToLower(strings.TrimPrefix(strings.TrimPrefix(x, "X-"), "x-")))
		}
		each(cfgSpec{epH: l, epQ: q, bes: []beSpec{{}}},
			reqSpec{lines: P("x-a", "1", "X-B", "2", "x-c", "3", "X-A", "4"), query: P("a", "1", "b", "2", "c", "3", "a", "4")})
	}
	// no endpoint list: the default header list (Content-Type), nothing from the query
	each(cfgSpec{bes: []beSpec{{}, {h: L("content-type")}}},
		reqSpec{lines: P("content-type", "text/plain", "Accept", "*/*", "Cookie", "c"), query: P("a", "1")})
	each(cfgSpec{method: "POST", bes: []beSpec{{}}},
		reqSpec{lines: P("Content-Type", "application/json", "X-A", "1"), body: `{"k":1}`, query: P("a", "1")})
	// gateway-owned names sent by the client, allowed or not
	each(cfgSpec{epH: L("User-Agent", "X-Forwarded-Via", "X-Forwarded-Host", "X-Forwarded-For"), bes: []beSpec{{}}},
		reqSpec{lines: P("User-Agent", "curl/8", "X-Forwarded-Via", "proxy-1", "X-Forwarded-Host", "evil.example")},
		reqSpec{lines: P("X-Forwarded-Via", "proxy-1")},
		reqSpec{lines: P("user-agent", "curl/8", "X-Forwarded-For", "10.0.0.1, 10.0.0.2")})
	each(cfgSpec{epH: L("*"), bes: []beSpec{{h: L("User-Agent")}, {h: L("X-Forwarded-For", "X-A")}}},
		reqSpec{lines: P("User-Agent", "curl/8", "X-A", "1", "X-Real-Ip", "10.1.1.1")},
		reqSpec{lines: P("X-A", "1")})
	each(cfgSpec{epH: L("X-A"), bes: []beSpec{{h: L("X-B")}}},
		reqSpec{lines: P("X-A", "1", "X-B", "2")})
	// '*' in a backend list is a literal name; a client may send a header / parameter called '*'
	each(cfgSpec{epH: L("*"), epQ: L("*"), bes: []beSpec{{h: L("*"), q: L("*")}}},
		reqSpec{lines: P("X-A", "1", "*", "star"), query: P("a", "1", "*", "star")},
		reqSpec{lines: P("X-A", "1"), query: P("a", "1")})
	// names that differ only in case (query names are case sensitive, header names are not)
	each(cfgSpec{epH: L("x-a"), epQ: L("a"), bes: []beSpec{{h: L("X-a"), q: L("A")}, {h: L("X-A"), q: L("a")}}},
		reqSpec{lines: P("X-A", "1", "x-A", "2"), query: P("a", "1", "A", "2")})
	each(cfgSpec{epH: L("*"), epQ: L("*"), bes: []beSpec{{h: L("x-a"), q: L("a")}, {q: L("A", "b")}}},
		reqSpec{lines: P("X-A", "1"), query: P("A", "2", "a", "1")},
		reqSpec{query: P("A", "2")},
		reqSpec{query: P("a", "1", "B", "3")})
	// the empty name: a backend list [""] declares a list that allows no real header (the documented
	// way to block every header); "" in a query list matches only the parameter with the empty name
	for _, l := range [][]string{L(""), L("", ""), L(" "), L("", "X-A"), L(" ", "")} {
		var q []string
		for _, x := range l {
			if x == "X-A" {
				x = "a"
			}
			q = append(q, x)
		}
		each(cfgSpec{epH: L("*"), epQ: L("*"), bes: []beSpec{{h: l, q: q}, {}}},
			reqSpec{lines: P("X-A", "1", "Cookie", "session=secret"), query: P("a", "1", "", "empty-name", "y", "2")},
			reqSpec{query: P(" ", "blank-name", "", "e1", "", "e2")},
			reqSpec{lines: P("Authorization", "Bearer t")})
		each(cfgSpec{epH: l, epQ: q, bes: []beSpec{{}, {h: L("X-A"), q: L("a")}}},
			reqSpec{lines: P("X-A", "1", "Content-Type", "text/plain"), query: P("a", "1", "", "empty-name", " ", "blank")},
			reqSpec{lines: P("Cookie", "c")})
	}
	// several GET backends with DIFFERENT backend-level lists, sequential and parallel merge: every
	// backend gets its own allowed headers / parameters whatever its siblings filtered before or meanwhile
	for _, seq := range []bool{true, false} {
		each(cfgSpec{sequential: seq, epH: L("X-A", "X-B"), epQ: L("a", "b"), bes: []beSpec{{h: L("X-A"), q: L("a")}, {h: L("X-B"), q: L("b")}}},
			reqSpec{lines: P("X-A", "1", "X-B", "2"), query: P("a", "1", "b", "2")},
			reqSpec{lines: P("X-B", "3"), query: P("b", "3")})
		each(cfgSpec{sequential: seq, epH: L("*"), epQ: L("*"), bes: []beSpec{{h: L("X-A"), q: L("a")}, {}, {h: L("Cookie", "X-Forwarded-For"), q: L("y")}}},
			reqSpec{lines: P("X-A", "1", "Cookie", "c=1", "User-Agent", "curl/8"), query: P("a", "1", "y", "2")},
			reqSpec{lines: P("Cookie", "c=2")})
		each(cfgSpec{sequential: seq, bes: []beSpec{{h: L("")}, {h: L("Content-Type")}, {}}},
			reqSpec{lines: P("Content-Type", "text/plain", "X-A", "1"), query: P("a", "1")})
	}
	// names whose canonical form is not their title case: a segment starting with a digit, the token
	// punctuation (textproto.CanonicalMIMEHeaderKey touches letters after '-' only)
	odd := L("x-3scale-proxy-secret-token", "X-1st-value", "9-lives", "x+plus", "x~tilde-y", "x!bang", "x#h", "x$d", "x%p", "x&a", "x'q", "x^c", "x`b", "x|p", "x.y-z", "x_u-v", "a-*b")
	var oddLines [][2]string
	for i, n := range odd {
		oddLines = append(oddLines, [2]string{n, fmt.Sprintf("v%d", i)})
	}
	each(cfgSpec{epH: L("*"), bes: []beSpec{{h: odd}, {}}}, reqSpec{lines: oddLines}, reqSpec{lines: oddLines[:3]})
	each(cfgSpec{epH: odd, bes: []beSpec{{}, {h: L("X-3SCALE-PROXY-SECRET-TOKEN", "X+PLUS", "X~TILDE-Y", "9-LIVES")}}}, reqSpec{lines: oddLines})
	each(cfgSpec{epH: L("X-3Scale-Proxy-Secret-Token", "X~Tilde-Y"), bes: []beSpec{{h: L("X-3Scale-Proxy-Secret-Token")}}},
		reqSpec{lines: P("x-3scale-proxy-secret-token", "s3cr3t", "x~tilde-y", "t")})
	// GraphQL backends: the allow lists apply as for a plain backend; the stage's own Content-Type /
	// Content-Length (and, GET transport, query / operationName / variables) replace the client's
	for v := 0; v < 4; v++ {
		for _, tr := range []string{"post", "get"} {
			each(cfgSpec{epH: L("*"), epQ: L("*"), bes: []beSpec{{gql: tr, gqlVar: v, h: L("X-A", "Content-Type"), q: L("a", "query", "variables"), static: "s=1"}}},
				reqSpec{lines: P("X-A", "1", "Cookie", "c", "Content-Type", "text/plain"), query: P("a", "1", "query", "{evil}", "variables", "{}", "operationName", "Evil", "y", "2")},
				reqSpec{query: P("operationName", "Evil")})
		}
	}
	each(cfgSpec{epH: L("Content-Type", "Content-Length", "X-A"), epQ: L("query", "a"), bes: []beSpec{{gql: "get", gqlVar: 3}, {gql: "post", gqlVar: 1, h: L("")}, {h: L("X-A")}}},
		reqSpec{lines: P("X-A", "1", "Content-Type", "text/plain"), query: P("a", "1", "query", "{evil}")})
	each(cfgSpec{bes: []beSpec{{gql: "post"}}}, reqSpec{lines: P("Content-Type", "text/plain", "X-A", "1"), query: P("query", "{evil}")})
	// a malformed piece anywhere in the client's query text (bad escape, semicolon) - listed or not -
	// does not keep the allowed and present parameters from the backend
	for _, junk := range [][]string{{"b=%ZZ"}, {"zz=1;y=2"}, {"%zz=1", "a=%4"}, {"x=1;", "%"}} {
		each(cfgSpec{epQ: L("a", "b"), bes: []beSpec{{}, {q: L("a")}}},
			reqSpec{query: P("a", "1", "b", "2", "c", "3"), junk: junk},
			reqSpec{query: P("a", "1"), junk: junk[:1]})
		each(cfgSpec{epQ: L("*"), bes: []beSpec{{q: L("a", "c"), static: "s=1"}}},
			reqSpec{query: P("a", "1", "a", "", "c", "x y"), junk: junk})
	}
	// the query written in url_pattern reaches the backend as written: repeated slashes, an URL as a value
	for _, st := range []string{"assets=//cdn.example.com/static", "prefix=a//b///c", "u=http://h.example//x", "p=/&q=//&r=:///"} {
		each(cfgSpec{epQ: L("a"), bes: []beSpec{{static: st}, {static: st, q: L("a")}}},
			reqSpec{query: P("a", "//v//")})
	}
	// gateway-owned names sent by the client and NOT listed: the backend gets the gateway's values
	// (the Host addressed, the gateway's agent string), never the client's
	each(cfgSpec{epH: L("X-A"), bes: []beSpec{{}, {h: L("X-Forwarded-Host", "User-Agent", "X-Forwarded-Via")}}},
		reqSpec{lines: P("X-Forwarded-Host", "evil.example", "User-Agent", "curl/8", "X-Forwarded-Via", "proxy-1", "X-A", "1"), host: "gw.example:8080"},
		reqSpec{lines: P("x-forwarded-host", "evil.example")})
	each(cfgSpec{bes: []beSpec{{}}}, reqSpec{lines: P("X-Forwarded-Host", "evil.example", "X-Forwarded-Via", "proxy-1")})
	// static query shares a key with a forwarded parameter; reserved characters; empty values
	each(cfgSpec{epQ: L("a", "k&=", "e"), bes: []beSpec{{static: "a=0&s=x+y&a=%26"}}},
		reqSpec{query: P("a", "1", "k&=", "v&=?#", "e", "", "e", "", "a", " 2")})
	// concurrent calls: every attempt gets the same headers and query
	each(cfgSpec{epH: L("X-A", "Cookie"), epQ: L("a"), concurrent: 3, bes: []beSpec{{h: L("X-A"), q: L("a")}}},
		reqSpec{lines: P("X-A", "1", "Cookie", "c"), query: P("a", "1", "b", "2")})
	g.w.Meta["corpus_configurations"] = i
}

// ---- exhaustive small scope ------------------------------------------------------------

func lists(alphabet []string, maxLen int) [][]string {
	res := [][]string{{}}
	level := [][]string{{}}
	for n := 1; n <= maxLen; n++ {
		var next [][]string
		for _, l := range level {
			for _, a := range alphabet {
				next = append(next, append(append([]string{}, l...), a))
			}
		}
		res = append(res, next...)
		level = next
	}
	return res
}

// abstract symbol -> header name (spelling varies with v) / query name
func hname(sym string, v int) string {
	switch sym {
	case "A":
		return []string{"X-A", "x-a", "x-A"}[v%3]
	case "B":
		return []string{"X-B", "X-b"}[v%2]
	case "C":
		return []string{"Cookie", "cookie", "COOKIE"}[v%3]
	case "E":
		return ""
	}
	return sym
}

func qname(sym string) string {
	if sym == "*" {
		return sym
	}
	if sym == "E" {
		return ""
	}
	return strings.ToLower(sym)
}

func hasSym(l []string, sym string) bool {
	for _, x := range l {
		if x == sym {
			return true
		}
	}
	return false
}

func mapList(l []string, f func(string) string) []string {
	res := make([]string, len(l))
	for i, x := range l {
		res[i] = f(x)
	}
	return res
}

func exhaustive(g *gen) {
	var reqs [][]string // subsets of {A,B,C}
	for m := 0; m < 8; m++ {
		var s []string
		for i, x := range []string{"A", "B", "C"} {
			if m&(1<<i) != 0 {
				s = append(s, x)
			}
		}
		reqs = append(reqs, s)
	}
	n := 0
	one := func(ep, be []string, adapter string) {
		v := n
		cs := cfgSpec{adapter: adapter,
			epH: mapList(ep, func(s string) string { return hname(s, v) }), epQ: mapList(ep, qname),
			bes: []beSpec{{h: mapList(be, func(s string) string { return hname(s, v+1) }), q: mapList(be, qname)}}}
		var rs []reqSpec
		withE := hasSym(ep, "E") || hasSym(be, "E")
		for j, s := range reqs {
			if withE && j != 0 && j != 1 && j != 3 && j != 4 && j != 7 {
				continue // lists with the empty name: 5 of the 8 client subsets
			}
			var rq reqSpec
			if withE && j%2 == 1 {
				// a client can send a parameter with the empty name (?=v); there is no empty header name
				rq.query = append(rq.query, [2]string{"", "qE"})
			}
			for _, x := range s {
				rq.lines = append(rq.lines, [2]string{hname(x, v+j), "h" + x})
				rq.query = append(rq.query, [2]string{qname(x), "q" + x})
			}
			rs = append(rs, rq)
		}
		g.run("exhaustive", cs, rs)
		n++
	}
	ls := lists([]string{"A", "B", "*", "E"}, 2) // E = the empty name ""
	for _, ep := range ls {
		for _, be := range ls {
			if g.cfg.Thorough() {
				for _, a := range adapters {
					one(ep, be, a)
				}
			} else if n%2 == 0 {
				// two builders exist: gin's own, and the one shared by the other five adapters
				one(ep, be, "Gin")
			} else {
				one(ep, be, adapters[1+(n/2)%(len(adapters)-1)])
			}
		}
	}
	if g.cfg.Thorough() {
		// longer lists with duplicates
		l3 := lists([]string{"A", "B"}, 3)
		for _, ep := range [][]string{{"*"}, {"A", "B", "C"}, {"A", "C"}} {
			for _, be := range l3 {
				one(ep, be, adapters[n%len(adapters)])
			}
		}
		for _, ep := range l3 {
			for _, be := range [][]string{{}, {"A"}, {"A", "A"}, {"B", "C"}} {
				one(ep, be, adapters[n%len(adapters)])
			}
		}
	}
	g.w.Meta["exhaustive_configurations"] = n
}

// ---- structured random ------------------------------------------------------------------

var headerPool = []string{"X-A", "X-B", "X-C", "Cookie", "Authorization", "Content-Type", "User-Agent", "Accept",
	"X-Forwarded-For", "X-Forwarded-Host", "X-Forwarded-Via", "X-Real-Ip", "X-Custom-Id", "Etag", "X_Under", "x.dot", "X-A-B-c", "X-*", "*", "", " ",
	"x-3scale-proxy-secret-token", "X-1st-value", "9-lives", "x+plus", "x~tilde-y", "x!bang", "x#h", "x$d", "x%p", "x&a", "x'q", "x^c", "x`b", "x|p", "x_u-v"}
var headerValues = []string{"v1", "v2", "a, b", "text/plain", "Mozilla/5.0 (X11)", "1.2.3.4", "", "k=v; x=y", "\xc3\xa9t\xc3\xa9", "*"}
var queryKeys = []string{"query", "variables", "operationName", "a", "b", "c", "A", "id", "q", "x y", "k&=", "\xc3\xa4", "*", "", "a.b", "X-A", "a*", " ", ""}
var queryValues = []string{"1", "2", "", "x y", "a&b=c", "%41", "\xc3\xbc", "+", "v", "#?/"}
var statics = []string{"", "", "", "s=1", "a=0", "a=0&s=1&a=9", "x+y=1%262", "*=7", "b=&c", "assets=//cdn.example.com/x", "p=a//b&u=http://h//y"}

func randCase(r *rng.R, s string) string {
	b := []byte(s)
	for i, c := range b {
		if r.Chance(1, 3) {
			if c >= 'a' && c <= 'z' {
				b[i] = c - 32
			} else if c >= 'A' && c <= 'Z' {
				b[i] = c + 32
			}
		}
	}
	return string(b)
}

func randList(r *rng.R, pool []string, hdr bool, backend bool) []string {
	k := r.Intn(100)
	pEmpty := 20
	if backend {
		pEmpty = 40
	}
	if k < pEmpty {
		return nil
	}
	if !backend && k < pEmpty+12 {
		return []string{"*"}
	}
	n := 1 + r.Intn(5)
	var l []string
	for i := 0; i < n; i++ {
		x := pool[r.Intn(len(pool))]
		if x == "*" && !r.Chance(1, 4) {
			x = pool[r.Intn(3)]
		}
		if hdr {
			x = randCase(r, x)
		}
		l = append(l, x)
	}
	if r.Chance(1, 3) {
		// a duplicate: same spelling or (headers) another spelling
		x := l[r.Intn(len(l))]
		if hdr && r.Bool() {
			x = randCase(r, x)
		}
		pos := r.Intn(len(l) + 1)
		l = append(l[:pos], append([]string{x}, l[pos:]...)...)
	}
	return l
}

func randReq(r *rng.R, cs cfgSpec) reqSpec {
	var rq reqSpec
	// names are drawn from the lists of the configuration as often as from the pool, so that
	// allowed and not allowed names both occur
	var listed []string
	listed = append(listed, cs.epH...)
	for _, b := range cs.bes {
		listed = append(listed, b.h...)
	}
	nl := r.Intn(8)
	for i := 0; i < nl; i++ {
		name := headerPool[r.Intn(len(headerPool))]
		if len(listed) > 0 && r.Bool() {
			name = listed[r.Intn(len(listed))]
		}
		if name == "*" && !r.Chance(1, 3) {
			name = "X-A"
		}
		name = randCase(r, name)
		if !validName(name) {
			continue
		}
		rq.lines = append(rq.lines, [2]string{name, headerValues[r.Intn(len(headerValues))]})
	}
	var listedQ []string
	listedQ = append(listedQ, cs.epQ...)
	for _, b := range cs.bes {
		listedQ = append(listedQ, b.q...)
	}
	nq := r.Intn(7)
	for i := 0; i < nq; i++ {
		k := queryKeys[r.Intn(len(queryKeys))]
		if len(listedQ) > 0 && r.Bool() {
			k = listedQ[r.Intn(len(listedQ))]
		}
		rq.query = append(rq.query, [2]string{k, queryValues[r.Intn(len(queryValues))]})
		if r.Chance(1, 4) {
			rq.query = append(rq.query, [2]string{k, queryValues[r.Intn(len(queryValues))]})
		}
	}
	if r.Chance(1, 6) {
		rq.junk = [][]string{{"b=%ZZ"}, {"zz=1;y=2"}, {"%zz=1", "a=%4"}, {"a=1;"}, {"%"}}[r.Intn(5)]
	}
	rq.host = []string{"gw.example", "gw.example:8080", "127.0.0.1:9000", "GW.Example"}[r.Intn(4)]
	if cs.method == "POST" {
		rq.body = []string{"hello", `{"a":1}`, "x"}[r.Intn(3)]
	}
	return rq
}

// names the harness may send as a header line: token characters only, and none of the
// names net/http treats specially (Host, Content-Length, Transfer-Encoding, ...)
func validName(n string) bool {
	if n == "" {
		return false
	}
	for i := 0; i < len(n); i++ {
		c := n[i]
		ok := c >= 'a' && c <= 'z' || c >= 'A' && c <= 'Z' || c >= '0' && c <= '9' || strings.IndexByte("!#$%&'*+-.^_`|~", c) >= 0
		if !ok {
			return false
		}
	}
	switch textproto.CanonicalMIMEHeaderKey(n) {
	case "Host", "Content-Length", "Transfer-Encoding", "Connection", "Trailer", "Expect", "Upgrade", "Te":
		return false
	}
	return true
}

func random(g *gen, r *rng.R) {
	n := 450
	if g.cfg.Thorough() {
		n = 5000
	}
	for i := 0; i < n; i++ {
		cs := cfgSpec{adapter: adapters[r.Intn(len(adapters))], method: "GET"}
		cs.epH = randList(r, headerPool, true, false)
		cs.epQ = randList(r, queryKeys, false, false)
		nb := 1
		if r.Chance(1, 4) {
			nb = 2 + r.Intn(2)
		}
		for b := 0; b < nb; b++ {
			cs.bes = append(cs.bes, beSpec{h: randList(r, headerPool, true, true), q: randList(r, queryKeys, false, true), static: statics[r.Intn(len(statics))]})
		}
		if nb == 1 && r.Chance(1, 7) {
			cs.method = "POST"
		}
		if nb > 1 && r.Chance(1, 3) {
			cs.sequential = true
		}
		if cs.method == "GET" && r.Chance(1, 8) {
			b := r.Intn(nb)
			cs.bes[b].gql = []string{"post", "get"}[r.Intn(2)]
			cs.bes[b].gqlVar = r.Intn(4)
		}
		if r.Chance(1, 10) {
			cs.concurrent = 2 + r.Intn(2)
		}
		var reqs []reqSpec
		for k := 0; k < 3; k++ {
			reqs = append(reqs, randReq(r, cs))
		}
		g.run("random", cs, reqs)
	}
	g.w.Meta["random_configurations"] = n
}

// ---- textproto.CanonicalMIMEHeaderKey against the model's canon ---------------------------

func canonCases(g *gen, r *rng.R) {
	add := func(s string) {
		e := textproto.CanonicalMIMEHeaderKey(s)
		g.w.Count("stream:canonical-mime-key")
		g.w.Add(emit.App("CCanon", emit.Str(s), emit.Str(e)), map[string]interface{}{"canonical_mime_header_key": s, "observed": e},
			"", "canon|"+s, e != s)
	}
	for c := 0; c < 256; c++ {
		add(string([]byte{byte(c)}))
		add("a" + string([]byte{byte(c)}) + "b")
	}
	alpha := []string{"a", "Z", "-", "_", " ", "1", ":", "\xc3\xa9", "*", "+", "~", "!"}
	for _, x := range alpha {
		for _, y := range alpha {
			add(x + y)
			for _, z := range alpha {
				add(x + y + z)
			}
		}
	}
	for _, p := range headerPool {
		add(p)
		add(strings.ToUpper(p))
		for k := 0; k < 4; k++ {
			add(randCase(r, p))
		}
	}
	// every token punctuation character and every digit at the start of a segment, inside one, and
	// right after '-'
	for _, c := range "!#$%&'*+.^_`|~0123456789" {
		x := string(c)
		for _, t := range []string{"%sab", "a%sb", "ab%s", "x-%sab", "x-a%sb-c", "X-%sAB-%scd", "%s-%s", "a-b%s-Cd"} {
			add(strings.ReplaceAll(t, "%s", x))
			add(strings.ToUpper(strings.ReplaceAll(t, "%s", x)))
		}
	}
	n := 100
	if g.cfg.Thorough() {
		n = 3000
	}
	for i := 0; i < n; i++ {
		l := 1 + r.Intn(12)
		b := make([]byte, l)
		for j := range b {
			switch r.Intn(8) {
			case 0:
				b[j] = '-'
			case 1:
				b[j] = byte(r.Intn(256))
			case 2:
				b[j] = byte('A' + r.Intn(26))
			default:
				b[j] = byte('a' + r.Intn(26))
			}
		}
		add(string(b))
	}
	_ = fmt.Sprint
}
