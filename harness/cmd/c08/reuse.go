package main

import (
	"bytes"
	"encoding/json"
	"fmt"
	"os"
	"os/exec"
	"sort"
)

// ---- instance reuse ------------------------------------------------------------------------
// The other streams already serve several requests through one router; these two make the
// orders telling and add concurrency: ONE router + proxy stack per configuration, (1) a
// sequence of requests in which consecutive requests differ in exactly what C08 speaks of
// (so that a header map / filtered set / "nothing to filter" decision kept from an earlier
// request shows), (2) the same instance hit from several goroutines.

type reuseCfg struct {
	cs   cfgSpec
	reqs []reqSpec
}

func reuseConfigs() []reuseCfg {
	return []reuseCfg{
		// backend lists, wildcard endpoint: shortcut (all listed) -> rebuild (secret next to listed)
		// -> other listed name -> nothing -> listed again with other values
		{cfgSpec{epH: L("*"), epQ: L("*"), bes: []beSpec{{h: L("X-A", "X-B"), q: L("a", "b")}}}, []reqSpec{
			{lines: P("X-A", "1"), query: P("a", "1")},
			{lines: P("X-A", "2", "Cookie", "session=secret"), query: P("a", "2", "y", "secret")},
			{lines: P("X-B", "3"), query: P("b", "3")},
			{},
			{lines: P("x-a", "4", "X-A", "5", "Authorization", "Bearer t"), query: P("a", "4", "a", "", "token", "t")},
			{lines: P("Cookie", "c2"), query: P("y", "2")},
		}},
		// the backend lists the gateway's own names too, so that "nothing to filter" really fires
		{cfgSpec{epH: L("*"), epQ: L("*"), bes: []beSpec{{h: L("X-A", "X-Forwarded-For", "X-Forwarded-Host", "User-Agent", "X-Forwarded-Via"), q: L("a")}}}, []reqSpec{
			{lines: P("X-A", "1"), query: P("a", "1")},
			{lines: P("X-A", "1", "Cookie", "secret"), query: P("a", "1", "y", "secret")},
			{lines: P("Cookie", "secret")},
			{lines: P("X-A", "2", "User-Agent", "curl/8"), query: P("a", "2")},
			{lines: P("X-A", "3"), query: P("y", "3")},
		}},
		// endpoint lists only (router level): a request map kept from an earlier request shows
		{cfgSpec{epH: L("X-A", "X-B", "User-Agent"), epQ: L("a", "b"), bes: []beSpec{{}, {h: L("X-B"), q: L("b"), static: "s=1"}}}, []reqSpec{
			{lines: P("X-A", "1", "User-Agent", "curl/8"), query: P("a", "1")},
			{lines: P("X-B", "2"), query: P("b", "2")},
			{},
			{lines: P("X-A", "3", "X-B", "4", "X-C", "5"), query: P("a", "3", "b", "4", "c", "5")},
			{lines: P("X-C", "6"), query: P("c", "6")},
			{lines: P("x-a", "7"), query: P("a", "7", "a", "8")},
		}},
		// no lists at all (default Content-Type, no query), then the same requests again
		{cfgSpec{bes: []beSpec{{}}}, []reqSpec{
			{lines: P("Content-Type", "text/plain", "Cookie", "c"), query: P("a", "1")},
			{lines: P("Cookie", "c")},
			{lines: P("Content-Type", "application/json")},
			{},
			{lines: P("Content-Type", "text/plain", "Cookie", "c"), query: P("a", "1")},
		}},
	}
}

func reuseSequential(g *gen) {
	n := 0
	for _, rc := range reuseConfigs() {
		for _, a := range adapters {
			cs := rc.cs
			cs.adapter = a
			g.run("reuse-seq", cs, rc.reqs)
			// and the reverse order through a second instance
			rev := make([]reqSpec, len(rc.reqs))
			for i, r := range rc.reqs {
				rev[len(rc.reqs)-1-i] = r
			}
			g.run("reuse-seq", cs, rev)
			n += 2
		}
	}
	g.w.Meta["reuse_sequences"] = n
}

const concGoroutines, concIterations, concDistinct = 8, 36, 12

// configuration ci of reuseConfigs under adapter a, prepared for the concurrent stream: the
// request id travels as an allowed query parameter
func concSetup(ci int, a string) (cfgSpec, []reqSpec) {
	rc := reuseConfigs()[ci]
	cs := rc.cs
	cs.adapter = a
	cs.method = "GET"
	cs.epQ = append(cp(cs.epQ), "rid")
	cs.bes = append([]beSpec{}, cs.bes...)
	for i := range cs.bes {
		if len(cs.bes[i].q) > 0 {
			cs.bes[i].q = append(cp(cs.bes[i].q), "rid")
		}
	}
	var reqs []reqSpec
	for j := 0; j < concDistinct; j++ {
		base := rc.reqs[j%len(rc.reqs)]
		rq := reqSpec{host: "gw.example"}
		for _, l := range base.lines {
			rq.lines = append(rq.lines, [2]string{l[0], fmt.Sprintf("%s-r%d", l[1], j)})
		}
		rq.query = append(rq.query, [2]string{"rid", fmt.Sprint(j)})
		for _, q := range base.query {
			rq.query = append(rq.query, [2]string{q[0], fmt.Sprintf("%s-r%d", q[1], j)})
		}
		reqs = append(reqs, rq)
	}
	return cs, reqs
}

type concObs struct {
	Rid      string              `json:"rid"`
	Be       int                 `json:"be"`
	Headers  map[string][]string `json:"headers"`
	RawQuery string              `json:"raw_query"`
	Query    map[string][]string `json:"query"`
	ParseErr string              `json:"parse_err"`
	BodyLen  int                 `json:"body_len"`
}

// concChild runs one hammering in this (child) process and prints what was seen: a fatal
// runtime error of the code under test (concurrent map writes) then kills the child only.
func concChild(spec string, stdout *os.File) {
	var ci int
	var a string
	if _, err := fmt.Sscanf(spec, "conc-child:%d:%s", &ci, &a); err != nil {
		fmt.Fprintln(os.Stderr, "bad --extra", spec)
		os.Exit(2)
	}
	cs, reqs := concSetup(ci, a)
	rn := buildRunner(cs)
	seen := rn.hammer(cs, reqs, concGoroutines, concIterations)
	keys := make([]string, 0, len(seen))
	for k := range seen {
		keys = append(keys, k)
	}
	sort.Strings(keys)
	var res []concObs
	for _, k := range keys {
		o := seen[k]
		res = append(res, concObs{o.rid, o.be, o.headers, o.rawQuery, o.query, o.parseErr, o.bodyLen})
	}
	json.NewEncoder(stdout).Encode(res)
}

func reuseConcurrent(g *gen) {
	n, crashed := 0, 0
	for ci := 0; ci < 3; ci++ {
		for _, a := range adapters {
			cs, reqs := concSetup(ci, a)
			cmd := exec.Command(os.Args[0], "--out", g.cfg.Dir, "--extra", fmt.Sprintf("conc-child:%d:%s", ci, a))
			var stdout, stderr bytes.Buffer
			cmd.Stdout, cmd.Stderr = &stdout, &stderr
			err := cmd.Run()
			var res []concObs
			if err == nil {
				err = json.Unmarshal(stdout.Bytes(), &res)
			}
			if err != nil {
				// the instance did not survive concurrent use: one failing case carrying the reason
				crashed++
				msg := stderr.String()
				if len(msg) > 400 {
					msg = msg[:400]
				}
				res = []concObs{{Rid: "0", Be: 0, Headers: map[string][]string{"<concurrent use of one router/stack instance crashed>": {err.Error() + ": " + msg}}, Query: map[string][]string{}}}
			}
			for _, c := range res {
				j := -1
				fmt.Sscanf(c.Rid, "%d", &j)
				if j < 0 || j >= concDistinct {
					j = 0 // not attributable to a request: reported against the first one
				}
				if c.Query == nil {
					c.Query = map[string][]string{}
				}
				if c.Headers == nil {
					c.Headers = map[string][]string{}
				}
				g.emit("reuse-conc", cs, reqs[j], observation{rid: c.Rid, be: c.Be, headers: c.Headers, rawQuery: c.RawQuery, query: c.Query, parseErr: c.ParseErr}, 0)
			}
			n++
		}
	}
	g.w.Meta["reuse_concurrent_instances"] = n
	g.w.Meta["reuse_concurrent_goroutines"] = concGoroutines
	g.w.Meta["reuse_concurrent_crashed"] = crashed
}
