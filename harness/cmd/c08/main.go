// C08 generator: serves client requests through the real routers (gin, mux, chi, gorilla,
// httptreemux, negroni) built by their own factories over config.Init-ed endpoints and the
// default proxy factory, and records the header map and the URL query every backend's
// HTTPRequestExecutor is handed.
package main

import (
	"bufio"
	"bytes"
	"context"
	"fmt"
	"io"
	"net/http"
	"net/http/httptest"
	"net/textproto"
	"net/url"
	"os"
	"sort"
	"strings"
	"sync"
	"time"

	"github.com/gin-gonic/gin"
	chiv5 "github.com/go-chi/chi/v5"
	"github.com/luraproject/lura/v2/config"
	"github.com/luraproject/lura/v2/core"
	"github.com/luraproject/lura/v2/logging"
	"github.com/luraproject/lura/v2/proxy"
	"github.com/luraproject/lura/v2/router/chi"
	krakendgin "github.com/luraproject/lura/v2/router/gin"
	"github.com/luraproject/lura/v2/router/gorilla"
	"github.com/luraproject/lura/v2/router/httptreemux"
	"github.com/luraproject/lura/v2/router/mux"
	"github.com/luraproject/lura/v2/router/negroni"
	"github.com/luraproject/lura/v2/transport/http/client/graphql"

	"verif/harness/internal/emit"
	"verif/harness/internal/out"
	"verif/harness/internal/rng"
)

var adapters = []string{"Gin", "Mux", "Chi", "Gorilla", "Httptreemux", "Negroni"}

const remoteIP = "192.0.2.7"

var missedOnce bool

type beSpec struct {
	h, q   []string
	static string // raw query written in url_pattern ("" = none)
	gql    string // "" plain backend, "post" / "get": GraphQL query operation over that transport
	gqlVar int    // which operation (with / without operationName and variables)
}

// extra_config of a GraphQL backend
func gqlExtra(b beSpec) config.ExtraConfig {
	m := map[string]interface{}{"type": "query", "method": b.gql, "query": "query Hero($ep: String) { hero(episode: $ep) { name } }"}
	if b.gqlVar&1 == 1 {
		m["operationName"] = "Hero"
	}
	if b.gqlVar&2 == 2 {
		m["variables"] = map[string]interface{}{"ep": "JEDI & co", "n": 3}
	}
	return config.ExtraConfig{graphql.Namespace: m}
}

// the parameters the GET transport generates for the operation (C07's subject; an input here)
func gqlParams(b beSpec) map[string][]string {
	opt, err := graphql.GetOptions(gqlExtra(b))
	if err != nil {
		panic(err)
	}
	q, err := graphql.New(*opt).QueryFromParams(map[string]string{})
	if err != nil {
		panic(err)
	}
	return q
}

type cfgSpec struct {
	adapter    string
	epH, epQ   []string
	bes        []beSpec
	method     string
	concurrent int
	sequential bool // proxy extra_config "sequential": true (sequential merge)
}

type reqSpec struct {
	lines [][2]string // header lines as sent
	query [][2]string // decoded query pairs, in order
	host  string
	body  string
	junk  []string // malformed pieces of the client's query text (bad escape, ';'): url.URL.Query drops them and keeps the rest
}

// the query text the client sends: the pairs, escaped, with the malformed pieces around them
func clientRaw(rq reqSpec) string {
	var parts []string
	if len(rq.junk) > 0 {
		parts = append(parts, rq.junk[0])
	}
	if len(rq.query) > 0 {
		parts = append(parts, rawQuery(rq.query))
	}
	if len(rq.junk) > 1 {
		parts = append(parts, rq.junk[1:]...)
	}
	return strings.Join(parts, "&")
}

type observation struct {
	rid      string // concurrent reuse only: the request the observation belongs to
	be       int
	headers  map[string][]string
	rawQuery string
	query    map[string][]string
	parseErr string
	bodyLen  int
}

func cp(l []string) []string {
	if l == nil {
		return nil
	}
	return append([]string{}, l...)
}

func rawQuery(pairs [][2]string) string {
	var parts []string
	for _, p := range pairs {
		parts = append(parts, url.QueryEscape(p[0])+"="+url.QueryEscape(p[1]))
	}
	return strings.Join(parts, "&")
}

func group(pairs [][2]string) map[string][]string {
	m := map[string][]string{}
	for _, p := range pairs {
		m[p[0]] = append(m[p[0]], p[1])
	}
	return m
}

func sameMap(a, b map[string][]string) bool {
	if len(a) != len(b) {
		return false
	}
	for k, v := range a {
		w, ok := b[k]
		if !ok || len(v) != len(w) {
			return false
		}
		for i := range v {
			if v[i] != w[i] {
				return false
			}
		}
	}
	return true
}

// pairs of a raw query in order of appearance (independent of lura: net/url only)
func parsePairs(raw string) [][2]string {
	var res [][2]string
	if raw == "" {
		return res
	}
	for _, part := range strings.Split(raw, "&") {
		if part == "" {
			continue
		}
		k, v, _ := strings.Cut(part, "=")
		k1, err1 := url.QueryUnescape(k)
		v1, err2 := url.QueryUnescape(v)
		if err1 != nil || err2 != nil || strings.Contains(part, ";") {
			panic("generator bug: static query not parseable: " + raw)
		}
		res = append(res, [2]string{k1, v1})
	}
	m, err := url.ParseQuery(raw)
	if err != nil || !sameMap(m, group(res)) {
		panic("generator bug: parsePairs disagrees with url.ParseQuery on " + raw)
	}
	return res
}

type runner struct {
	handler  http.Handler
	mu       sync.Mutex
	obs      []observation
	calls    chan struct{}
	expected int
	// concurrent reuse: every distinct (request id, backend, observation) seen, once
	conc     bool
	distinct map[string]observation
}

func buildRunner(cs cfgSpec) *runner {
	ep := &config.EndpointConfig{
		Endpoint:        "/e",
		Method:          cs.method,
		HeadersToPass:   cp(cs.epH),
		QueryString:     cp(cs.epQ),
		ConcurrentCalls: cs.concurrent,
	}
	if cs.sequential {
		ep.ExtraConfig = config.ExtraConfig{proxy.Namespace: map[string]interface{}{"sequential": true}}
	}
	for i, b := range cs.bes {
		pat := fmt.Sprintf("/b%d", i)
		if b.static != "" {
			pat += "?" + b.static
		}
		be := &config.Backend{
			URLPattern:         pat,
			HeadersToPass:      cp(b.h),
			QueryStringsToPass: cp(b.q),
		}
		if b.gql != "" {
			be.ExtraConfig = gqlExtra(b)
		}
		ep.Backend = append(ep.Backend, be)
	}
	sc := config.ServiceConfig{
		Version:   config.ConfigVersion,
		Timeout:   60 * time.Second,
		Host:      []string{"http://backend.example:8080"},
		Endpoints: []*config.EndpointConfig{ep},
	}
	if err := sc.Init(); err != nil {
		panic(fmt.Sprintf("generator bug: config rejected: %v (%+v)", err, cs))
	}
	rn := &runner{calls: make(chan struct{}, 64)}
	idx := map[*config.Backend]int{}
	for i, b := range ep.Backend {
		idx[b] = i
		n := b.ConcurrentCalls
		if n < 1 {
			n = 1
		}
		rn.expected += n
	}
	bf := func(be *config.Backend) proxy.Proxy {
		i, ok := idx[be]
		if !ok {
			panic("unknown backend")
		}
		exec := func(_ context.Context, req *http.Request) (*http.Response, error) {
			o := observation{be: i, headers: map[string][]string{}, rawQuery: req.URL.RawQuery}
			for k, vs := range req.Header {
				o.headers[k] = append([]string{}, vs...)
			}
			if req.Body != nil {
				body, _ := io.ReadAll(req.Body)
				o.bodyLen = len(body)
			}
			q, err := url.ParseQuery(req.URL.RawQuery)
			o.query = q
			if err != nil {
				o.parseErr = err.Error()
			}
			rn.mu.Lock()
			if rn.conc {
				o.rid = "?"
				if v := q["rid"]; len(v) == 1 {
					o.rid = v[0]
				}
				key := fmt.Sprintf("%s|%d|%v|%s", o.rid, o.be, sortedHeaders(o.headers), o.rawQuery)
				if _, ok := rn.distinct[key]; !ok {
					rn.distinct[key] = o
				}
				rn.mu.Unlock()
			} else {
				rn.obs = append(rn.obs, o)
				rn.mu.Unlock()
				rn.calls <- struct{}{}
			}
			h := http.Header{}
			h.Set("Content-Type", "application/json")
			return &http.Response{StatusCode: 200, Header: h, Body: io.NopCloser(strings.NewReader(fmt.Sprintf(`{"b%d":true}`, i)))}, nil
		}
		return proxy.NewHTTPProxyWithHTTPExecutor(be, exec, be.Decoder)
	}
	pf := proxy.NewDefaultFactory(bf, logging.NoOp)
	run := func(_ context.Context, _ config.ServiceConfig, h http.Handler) error {
		rn.handler = h
		return nil
	}
	switch cs.adapter {
	case "Gin":
		krakendgin.NewFactory(krakendgin.Config{Engine: gin.New(), Middlewares: []gin.HandlerFunc{}, HandlerFactory: krakendgin.EndpointHandler,
			ProxyFactory: pf, Logger: logging.NoOp, RunServer: run}).New().Run(sc)
	case "Mux":
		mux.NewFactory(mux.Config{Engine: mux.DefaultEngine(), Middlewares: []mux.HandlerMiddleware{}, HandlerFactory: mux.EndpointHandler,
			ProxyFactory: pf, Logger: logging.NoOp, DebugPattern: mux.DefaultDebugPattern, EchoPattern: mux.DefaultEchoPattern, RunServer: run}).New().Run(sc)
	case "Chi":
		chi.NewFactory(chi.Config{Engine: chiv5.NewRouter(), Middlewares: chiv5.Middlewares{}, HandlerFactory: chi.NewEndpointHandler,
			ProxyFactory: pf, Logger: logging.NoOp, DebugPattern: chi.ChiDefaultDebugPattern, RunServer: run}).New().Run(sc)
	case "Gorilla":
		c := gorilla.DefaultConfig(pf, logging.NoOp)
		c.RunServer = run
		mux.NewFactory(c).New().Run(sc)
	case "Httptreemux":
		c := httptreemux.DefaultConfig(pf, logging.NoOp)
		c.RunServer = run
		mux.NewFactory(c).New().Run(sc)
	case "Negroni":
		c := negroni.DefaultConfig(pf, logging.NoOp, nil)
		c.RunServer = run
		mux.NewFactory(c).New().Run(sc)
	default:
		panic("adapter " + cs.adapter)
	}
	if rn.handler == nil {
		panic("router did not hand over a handler: " + cs.adapter)
	}
	return rn
}

func sortedHeaders(h map[string][]string) string {
	ks := make([]string, 0, len(h))
	for k := range h {
		ks = append(ks, k)
	}
	sort.Strings(ks)
	var b strings.Builder
	for _, k := range ks {
		fmt.Fprintf(&b, "%q=%q;", k, h[k])
	}
	return b.String()
}

// hammer: the ONE router/stack instance of rn is hit from several goroutines released by a
// start gate, each iterating over the same small set of distinct requests (told apart by the
// allowed query parameter rid). Returns every distinct (request, backend, observation) once.
func (rn *runner) hammer(cs cfgSpec, reqs []reqSpec, goroutines, iterations int) map[string]observation {
	rn.mu.Lock()
	rn.conc = true
	rn.distinct = map[string]observation{}
	rn.mu.Unlock()
	start := make(chan struct{})
	var wg sync.WaitGroup
	for gi := 0; gi < goroutines; gi++ {
		wg.Add(1)
		go func(gi int) {
			defer wg.Done()
			<-start
			for k := 0; k < iterations; k++ {
				rq := reqs[(gi*5+k)%len(reqs)]
				rn.handler.ServeHTTP(httptest.NewRecorder(), wireRequest(cs, rq))
			}
		}(gi)
	}
	close(start)
	wg.Wait() // every handler call returns after its backends were called (no concurrent_calls here)
	rn.mu.Lock()
	defer rn.mu.Unlock()
	rn.conc = false
	return rn.distinct
}

func wireRequest(cs cfgSpec, rq reqSpec) *http.Request {
	var b bytes.Buffer
	target := "/e"
	if raw := clientRaw(rq); raw != "" {
		target += "?" + raw
	}
	fmt.Fprintf(&b, "%s %s HTTP/1.1\r\nHost: %s\r\n", cs.method, target, rq.host)
	for _, l := range rq.lines {
		fmt.Fprintf(&b, "%s: %s\r\n", l[0], l[1])
	}
	b.WriteString("\r\n")
	b.WriteString(rq.body)
	req, err := http.ReadRequest(bufio.NewReader(&b))
	if err != nil {
		panic(fmt.Sprintf("generator bug: request not readable: %v\n%q", err, b.String()))
	}
	req.RemoteAddr = remoteIP + ":4711"
	return req
}

// serve sends one request as bytes on the wire would be read by net/http and returns what
// every executor call saw, in a deterministic order.
func (rn *runner) serve(cs cfgSpec, rq reqSpec) ([]observation, int) {
	var b bytes.Buffer
	target := "/e"
	if raw := clientRaw(rq); raw != "" {
		target += "?" + raw
	}
	fmt.Fprintf(&b, "%s %s HTTP/1.1\r\nHost: %s\r\n", cs.method, target, rq.host)
	for _, l := range rq.lines {
		fmt.Fprintf(&b, "%s: %s\r\n", l[0], l[1])
	}
	b.WriteString("\r\n")
	b.WriteString(rq.body)
	req, err := http.ReadRequest(bufio.NewReader(&b))
	if err != nil {
		panic(fmt.Sprintf("generator bug: request not readable: %v\n%q", err, b.String()))
	}
	req.RemoteAddr = remoteIP + ":4711"
	if m, err := url.ParseQuery(req.URL.RawQuery); (err != nil && len(rq.junk) == 0) || !sameMap(m, group(rq.query)) {
		panic("generator bug: query does not round-trip: " + req.URL.RawQuery)
	}
	rn.mu.Lock()
	rn.obs = nil
	rn.mu.Unlock()
	rec := httptest.NewRecorder()
	rn.handler.ServeHTTP(rec, req)
	// every call the stack starts reaches the executor (stub answers at once); collect them all.
	// The timer is only a failure path (a stack that stopped calling a backend), never the
	// synchronisation of a passing run.
	got := 0
	limit := 180 * time.Second
	if missedOnce {
		limit = 2 * time.Second // a stack that skips a backend has been seen already: do not wait long again
	}
	timeout := time.After(limit)
wait:
	for got < rn.expected {
		select {
		case <-rn.calls:
			got++
		case <-timeout:
			missedOnce = true
			break wait
		}
	}
	rn.mu.Lock()
	obs := append([]observation{}, rn.obs...)
	rn.mu.Unlock()
	sort.SliceStable(obs, func(i, j int) bool {
		if obs[i].be != obs[j].be {
			return obs[i].be < obs[j].be
		}
		return fmt.Sprint(obs[i].headers, obs[i].rawQuery) < fmt.Sprint(obs[j].headers, obs[j].rawQuery)
	})
	// the missing calls (if any) are reported as empty observations
	seen := map[int]int{}
	for _, o := range obs {
		seen[o.be]++
	}
	for i := range cs.bes {
		n := cs.concurrent
		if n < 1 {
			n = 1
		}
		for k := seen[i]; k < n; k++ {
			obs = append(obs, observation{be: i, headers: map[string][]string{}, query: map[string][]string{}, parseErr: "executor not called"})
		}
	}
	sort.SliceStable(obs, func(i, j int) bool { return obs[i].be < obs[j].be })
	return obs, rec.Code
}

func pairList(ps [][2]string) string {
	ys := make([]string, len(ps))
	for i, p := range ps {
		ys[i] = emit.Pair(emit.Str(p[0]), emit.Str(p[1]))
	}
	return emit.List(ys)
}

func knownIP(lines [][2]string) bool {
	for _, l := range lines {
		switch textproto.CanonicalMIMEHeaderKey(l[0]) {
		case "X-Forwarded-For", "X-Real-Ip", "X-Appengine-Remote-Addr":
			return false
		}
	}
	return true
}

type gen struct {
	w     *out.Writer
	cfg   out.Config
	ticks int
}

// every fourth call (thins the wire-level twin of the exhaustive stream)
func (g *gen) tick() bool {
	g.ticks++
	return g.ticks%4 == 0
}

// run one configuration against several requests and emit one case per executor call
func (g *gen) run(stream string, cs cfgSpec, reqs []reqSpec) {
	if cs.method == "" {
		cs.method = "GET"
	}
	norm := make([]reqSpec, len(reqs))
	for i, rq := range reqs {
		if rq.host == "" {
			rq.host = "gw.example"
		}
		if rq.body != "" {
			rq.lines = append(append([][2]string{}, rq.lines...), [2]string{"Content-Length", fmt.Sprint(len(rq.body))})
		}
		norm[i] = rq
	}
	// endpoints whose backends run concurrently (several backends, concurrent_calls) are driven in
	// a child process: a fatal runtime error of the code under test (concurrent map access) then
	// kills the child only and becomes failing cases carrying the crash text
	var results []served
	if len(cs.bes) > 1 || cs.concurrent > 1 {
		results = runInChild(cs, norm)
	} else {
		results = serveAll(cs, norm)
	}
	for i, rq := range norm {
		for _, o := range results[i].obs {
			g.emit(stream, cs, rq, o, results[i].status)
		}
	}
}

type served struct {
	obs    []observation
	status int
}

func serveAll(cs cfgSpec, reqs []reqSpec) []served {
	rn := buildRunner(cs)
	res := make([]served, len(reqs))
	for i, rq := range reqs {
		obs, status := rn.serve(cs, rq)
		res[i] = served{obs, status}
	}
	return res
}

// emit writes one case: what backend o.be's executor was handed for request rq
func (g *gen) emit(stream string, cs cfgSpec, rq reqSpec, o observation, status int) {
	{
		{
			b := cs.bes[o.be]
			ip := "None"
			if knownIP(rq.lines) {
				ip = emit.Some(emit.Str(remoteIP))
			}
			ctor := "COut"
			switch b.gql {
			case "post":
				ctor = "CGql " + emit.App("GPost", emit.Str(fmt.Sprint(o.bodyLen)))
			case "get":
				ctor = "CGql " + emit.App("GGet", emit.MultiMap(gqlParams(b)))
			}
			term := emit.App(ctor, cs.adapter, emit.StrList(cs.epH), emit.StrList(cs.epQ), emit.StrList(b.h), emit.StrList(b.q),
				pairList(parsePairs(b.static)), pairList(rq.lines), pairList(rq.query), emit.Str(rq.host), ip, emit.Str(core.KrakendUserAgent),
				emit.MultiMap(o.headers), emit.MultiMap(o.query))
			js := map[string]interface{}{
				"adapter": cs.adapter, "method": cs.method, "concurrent_calls": cs.concurrent, "sequential_merge": cs.sequential,
				"endpoint_input_headers": cs.epH, "endpoint_input_query_strings": cs.epQ,
				"backend_index": o.be, "backends": len(cs.bes),
				"backend_input_headers": b.h, "backend_input_query_strings": b.q, "backend_url_pattern_query": b.static, "backend_graphql": b.gql, "backend_graphql_variant": b.gqlVar,
				"request":  map[string]interface{}{"header_lines": rq.lines, "raw_query": clientRaw(rq), "query_pairs": rq.query, "host": rq.host, "body": rq.body, "remote_addr": remoteIP + ":4711"},
				"observed": map[string]interface{}{"executor_headers": o.headers, "executor_raw_query": o.rawQuery, "executor_body_length": o.bodyLen, "executor_query": o.query, "parse_error": o.parseErr, "client_status": status},
			}
			canon := fmt.Sprintf("%s|%s|%d%v|%q|%q|%d/%d|%q|%q|%q|%q|%q|%q|%q", cs.adapter, cs.method, cs.concurrent, cs.sequential, cs.epH, cs.epQ, o.be, len(cs.bes), b.h, b.q, b.static+"|"+b.gql+fmt.Sprint(b.gqlVar), rq.lines, rq.query, rq.host, rq.body+"|"+strings.Join(rq.junk, "&"))
			nontrivial := len(cs.epH)+len(cs.epQ)+len(b.h)+len(b.q) > 0
			g.w.Count("stream:" + stream)
			g.w.Count("adapter:" + cs.adapter)
			g.w.Count(fmt.Sprintf("backends:%d", len(cs.bes)))
			if cs.concurrent > 1 {
				g.w.Count("concurrent_calls>1")
			}
			if cs.sequential {
				g.w.Count("sequential_merge")
			}
			g.w.Count("ep_headers:" + listKind(cs.epH))
			g.w.Count("be_headers:" + listKind(b.h))
			g.w.Count("ep_query:" + listKind(cs.epQ))
			g.w.Count("be_query:" + listKind(b.q))
			if b.static != "" {
				g.w.Count("static_query")
			}
			g.w.Add(term, js, "", canon, nontrivial)
			// the same call at the wire level (RawQuery text), where the query is involved at all
			if b.gql != "" {
				g.w.Count("graphql:" + b.gql)
			}
			if len(rq.junk) > 0 && o.be == 0 {
				// the pairs given to the model are what the model's own parser reads from the client's text
				g.w.Count("malformed_client_query")
				g.w.Add(emit.App("CParse", emit.Str(clientRaw(rq)), emit.MultiMap(group(rq.query))),
					map[string]interface{}{"parse_query": clientRaw(rq), "observed": group(rq.query), "client_query_of_previous_case": true}, "", "cparse|"+clientRaw(rq), true)
			}
			if b.gql == "" && (len(cs.epQ) > 0 || b.static != "") && (stream != "exhaustive" || g.tick()) {
				wterm := emit.App("CWire", cs.adapter, emit.StrList(cs.epH), emit.StrList(cs.epQ), emit.StrList(b.h), emit.StrList(b.q),
					emit.Str(b.static), pairList(parsePairs(b.static)), pairList(rq.lines), pairList(rq.query), emit.Str(rq.host), emit.Str(core.KrakendUserAgent),
					emit.Str(o.rawQuery), emit.MultiMap(o.query))
				wjs := map[string]interface{}{"level": "wire", "stream": stream}
				for k, v := range js {
					wjs[k] = v
				}
				g.w.Count("stream:" + stream + ":wire")
				g.w.Add(wterm, wjs, "", "wire|"+canon, nontrivial)
			}
		}
	}
}

func listKind(l []string) string {
	if len(l) == 0 {
		return "empty"
	}
	star, dup := false, false
	seen := map[string]bool{}
	for _, x := range l {
		if x == "*" {
			star = true
		}
		c := textproto.CanonicalMIMEHeaderKey(x)
		if seen[c] {
			dup = true
		}
		seen[c] = true
	}
	switch {
	case star && len(l) == 1:
		return "star"
	case star:
		return "star+names"
	case dup:
		return "names-with-duplicates"
	}
	return "names"
}

func main() {
	cfg := out.ParseFlags("C08")
	realStdout := os.Stdout
	if devnull, err := os.OpenFile(os.DevNull, os.O_WRONLY, 0); err == nil {
		os.Stdout = devnull // negroni.Classic logs every request to stdout
	}
	gin.SetMode(gin.ReleaseMode)
	if strings.HasPrefix(cfg.Extra, "conc-child:") {
		concChild(cfg.Extra, realStdout)
		return
	}
	if cfg.Extra == "run-child" {
		runChild(os.Stdin, realStdout)
		return
	}
	r := rng.New(cfg.Seed)
	w := out.NewWriter(cfg, "Verif.Corr.C08", 500)
	g := &gen{w: w, cfg: cfg}

	corpus(g)
	reuseSequential(g)
	exhaustive(g)
	random(g, r)
	canonCases(g, r)
	codecCases(g, r)
	reuseConcurrent(g) // last: the only stream whose case order is not needed by a deterministic replay

	w.Meta["child_processes_died"] = childCrashes
	w.Close("one case per call of a backend's HTTPRequestExecutor (header map + parsed URL query), requests read by net/http from wire bytes and served by the real router of each adapter over config.Init-ed endpoints and proxy.NewDefaultFactory; "+
		"instance reuse: ONE router+stack per configuration serving telling sequences of 5-6 different requests (stream reuse-seq, deterministic) and hit from 8 goroutines over 12 distinct requests (stream reuse-conc, each distinct request/observation pair once); "+
		"corpus (section-8 defects, wildcard positions, gateway-owned names, literal * in backend lists); exhaustive: endpoint list x backend list over {A,B,*,\"\" (empty name)} up to length 2 (21x21; lists with the empty name x 5 of the 8 subsets, with the empty-named parameter ?=v), used for headers and query at once, x client sending every subset of {A,B,C} (adapter rotating; thorough: every adapter, and lists up to length 3 over {A,B} with duplicates x backend lists); "+
		"random: lists up to 6 (mixed case, duplicates, wildcard), 0-7 header lines, 0-6 query pairs with repeated/empty/reserved values, static url_pattern queries, 1-3 backends with parallel or sequential merge, concurrent_calls 1-3, GET/POST (endpoints with several backends or concurrent calls run in child processes; a dead child becomes failing cases with the crash text); "+
		"GraphQL backends (query operation, POST and GET transport, with/without operationName and variables) in corpus and random; "+
		"wire level: for calls that involve the query, the RawQuery text against the byte-level model of Values.Encode/ParseQuery (pieces compared as a multiset: Encode sorts keys), url.QueryEscape on every byte and random strings, url.QueryUnescape and url.ParseQuery on malformed texts (bad escapes, semicolons, empty pieces, several =); "+
		"plus textproto.CanonicalMIMEHeaderKey on every single byte, every string up to 3 over a 9-symbol alphabet and random names; nontrivial = some list declared", true)
}
