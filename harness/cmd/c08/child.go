package main

import (
	"bytes"
	"encoding/json"
	"fmt"
	"io"
	"os"
	"os/exec"
)

// transport of one configuration and its requests to a child process of the generator

type jBe struct {
	H, Q   []string
	Static string
	Gql    string
	GqlVar int
}
type jJob struct {
	Adapter    string
	EpH, EpQ   []string
	Bes        []jBe
	Method     string
	Concurrent int
	Sequential bool
	Reqs       []jReq
}
type jReq struct {
	Lines, Query [][2]string
	Host, Body   string
	Junk         []string
}
type jServed struct {
	Status int
	Obs    []concObs
}

func toJob(cs cfgSpec, reqs []reqSpec) jJob {
	j := jJob{Adapter: cs.adapter, EpH: cs.epH, EpQ: cs.epQ, Method: cs.method, Concurrent: cs.concurrent, Sequential: cs.sequential}
	for _, b := range cs.bes {
		j.Bes = append(j.Bes, jBe{b.h, b.q, b.static, b.gql, b.gqlVar})
	}
	for _, r := range reqs {
		j.Reqs = append(j.Reqs, jReq{r.lines, r.query, r.host, r.body, r.junk})
	}
	return j
}

func fromJob(j jJob) (cfgSpec, []reqSpec) {
	cs := cfgSpec{adapter: j.Adapter, epH: j.EpH, epQ: j.EpQ, method: j.Method, concurrent: j.Concurrent, sequential: j.Sequential}
	for _, b := range j.Bes {
		cs.bes = append(cs.bes, beSpec{b.H, b.Q, b.Static, b.Gql, b.GqlVar})
	}
	var reqs []reqSpec
	for _, r := range j.Reqs {
		reqs = append(reqs, reqSpec{lines: r.Lines, query: r.Query, host: r.Host, body: r.Body, junk: r.Junk})
	}
	return cs, reqs
}

// runChild: child side. Reads one job from stdin, serves its requests through ONE router+stack
// instance, prints what every executor call saw.
func runChild(in io.Reader, stdout *os.File) {
	var j jJob
	if err := json.NewDecoder(in).Decode(&j); err != nil {
		fmt.Fprintln(os.Stderr, "run-child: bad job:", err)
		os.Exit(2)
	}
	cs, reqs := fromJob(j)
	var res []jServed
	for _, s := range serveAll(cs, reqs) {
		js := jServed{Status: s.status}
		for _, o := range s.obs {
			js.Obs = append(js.Obs, concObs{o.rid, o.be, o.headers, o.rawQuery, o.query, o.parseErr, o.bodyLen})
		}
		res = append(res, js)
	}
	json.NewEncoder(stdout).Encode(res)
}

// runInChild: parent side. A child that dies yields, for every request, one observation per
// expected executor call carrying the crash text (so that the number of cases does not depend
// on the crash and the first such case is a concrete replay).
func runInChild(cs cfgSpec, reqs []reqSpec) []served {
	job, _ := json.Marshal(toJob(cs, reqs))
	cmd := exec.Command(os.Args[0], "--out", os.TempDir(), "--extra", "run-child")
	cmd.Stdin = bytes.NewReader(job)
	var stdout, stderr bytes.Buffer
	cmd.Stdout, cmd.Stderr = &stdout, &stderr
	err := cmd.Run()
	var res []jServed
	if err == nil {
		err = json.Unmarshal(stdout.Bytes(), &res)
		if err == nil && len(res) != len(reqs) {
			err = fmt.Errorf("child answered %d of %d requests", len(res), len(reqs))
		}
	}
	out := make([]served, len(reqs))
	if err != nil {
		msg := stderr.String()
		if len(msg) > 500 {
			msg = msg[:500]
		}
		calls := cs.concurrent
		if calls < 1 {
			calls = 1
		}
		for i := range reqs {
			for b := range cs.bes {
				for k := 0; k < calls; k++ {
					out[i].obs = append(out[i].obs, observation{be: b, query: map[string][]string{}, parseErr: "child died",
						headers: map[string][]string{"<router/stack instance crashed while serving this configuration>": {err.Error() + ": " + msg}}})
				}
			}
		}
		childCrashes++
		return out
	}
	for i, s := range res {
		out[i].status = s.Status
		for _, c := range s.Obs {
			if c.Headers == nil {
				c.Headers = map[string][]string{}
			}
			if c.Query == nil {
				c.Query = map[string][]string{}
			}
			out[i].obs = append(out[i].obs, observation{rid: c.Rid, be: c.Be, headers: c.Headers, rawQuery: c.RawQuery, query: c.Query, parseErr: c.ParseErr, bodyLen: c.BodyLen})
		}
	}
	return out
}

var childCrashes int
