package main

import (
	"net/url"

	"verif/harness/internal/emit"
	"verif/harness/internal/rng"
)

// ---- net/url against the byte-level model of the query codec ------------------------------

func codecCases(g *gen, r *rng.R) {
	esc := func(s string) {
		e := url.QueryEscape(s)
		g.w.Count("stream:codec-escape")
		g.w.Add(emit.App("CEscape", emit.Str(s), emit.Str(e)), map[string]interface{}{"query_escape": s, "observed": e}, "", "esc|"+s, e != s)
	}
	unesc := func(s string) {
		u, err := url.QueryUnescape(s)
		o := "None"
		if err == nil {
			o = emit.Some(emit.Str(u))
		}
		g.w.Count("stream:codec-unescape")
		g.w.Add(emit.App("CUnescape", emit.Str(s), o), map[string]interface{}{"query_unescape": s, "observed": u, "error": err != nil}, "", "unesc|"+s, err != nil)
	}
	parse := func(raw string) {
		m, err := url.ParseQuery(raw)
		g.w.Count("stream:codec-parse")
		g.w.Add(emit.App("CParse", emit.Str(raw), emit.MultiMap(m)), map[string]interface{}{"parse_query": raw, "observed": m, "error": err != nil}, "", "parse|"+raw, err != nil)
	}
	for c := 0; c < 256; c++ {
		esc(string([]byte{byte(c)}))
		unesc(string([]byte{byte(c)}))
		unesc("%" + string([]byte{byte(c)}) + "1")
		unesc("%4" + string([]byte{byte(c)}))
	}
	for _, v := range append(append([]string{}, queryValues...), queryKeys...) {
		esc(v)
		unesc(v)
	}
	for _, s := range []string{"", "%", "%4", "%zz", "%4g", "a%", "%%41", "+", "%2B", "%2b", "%c3%a9", "%C3%A9", "a+b%20c", "%00", "%ff%FF", "100%", "%25%", "%41%4"} {
		unesc(s)
	}
	for _, raw := range []string{"", "&", "&&a", "a", "a=", "=", "=v", "a=b=c", "a=1&a=2&b=", "a=1;b=2", "a=1;b=2&c=3", ";", "a;=1&b=2",
		"a=%zz&b=1", "%zz=1&b=2", "a=%4&b=1", "a+b=c+d", "a%26b=c%3Dd", "%3D=%26", "a=1&", "&a=1", "a=1&&b=2", "==", "a==", "?a=1", "a=1#f", "a=%41%42", "\xff=\xfe", "a=\x00"} {
		parse(raw)
	}
	n := 200
	if g.cfg.Thorough() {
		n = 4000
	}
	for i := 0; i < n; i++ {
		l := r.Intn(10)
		b := make([]byte, l)
		for j := range b {
			b[j] = byte(r.Intn(256))
		}
		esc(string(b))
		const ua = "%41aFg+z%2"
		u := make([]byte, r.Intn(7))
		for j := range u {
			u[j] = ua[r.Intn(len(ua))]
		}
		unesc(string(u))
		const pa = "ab=&;%41+"
		p := make([]byte, r.Intn(12))
		for j := range p {
			p[j] = pa[r.Intn(len(pa))]
		}
		parse(string(p))
	}
}
