// C12 generator: drives the real status handlers / http proxy / endpoint handlers with
// scripted backend replies and records what they did.
package main

import (
	"bytes"
	"context"
	"encoding/json"
	"errors"
	"fmt"
	"io"
	"net/http"
	"net/http/httptest"
	"regexp"
	"sort"
	"strings"
	"sync"
	"time"

	"github.com/gin-gonic/gin"
	"github.com/luraproject/lura/v2/config"
	"github.com/luraproject/lura/v2/encoding"
	"github.com/luraproject/lura/v2/logging"
	"github.com/luraproject/lura/v2/proxy"
	krakendgin "github.com/luraproject/lura/v2/router/gin"
	"github.com/luraproject/lura/v2/router/mux"
	"github.com/luraproject/lura/v2/transport/http/client"

	"verif/harness/internal/emit"
	"verif/harness/internal/out"
	"verif/harness/internal/rng"
)

type cfgval struct {
	kind string // absent|str|bool|other
	s    string
	b    bool
}

func (c cfgval) coq() string {
	switch c.kind {
	case "str":
		return emit.App("VStr", emit.Str(c.s))
	case "bool":
		return emit.App("VBool", emit.Bool(c.b))
	case "other":
		return "VOtherType"
	}
	return "VAbsent"
}

func (c cfgval) put(m map[string]interface{}, key string) {
	switch c.kind {
	case "str":
		m[key] = c.s
	case "bool":
		m[key] = c.b
	case "other":
		m[key] = 5.0
	}
}

func (c cfgval) String() string {
	switch c.kind {
	case "str":
		return fmt.Sprintf("%q", c.s)
	case "bool":
		return fmt.Sprint(c.b)
	case "other":
		return "5"
	}
	return "absent"
}

type reply struct {
	code int
	body string
	enc  string
}

func (r reply) coq() string {
	return fmt.Sprintf("{| r_code := %s; r_body := %s; r_enc := %s |}", emit.Z(int64(r.code)), emit.Str(r.body), emit.Str(r.enc))
}

func (r reply) js() map[string]interface{} {
	return map[string]interface{}{"code": r.code, "body": r.body, "enc": r.enc}
}

func decodeIndependent(body string) map[string]interface{} {
	d := json.NewDecoder(strings.NewReader(body))
	d.UseNumber()
	var m map[string]interface{}
	if err := d.Decode(&m); err != nil {
		return nil
	}
	return m
}

func optObj(m map[string]interface{}, ok bool) string {
	if !ok {
		return "None"
	}
	return emit.Some(emit.Obj(m))
}

func executor(r reply) client.HTTPRequestExecutor {
	return func(_ context.Context, _ *http.Request) (*http.Response, error) {
		h := http.Header{}
		if r.enc != "" {
			h.Set("Content-Type", r.enc)
		}
		return &http.Response{StatusCode: r.code, Header: h, Body: io.NopCloser(strings.NewReader(r.body))}, nil
	}
}

// normalise a Go value through encoding/json (structs with tags -> maps, numbers -> json.Number)
func normalise(v interface{}) (interface{}, bool) {
	b, err := json.Marshal(v)
	if err != nil {
		return nil, false
	}
	d := json.NewDecoder(bytes.NewReader(b))
	d.UseNumber()
	var o interface{}
	if err := d.Decode(&o); err != nil {
		return nil, false
	}
	return o, true
}

func extra(details, code cfgval) config.ExtraConfig {
	m := map[string]interface{}{}
	details.put(m, "return_error_details")
	code.put(m, "return_error_code")
	if len(m) == 0 {
		return config.ExtraConfig{}
	}
	return config.ExtraConfig{client.Namespace: m}
}

func perrCoq(err error, decodedOK bool) (string, string) {
	if err == nil {
		return "ENone", "none"
	}
	if errors.Is(err, client.ErrInvalidStatusCode) {
		return "EInvalidStatus", "invalid_status"
	}
	var he client.HTTPResponseError
	if errors.As(err, &he) {
		return emit.App("ECode", emit.Z(int64(he.Code)), emit.Str(he.Msg), emit.Str(he.Enc)), fmt.Sprintf("code %d", he.Code)
	}
	return "EDecode", "other:" + err.Error()
}

// a body larger than 64 KiB (a failed backend's body must not be cut in error_<name> / the error)
var bigBody = strings.Repeat("01234567890123456789", 3300)

var bigPrefixRe = regexp.MustCompile(`"(?:01234567890123456789){150,}[0-9]{0,19}"`)

const bigBodyTerm = `(String.concat "" (List.repeat "01234567890123456789" 3300))`

// gatedBody serves its data only once the context is done: a backend whose status line arrived in
// time but whose body is still arriving when the deadline fires
type gatedBody struct {
	ctx  context.Context
	data *strings.Reader
}

func (g *gatedBody) Read(p []byte) (int, error) {
	<-g.ctx.Done()
	return g.data.Read(p)
}
func (g *gatedBody) Close() error { return nil }

// faultyBody serves a prefix of the body and then fails: the backend announced more and hung up
type faultyBody struct {
	data *strings.Reader
}

func (f *faultyBody) Read(p []byte) (int, error) {
	n, err := f.data.Read(p)
	if err == io.EOF {
		return n, io.ErrUnexpectedEOF
	}
	return n, err
}
func (f *faultyBody) Close() error { return nil }

var bodies = []struct{ body, enc string }{
	{`{"a":1,"secret":"MARKER-json-body-0001"}`, "application/json"},
	{"MARKER-plain-text-body-0002", "text/plain"},
	{"", ""},
	{"MARKER-\x00\x01\u00e9\u2028binary-0003", "application/octet-stream"},
	{`[1,2,"MARKER-array-body-0004"]`, "application/json"},
	{`{"k":{"n":12345678901234567890,"s":"MARKER-nested-0005"},"e":{}}`, "application/json; charset=utf-8"},
	{`{}`, "application/json"},
}

var detailsVals = []cfgval{{kind: "absent"}, {kind: "str", s: ""}, {kind: "str", s: "b1"}, {kind: "other"}, {kind: "bool", b: true}, {kind: "str", s: "Be-2_x"}}
var codeVals = []cfgval{{kind: "absent"}, {kind: "bool", b: true}, {kind: "bool", b: false}, {kind: "str", s: "true"}}

func modeName(d, c cfgval) string {
	if d.kind == "str" && d.s != "" {
		return "details"
	}
	if d.kind == "absent" && c.kind == "bool" && c.b {
		return "error_code"
	}
	return "default"
}

func main() {
	cfg := out.ParseFlags("C12")
	gin.SetMode(gin.ReleaseMode)
	r := rng.New(cfg.Seed)
	w := out.NewWriter(cfg, "Verif.Corr.C12", 400)

	// ---- proxy level ----
	type pobs struct {
		obs, ec, ej string
		obsJS       interface{}
		dec         map[string]interface{}
	}
	var observeCtx func(ctx context.Context, p proxy.Proxy, rp reply, u string) pobs
	observe := func(p proxy.Proxy, rp reply, u string) pobs {
		return observeCtx(context.Background(), p, rp, u)
	}
	observeCtx = func(ctx context.Context, p proxy.Proxy, rp reply, u string) pobs {
		resp, err := p(ctx, &proxy.Request{Method: "GET", URL: mustURL(u), Headers: map[string][]string{}})
		dec := decodeIndependent(rp.body)
		obs := "None"
		var obsJS interface{}
		if resp != nil {
			n, ok := normalise(resp.Data)
			data, _ := n.(map[string]interface{})
			if !ok || (n != nil && data == nil) {
				data = map[string]interface{}{"<unserialisable>": true}
			}
			if data == nil {
				data = map[string]interface{}{}
			}
			obs = emit.Some(fmt.Sprintf("{| p_data := %s; p_complete := %s; p_status := %s |}", emit.Obj(data), emit.Bool(resp.IsComplete), emit.Z(int64(resp.Metadata.StatusCode))))
			obsJS = map[string]interface{}{"data": data, "complete": resp.IsComplete, "status": resp.Metadata.StatusCode}
		}
		ec, ej := perrCoq(err, dec != nil)
		return pobs{obs, ec, ej, obsJS, dec}
	}
	emitProxy := func(d, c cfgval, rp reply, o pobs, level string) {
		term := emit.App("CProxy", d.coq(), c.coq(), rp.coq(), optObj(o.dec, o.dec != nil), emit.Pair(o.obs, o.ec))
		// the 66 000-byte body is written as a computed term (parsing a literal of that size costs seconds)
		term = strings.ReplaceAll(term, emit.Str(bigBody), bigBodyTerm)
		// ... and so is any long prefix of it that comes back (a cut body), else coqc overflows its stack
		term = bigPrefixRe.ReplaceAllStringFunc(term, func(lit string) string {
			n := len(lit) - 2
			if !strings.HasPrefix(bigBody, lit[1:len(lit)-1]) {
				return lit
			}
			return fmt.Sprintf("(String.substring 0 (N.to_nat %d%%N) %s)", n, bigBodyTerm)
		})
		js := map[string]interface{}{"level": level, "details": d.String(), "code_cfg": c.String(), "reply": rp.js(), "observed": map[string]interface{}{"resp": o.obsJS, "err": o.ej}}
		canon := fmt.Sprintf("%s|%v|%v|%d|%s|%s", level, d, c, rp.code, rp.body, rp.enc)
		w.Count("level:" + level)
		w.Count("mode:" + modeName(d, c))
		w.Add(compact(term), js, "", canon, rp.code != 200)
	}
	proxyCase := func(d, c cfgval, rp reply) {
		be := &config.Backend{Encoding: encoding.JSON, Decoder: encoding.JSONDecoder, ExtraConfig: extra(d, c)}
		p := proxy.NewHTTPProxyWithHTTPExecutor(be, executor(rp), be.Decoder)
		emitProxy(d, c, rp, observe(p, rp, "http://h/x"), "proxy")
	}
	// one proxy shared by concurrent requests that get different replies: every caller must
	// see its own backend's status and body (state shared between in-flight requests would
	// show up as another request's code or body)
	concurrentBatch := func(d, c cfgval, goroutines, calls int) {
		be := &config.Backend{Encoding: encoding.JSON, Decoder: encoding.JSONDecoder, ExtraConfig: extra(d, c)}
		// a small set of distinct replies hit over and over: every distinct (reply, observation)
		// pair is emitted once, so a run without interference yields exactly one case per reply
		const distinct = 24
		replyOf := func(j int) reply {
			code := 100 + (j*137)%500
			if j%6 == 0 {
				code = 200 + (j/6)%2
			}
			b := bodies[j%len(bodies)]
			body := b.body
			if strings.HasPrefix(body, "{\"a\"") {
				body = fmt.Sprintf(`{"a":%d,"secret":"MARKER-%d"}`, j, j)
			} else if b.enc == "text/plain" {
				body = fmt.Sprintf("MARKER-plain-%d", j)
			}
			return reply{code, body, b.enc}
		}
		exec := func(_ context.Context, req *http.Request) (*http.Response, error) {
			var j int
			fmt.Sscanf(req.URL.Path, "/c/%d", &j)
			r := replyOf(j)
			h := http.Header{}
			if r.enc != "" {
				h.Set("Content-Type", r.enc)
			}
			return &http.Response{StatusCode: r.code, Header: h, Body: io.NopCloser(strings.NewReader(r.body))}, nil
		}
		p := proxy.NewHTTPProxyWithHTTPExecutor(be, exec, be.Decoder)
		type seenT struct {
			j int
			o pobs
		}
		res := make([]map[string]seenT, goroutines)
		start := make(chan struct{})
		var wg sync.WaitGroup
		for g := 0; g < goroutines; g++ {
			res[g] = map[string]seenT{}
			wg.Add(1)
			go func(g int) {
				defer wg.Done()
				<-start
				for k := 0; k < calls; k++ {
					j := (g*7 + k) % distinct
					o := observe(p, replyOf(j), fmt.Sprintf("http://h/c/%d", j))
					key := fmt.Sprintf("%03d|%s|%s", j, o.obs, o.ec)
					if _, ok := res[g][key]; !ok {
						res[g][key] = seenT{j, o}
					}
				}
			}(g)
		}
		close(start)
		wg.Wait()
		all := map[string]seenT{}
		for g := 0; g < goroutines; g++ {
			for k, v := range res[g] {
				all[k] = v
			}
		}
		keys := make([]string, 0, len(all))
		for k := range all {
			keys = append(keys, k)
		}
		sort.Strings(keys)
		for _, k := range keys {
			emitProxy(d, c, replyOf(all[k].j), all[k].o, "proxy-concurrent")
		}
		w.Count(fmt.Sprintf("concurrent-calls:%d", goroutines*calls))
	}
	for code := 100; code <= 599; code++ {
		for mi, m := range [][2]cfgval{{detailsVals[0], codeVals[0]}, {detailsVals[0], codeVals[1]}, {detailsVals[2], codeVals[0]}} {
			nb := 1
			if cfg.Thorough() {
				nb = len(bodies)
			}
			for k := 0; k < nb; k++ {
				b := bodies[(code+mi+k)%len(bodies)]
				proxyCase(m[0], m[1], reply{code, b.body, b.enc})
			}
		}
	}
	for _, d := range detailsVals {
		for _, c := range codeVals {
			for _, code := range []int{200, 201, 202, 404, 500} {
				b := bodies[r.Intn(len(bodies))]
				proxyCase(d, c, reply{code, b.body, b.enc})
			}
		}
	}

	// ---- proxy level: large error bodies, and bodies that arrive only when the deadline fires ----
	for _, m := range [][2]cfgval{{detailsVals[0], codeVals[0]}, {detailsVals[0], codeVals[1]}, {detailsVals[2], codeVals[0]}} {
		for _, code := range []int{200, 404, 503} {
			proxyCase(m[0], m[1], reply{code, bigBody, "text/plain"})
		}
		for _, code := range []int{204, 302, 404, 429, 500, 503} {
			for _, b := range bodies[:2] {
				rp := reply{code, b.body, b.enc}
				be := &config.Backend{Encoding: encoding.JSON, Decoder: encoding.JSONDecoder, ExtraConfig: extra(m[0], m[1])}
				ctx, cancel := context.WithTimeout(context.Background(), 40*time.Millisecond)
				exec := func(c context.Context, _ *http.Request) (*http.Response, error) {
					h := http.Header{}
					if rp.enc != "" {
						h.Set("Content-Type", rp.enc)
					}
					return &http.Response{StatusCode: rp.code, Header: h, Body: &gatedBody{ctx, strings.NewReader(rp.body)}}, nil
				}
				p := proxy.NewHTTPProxyWithHTTPExecutor(be, exec, be.Decoder)
				emitProxy(m[0], m[1], rp, observeCtx(ctx, p, rp, "http://h/slow"), "proxy-slow-body")
				cancel()
			}
		}
	}

	// ---- proxy level: announced lengths (known, unknown = chunked / close-delimited) and a body that
	//      fails after a prefix (the status handlers drop the body of a failed read, the code stays) ----
	for _, m := range [][2]cfgval{{detailsVals[0], codeVals[0]}, {detailsVals[0], codeVals[1]}, {detailsVals[2], codeVals[0]}} {
		for _, code := range []int{201, 404, 418, 503} {
			for bi, b := range bodies[:3] {
				for _, cl := range []int64{-1, int64(len(b.body)), 0} {
					rp := reply{code, b.body, b.enc}
					be := &config.Backend{Encoding: encoding.JSON, Decoder: encoding.JSONDecoder, ExtraConfig: extra(m[0], m[1])}
					exec := func(_ context.Context, _ *http.Request) (*http.Response, error) {
						h := http.Header{}
						if rp.enc != "" {
							h.Set("Content-Type", rp.enc)
						}
						return &http.Response{StatusCode: rp.code, Header: h, ContentLength: cl, Body: io.NopCloser(strings.NewReader(rp.body))}, nil
					}
					p := proxy.NewHTTPProxyWithHTTPExecutor(be, exec, be.Decoder)
					emitProxy(m[0], m[1], rp, observe(p, rp, fmt.Sprintf("http://h/cl/%d", cl)), "proxy-content-length")
				}
				if code >= 400 && bi < 2 {
					// 7 bytes arrive, then the connection breaks: what the handlers keep is the empty body
					sent := b.body
					if len(sent) > 7 {
						sent = sent[:7]
					}
					rp := reply{code, "", b.enc}
					be := &config.Backend{Encoding: encoding.JSON, Decoder: encoding.JSONDecoder, ExtraConfig: extra(m[0], m[1])}
					exec := func(_ context.Context, _ *http.Request) (*http.Response, error) {
						h := http.Header{}
						if rp.enc != "" {
							h.Set("Content-Type", rp.enc)
						}
						return &http.Response{StatusCode: rp.code, Header: h, ContentLength: 100, Body: &faultyBody{strings.NewReader(sent)}}, nil
					}
					p := proxy.NewHTTPProxyWithHTTPExecutor(be, exec, be.Decoder)
					emitProxy(m[0], m[1], rp, observe(p, rp, "http://h/fault"), "proxy-body-fault")
				}
			}
		}
	}

	// ---- proxy level, one proxy shared by concurrent in-flight requests ----
	{
		g, k := 16, 4000
		if cfg.Thorough() {
			g, k = 32, 40000
		}
		for _, m := range [][2]cfgval{{detailsVals[0], codeVals[0]}, {detailsVals[0], codeVals[1]}, {detailsVals[2], codeVals[0]}} {
			concurrentBatch(m[0], m[1], g, k)
		}
	}

	// ---- client level ----
	clientRun := func(impl string, bs []beSpec) (int, string, string, string) {
		sc := config.ServiceConfig{Version: config.ConfigVersion, Timeout: 30 * time.Second, Host: []string{"http://127.0.0.1:8081"}}
		ep := &config.EndpointConfig{Endpoint: "/x", Method: "GET"}
		for i, b := range bs {
			ep.Backend = append(ep.Backend, &config.Backend{URLPattern: fmt.Sprintf("/b%d", i), ExtraConfig: extra(b.d, b.c)})
		}
		sc.Endpoints = []*config.EndpointConfig{ep}
		if err := sc.Init(); err != nil {
			panic(err)
		}
		bf := func(be *config.Backend) proxy.Proxy {
			for i := range bs {
				if be.URLPattern == fmt.Sprintf("/b%d", i) {
					return proxy.NewHTTPProxyWithHTTPExecutor(be, executor(bs[i].r), be.Decoder)
				}
			}
			panic("unknown backend")
		}
		p, err := proxy.NewDefaultFactory(bf, logging.NoOp).New(ep)
		if err != nil {
			panic(err)
		}
		rec := httptest.NewRecorder()
		req := httptest.NewRequest("GET", "/x", nil)
		if impl == "Gin" {
			e := gin.New()
			e.GET("/x", krakendgin.EndpointHandler(ep, p))
			e.ServeHTTP(rec, req)
		} else {
			mux.EndpointHandler(ep, p)(rec, req)
		}
		return rec.Code, rec.Header().Get("X-Krakend-Completed"), rec.Header().Get("Content-Type"), rec.Body.String()
	}
	cobs := func(status int, completed, ctype, raw string) (string, interface{}) {
		body := emit.App("BRaw", emit.Str(raw))
		if strings.HasPrefix(ctype, "application/json") {
			d := json.NewDecoder(strings.NewReader(raw))
			d.UseNumber()
			var v interface{}
			if err := d.Decode(&v); err == nil {
				body = emit.App("BJson", emit.Json(v))
			}
		}
		return fmt.Sprintf("{| c_status := %s; c_completed := %s; c_body := %s |}", emit.Z(int64(status)), emit.Str(completed), body),
			map[string]interface{}{"status": status, "completed": completed, "content_type": ctype, "body": raw}
	}
	single := func(impl string, d, c cfgval, rp reply) {
		st, comp, ct, raw := clientRun(impl, []beSpec{{d, c, rp}})
		dec := decodeIndependent(rp.body)
		o, oj := cobs(st, comp, ct, raw)
		term := emit.App("CSingle", impl, d.coq(), c.coq(), rp.coq(), optObj(dec, dec != nil), o, emit.Str(raw))
		js := map[string]interface{}{"level": "single", "impl": impl, "details": d.String(), "code_cfg": c.String(), "reply": rp.js(), "observed": oj}
		w.Count("level:single:" + impl)
		w.Count("mode:" + modeName(d, c))
		w.Add(compact(term), js, "", fmt.Sprintf("S|%s|%v|%v|%d|%s|%s", impl, d, c, rp.code, rp.body, rp.enc), rp.code != 200)
	}
	for _, impl := range []string{"Gin", "Mux"} {
		for code := 100; code <= 599; code++ {
			for mi, m := range [][2]cfgval{{detailsVals[0], codeVals[0]}, {detailsVals[0], codeVals[1]}, {detailsVals[2], codeVals[0]}} {
				if !cfg.Thorough() && code%3 != mi && code != 200 && code != 201 && code != 199 && code != 202 && code != 299 && code != 300 {
					continue
				}
				b := bodies[(code+mi+len(impl))%len(bodies)]
				single(impl, m[0], m[1], reply{code, b.body, b.enc})
			}
		}
	}
	// several backends
	type kind struct {
		d, c cfgval
		code int
	}
	for _, impl := range []string{"Gin", "Mux"} {
		for n := 2; n <= 3; n++ {
			total := 1
			for i := 0; i < n; i++ {
				total *= 5
			}
			for v := 0; v < total; v++ {
				fb := bodies[r.Intn(2)] // every failing backend of the case sends the same marked body
				failCode := []int{404, 500, 503, 302, 204, 100 + r.Intn(100), 202 + r.Intn(398)}[r.Intn(7)]
				var bs []beSpec
				x := v
				for i := 0; i < n; i++ {
					k := x % 5
					x /= 5
					switch k {
					case 0:
						bs = append(bs, beSpec{detailsVals[0], codeVals[0], reply{200, fmt.Sprintf(`{"k%d":%d,"o%d":{"x":[1,"two"]}}`, i, i, i), "application/json"}})
					case 1:
						bs = append(bs, beSpec{detailsVals[0], codeVals[1], reply{201, fmt.Sprintf(`{"c%d":"v%d"}`, i, i), "application/json"}})
					case 2:
						bs = append(bs, beSpec{detailsVals[0], codeVals[0], reply{failCode, fb.body, fb.enc}})
					case 3:
						bs = append(bs, beSpec{detailsVals[0], codeVals[1], reply{failCode, strings.ReplaceAll(fb.body, "MARKER", "ERRCODE"), fb.enc}})
					case 4:
						bs = append(bs, beSpec{cfgval{kind: "str", s: fmt.Sprintf("n%d", i)}, codeVals[0], reply{failCode, strings.ReplaceAll(fb.body, "MARKER", fmt.Sprintf("DETAILS%d", i)), fb.enc}})
					}
				}
				st, comp, ct, raw := clientRun(impl, bs)
				o, oj := cobs(st, comp, ct, raw)
				var bl []string
				var bj []interface{}
				for _, b := range bs {
					dec := decodeIndependent(b.r.body)
					bl = append(bl, emit.Tuple(b.d.coq(), b.c.coq(), b.r.coq(), optObj(dec, dec != nil)))
					bj = append(bj, map[string]interface{}{"details": b.d.String(), "code_cfg": b.c.String(), "reply": b.r.js()})
				}
				term := emit.App("CMulti", impl, emit.List(bl), o, emit.Str(raw))
				js := map[string]interface{}{"level": "multi", "impl": impl, "backends": bj, "observed": oj}
				w.Count("level:multi:" + impl)
				w.Add(compact(term), js, "", fmt.Sprintf("M|%s|%d|%d|%d|%s", impl, n, v, failCode, fb.body), true)
			}
		}
	}
	// ---- raw extra_config, endpoint stages, all routers, gin behind recorded errors, HEAD replies ----
	endpointGen{w, cfg, r}.run()
	w.Close("proxy level: every status 100..599 x 3 modes (thorough: x 7 bodies) + 6x4 extra_config value combinations; client level: gin and mux handlers over the default factory, single backend (quick: a third of the codes per mode + boundaries; thorough: all) and all 5^2+5^3 outcome vectors for 2..3 backends; raw backend extra_config maps (57 shapes: namespace absent / ill-typed, each key absent / ill-typed / both) at proxy and client level; endpoints built by proxy.NewDefaultFactory with flatmap_filter (3 harmless declarations, 5 that build no stage) and static data (8 strategies incl. unknown and ill-typed, odd declarations) over all 5^2 (5^3) outcome vectors; routers gin (0, 1, 3 c.Error entries recorded by earlier middleware; return_error_msg on/off), mux, chi, gorilla, httptreemux, negroni; HEAD backends (no body, announced length 0/27/unknown); backend encodings json / json collection / safejson / string / no-op / unregistered names x 12 bodies (object, array, scalars, null, not JSON, empty, trailing data, truncated) x 3 modes x statuses 200/201/404/204 against an independent parse of the body as a JSON value; 13 other spellings of the encoding names (No-Op, NO-OP, JSON, SafeJSON, ...) on backends that come out of config.ServiceConfig.Init; handler reuse: one mounted handler per router x 7 backend configurations (x static / flatmap stages on gin and mux) serving 6-7 requests in a row (complete, failing, partial, error_<name>, complete again), every answer compared; nontrivial = some backend status other than 200", true)
}

type beSpec struct {
	d, c cfgval
	r    reply
}
