// C12 generator, second part: endpoints built through the real proxy.NewDefaultFactory stack with
// endpoint-level extra_config stages (flatmap_filter, static data), mounted on every router of the
// repository (gin - also behind middleware that already recorded c.Error entries and with the
// return_error_msg option -, mux, chi, gorilla, httptreemux, negroni), backends configured through
// RAW extra_config maps (namespace present/absent, wrong types, both keys), HEAD / empty replies.
package main

import (
	"context"
	"encoding/json"
	"errors"
	"fmt"
	"io"
	"net/http"
	"net/http/httptest"
	"os"
	"strings"
	"time"

	"github.com/gin-gonic/gin"
	"github.com/go-chi/chi/v5"
	"github.com/luraproject/lura/v2/config"
	"github.com/luraproject/lura/v2/encoding"
	"github.com/luraproject/lura/v2/logging"
	"github.com/luraproject/lura/v2/proxy"
	krakendchi "github.com/luraproject/lura/v2/router/chi"
	krakendgin "github.com/luraproject/lura/v2/router/gin"
	"github.com/luraproject/lura/v2/router/gorilla"
	"github.com/luraproject/lura/v2/router/httptreemux"
	"github.com/luraproject/lura/v2/router/mux"
	"github.com/luraproject/lura/v2/router/negroni"
	"github.com/luraproject/lura/v2/transport/http/client"

	"verif/harness/internal/emit"
	"verif/harness/internal/out"
	"verif/harness/internal/rng"
)

// a backend of an endpoint: raw extra_config, scripted reply, HEAD-like reply (no body, announced length)
type rawBackend struct {
	extra    map[string]interface{}
	r        reply
	head     bool  // the backend is asked with HEAD: the reply has no body whatever it announces
	announce int64 // Content-Length announced by a HEAD reply
}

type epSpec struct {
	router string   // Gin | GinMsg | Mux | Chi | Gorilla | Treemux | Negroni
	prior  []string // gin: texts of the c.Error entries recorded before the endpoint handler runs
	epx    map[string]interface{}
	bs     []rawBackend
}

func (s epSpec) routerCoq() string {
	switch s.router {
	case "Gin":
		return "(RGin false)"
	case "GinMsg":
		return "(RGin true)"
	}
	return "R" + s.router
}

func rawMode(extra map[string]interface{}) string {
	m, ok := extra[client.Namespace].(map[string]interface{})
	if !ok {
		return "default"
	}
	if v, ok := m["return_error_details"]; ok {
		if s, ok := v.(string); ok && s != "" {
			return "details"
		}
		return "default"
	}
	if b, ok := m["return_error_code"].(bool); ok && b {
		return "error_code"
	}
	return "default"
}

func headExecutor(b rawBackend) client.HTTPRequestExecutor {
	if !b.head {
		return executor(b.r)
	}
	return func(_ context.Context, req *http.Request) (*http.Response, error) {
		h := http.Header{}
		if b.r.enc != "" {
			h.Set("Content-Type", b.r.enc)
		}
		if req.Method != "HEAD" {
			return nil, errors.New("harness: the backend request is not a HEAD")
		}
		return &http.Response{StatusCode: b.r.code, Header: h, ContentLength: b.announce, Body: http.NoBody}, nil
	}
}

var devNull, _ = os.OpenFile(os.DevNull, os.O_WRONLY, 0)

// mounted is one endpoint handler behind its router: serve performs one request against the SAME
// handler instance (the backends answer what *cur says at that moment)
type mounted struct {
	serve func() (status int, completed, ctype, raw string, panicked bool)
	done  func()
}

// mountEndpoint builds the endpoint with the default factory and mounts it once.
func mountEndpoint(s epSpec, cur *[]rawBackend) mounted {
	sc := config.ServiceConfig{Version: config.ConfigVersion, Timeout: 30 * time.Second, Host: []string{"http://127.0.0.1:8081"}}
	ep := &config.EndpointConfig{Endpoint: "/x", Method: "GET", ExtraConfig: config.ExtraConfig(s.epx)}
	for i, b := range s.bs {
		be := &config.Backend{URLPattern: fmt.Sprintf("/b%d", i), ExtraConfig: config.ExtraConfig(b.extra)}
		if b.head {
			be.Method = "HEAD"
		}
		ep.Backend = append(ep.Backend, be)
	}
	sc.Endpoints = []*config.EndpointConfig{ep}
	if err := sc.Init(); err != nil {
		panic(err)
	}
	bf := func(be *config.Backend) proxy.Proxy {
		for i := range s.bs {
			if be.URLPattern == fmt.Sprintf("/b%d", i) {
				i := i
				exec := func(ctx context.Context, req *http.Request) (*http.Response, error) {
					return headExecutor((*cur)[i])(ctx, req)
				}
				return proxy.NewHTTPProxyWithHTTPExecutor(be, exec, be.Decoder)
			}
		}
		panic("unknown backend")
	}
	pf := proxy.NewDefaultFactory(bf, logging.NoOp)
	p, err := pf.New(ep)
	if err != nil {
		panic(err)
	}
	var handler http.Handler
	done := func() {}
	muxEngine := func(e mux.Engine, hf mux.HandlerFactory) {
		e.Handle("/x", "GET", hf(ep, p))
		handler = e
	}
	switch s.router {
	case "Gin", "GinMsg":
		var e *gin.Engine
		if s.router == "GinMsg" {
			e = ginEngine(true)
			done = func() { ginEngine(false) }
		} else {
			e = gin.New()
		}
		if s.prior != nil {
			prior := s.prior
			e.Use(func(c *gin.Context) {
				for _, t := range prior {
					_ = c.Error(errors.New(t))
				}
				c.Next()
			})
		}
		e.GET("/x", krakendgin.EndpointHandler(ep, p))
		handler = e
	case "Mux":
		muxEngine(mux.DefaultEngine(), mux.EndpointHandler)
	case "Chi":
		r := chi.NewRouter()
		r.Get("/x", krakendchi.NewEndpointHandler(ep, p))
		handler = r
	case "Gorilla":
		c := gorilla.DefaultConfig(pf, logging.NoOp)
		muxEngine(c.Engine, c.HandlerFactory)
	case "Treemux":
		c := httptreemux.DefaultConfig(pf, logging.NoOp)
		muxEngine(c.Engine, c.HandlerFactory)
	case "Negroni":
		// negroni.Classic() logs every request on the stdout it sees when it is built
		saved := os.Stdout
		if devNull != nil {
			os.Stdout = devNull
		}
		c := negroni.DefaultConfig(pf, logging.NoOp, nil)
		os.Stdout = saved
		muxEngine(c.Engine, c.HandlerFactory)
	default:
		panic("unknown router " + s.router)
	}
	serve := func() (status int, completed, ctype, raw string, panicked bool) {
		rec := httptest.NewRecorder()
		req := httptest.NewRequest("GET", "/x", nil)
		defer func() {
			if r := recover(); r != nil {
				status, completed, ctype, raw, panicked = 0, "panic", "", "", true
			}
		}()
		handler.ServeHTTP(rec, req)
		return rec.Code, rec.Header().Get("X-Krakend-Completed"), rec.Header().Get("Content-Type"), rec.Body.String(), false
	}
	return mounted{serve, done}
}

// runEndpoint: one fresh handler, one request.
func runEndpoint(s epSpec) (status int, completed, ctype, raw string, panicked bool) {
	m := mountEndpoint(s, &s.bs)
	defer m.done()
	return m.serve()
}

// ginEngine builds the engine the way the gin router does; return_error_msg is a package level
// switch of router/gin that NewEngine sets from the service extra_config.
func ginEngine(msg bool) *gin.Engine {
	return krakendgin.NewEngine(config.ServiceConfig{ExtraConfig: config.ExtraConfig{
		krakendgin.Namespace: map[string]interface{}{"return_error_msg": msg, "disable_health": true, "disable_access_log": true},
	}}, krakendgin.EngineOptions{Logger: logging.NoOp, Writer: io.Discard})
}

func orEmpty(m map[string]interface{}) map[string]interface{} {
	if m == nil {
		return map[string]interface{}{}
	}
	return m
}

func cobsTerm(status int, completed, ctype, raw string) (string, interface{}) {
	body := emit.App("BRaw", emit.Str(raw))
	if strings.HasPrefix(ctype, "application/json") {
		d := json.NewDecoder(strings.NewReader(raw))
		d.UseNumber()
		var v interface{}
		if err := d.Decode(&v); err == nil {
			body = emit.App("BJson", emit.Json(v))
		}
	}
	return fmt.Sprintf("{| c_status := %s; c_completed := %s; c_body := %s |}", emit.Z(int64(status)), emit.Str(completed), body),
		map[string]interface{}{"status": status, "completed": completed, "content_type": ctype, "body": raw}
}

func jsonText(v interface{}) string {
	b, err := json.Marshal(v)
	if err != nil {
		return fmt.Sprintf("%#v", v)
	}
	return string(b)
}

type endpointGen struct {
	w   *out.Writer
	cfg out.Config
	r   *rng.R
}

func (g endpointGen) emitEndpoint(kind string, s epSpec) {
	st, comp, ct, raw, _ := runEndpoint(s)
	g.emitObserved(kind, s, nil, st, comp, ct, raw)
}

// emitSequence mounts the endpoint once and sends it one request per step of seq (the replies of
// the backends for that step): every answer is a case of its own, the handler instance is shared.
func (g endpointGen) emitSequence(kind string, s epSpec, seq [][]reply) {
	cur := append([]rawBackend(nil), s.bs...)
	m := mountEndpoint(s, &cur)
	defer m.done()
	var history []interface{}
	for _, step := range seq {
		for i := range cur {
			cur[i].r = step[i]
		}
		st, comp, ct, raw, _ := m.serve()
		ss := s
		ss.bs = append([]rawBackend(nil), cur...)
		g.emitObserved(kind, ss, append([]interface{}{}, history...), st, comp, ct, raw)
		var codes []int
		for _, r := range step {
			codes = append(codes, r.code)
		}
		history = append(history, map[string]interface{}{"backend_statuses": codes, "answered": st, "completed": comp})
	}
}

func (g endpointGen) emitObserved(kind string, s epSpec, history []interface{}, st int, comp, ct, raw string) {
	o, oj := cobsTerm(st, comp, ct, raw)
	var bl []string
	var bj []interface{}
	nontrivial := false
	for _, b := range s.bs {
		dec := decodeIndependent(b.r.body)
		bl = append(bl, emit.Tuple(emit.Obj(orEmpty(b.extra)), b.r.coq(), optObj(dec, dec != nil)))
		bj = append(bj, map[string]interface{}{"extra_config": fmt.Sprintf("%#v", b.extra), "mode": rawMode(b.extra), "reply": b.r.js(), "head": b.head, "announced": b.announce})
		if b.r.code != 200 {
			nontrivial = true
		}
		g.w.Count("mode:" + rawMode(b.extra))
	}
	term := emit.App("CEndpoint", s.routerCoq(), emit.StrList(s.prior), emit.Obj(orEmpty(s.epx)), bl[0], emit.List(bl[1:]), o, emit.Str(raw))
	js := map[string]interface{}{"level": "endpoint", "kind": kind, "router": s.router, "prior_gin_errors": s.prior,
		"endpoint_extra_config": fmt.Sprintf("%#v", s.epx), "backends": bj, "observed": oj}
	if history != nil {
		js["earlier_requests_on_this_handler"] = history
	}
	g.w.Count("level:endpoint:" + kind)
	g.w.Count("router:" + s.router)
	canon := fmt.Sprintf("E|%s|%s|%q|%#v|%s|%s", kind, s.router, s.prior, s.epx, jsonText(bj), jsonText(history))
	g.w.Add(compact(term), js, "", canon, nontrivial)
}

func ns(m map[string]interface{}) map[string]interface{} {
	return map[string]interface{}{client.Namespace: m}
}

func epNS(m map[string]interface{}) map[string]interface{} {
	return map[string]interface{}{proxy.Namespace: m}
}

func flatOp(t string, args ...interface{}) map[string]interface{} {
	m := map[string]interface{}{"type": t}
	if args != nil {
		m["args"] = args
	}
	return m
}

func staticCfg(strategy interface{}, data interface{}) map[string]interface{} {
	m := map[string]interface{}{"data": data}
	if strategy != nil {
		m["strategy"] = strategy
	}
	return map[string]interface{}{"static": m}
}

func merged(ms ...map[string]interface{}) map[string]interface{} {
	res := map[string]interface{}{}
	for _, m := range ms {
		for k, v := range m {
			res[k] = v
		}
	}
	return res
}

// raw backend extra_config maps: every way the two keys can be present, absent or ill-typed
func rawExtras() []map[string]interface{} {
	nsName := client.Namespace
	res := []map[string]interface{}{
		nil,
		{},
		{nsName: "return_error_code"},
		{nsName: 5.0},
		{nsName: nil},
		{nsName: []interface{}{map[string]interface{}{"return_error_code": true}}},
		{nsName: map[string]string{"return_error_details": "b1"}},
		{nsName: config.ExtraConfig{"return_error_code": true}},
		{"github.com/devopsfaith/krakend/HTTP": map[string]interface{}{"return_error_code": true}},
		{proxy.Namespace: map[string]interface{}{"return_error_code": true, "return_error_details": "b1"}},
		ns(map[string]interface{}{}),
		ns(map[string]interface{}{"unrelated": true}),
	}
	codeVals := []interface{}{true, false, "true", 1.0, 1, nil, []interface{}{true}, map[string]interface{}{"v": true}}
	detVals := []interface{}{"b1", "", "Be-2_x", 5.0, true, nil, []interface{}{"b1"}, map[string]interface{}{"name": "b1"}}
	for _, c := range codeVals {
		res = append(res, ns(map[string]interface{}{"return_error_code": c}))
	}
	for _, d := range detVals {
		res = append(res, ns(map[string]interface{}{"return_error_details": d}))
	}
	for _, d := range detVals {
		for _, c := range []interface{}{true, false, "true"} {
			res = append(res, ns(map[string]interface{}{"return_error_details": d, "return_error_code": c, "x": 1.0}))
		}
	}
	// the keys are case sensitive
	res = append(res, ns(map[string]interface{}{"Return_error_code": true}), ns(map[string]interface{}{"return_error_code ": true}),
		ns(map[string]interface{}{"RETURN_ERROR_DETAILS": "b1", "return_error_code": true}))
	return res
}

var threeModes = []map[string]interface{}{
	nil,
	ns(map[string]interface{}{"return_error_code": true}),
	ns(map[string]interface{}{"return_error_details": "b1"}),
}

func (g endpointGen) run() {
	cfg, r := g.cfg, g.r
	extras := rawExtras()

	// ---- proxy level: raw extra_config ----
	for xi, x := range extras {
		for ci, code := range []int{200, 201, 204, 404, 503} {
			if !cfg.Thorough() && ci >= 2 && (xi+ci)%3 != 0 {
				continue
			}
			b := bodies[(xi+ci)%len(bodies)]
			rp := reply{code, b.body, b.enc}
			be := &config.Backend{Encoding: encoding.JSON, Decoder: encoding.JSONDecoder, ExtraConfig: config.ExtraConfig(x)}
			p := proxy.NewHTTPProxyWithHTTPExecutor(be, executor(rp), be.Decoder)
			g.emitProxyRaw("proxy-raw-config", x, rp, p, "GET")
		}
	}
	// ---- proxy level: HEAD replies (no body, whatever length is announced) and other empty replies ----
	for mi, x := range threeModes {
		for _, code := range []int{200, 201, 204, 301, 304, 404, 405, 500, 503} {
			for _, announce := range []int64{0, 27, -1} {
				rb := rawBackend{extra: x, r: reply{code, "", bodies[(mi+code)%2].enc}, head: true, announce: announce}
				be := &config.Backend{Encoding: encoding.JSON, Decoder: encoding.JSONDecoder, ExtraConfig: config.ExtraConfig(x)}
				p := proxy.NewHTTPProxyWithHTTPExecutor(be, headExecutor(rb), be.Decoder)
				g.emitProxyRaw("proxy-head", x, rb.r, p, "HEAD")
			}
		}
	}

	// ---- proxy level: the backend encodings (which bodies count as decoded; no-op passes through) ----
	encBodies := []struct{ body, enc string }{
		{`{"a":1,"s":"MARKER-enc-0011"}`, "application/json"},
		{`[1,{"b":2},"MARKER-enc-0012"]`, "application/json"},
		{`"MARKER just a string 0013"`, "application/json"},
		{`42`, "application/json"},
		{`null`, "application/json"},
		{`true`, ""},
		{`MARKER not json 0014`, "text/plain"},
		{``, ""},
		{`{"a":1} trailing`, "application/json"},
		{`{"a":`, "application/json"},
		{`[]`, "application/json"},
		{`{}`, "application/json"},
	}
	for ei, e := range []struct {
		name string
		coll bool
	}{{"json", false}, {"json", true}, {"safejson", false}, {"safejson", true}, {"string", false}, {"no-op", false}, {"xml", false}, {"", false}} {
		for mi, x := range threeModes {
			for ci, code := range []int{200, 201, 404, 204} {
				for bi, b := range encBodies {
					if !cfg.Thorough() && ci >= 2 && (ei+mi+bi)%3 != 0 {
						continue
					}
					rp := reply{code, b.body, b.enc}
					be := &config.Backend{Encoding: e.name, IsCollection: e.coll, ExtraConfig: config.ExtraConfig(x)}
					be.Decoder = encoding.GetRegister().Get(strings.ToLower(be.Encoding))(be.IsCollection)
					p := proxy.NewHTTPProxyWithHTTPExecutor(be, executor(rp), be.Decoder)
					g.emitProxyEnc(e.name, e.coll, x, rp, p)
				}
			}
		}
	}

	// ---- proxy level: other spellings of the registered encoding names; the backend comes out of
	//      config.ServiceConfig.Init (decoder looked up under the lower-cased name), the proxy
	//      compares the exact name ----
	for ni, name := range []string{"JSON", "Json", "SafeJSON", "SAFEJSON", "String", "STRING", "No-Op", "NO-OP", "no-Op", "Xml", "noop", "no_op", "no-op "} {
		for _, x := range threeModes {
			for ci, code := range []int{200, 503, 404, 201} {
				for _, b := range []int{0, 1, 6, 7} {
					if !cfg.Thorough() && ci >= 2 {
						continue
					}
					rp := reply{code, encBodies[b].body, encBodies[b].enc}
					sc := config.ServiceConfig{Version: config.ConfigVersion, Timeout: 30 * time.Second, Host: []string{"http://127.0.0.1:8081"}}
					ep := &config.EndpointConfig{Endpoint: "/x", Method: "GET", Backend: []*config.Backend{
						{URLPattern: "/b0", Encoding: name, IsCollection: ni == 0, ExtraConfig: config.ExtraConfig(x)}}}
					sc.Endpoints = []*config.EndpointConfig{ep}
					if err := sc.Init(); err != nil {
						panic(err)
					}
					be := ep.Backend[0]
					p := proxy.NewHTTPProxyWithHTTPExecutor(be, executor(rp), be.Decoder)
					g.emitProxyEnc(be.Encoding, be.IsCollection, x, rp, p)
				}
			}
		}
	}

	// ---- endpoint level, one backend ----
	codeStep := func(code, step, phase int) bool {
		if cfg.Thorough() {
			return true
		}
		switch code {
		case 199, 200, 201, 202, 204, 299, 300, 304, 404, 500, 503, 100, 599:
			return true
		}
		return code%step == phase
	}
	marked := func(code, k int) reply {
		b := bodies[(code+k)%len(bodies)]
		return reply{code, b.body, b.enc}
	}
	// gin behind middleware that already recorded c.Error entries (none: the existing single cases)
	priors := [][]string{{}, {"audit: request without a trace id"}, {"first", "second: MARKER-prior-0009", "third"}}
	for pi, prior := range priors {
		for mi, x := range threeModes {
			for code := 100; code <= 599; code++ {
				if !codeStep(code, 9, (pi*3+mi)%9) {
					continue
				}
				g.emitEndpoint("single-gin-prior-errors", epSpec{router: "Gin", prior: prior, bs: []rawBackend{{extra: x, r: marked(code, mi)}}})
			}
		}
	}
	// gin with return_error_msg
	for mi, x := range threeModes {
		for code := 100; code <= 599; code++ {
			if !codeStep(code, 11, mi) {
				continue
			}
			prior := priors[(code+mi)%3]
			g.emitEndpoint("single-gin-return-error-msg", epSpec{router: "GinMsg", prior: prior, bs: []rawBackend{{extra: x, r: marked(code, mi+1)}}})
		}
	}
	// the routers that mount the mux handler
	for ri, rt := range []string{"Mux", "Chi", "Gorilla", "Treemux", "Negroni"} {
		for mi, x := range threeModes {
			for code := 100; code <= 599; code++ {
				if !codeStep(code, 17, (ri*3+mi)%17) {
					continue
				}
				g.emitEndpoint("single-mux-family", epSpec{router: rt, bs: []rawBackend{{extra: x, r: marked(code, ri+mi)}}})
			}
		}
	}
	// raw backend extra_config at the client
	for xi, x := range extras {
		for ci, code := range []int{200, 404, 429} {
			rt := []string{"Gin", "Mux", "Chi", "GinMsg", "Gorilla", "Treemux", "Negroni"}[(xi+ci)%7]
			g.emitEndpoint("single-raw-config", epSpec{router: rt, prior: priors[(xi+ci)%3], bs: []rawBackend{{extra: x, r: marked(code, xi)}}})
		}
	}
	// HEAD backends / empty replies at the client
	for mi, x := range threeModes {
		for ci, code := range []int{200, 201, 204, 304, 404, 503} {
			for ri, rt := range []string{"Gin", "Mux", "GinMsg"} {
				announce := []int64{0, 27, -1}[(mi+ci+ri)%3]
				g.emitEndpoint("single-head", epSpec{router: rt, bs: []rawBackend{{extra: x, r: reply{code, "", bodies[ci%2].enc}, head: true, announce: announce}}})
			}
		}
	}
	// static data declared at the endpoint (single backend: no merger, no flatmap stage)
	staticData := map[string]interface{}{"st_static": "S", "st_n": json.Number("7")}
	strategies := []interface{}{nil, "always", "success", "errored", "complete", "incomplete", "sometimes", 5.0}
	for si, strat := range strategies {
		for mi, x := range threeModes {
			for ci, code := range []int{200, 201, 404, 503, 302} {
				for ri, rt := range []string{"Gin", "Mux", "GinMsg"} {
					if !cfg.Thorough() && (si+mi+ci+ri)%2 != 0 && ci > 0 {
						continue
					}
					rp := marked(code, si+mi)
					if code < 300 {
						rp = reply{code, fmt.Sprintf(`{"k0":%d,"o0":{"x":[1,"two"]}}`, si), "application/json"}
					}
					g.emitEndpoint("single-static", epSpec{router: rt, epx: epNS(staticCfg(strat, staticData)), bs: []rawBackend{{extra: x, r: rp}}})
				}
			}
		}
	}
	// static: empty data, a key of the backend overwritten, ill-formed declarations
	oddStatics := []map[string]interface{}{
		epNS(staticCfg("always", map[string]interface{}{})),
		epNS(staticCfg("errored", map[string]interface{}{})),
		epNS(staticCfg("always", map[string]interface{}{"k0": "overwritten", "error_b1": "overwritten"})),
		epNS(staticCfg("always", "not a map")),
		epNS(map[string]interface{}{"static": "not a map"}),
		epNS(map[string]interface{}{"static": map[string]interface{}{"strategy": "always"}}),
		{proxy.Namespace: "not a map"},
		{proxy.Namespace: map[string]string{"static": "x"}},
		{"some/other/namespace": staticCfg("always", staticData)},
		// flatmap_filter on a single-backend endpoint: the stage is not built
		epNS(map[string]interface{}{"flatmap_filter": []interface{}{flatOp("del", "zz_absent")}}),
	}
	for oi, epx := range oddStatics {
		for mi, x := range threeModes {
			for ci, code := range []int{200, 404, 503} {
				rt := []string{"Gin", "Mux", "GinMsg", "Chi"}[(oi+mi+ci)%4]
				rp := marked(code, oi)
				if code < 300 {
					rp = reply{code, `{"k0":1,"k1":"v"}`, "application/json"}
				}
				g.emitEndpoint("single-static-odd", epSpec{router: rt, epx: epx, bs: []rawBackend{{extra: x, r: rp}}})
			}
		}
	}

	// ---- endpoint level, several backends ----
	// outcome vectors as in the first part: per backend one of
	//   0: 200 + data, 1: 201 + data (return_error_code set), 2: failure in default mode,
	//   3: failure with return_error_code, 4: failure with return_error_details
	vector := func(n, v int) []rawBackend {
		fb := bodies[r.Intn(2)] // every failing backend of the case sends the same marked body
		failCode := []int{404, 500, 503, 302, 204, 100 + r.Intn(100), 202 + r.Intn(398)}[r.Intn(7)]
		var bs []rawBackend
		x := v
		for i := 0; i < n; i++ {
			k := x % 5
			x /= 5
			switch k {
			case 0:
				bs = append(bs, rawBackend{extra: nil, r: reply{200, fmt.Sprintf(`{"k%d":%d,"o%d":{"x":[1,"two"],"e":{}}}`, i, i, i), "application/json"}})
			case 1:
				bs = append(bs, rawBackend{extra: threeModes[1], r: reply{201, fmt.Sprintf(`{"c%d":"v%d"}`, i, i), "application/json"}})
			case 2:
				bs = append(bs, rawBackend{extra: nil, r: reply{failCode, fb.body, fb.enc}})
			case 3:
				bs = append(bs, rawBackend{extra: threeModes[1], r: reply{failCode, strings.ReplaceAll(fb.body, "MARKER", "ERRCODE"), fb.enc}})
			case 4:
				bs = append(bs, rawBackend{extra: ns(map[string]interface{}{"return_error_details": fmt.Sprintf("n%d", i)}), r: reply{failCode, strings.ReplaceAll(fb.body, "MARKER", fmt.Sprintf("DETAILS%d", i)), fb.enc}})
			}
		}
		return bs
	}
	pow5 := func(n int) int {
		t := 1
		for i := 0; i < n; i++ {
			t *= 5
		}
		return t
	}
	// flatmap_filter declarations whose operations leave the data alone
	flatmaps := []map[string]interface{}{
		epNS(map[string]interface{}{"flatmap_filter": []interface{}{flatOp("del", "zz_absent")}}),
		epNS(map[string]interface{}{"flatmap_filter": []interface{}{flatOp("noop")}}),
		epNS(map[string]interface{}{"flatmap_filter": []interface{}{flatOp("move", "zz_absent", "zz_other"), "junk", flatOp("del", "zz.absent.deep")}}),
	}
	for fi, epx := range flatmaps {
		for ri, rt := range []string{"Gin", "Mux"} {
			for n := 2; n <= 3; n++ {
				if n == 3 && fi > 0 && !cfg.Thorough() {
					continue
				}
				for v := 0; v < pow5(n); v++ {
					if n == 3 && !cfg.Thorough() && (v+ri)%2 != 0 {
						continue
					}
					g.emitEndpoint("multi-flatmap", epSpec{router: rt, epx: epx, bs: vector(n, v)})
				}
			}
		}
	}
	// declarations that do not build the stage
	noFlatmaps := []map[string]interface{}{
		epNS(map[string]interface{}{"flatmap_filter": []interface{}{}}),
		epNS(map[string]interface{}{"flatmap_filter": "del"}),
		epNS(map[string]interface{}{"flatmap_filter": []interface{}{"del", 5.0, map[string]interface{}{"type": 5.0}}}),
		epNS(map[string]interface{}{"flatmap_filter": map[string]interface{}{"type": "del"}}),
		{proxy.Namespace: []interface{}{}},
	}
	for fi, epx := range noFlatmaps {
		for v := 0; v < 25; v++ {
			if !cfg.Thorough() && (v+fi)%3 != 0 {
				continue
			}
			g.emitEndpoint("multi-flatmap-not-built", epSpec{router: []string{"Gin", "Mux"}[(v+fi)%2], epx: epx, bs: vector(2, v)})
		}
	}
	// static data over the merger, alone and together with the flatmap stage
	for si, strat := range strategies {
		for fi, fm := range []map[string]interface{}{nil, flatmaps[0][proxy.Namespace].(map[string]interface{})} {
			for ri, rt := range []string{"Gin", "Mux"} {
				for v := 0; v < 25; v++ {
					if !cfg.Thorough() && (v+si+fi+ri)%2 != 0 {
						continue
					}
					epx := epNS(merged(staticCfg(strat, staticData), fm))
					kind := "multi-static"
					if fm != nil {
						kind = "multi-flatmap-static"
					}
					g.emitEndpoint(kind, epSpec{router: rt, epx: epx, bs: vector(2, v)})
				}
			}
		}
	}
	// every router, gin behind recorded errors and with return_error_msg, with and without the stages
	for ri, rt := range []string{"Gin", "GinMsg", "Mux", "Chi", "Gorilla", "Treemux", "Negroni"} {
		for ei, epx := range []map[string]interface{}{nil, flatmaps[0], epNS(merged(staticCfg("incomplete", staticData), flatmaps[1][proxy.Namespace].(map[string]interface{})))} {
			for v := 0; v < 25; v++ {
				if !cfg.Thorough() && (v+ri+ei)%2 != 0 {
					continue
				}
				var prior []string
				if strings.HasPrefix(rt, "Gin") {
					prior = priors[(v+ei)%3]
				}
				g.emitEndpoint("multi-routers", epSpec{router: rt, prior: prior, epx: epx, bs: vector(2, v)})
			}
		}
	}
	// HEAD backends among the siblings
	for mi, x := range threeModes {
		for ci, code := range []int{200, 404} {
			for ri, rt := range []string{"Gin", "Mux"} {
				bs := []rawBackend{
					{extra: nil, r: reply{200, `{"k0":0}`, "application/json"}},
					{extra: x, r: reply{code, "", "text/plain"}, head: true, announce: 27},
				}
				if (mi+ci+ri)%2 == 1 {
					bs[0], bs[1] = bs[1], bs[0]
				}
				g.emitEndpoint("multi-head", epSpec{router: rt, epx: []map[string]interface{}{nil, flatmaps[0]}[(mi+ci)%2], bs: bs})
			}
		}
	}

	// ---- one handler instance serving a history of requests: a complete answer first, then failing,
	//      partial and error_<name> answers, complete ones in between (state kept by a handler across
	//      requests would show as an answer that depends on the earlier ones) ----
	failCodes := []int{503, 404, 302, 204, 500, 429, 101, 418}
	replyFor := func(extra map[string]interface{}, i, step int, fails bool) reply {
		if !fails {
			return reply{200 + step%2, fmt.Sprintf(`{"k%d":%d,"o%d":{"x":[1,"two"]}}`, i, step, i), "application/json"}
		}
		fb := bodies[step%2]
		tag := "MARKER"
		switch rawMode(extra) {
		case "error_code":
			tag = "ERRCODE"
		case "details":
			tag = fmt.Sprintf("DETAILS%d", i)
		}
		return reply{failCodes[(step+i)%len(failCodes)], strings.ReplaceAll(fb.body, "MARKER", tag), fb.enc}
	}
	det := func(i int) map[string]interface{} {
		return ns(map[string]interface{}{"return_error_details": fmt.Sprintf("n%d", i)})
	}
	reuseConfigs := [][]map[string]interface{}{
		{nil}, {threeModes[1]}, {det(0)},
		{nil, nil}, {nil, threeModes[1]}, {det(0), nil}, {det(0), det(1)},
	}
	patterns := map[int][]int{1: {0, 1, 0, 1, 1, 0}, 2: {0, 2, 3, 0, 1, 2, 0}} // bit i: backend i fails at that step
	for ri, rt := range []string{"Gin", "GinMsg", "Mux", "Chi", "Gorilla", "Treemux", "Negroni"} {
		for ci, extras := range reuseConfigs {
			n := len(extras)
			epxs := []map[string]interface{}{nil}
			if rt == "Gin" || rt == "Mux" {
				epxs = append(epxs, epNS(staticCfg("incomplete", staticData)))
				if n > 1 {
					epxs = append(epxs, flatmaps[0])
				}
			}
			for ei, epx := range epxs {
				var bs []rawBackend
				for _, x := range extras {
					bs = append(bs, rawBackend{extra: x})
				}
				var seq [][]reply
				for step, mask := range patterns[n] {
					var rs []reply
					for i, x := range extras {
						rs = append(rs, replyFor(x, i, step, mask&(1<<i) != 0))
					}
					seq = append(seq, rs)
				}
				var prior []string
				if strings.HasPrefix(rt, "Gin") {
					prior = priors[(ri+ci+ei)%3]
				}
				g.emitSequence("handler-reuse", epSpec{router: rt, prior: prior, epx: epx, bs: bs}, seq)
			}
		}
	}
}

func (g endpointGen) emitProxyRaw(level string, x map[string]interface{}, rp reply, p proxy.Proxy, method string) {
	resp, err := p(context.Background(), &proxy.Request{Method: method, URL: mustURL("http://h/x"), Headers: map[string][]string{}})
	dec := decodeIndependent(rp.body)
	obs := "None"
	var obsJS interface{}
	if resp != nil {
		n, ok := normalise(resp.Data)
		data, _ := n.(map[string]interface{})
		if !ok || (n != nil && data == nil) {
			data = map[string]interface{}{"<unserialisable>": true}
		}
		if data == nil {
			data = map[string]interface{}{}
		}
		obs = emit.Some(fmt.Sprintf("{| p_data := %s; p_complete := %s; p_status := %s |}", emit.Obj(data), emit.Bool(resp.IsComplete), emit.Z(int64(resp.Metadata.StatusCode))))
		obsJS = map[string]interface{}{"data": data, "complete": resp.IsComplete, "status": resp.Metadata.StatusCode}
	}
	ec, ej := perrCoq(err, dec != nil)
	term := emit.App("CProxyRaw", emit.Obj(orEmpty(x)), rp.coq(), optObj(dec, dec != nil), emit.Pair(obs, ec))
	js := map[string]interface{}{"level": level, "extra_config": fmt.Sprintf("%#v", x), "mode": rawMode(x), "reply": rp.js(), "backend_method": method,
		"observed": map[string]interface{}{"resp": obsJS, "err": ej}}
	g.w.Count("level:" + level)
	g.w.Count("mode:" + rawMode(x))
	g.w.Add(compact(term), js, "", fmt.Sprintf("%s|%#v|%d|%s|%s|%s", level, x, rp.code, rp.body, rp.enc, method), rp.code != 200)
}

// parseValue is the independent parse of a body as a JSON value (first value of the stream, as
// encoding/json's Decoder reads it)
func parseValue(body string) (interface{}, bool) {
	d := json.NewDecoder(strings.NewReader(body))
	d.UseNumber()
	var v interface{}
	if err := d.Decode(&v); err != nil {
		return nil, false
	}
	return v, true
}

func (g endpointGen) emitProxyEnc(enc string, coll bool, x map[string]interface{}, rp reply, p proxy.Proxy) {
	resp, err := p(context.Background(), &proxy.Request{Method: "GET", URL: mustURL("http://h/x"), Headers: map[string][]string{}})
	obs := "None"
	var obsJS interface{}
	if resp != nil {
		n, ok := normalise(resp.Data)
		data, _ := n.(map[string]interface{})
		if !ok || (n != nil && data == nil) {
			data = map[string]interface{}{"<unserialisable>": true}
		}
		if data == nil {
			data = map[string]interface{}{}
		}
		obs = emit.Some(fmt.Sprintf("{| p_data := %s; p_complete := %s; p_status := %s |}", emit.Obj(data), emit.Bool(resp.IsComplete), emit.Z(int64(resp.Metadata.StatusCode))))
		obsJS = map[string]interface{}{"data": data, "complete": resp.IsComplete, "status": resp.Metadata.StatusCode}
	}
	ec, ej := perrCoq(err, true)
	parsed := "None"
	if v, ok := parseValue(rp.body); ok {
		parsed = emit.Some(emit.Json(v))
	}
	term := emit.App("CProxyEnc", emit.Str(enc), emit.Bool(coll), emit.Obj(orEmpty(x)), rp.coq(), parsed, emit.Pair(obs, ec))
	js := map[string]interface{}{"level": "proxy-encoding", "encoding": enc, "is_collection": coll, "extra_config": fmt.Sprintf("%#v", x), "mode": rawMode(x),
		"reply": rp.js(), "observed": map[string]interface{}{"resp": obsJS, "err": ej}}
	g.w.Count("level:proxy-encoding")
	g.w.Count("encoding:" + enc)
	g.w.Add(compact(term), js, "", fmt.Sprintf("enc|%s|%v|%#v|%d|%s|%s", enc, coll, x, rp.code, rp.body, rp.enc), rp.code != 200)
}
