package main

import (
	"fmt"
	"net/url"
	"regexp"
	"strconv"
	"strings"
)

func mustURL(s string) *url.URL {
	u, err := url.Parse(s)
	if err != nil {
		panic(err)
	}
	return u
}

// ---- compact Gallina terms: coqc spends its time on string literals ----

var bsRe = regexp.MustCompile(`\(bs \[([0-9;]*)\]%N\)`)
var litRe = regexp.MustCompile(`"(?:[^"]|"")*"`)

var namedLits = map[string]string{
	`"github.com/devopsfaith/krakend/http"`:  "ns_http",
	`"github.com/devopsfaith/krakend/proxy"`: "ns_proxy",
	`"return_error_details"`:                 "key_details",
	`"return_error_code"`:                    "key_code",
}

// compact rewrites a case term into an equal, cheaper one: byte-list strings that are printable
// ASCII become literals (a quote is written twice inside a Coq literal), the namespace / key names
// the model defines are referred to by name, and a literal that occurs more than once is let-bound.
func compact(term string) string {
	term = bsRe.ReplaceAllStringFunc(term, func(m string) string {
		inner := m[len("(bs [") : len(m)-len("]%N)")]
		if inner == "" {
			return `""`
		}
		parts := strings.Split(inner, ";")
		var b strings.Builder
		b.WriteByte('"')
		for _, p := range parts {
			n, err := strconv.Atoi(p)
			if err != nil || n < 0x20 || n > 0x7e {
				return m
			}
			if n == '"' {
				b.WriteString(`""`)
			} else {
				b.WriteByte(byte(n))
			}
		}
		b.WriteByte('"')
		return b.String()
	})
	count := map[string]int{}
	var order []string
	for _, l := range litRe.FindAllString(term, -1) {
		if count[l] == 0 {
			order = append(order, l)
		}
		count[l]++
	}
	names := map[string]string{}
	var b strings.Builder
	b.WriteString("(")
	for _, l := range order {
		if n, ok := namedLits[l]; ok {
			names[l] = n
			continue
		}
		if count[l] > 1 && len(l) > 5 {
			n := fmt.Sprintf("z%d_", len(names))
			names[l] = n
			b.WriteString("let " + n + " := " + l + "%string in ")
		}
	}
	if len(names) == 0 {
		return term
	}
	b.WriteString(litRe.ReplaceAllStringFunc(term, func(l string) string {
		if n, ok := names[l]; ok {
			return n
		}
		return l
	}))
	b.WriteString(")")
	return b.String()
}
