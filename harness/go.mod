module verif/harness

go 1.23.0

require (
	github.com/gin-gonic/gin v1.9.1
	github.com/go-chi/chi/v5 v5.1.0
	github.com/gorilla/mux v1.8.1
	github.com/luraproject/lura/v2 v2.0.0
	github.com/valyala/fastrand v1.1.0
	golang.org/x/net v0.38.0
	golang.org/x/text v0.23.0
)

require (
	github.com/dimfeld/httptreemux/v5 v5.5.0 // indirect
	github.com/gabriel-vasile/mimetype v1.4.7 // indirect
	github.com/gin-contrib/sse v0.1.0 // indirect
	github.com/go-playground/locales v0.14.1 // indirect
	github.com/go-playground/universal-translator v0.18.1 // indirect
	github.com/go-playground/validator/v10 v10.23.0 // indirect
	github.com/krakendio/flatmap v1.1.1 // indirect
	github.com/leodido/go-urn v1.4.0 // indirect
	github.com/mattn/go-isatty v0.0.20 // indirect
	github.com/pelletier/go-toml/v2 v2.2.3 // indirect
	github.com/ugorji/go/codec v1.2.12 // indirect
	github.com/urfave/negroni/v2 v2.0.2 // indirect
	golang.org/x/crypto v0.36.0 // indirect
	golang.org/x/sync v0.12.0 // indirect
	golang.org/x/sys v0.31.0 // indirect
	google.golang.org/protobuf v1.35.2 // indirect
	gopkg.in/yaml.v3 v3.0.1 // indirect
)

replace github.com/luraproject/lura/v2 => /repo
