// Package rng is the single source of randomness of the harness: SplitMix64, seeded
// from VERIF_SEED, so that every generated case replays exactly.
package rng

type R struct{ s uint64 }

func New(seed uint64) *R { return &R{s: seed*0x9E3779B97F4A7C15 + 0x1234567} }

func (r *R) U64() uint64 {
	r.s += 0x9E3779B97F4A7C15
	z := r.s
	z = (z ^ (z >> 30)) * 0xBF58476D1CE4E5B9
	z = (z ^ (z >> 27)) * 0x94D049BB133111EB
	return z ^ (z >> 31)
}

// Intn returns a value in [0,n).
func (r *R) Intn(n int) int {
	if n <= 0 {
		return 0
	}
	return int(r.U64() % uint64(n))
}

func (r *R) Bool() bool { return r.U64()&1 == 1 }

// Chance returns true with probability num/den.
func (r *R) Chance(num, den int) bool { return r.Intn(den) < num }

func (r *R) Pick(xs []string) string { return xs[r.Intn(len(xs))] }

// Sub derives an independent generator.
func (r *R) Sub() *R { return New(r.U64()) }

// Perm returns a random permutation of 0..n-1.
func (r *R) Perm(n int) []int {
	p := make([]int, n)
	for i := range p {
		p[i] = i
	}
	for i := n - 1; i > 0; i-- {
		j := r.Intn(i + 1)
		p[i], p[j] = p[j], p[i]
	}
	return p
}
