// Package emit turns Go values into Gallina terms (the trusted translator of the
// correspondence check). Output is meant to be read in a context where string_scope
// and list_scope are open and Verif.Common.Base is imported.
package emit

import (
	"encoding/json"
	"fmt"
	"sort"
	"strconv"
	"strings"
)

func plain(s string) bool {
	for i := 0; i < len(s); i++ {
		c := s[i]
		if c < 0x20 || c > 0x7e || c == '"' {
			return false
		}
	}
	return true
}

// Str emits a Coq string: a literal for printable ASCII without quotes, otherwise
// (bs [..]) with the byte codes, so every byte string round-trips.
func Str(s string) string {
	if plain(s) {
		return "\"" + s + "\""
	}
	var b strings.Builder
	b.WriteString("(bs [")
	for i := 0; i < len(s); i++ {
		if i > 0 {
			b.WriteByte(';')
		}
		b.WriteString(strconv.Itoa(int(s[i])))
	}
	b.WriteString("]%N)")
	return b.String()
}

func Bool(b bool) string {
	if b {
		return "true"
	}
	return "false"
}

func Z(i int64) string {
	if i < 0 {
		return fmt.Sprintf("(%d)%%Z", i)
	}
	return fmt.Sprintf("%d%%Z", i)
}

func N(i uint64) string { return fmt.Sprintf("%d%%N", i) }

func Nat(i int) string { return fmt.Sprintf("%d%%nat", i) }

func List(xs []string) string { return "[" + strings.Join(xs, "; ") + "]" }

func StrList(xs []string) string {
	ys := make([]string, len(xs))
	for i, x := range xs {
		ys[i] = Str(x)
	}
	return List(ys)
}

func ZList(xs []int64) string {
	ys := make([]string, len(xs))
	for i, x := range xs {
		ys[i] = Z(x)
	}
	return List(ys)
}

func NatList(xs []int) string {
	ys := make([]string, len(xs))
	for i, x := range xs {
		ys[i] = Nat(x)
	}
	return List(ys)
}

func Some(x string) string { return "(Some " + x + ")" }

func OptStr(s *string) string {
	if s == nil {
		return "None"
	}
	return Some(Str(*s))
}

func Pair(a, b string) string { return "(" + a + ", " + b + ")" }

func Tuple(xs ...string) string { return "(" + strings.Join(xs, ", ") + ")" }

// App emits a constructor/function application.
func App(f string, args ...string) string {
	if len(args) == 0 {
		return f
	}
	return "(" + f + " " + strings.Join(args, " ") + ")"
}

// Json emits a value of Verif.Common.Json.json. Supported: nil, bool, string,
// json.Number, float64, int, int64, []interface{}, map[string]interface{} (keys sorted).
// Anything else is emitted as (JOther "<%T>") so that the disagreement is visible.
func Json(v interface{}) string {
	switch x := v.(type) {
	case nil:
		return "JNull"
	case bool:
		return App("JBool", Bool(x))
	case string:
		return App("JStr", Str(x))
	case json.Number:
		return App("JNum", Str(string(x)))
	case float64:
		return App("JNum", Str(strconv.FormatFloat(x, 'g', -1, 64)))
	case int:
		return App("JNum", Str(strconv.Itoa(x)))
	case int64:
		return App("JNum", Str(strconv.FormatInt(x, 10)))
	case []interface{}:
		ys := make([]string, len(x))
		for i, e := range x {
			ys[i] = Json(e)
		}
		return App("JArr", List(ys))
	case map[string]interface{}:
		return App("JObj", Obj(x))
	}
	return App("JOther", Str(fmt.Sprintf("%T", v)))
}

// Obj emits the member list of an object, keys in sorted order.
func Obj(m map[string]interface{}) string {
	ks := make([]string, 0, len(m))
	for k := range m {
		ks = append(ks, k)
	}
	sort.Strings(ks)
	ys := make([]string, len(ks))
	for i, k := range ks {
		ys[i] = Pair(Str(k), Json(m[k]))
	}
	return List(ys)
}

// ObjOrdered emits members in the given key order (for map-order experiments).
func ObjOrdered(m map[string]interface{}, order []string) string {
	ys := make([]string, len(order))
	for i, k := range order {
		ys[i] = Pair(Str(k), Json(m[k]))
	}
	return List(ys)
}

// OptObj emits option (list (string*json)) for a possibly nil Go map.
func OptObj(m map[string]interface{}) string {
	if m == nil {
		return "None"
	}
	return Some(Obj(m))
}

// StrMap emits list (string * string), keys sorted.
func StrMap(m map[string]string) string {
	ks := make([]string, 0, len(m))
	for k := range m {
		ks = append(ks, k)
	}
	sort.Strings(ks)
	ys := make([]string, len(ks))
	for i, k := range ks {
		ys[i] = Pair(Str(k), Str(m[k]))
	}
	return List(ys)
}

// MultiMap emits list (string * list string), keys sorted (headers, query values).
func MultiMap(m map[string][]string) string {
	ks := make([]string, 0, len(m))
	for k := range m {
		ks = append(ks, k)
	}
	sort.Strings(ks)
	ys := make([]string, len(ks))
	for i, k := range ks {
		ys[i] = Pair(Str(k), StrList(m[k]))
	}
	return List(ys)
}
