// Package out writes what a generator produced: sharded cases_*.v files for coqc,
// cases.jsonl for humans/replays, and meta.json (counts, distribution, samples).
package out

import (
	"bufio"
	"crypto/sha1"
	"encoding/hex"
	"encoding/json"
	"flag"
	"fmt"
	"os"
	"path/filepath"
	"strconv"
	"time"
)

type Config struct {
	Prop  string
	Tier  string
	Seed  uint64
	Dir   string
	Only  int // -1: all
	Extra string
}

// ParseFlags reads the common command line of every generator.
func ParseFlags(prop string) Config {
	tier := flag.String("tier", "quick", "quick|thorough")
	seed := flag.Uint64("seed", 1, "seed")
	dir := flag.String("out", "", "output directory")
	only := flag.Int("only", -1, "emit only this case index (replay)")
	extra := flag.String("extra", "", "property specific")
	flag.Parse()
	if *dir == "" {
		fmt.Fprintln(os.Stderr, "--out required")
		os.Exit(2)
	}
	return Config{Prop: prop, Tier: *tier, Seed: *seed, Dir: *dir, Only: *only, Extra: *extra}
}

func (c Config) Thorough() bool { return c.Tier == "thorough" }

type shard struct {
	File  string `json:"file"`
	Start int    `json:"start"`
	Count int    `json:"count"`
}

type Writer struct {
	cfg       Config
	module    string // Coq module providing case/failing, e.g. Verif.Corr.C12
	shardSize int
	cur       *bufio.Writer
	curF      *os.File
	curCount  int
	shards    []shard
	jl        *bufio.Writer
	jlF       *os.File
	n         int
	emitted   int
	seen      map[string]bool
	nontriv   int
	dist      map[string]int
	samples   []interface{}
	maxSample int
	start     time.Time
	Meta      map[string]interface{}
}

func NewWriter(cfg Config, module string, shardSize int) *Writer {
	os.MkdirAll(cfg.Dir, 0o755)
	jf, err := os.Create(filepath.Join(cfg.Dir, "cases.jsonl"))
	if err != nil {
		panic(err)
	}
	return &Writer{cfg: cfg, module: module, shardSize: shardSize, jl: bufio.NewWriterSize(jf, 1<<20), jlF: jf,
		seen: map[string]bool{}, dist: map[string]int{}, samples: []interface{}{}, maxSample: 6, start: time.Now(), Meta: map[string]interface{}{}}
}

func (w *Writer) openShard(start int) {
	name := fmt.Sprintf("cases_%04d.v", len(w.shards))
	f, err := os.Create(filepath.Join(w.cfg.Dir, name))
	if err != nil {
		panic(err)
	}
	w.curF = f
	w.cur = bufio.NewWriterSize(f, 1<<20)
	fmt.Fprintf(w.cur, "Require Import Verif.Common.Base %s.\nOpen Scope string_scope. Open Scope list_scope.\nDefinition cases : list case := [\n", w.module)
	w.shards = append(w.shards, shard{File: name, Start: start})
	w.curCount = 0
}

func (w *Writer) closeShard() {
	if w.cur == nil {
		return
	}
	// indices are shard-relative (the driver adds the shard's start): a large nat literal overflows coqc's stack
	fmt.Fprintf(w.cur, "\n].\nDefinition R := Eval vm_compute in (List.length cases, failing 0 cases).\nPrint R.\n")
	w.cur.Flush()
	w.curF.Close()
	w.shards[len(w.shards)-1].Count = w.curCount
	w.cur = nil
}

// Count adds to the input-distribution table of the evidence.
func (w *Writer) Count(key string) { w.dist[key]++ }

// N is the index the next case will get.
func (w *Writer) N() int { return w.n }

// Add records one case. term: Gallina term of type case. js: the same case for humans
// (input and observed). sig: non-empty when the input falls under a listed-finding
// signature (then only the property oracle counts). canon: canonical input used to
// count distinct cases; nontrivial: by the generator's stated rule.
func (w *Writer) Add(term string, js map[string]interface{}, sig string, canon string, nontrivial bool) {
	idx := w.n
	w.n++
	h := sha1.Sum([]byte(canon))
	hs := hex.EncodeToString(h[:8])
	if !w.seen[hs] {
		w.seen[hs] = true
		if nontrivial {
			w.nontriv++
		}
	}
	if w.cfg.Only >= 0 && idx != w.cfg.Only {
		return
	}
	if w.cur == nil {
		w.openShard(idx)
	}
	if w.curCount > 0 {
		w.cur.WriteString(";\n")
	}
	w.cur.WriteString(term)
	w.curCount++
	w.emitted++
	rec := map[string]interface{}{"idx": idx, "sig": sig, "hash": hs}
	for k, v := range js {
		rec[k] = v
	}
	b, err := json.Marshal(rec)
	if err != nil {
		b, _ = json.Marshal(map[string]interface{}{"idx": idx, "sig": sig, "hash": hs, "marshal_error": err.Error()})
	}
	w.jl.Write(b)
	w.jl.WriteByte('\n')
	if len(w.samples) < w.maxSample && (idx%97 == 0 || idx < 2) {
		var s interface{}
		json.Unmarshal(b, &s)
		w.samples = append(w.samples, s)
	}
	if w.cfg.Only < 0 && w.curCount >= w.shardSize {
		w.closeShard()
	}
}

// Close flushes everything and writes meta.json.
func (w *Writer) Close(rule string, exhaustive bool) {
	w.closeShard()
	w.jl.Flush()
	w.jlF.Close()
	meta := map[string]interface{}{
		"property":            w.cfg.Prop,
		"tier":                w.cfg.Tier,
		"seed":                w.cfg.Seed,
		"evaluations":         w.n,
		"emitted":             w.emitted,
		"distinct":            len(w.seen),
		"distinct_nontrivial": w.nontriv,
		"rule":                rule,
		"exhaustive":          exhaustive,
		"distribution":        w.dist,
		"samples":             w.samples,
		"shards":              w.shards,
		"gen_wall_s":          time.Since(w.start).Seconds(),
	}
	for k, v := range w.Meta {
		meta[k] = v
	}
	b, _ := json.MarshalIndent(meta, "", " ")
	os.WriteFile(filepath.Join(w.cfg.Dir, "meta.json"), b, 0o644)
	fmt.Fprintf(os.Stderr, "%s: %d cases (%d distinct, %d nontrivial), %d shards, %.1fs\n", w.cfg.Prop, w.n, len(w.seen), w.nontriv, len(w.shards), time.Since(w.start).Seconds())
}

func Itoa(i int) string { return strconv.Itoa(i) }
