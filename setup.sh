#!/bin/sh
# MANIFEST.setup_cmd: build everything from files on disk, offline.
set -e
cd "$(dirname "$0")"
export GOFLAGS=-mod=mod GOPROXY=off GOSUMDB=off GOTOOLCHAIN=local
mkdir -p work evidence replays harness/bin coq/Generated
cp /repo/go.sum harness/go.sum
CLAIMED=$(python3 -c "import json;c=json.load(open('claims.json'));print(' '.join(k for k,v in c.items() if isinstance(v,dict) and v.get('claimed')))")
# source facts (regenerated from /repo on every check as well)
if [ -d harness/cmd/facts ]; then
  (cd harness && go build -o bin/facts ./cmd/facts && ./bin/facts /repo > ../coq/Generated/SourceFacts.v.new && \
    { cmp -s ../coq/Generated/SourceFacts.v.new ../coq/Generated/SourceFacts.v || mv ../coq/Generated/SourceFacts.v.new ../coq/Generated/SourceFacts.v; rm -f ../coq/Generated/SourceFacts.v.new; })
fi
# full .vo build of the Coq development (every file a claimed property depends on)
TARGETS=""
for f in coq/Common/*.v coq/Generated/*.v; do [ -f "$f" ] && TARGETS="$TARGETS ${f#coq/}o"; done
for p in $CLAIMED; do TARGETS="$TARGETS Properties/$p.vo Corr/$p.vo"; done
(cd coq && sh mkproject.sh && timeout 3000 make -j16 $TARGETS > ../work/coq_build.log 2>&1) || { tail -50 work/coq_build.log; exit 1; }
# forbidden vernacular
if grep -rnE '\b(Admitted|admit|Axiom|Parameter|Conjecture|Admit Obligations)\b|Unset Guard|bypass_check' coq --include='*.v' | grep -v 'Print Assumptions' | grep -v '^[^:]*:[0-9]*: *(\*' ; then
  echo "forbidden vernacular found" >&2; exit 1
fi
# warm the Go build cache: every claimed generator, plain; race variants for the properties that use them
for p in $CLAIMED; do
  n=$(echo $p | tr 'A-Z' 'a-z')
  (cd harness && go build -tags verif -o bin/$n ./cmd/$n)
  if grep -q "\"$p\": dict(gens=.*True" check; then (cd harness && go build -race -tags verif -o bin/$n-race ./cmd/$n); fi
done
echo setup ok
