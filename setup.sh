#!/bin/sh
# MANIFEST.setup_cmd: build everything from files on disk, offline.
set -e
cd "$(dirname "$0")"
export GOFLAGS=-mod=mod GOPROXY=off GOSUMDB=off GOTOOLCHAIN=local
mkdir -p work evidence replays harness/bin
cp /repo/go.sum harness/go.sum
# source facts (regenerated from /repo on every check as well)
if [ -d harness/cmd/facts ]; then
  (cd harness && go build -o bin/facts ./cmd/facts && ./bin/facts /repo > ../coq/Generated/SourceFacts.v.new && \
    { cmp -s ../coq/Generated/SourceFacts.v.new ../coq/Generated/SourceFacts.v || mv ../coq/Generated/SourceFacts.v.new ../coq/Generated/SourceFacts.v; rm -f ../coq/Generated/SourceFacts.v.new; })
fi
# full .vo build of the Coq development
(cd coq && sh mkproject.sh && timeout 3000 make -j16 > ../work/coq_build.log 2>&1) || { tail -50 work/coq_build.log; exit 1; }
# forbidden vernacular
if grep -rnE '\b(Admitted|admit|Axiom|Parameter|Conjecture|Admit Obligations)\b|Unset Guard|bypass_check' coq --include='*.v' | grep -v 'Print Assumptions' | grep -v '^[^:]*:[0-9]*: *(\*' ; then
  echo "forbidden vernacular found" >&2; exit 1
fi
# warm the Go build cache: every generator, plain; race variants for the properties that use them
(cd harness && for d in cmd/c*; do n=$(basename $d); go build -tags verif -o bin/$n ./$d; done)
(cd harness && for n in c03 c14 c15 c20; do [ -d cmd/$n ] && go build -race -tags verif -o bin/$n-race ./cmd/$n || true; done)
echo setup ok
