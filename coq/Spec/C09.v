(* C09 - the property as Prop and as boolean oracle over what the implementation did. *)
Require Import Verif.Common.Base Verif.Model.C09.

(* ---- the configuration grammar [a-zA-Z0-9_-]+ ---- *)
Definition grammar_b (n : string) : bool :=
  match n with EmptyString => false | _ => all_chars name_char n end.
Definition grammar (n : string) : Prop := grammar_b n = true.

(* ---- unreserved segment values: ALPHA / DIGIT / "-" / "." / "_" / "~", non-empty ---- *)
Definition unreserved_char (c : ascii) : bool :=
  is_lower c || is_upper c || is_digit c || is_char 45 c || is_char 46 c || is_char 95 c || is_char 126 c.
Definition unreserved_b (v : string) : bool :=
  match v with EmptyString => false | _ => all_chars unreserved_char v end.

(* ---- what the property promises: the url_pattern with each placeholder replaced by the
        corresponding segment ---- *)
Definition env := list (string * string).
Fixpoint subst (be : list tok) (e : env) : string :=
  match be with
  | [] => EmptyString
  | Lit s :: r => (s ++ subst r e)%string
  | Ph n :: r => (match lookup n e with Some v => v | None => placeholder n end ++ subst r e)%string
  end.
(* Init normalises the url_pattern to start with one slash *)
Definition expected_path (be : list tok) (e : env) : string := clean_path (subst be e).

(* "no placeholder syntax left over": no "{{." anywhere *)
Fixpoint infix (p s : string) : bool :=
  prefix p s || match s with EmptyString => false | String _ r => infix p r end.
Definition tpl_open : string := (lb ++ lb ++ ".")%string.
Definition no_placeholder_left (p : string) : bool := negb (infix tpl_open p).

(* shape of the inputs the property quantifies over *)
Definition brace_free (s : string) : bool := negb (has_char lbrace s) && negb (has_char rbrace s).
Definition seg_ok (t : tok) : bool :=
  match t with
  | Lit s => match s with EmptyString => false | _ => all_chars unreserved_char s end
  | Ph n => grammar_b n
  end.
Definition be_tok_ok (t : tok) : bool :=
  match t with
  | Lit s => brace_free s
  | Ph n => match n with EmptyString => false | _ => all_chars out_char n end
  end.
Definition wf_route (segs be : list tok) (vals : list string) : bool :=
  forallb seg_ok segs && forallb be_tok_ok be && nodup_str (ph_names segs) &&
  Nat.eqb (List.length vals) (List.length (ph_names segs)) && forallb unreserved_b vals.

(* a placeholder of the url_pattern that is neither declared nor a sequential-merge reference *)
Definition undeclared_b (declared used : list string) : bool :=
  existsb (fun n => negb (seq_ref n) && negb (str_mem n declared)) used.
(* a reference to an earlier backend's answer ({resp0_x}, {JWT.sub}) that is not a declared
   parameter: filled in by the sequential merger, outside C09 *)
Definition uses_seq_ref_b (declared used : list string) : bool :=
  existsb (fun n => seq_ref n && negb (str_mem n declared)) used.

(* ---- oracle for one routed request ---- *)
Definition spec_route_b (segs be : list tok) (vals : list string) (o : robs) : bool :=
  let names := ph_names segs in
  match o with
  | ORejected => true   (* the property constrains accepted configurations only *)
  | OPath p =>
      negb (undeclared_b names (ph_names be)) &&
      (uses_seq_ref_b names (ph_names be) ||
       (str_eqb p (expected_path be (combine names vals)) && no_placeholder_left p))
  | ONotRouted _ | OPanic => false
  end.

(* A request that carries a query string the endpoint forwards: the backend is called with the
   url_pattern (placeholders replaced, wherever they stand - path part or query part of the
   pattern) and the forwarded client query after it, joined by "?" or "&".  What exactly is
   appended is C10's subject; C09 only demands that the substituted url_pattern is all there. *)
Definition extends_b (m p : string) : bool :=
  str_eqb p m || prefix (m ++ "&") p || prefix (m ++ "?") p.
Definition spec_routeq_b (segs be : list tok) (vals : list string) (o : robs) : bool :=
  let names := ph_names segs in
  match o with
  | ORejected => true
  | OPath p =>
      negb (undeclared_b names (ph_names be)) &&
      (uses_seq_ref_b names (ph_names be) ||
       (extends_b (expected_path be (combine names vals)) p && no_placeholder_left p))
  | ONotRouted _ | OPanic => false
  end.

(* ---- oracle for Init ---- *)
Definition spec_init_b (declared used : list string) (accepted : bool) : bool :=
  negb (undeclared_b declared used) || negb accepted.

(* Prop forms *)
Definition Substituted (segs be : list tok) (vals : list string) (p : string) : Prop :=
  p = expected_path be (combine (ph_names segs) vals) /\ no_placeholder_left p = true.
Definition Undeclared (declared used : list string) : Prop :=
  exists n, In n used /\ seq_ref n = false /\ ~ In n declared.

(* ---- declarative reading of the two placeholder patterns ----
   \{([\w\-\.:/]+)\}  : "{", a non-empty run of class characters, "}" somewhere in the text;
   /\{([a-zA-Z\-_0-9]+)\} : the same after a slash.  (The classes contain no brace, so the run
   between the braces is the whole capture and matches cannot overlap.) *)
Definition occurs_placeholder (cls : ascii -> bool) (n s : string) : Prop :=
  n <> EmptyString /\ all_chars cls n = true /\
  exists pre post, s = (pre ++ placeholder n ++ post)%string.
Definition occurs_param (n s : string) : Prop :=
  n <> EmptyString /\ all_chars name_char n = true /\
  exists pre post, s = (pre ++ String slash (placeholder n) ++ post)%string.

(* sequentialParamsPattern read declaratively (on placeholder names, which contain no newline):
   nothing, or resp<one or more digits>_<something>, or JWT.<something> *)
Definition is_seq_ref (s : string) : Prop :=
  s = EmptyString \/
  (exists d x, s = ("resp" ++ d ++ "_" ++ x)%string /\ d <> EmptyString /\ all_chars is_digit d = true /\ x <> EmptyString) \/
  (exists x, s = ("JWT." ++ x)%string /\ x <> EmptyString).
