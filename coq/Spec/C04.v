(* C04 - the property, as Prop and as a boolean checker over what the implementation was
   observed to do.  Times are nanoseconds after the request's arrival (the moment the harness
   hands the request to the handler / pipeline), read from the monotonic clock. *)
Require Import Verif.Common.Base Verif.Common.Ctx Verif.Model.C04.
Open Scope Z_scope.

(* one invocation of a stub backend *)
Record call := {
  k_be : nat;               (* backend index *)
  k_inv : Z;                (* when the stub was entered *)
  k_dl : option Z;          (* ctx.Deadline() of the context it was invoked with *)
  k_done_after : bool;      (* ctx.Err() != nil right after the pipeline returned (for an attempt that
                               started later: at its invocation) *)
  k_depth : option nat;     (* number of contexts between the one the stub was invoked with (included) and
                               the one the harness handed in (excluded), found by walking up the parent
                               links of the standard library's context types; None: the walk met a type
                               it does not know *)
  k_chain_done : bool       (* every one of those contexts reports Err() != nil at that same moment: the
                               intermediate WithTimeout frames of the stages too, not only the leaf *)
}.

Record obs := {
  o_calls : list call;
  o_returned : bool;        (* the pipeline / handler returned before the harness gave up *)
  o_ret : Z;                (* when it returned *)
  o_keys : list nat;        (* backends whose data is in the response the client got *)
  o_leaked : nat;           (* goroutines with lura frames (and unclosed backend bodies) still there
                               after the polling bound *)
  o_released : bool;        (* a never-answering stub had to be released by the harness's watchdog:
                               its context was still alive long after the endpoint timeout *)
  o_rb : option Z;          (* routed requests: when the handler's request builder (the RequestBuilder
                               handed to the mux handler factory) was entered; None: not instrumented *)
  o_tainted : bool          (* the machine was too slow for "at once" to mean "before every deadline":
                               the harness measured a scheduling stall while the case ran; wall-clock
                               comparisons say nothing then *)
}.

Definition min_inv (l : list call) : Z :=
  match l with
  | [] => 0
  | k :: r => fold_right (fun k a => Z.min (k_inv k) a) (k_inv k) r
  end.
Definition calls_of (i : nat) (l : list call) : list call := filter (fun k => Nat.eqb (k_be k) i) l.

(* latest deadline among the calls; None when there is no call or one has no deadline *)
Fixpoint max_dl (l : list call) : option Z :=
  match l with
  | [] => None
  | [k] => k_dl k
  | k :: r => match k_dl k, max_dl r with Some a, Some b => Some (Z.max a b) | _, _ => None end
  end.

Definition parent_bound (c : config) : option Z :=
  match c_level c with LGin => None | _ => c_parent c end.

Definition needs_deadline (c : config) (i : nat) : bool :=
  derived c i || match parent_bound c with Some _ => true | None => false end.

Section Spec.
  Variable F : factors.

  (* x is a deadline the property allows for a call of backend i, given that the pipeline was
     entered at or before [first] (its first backend call) and the concurrent stage of backend i
     at or before [firsti] *)
  Definition bound_ok (c : config) (first firsti : Z) (i : nat) (x : Z) : Prop :=
    (routed c = true -> exists t, 0 <= t <= first /\ x <= t + c_T c) /\
    (multi c = true -> exists t, 0 <= t <= first /\ x <= t + reduced (fm_num F) (fm_den F) (c_T c)) /\
    (concurrent c i = true -> exists t, 0 <= t <= firsti /\ x <= t + reduced (fc_num F) (fc_den F) (c_T c)) /\
    (forall p, parent_bound c = Some p -> x <= p).

  Definition call_ok (c : config) (calls : list call) (k : call) : Prop :=
    0 <= min_inv calls /\ 0 <= min_inv (calls_of (k_be k) calls) /\
    (needs_deadline c (k_be k) = true ->
       exists x, k_dl k = Some x /\ bound_ok c (min_inv calls) (min_inv (calls_of (k_be k) calls)) (k_be k) x) /\
    (derived c (k_be k) = true -> k_done_after k = true /\ k_chain_done k = true).

  (* the endpoint clock starts at the arrival: before the handler builds the proxy request, so
     whatever time the request builder takes is counted.  r: when the builder was entered *)
  Definition builder_ok (c : config) (o : obs) : Prop :=
    forall r, o_rb o = Some r -> routed c = true ->
      0 <= r /\ forall k x, In k (o_calls o) -> k_dl k = Some x -> exists t, 0 <= t <= r /\ x <= t + c_T c.

  Definition Spec (c : config) (slack : Z) (o : obs) : Prop :=
    o_returned o = true /\ o_released o = false /\ o_leaked o = O /\
    builder_ok c o /\
    (forall k, In k (o_calls o) -> call_ok c (o_calls o) k) /\
    (o_tainted o = false -> forall d, max_dl (o_calls o) = Some d -> o_ret o <= d + slack) /\
    (o_tainted o = false -> forall i, In i (must_keys c) -> In i (o_keys o)).

  (* ---- boolean form ---- *)
  Definition bound_b (c : config) (first firsti : Z) (i : nat) (x : Z) : bool :=
    (negb (routed c) || (x <=? first + c_T c)) &&
    (negb (multi c) || (x <=? first + reduced (fm_num F) (fm_den F) (c_T c))) &&
    (negb (concurrent c i) || (x <=? firsti + reduced (fc_num F) (fc_den F) (c_T c))) &&
    match parent_bound c with Some p => x <=? p | None => true end.

  Definition call_b (c : config) (calls : list call) (k : call) : bool :=
    (0 <=? min_inv calls) && (0 <=? min_inv (calls_of (k_be k) calls)) &&
    (negb (needs_deadline c (k_be k)) ||
     match k_dl k with
     | Some x => bound_b c (min_inv calls) (min_inv (calls_of (k_be k) calls)) (k_be k) x
     | None => false
     end) &&
    (negb (derived c (k_be k)) || (k_done_after k && k_chain_done k)).

  Definition mem_nat (x : nat) (l : list nat) : bool := existsb (Nat.eqb x) l.

  Definition builder_b (c : config) (o : obs) : bool :=
    match o_rb o with
    | Some r => negb (routed c) ||
                ((0 <=? r) && forallb (fun k => match k_dl k with Some x => x <=? r + c_T c | None => true end) (o_calls o))
    | None => true
    end.

  Definition spec_b (c : config) (slack : Z) (o : obs) : bool :=
    o_returned o && negb (o_released o) && Nat.eqb (o_leaked o) 0 && builder_b c o &&
    forallb (call_b c (o_calls o)) (o_calls o) &&
    (o_tainted o || match max_dl (o_calls o) with Some d => o_ret o <=? d + slack | None => true end) &&
    (o_tainted o || forallb (fun i => mem_nat i (o_keys o)) (must_keys c)).
End Spec.
