(* C02 - the property, as Prop and as a boolean oracle over what was observed.
   The oracle does not use the model's loop, lookup_src or generate_path: it is written
   with get_path (Common.Json), the template view and plain list functions. *)
Require Import Verif.Common.Base Verif.Common.Json Verif.Model.C02.
Local Open Scope string_scope.

(* a backend "succeeds" when it returns a response flagged complete *)
Definition ok_out (o : outcome) : bool :=
  match o with OResp r => complete r | _ => false end.

(* how many backends are called: all up to and including the first non-successful one *)
Fixpoint n_called (outs : list outcome) : nat :=
  match outs with
  | [] => 0
  | o :: r => if ok_out o then S (n_called r) else 1
  end.

Definition called (outs : list outcome) : list outcome := firstn (n_called outs) outs.

(* ---- part 1: order, count, no overlap ------------------------------------------------- *)

Definition shape (e : event) : nat * bool :=
  match e with ECall i _ => (i, true) | ERet i => (i, false) end.

(* enter 0, exit 0, enter 1, exit 1, ..., enter k-1, exit k-1 *)
Definition expected_shapes (k : nat) : list (nat * bool) :=
  flat_map (fun i => [(i, true); (i, false)]) (seq 0 k).

Definition calls_spec (outs : list outcome) (evs : list event) : Prop :=
  map shape evs = expected_shapes (n_called outs).

Definition shape_eqb (a b : nat * bool) : bool := Nat.eqb (fst a) (fst b) && Bool.eqb (snd a) (snd b).

Definition calls_b (outs : list outcome) (evs : list event) : bool :=
  list_eqb shape_eqb (map shape evs) (expected_shapes (n_called outs)).

(* ---- part 2: what the caller receives ------------------------------------------------- *)

Definition payload_datas (l : list outcome) : list obj :=
  flat_map (fun o => match o with
                     | OResp r => match data r with Some d => [d] | None => [] end
                     | _ => []
                     end) l.

Definition full_out (o : outcome) : bool :=
  match o with
  | OResp r => complete r && match data r with Some _ => true | None => false end
  | _ => false
  end.

Definition err_of_out (o : outcome) : option err :=
  match o with OErr e => Some e | OEmpty => Some ENull | OResp _ => None end.

(* the union of the answers obtained: exactly their keys, every value one that was offered
   (which answer wins a key offered twice is left open by the statement) *)
Definition union_spec (R : json -> json -> Prop) (ds : list obj) (x : obj) : Prop :=
  (forall k, In k (keys x) <-> exists d, In d ds /\ In k (keys d)) /\
  (forall k v, lookup k x = Some v -> exists d v', In d ds /\ In (k, v') d /\ R v' v).

(* R is equality in the theorems about the model; the oracle compares documents with
   json_eqb (objects as finite maps) *)
Definition json_same (a b : json) : Prop := json_eqb a b = true.

Definition result_spec (R : json -> json -> Prop) (outs : list outcome) (res : result) : Prop :=
  match outs with
  | [] => True
  | o0 :: _ =>
      match err_of_out o0 with
      | Some e => res = (None, RRaw e)      (* the very first backend fails: its error, no response *)
      | None =>
          exists x, fst res = Some x /\
            union_spec R (payload_datas (called outs)) (data_or_empty x) /\
            (complete x = true <-> forallb full_out outs = true) /\
            snd res = match err_of_out (last (called outs) o0) with
                      | Some e => RMerge [e]
                      | None => RNone
                      end
      end
  end.

Definition err_eqb (a b : err) : bool :=
  match a, b with
  | EBackend x, EBackend y => str_eqb x y
  | ENull, ENull => true
  | EOther x, EOther y => str_eqb x y
  | _, _ => false
  end.

Definition rerr_eqb (a b : rerr) : bool :=
  match a, b with
  | RNone, RNone => true
  | RRaw x, RRaw y => err_eqb x y
  | RMerge l, RMerge l' => list_eqb err_eqb l l'
  | _, _ => false
  end.

Definition union_b (ds : list obj) (x : obj) : bool :=
  forallb (fun kv => existsb (fun d => match lookup (fst kv) d with
                                       | Some v => json_eqb v (snd kv)
                                       | None => false
                                       end) ds) x &&
  forallb (fun d => forallb (fun k => mem k x) (keys d)) ds.

Definition result_b (outs : list outcome) (res : result) : bool :=
  match outs with
  | [] => true
  | o0 :: _ =>
      match err_of_out o0 with
      | Some e => match res with (None, re) => rerr_eqb re (RRaw e) | _ => false end
      | None =>
          match fst res with
          | None => false
          | Some x =>
              union_b (payload_datas (called outs)) (data_or_empty x) &&
              Bool.eqb (complete x) (forallb full_out outs) &&
              rerr_eqb (snd res) (match err_of_out (last (called outs) o0) with
                                  | Some e => RMerge [e]
                                  | None => RNone
                                  end)
          end
      end
  end.

(* ---- part 3: propagation of values into the path ------------------------------------- *)

(* strings, booleans, JSON numbers (literal text, as decoded with UseNumber) *)
Definition scalar_text (v : json) : option string :=
  match v with
  | JStr s => Some s
  | JBool b => Some (if b then "true" else "false")
  | JNum l => Some l
  | _ => None
  end.

Definition data_at (outs : list outcome) (j : nat) : option obj :=
  match nth_error outs j with
  | Some (OResp r) => data r
  | _ => None
  end.

(* the text a segment of backend i's pattern must turn into; None: the statement does not
   apply (reference to a later/own index, path absent, value not a scalar, parameter absent) *)
Definition seg_text (outs : list outcome) (ps0 : params) (i : nat) (s : seg) : option string :=
  match s with
  | Lit s => Some s
  | Hole j p =>
      if (j <? i)%nat then
        match data_at outs j with
        | Some d => match get_path (JObj d) p with Some v => scalar_text v | None => None end
        | None => None
        end
      else None
  | PHole k => lookup k ps0
  end.

Fixpoint fill (outs : list outcome) (ps0 : params) (i : nat) (t : tmpl) : option string :=
  match t with
  | [] => Some ""
  | s :: r => match seg_text outs ps0 i s, fill outs ps0 i r with
              | Some a, Some b => Some (a ++ b)
              | _, _ => None
              end
  end.

Fixpoint has_char (c : ascii) (s : string) : bool :=
  match s with EmptyString => false | String a r => Ascii.eqb a c || has_char c r end.

Definition lbrace : ascii := "{"%char.
Definition rbrace : ascii := "}"%char.
Definition no_open (s : string) : bool := negb (has_char lbrace s).
Definition no_brace (s : string) : bool := negb (has_char lbrace s) && negb (has_char rbrace s).

(* every destination key starts with "Resp"; an endpoint parameter named like that is
   outside the statement (it would be overwritten by the propagated value) *)
Definition starts_resp (k : string) : bool :=
  match k with
  | String "R" (String "e" (String "s" (String "p" _))) => true
  | _ => false
  end.

(* the textual replacement is only claimed to agree with the template view when no
   literal and no value contains an opening brace and the keys contain no brace at all *)
Definition seg_clean (outs : list outcome) (ps0 : params) (i : nat) (s : seg) : bool :=
  match s with
  | Lit s => no_open s
  | Hole j p => no_brace (dest_key j p) &&
                match seg_text outs ps0 i (Hole j p) with Some v => no_open v | None => true end
  | PHole k => no_brace k && negb (starts_resp k)
  end.

Definition params_clean (ps0 : params) : bool :=
  forallb (fun kv => no_brace (fst kv) && no_open (snd kv)) ps0.

Definition tmpl_clean (outs : list outcome) (ps0 : params) (i : nat) (t : tmpl) : bool :=
  forallb (seg_clean outs ps0 i) t && params_clean ps0.

(* all placeholders of the endpoint: distinct (index, path) pairs have distinct
   destination keys, and no key contains a brace *)
Definition holes (t : tmpl) : list (nat * list string) :=
  flat_map (fun s => match s with Hole j p => [(j, p)] | _ => [] end) t.
Definition all_holes (ts : list tmpl) : list (nat * list string) := flat_map holes ts.

Definition dests_distinct (ts : list tmpl) : Prop :=
  forall j p j' p', In (j, p) (all_holes ts) -> In (j', p') (all_holes ts) ->
                    dest_key j p = dest_key j' p' -> j = j' /\ p = p'.

Definition dests_distinct_b (ts : list tmpl) : bool :=
  forallb (fun a => forallb (fun b =>
     negb (str_eqb (dest_key (fst a) (snd a)) (dest_key (fst b) (snd b))) ||
     (Nat.eqb (fst a) (fst b) && list_eqb str_eqb (snd a) (snd b))) (all_holes ts)) (all_holes ts).

Definition dests_clean_b (ts : list tmpl) : bool :=
  forallb (fun a => no_brace (dest_key (fst a) (snd a))) (all_holes ts).

Definition call_paths (evs : list event) : list (nat * string) :=
  flat_map (fun e => match e with ECall i p => [(i, p)] | ERet _ => [] end) evs.

Definition propagation_spec (ts : list tmpl) (outs : list outcome) (ps0 : params) (evs : list event) : Prop :=
  dests_distinct ts -> dests_clean_b ts = true ->
  forall i path t s,
    In (i, path) (call_paths evs) -> nth_error ts i = Some t ->
    tmpl_clean outs ps0 i t = true ->
    fill outs ps0 i t = Some s -> path = s.

Definition propagation_b (ts : list tmpl) (outs : list outcome) (ps0 : params) (evs : list event) : bool :=
  negb (dests_distinct_b ts && dests_clean_b ts) ||
  forallb (fun ip =>
             match nth_error ts (fst ip) with
             | Some t =>
                 if tmpl_clean outs ps0 (fst ip) t then
                   match fill outs ps0 (fst ip) t with
                   | Some s => str_eqb (snd ip) s
                   | None => true
                   end
                 else true
             | None => true
             end) (call_paths evs).

(* ---- the whole statement ---------------------------------------------------------------- *)

Definition spec (R : json -> json -> Prop) (ts : list tmpl) (outs : list outcome) (ps0 : params) (o : list event * result) : Prop :=
  calls_spec outs (fst o) /\ result_spec R outs (snd o) /\ propagation_spec ts outs ps0 (fst o).

Definition spec_b (ts : list tmpl) (outs : list outcome) (ps0 : params) (o : list event * result) : bool :=
  calls_b outs (fst o) && result_b outs (snd o) && propagation_b ts outs ps0 (fst o).

(* ---- syntactically simple placeholders: path segments of the configuration grammar
   [a-zA-Z0-9_-]: no '.', no brace, at least one segment ---- *)
Definition seg_simple (s : string) : bool := negb (has_char "."%char s) && no_brace s.
Definition path_simple (p : list string) : bool := negb (is_nil p) && forallb seg_simple p.
Definition holes_simple (ts : list tmpl) : bool := forallb (fun jp => path_simple (snd jp)) (all_holes ts).


(* ---- the exact behaviour of the model, also outside the property's hypothesis "the
   referenced path exists" (C02_path_exact, C02_missing_intermediate_quirk) ---- *)
(* what the loop finds for a placeholder {{.Resp<j>_<p>}} of backend i: the model's own
   lookup (lookup_src, with the shallower-object quirk) and formatting (param_of) *)
Definition hole_val (outs : list outcome) (i j : nat) (p : list string) : option string :=
  if (j <? i)%nat then
    match nth_error outs j with
    | Some (OResp r) => option_map param_of (lookup_src (data_or_empty r) p)
    | _ => None
    end
  else None.

(* the text every segment turns into - total: an unresolved placeholder is left as it is
   unless the endpoint parameters happen to have its key *)
Definition seg_text_q (outs : list outcome) (ps0 : params) (i : nat) (s : seg) : string :=
  match s with
  | Lit s => s
  | Hole j p =>
      match hole_val outs i j p with
      | Some v => v
      | None => match lookup (dest_key j p) ps0 with Some v => v | None => ph (dest_key j p) end
      end
  | PHole k => match lookup k ps0 with Some v => v | None => ph k end
  end.

Definition seg_clean_q (outs : list outcome) (i : nat) (s : seg) : bool :=
  match s with
  | Lit s => no_open s
  | Hole j p => no_brace (dest_key j p) &&
                match hole_val outs i j p with Some v => no_open v | None => true end
  | PHole k => no_brace k && negb (starts_resp k)
  end.

Definition tmpl_clean_q (outs : list outcome) (ps0 : params) (i : nat) (t : tmpl) : bool :=
  forallb (seg_clean_q outs i) t && params_clean ps0.

