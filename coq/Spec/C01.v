(* C01 - the property, as a Prop over (outcome of every backend, what the merging proxy
   returned) and as a boolean oracle over what the implementation was observed to return.
   Generic in the type V of field values; "the value of one of them" is stated up to a
   relation R on values (Leibniz equality for the model, document equality json_eqb for
   observations of the real code). *)
Require Import Verif.Common.Base Verif.Model.C01.
From Coq Require Import Permutation.

Section Spec.
  Variable V : Type.

  (* the fields of a response (a nil map has none) *)
  Definition dat (r : resp V) : dmap V := match data r with Some d => d | None => [] end.

  (* a backend answered = it produced a payload (complete or not, Data possibly null) *)
  Definition is_payload (o : outcome V) : bool :=
    match o with OPayload _ _ => true | _ => false end.

  (* the field maps of the backends that answered *)
  Definition payload_maps (outs : list (outcome V)) : list (dmap V) :=
    flat_map (fun o => match o with OPayload _ (Some d) => [d] | _ => [] end) outs.

  (* answered without error with a complete, non-null payload *)
  Definition good_outcome (o : outcome V) : bool :=
    match o with OPayload true (Some _) => true | _ => false end.

  (* one entry per backend that failed, returned nothing or was cancelled *)
  Definition expected_errs (outs : list (outcome V)) : list ekind :=
    flat_map (fun o => match msg_of o with MF e => [e] | MP _ => [] end) outs.

  Definition err_entries (e : option (list ekind)) : list ekind :=
    match e with Some l => l | None => [] end.

  Section Rel.
    Variable R : V -> V -> Prop.

    Definition merge_spec (outs : list (outcome V)) (res : result V) : Prop :=
      (* a nil response is returned only when no backend answered *)
      (fst res = None -> forall o, In o outs -> is_payload o = false) /\
      (forall x, fst res = Some x ->
         (* every top-level field of every backend that answered, and nothing else *)
         (forall k, In k (keys (dat x)) <-> exists d, In d (payload_maps outs) /\ In k (keys d)) /\
         (* for a field returned by several backends, the value of one of them *)
         (forall k v, In (k, v) (dat x) ->
            exists d v', In d (payload_maps outs) /\ In (k, v') d /\ R v v') /\
         (* flagged complete exactly when every backend answered without error with a
            complete, non-null payload *)
         (complete x = true <-> forall o, In o outs -> good_outcome o = true)) /\
      (* exactly one entry per backend that failed, returned nothing or was cancelled *)
      Permutation (err_entries (snd res)) (expected_errs outs) /\
      (* ... and nil when there is none *)
      (snd res = None <-> expected_errs outs = []).
  End Rel.

  (* ---- boolean form ---- *)
  Fixpoint remove_first (x : ekind) (l : list ekind) : option (list ekind) :=
    match l with
    | [] => None
    | y :: r => if ekind_eqb x y then Some r
                else match remove_first x r with Some r' => Some (y :: r') | None => None end
    end.
  (* equality as multisets *)
  Fixpoint perm_b (a b : list ekind) : bool :=
    match a with
    | [] => is_nil b
    | x :: r => match remove_first x b with Some b' => perm_b r b' | None => false end
    end.

  Section Oracle.
    Variable veqb : V -> V -> bool.

    Definition offered_b (pm : list (dmap V)) (kv : string * V) : bool :=
      existsb (fun d => existsb (fun kv' => str_eqb (fst kv) (fst kv') && veqb (snd kv) (snd kv')) d) pm.

    Definition fields_b (pm : list (dmap V)) (x : dmap V) : bool :=
      forallb (fun k => existsb (fun d => str_mem k (keys d)) pm) (keys x) &&
      forallb (fun d => forallb (fun k => str_mem k (keys x)) (keys d)) pm &&
      forallb (offered_b pm) x.

    Definition errors_b (e : option (list ekind)) (expected : list ekind) : bool :=
      perm_b (err_entries e) expected &&
      Bool.eqb (match e with None => true | Some _ => false end) (is_nil expected).

    Definition spec_b (outs : list (outcome V)) (res : result V) : bool :=
      match fst res with
      | None => negb (existsb is_payload outs)
      | Some x =>
          fields_b (payload_maps outs) (dat x) &&
          Bool.eqb (complete x) (forallb good_outcome outs)
      end &&
      errors_b (snd res) (expected_errs outs).
  End Oracle.
End Spec.

Arguments dat {V}.
Arguments is_payload {V}.
Arguments payload_maps {V}.
Arguments good_outcome {V}.
Arguments expected_errs {V}.
Arguments merge_spec {V}.
Arguments offered_b {V}.
Arguments fields_b {V}.
Arguments spec_b {V}.
