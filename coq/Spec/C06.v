(* C06 - the property: Prop definitions (path level) and the boolean oracle over what the
   implementation was observed to do. *)
Require Import Verif.Common.Base Verif.Common.Json Verif.Model.C06.
Require Import Coq.Sorting.Permutation.

(* ---- paths ---- *)
Fixpoint prefix (a b : list string) : bool :=
  match a, b with
  | [], _ => true
  | x :: r, y :: r' => str_eqb x y && prefix r r'
  | _ :: _, [] => false
  end.
Definition strict_prefix (a b : list string) : bool :=
  prefix a b && negb (Nat.eqb (List.length a) (List.length b)).
Definition present (v : json) (p : list string) : bool :=
  match get_path v p with Some _ => true | None => false end.
(* p is at or below a listed path *)
Definition covered (L : list (list string)) (p : list string) : bool :=
  existsb (fun l => prefix l p) L.
Definition path_eqb (a b : list string) : bool := list_eqb str_eqb a b.

(* allow lists of the quantifier: no listed path is a proper prefix of another one
   (repetitions are harmless) *)
Definition prefix_free (L : list (list string)) : Prop :=
  forall l1 l2, In l1 L -> In l2 L -> prefix l1 l2 = true -> l1 = l2.
Definition prefix_free_b (L : list (list string)) : bool :=
  forallb (fun l1 => forallb (fun l2 => negb (prefix l1 l2) || path_eqb l1 l2) L) L.
Definition nonempty_paths (L : list (list string)) : Prop := forall l, In l L -> l <> [].

(* ---- the allow list is exactly the projection onto the listed paths ---- *)
(* at or below a listed path: the document's value, unchanged (absent if absent);
   elsewhere: present iff some listed path strictly below it exists in the document
   (through objects), and then it is an object *)
Definition allow_exact_at (L : list (list string)) (d out : json) (p : list string) : Prop :=
  (covered L p = true -> get_path out p = get_path d p) /\
  (covered L p = false ->
     (present out p = true <->
      exists l, In l L /\ strict_prefix p l = true /\ present d l = true) /\
     (present out p = true -> exists m, get_path out p = Some (JObj m))).

(* ---- the deny list is exactly the document minus the subtrees at the listed paths ---- *)
(* at or below a listed path: absent; elsewhere: absent if absent in the document, the same
   value if it is not an object, and an object if it is an object (emptied objects stay) *)
Definition deny_exact_at (L : list (list string)) (d out : json) (p : list string) : Prop :=
  (covered L p = true -> get_path out p = None) /\
  (covered L p = false ->
     match get_path d p with
     | None => get_path out p = None
     | Some (JObj _) => exists m, get_path out p = Some (JObj m)
     | Some x => get_path out p = Some x
     end).

(* ---- target ---- *)
Definition target_spec (c : cfg) (d : obj) : obj :=
  if str_eqb (target c) "" then d
  else match get_path (JObj d) (split_dot (target c)) with
       | Some (JObj m) => m
       | _ => []
       end.

(* ---- mapping ---- *)
(* "source and destination names do not overlap": sources pairwise distinct (a Go map),
   destinations pairwise distinct, no name is both *)
Definition names_distinct (mp : list (string * string)) : Prop :=
  NoDup (map fst mp) /\ NoDup (map snd mp) /\ forall s, In s (map fst mp) -> ~ In s (map snd mp).
Definition names_distinct_b (mp : list (string * string)) : bool :=
  nodup_str (map fst mp) && nodup_str (map snd mp) &&
  forallb (fun s => negb (str_mem s (map snd mp))) (map fst mp).

(* the renamed object, key by key: k' holds v iff a listed source holding v is renamed to
   k', or no present source is renamed to k', k' is not itself a source, and k' held v *)
Definition renamed_at (mp : list (string * string)) (f out : obj) (k' : string) : Prop :=
  forall v, lookup k' out = Some v <->
    ((exists s, In (s, k') mp /\ lookup s f = Some v) \/
     ((forall s, In (s, k') mp -> lookup s f = None) /\ ~ In k' (map fst mp) /\ lookup k' f = Some v)).

(* boolean form, used by the oracle *)
Definition rename_lookup (mp : list (string * string)) (f : obj) (k' : string) : option json :=
  match find (fun sd => str_eqb (snd sd) k' && mem (fst sd) f) mp with
  | Some sd => lookup (fst sd) f
  | None => if str_mem k' (map fst mp) then None else lookup k' f
  end.

(* ---- group ---- *)
Definition group_spec (c : cfg) (d : obj) : obj :=
  if str_eqb (group c) "" then d else [(group c, JObj d)].

(* =====================  boolean oracle  ===================== *)
Definition is_obj_opt (o : option json) : bool :=
  match o with Some (JObj _) => true | _ => false end.

(* every path of a document through objects (including [] and the leaves) *)
Fixpoint paths (v : json) : list (list string) :=
  match v with
  | JObj m => [] :: (fix go (m : list (string * json)) : list (list string) :=
                       match m with
                       | [] => []
                       | (k, x) :: r => (map (cons k) (paths x) ++ go r)%list
                       end) m
  | _ => [[]]
  end.
Fixpoint prefixes (l : list string) : list (list string) :=
  match l with [] => [[]] | x :: r => [] :: map (cons x) (prefixes r) end.

Definition probe_paths (L : list (list string)) (d out : json) : list (list string) :=
  filter (fun p => negb (is_nil p)) (paths d ++ paths out ++ flat_map prefixes L)%list.

Definition allow_at_b (L : list (list string)) (d out : json) (p : list string) : bool :=
  if covered L p then opt_eqb json_eqb (get_path out p) (get_path d p)
  else Bool.eqb (present out p) (existsb (fun l => strict_prefix p l && present d l) L) &&
       (negb (present out p) || is_obj_opt (get_path out p)).

Definition deny_at_b (L : list (list string)) (d out : json) (p : list string) : bool :=
  if covered L p then negb (present out p)
  else match get_path d p, get_path out p with
       | None, None => true
       | Some (JObj _), Some (JObj _) => true
       | Some (JObj _), Some _ => false
       | Some x, Some y => json_eqb x y
       | _, _ => false
       end.

Definition allow_ok (L : list (list string)) (d out : obj) : bool :=
  forallb (allow_at_b L (JObj d) (JObj out)) (probe_paths L (JObj d) (JObj out)).
Definition deny_ok (L : list (list string)) (d out : obj) : bool :=
  forallb (deny_at_b L (JObj d) (JObj out)) (probe_paths L (JObj d) (JObj out)).

(* ---- allow lists that are NOT prefix-free (outside the quantifier, exact semantics) ----
   newAllowlistingFilter inserts the paths in the configured order; inserting q discards every
   earlier path comparable with q: a longer one below q (the leaf q overwrites that sub-tree)
   and a shorter one above q (buildDictPath replaces that leaf by a node).  What is left - the
   effective list - is prefix-free, and the filter is exactly the projection onto it.  For a
   prefix-free list the effective list has the same elements as the list. *)
Definition incomparable (q l : list string) : bool := negb (prefix q l) && negb (prefix l q).
Definition effective_step (acc : list (list string)) (q : list string) : list (list string) :=
  (filter (incomparable q) acc ++ [q])%list.
Definition effective (L : list (list string)) : list (list string) :=
  fold_left effective_step L [].

(* filter stage: t = the extracted target, f = what the implementation produced *)
Definition filter_ok (c : cfg) (t f : obj) : bool :=
  if is_nil (allow c) then deny_ok (map split_dot (deny c)) t f
  else allow_ok (effective (map split_dot (allow c))) t f.

Definition mapping_ok (mp : list (string * string)) (f inner : obj) : bool :=
  if names_distinct_b mp then
    forallb (fun k' => opt_eqb json_eqb (lookup k' inner) (rename_lookup mp f k'))
            (keys inner ++ keys f ++ map snd mp)%list
  else true.                                                 (* outside the quantifier *)

Definition ungroup (c : cfg) (out : obj) : option obj :=
  if str_eqb (group c) "" then Some out
  else match out with
       | [(g, JObj inner)] => if str_eqb g (group c) then Some inner else None
       | _ => None
       end.

Inductive obs := OPanic | OData (m : obj).

(* the same formatter observed with (target), (target + filter) and the whole
   configuration: the stages compose in the order target; filter; mapping; group *)
Definition spec_b (c : cfg) (d : obj) (o_t o_f o : obs) : bool :=
  match o_t, o_f, o with
  | OData t, OData f, OData out =>
      obj_eqb t (target_spec c d) &&
      filter_ok c (target_spec c d) f &&
      match ungroup c out with
      | Some inner => mapping_ok (sanitize (mapping c)) f inner
      | None => false
      end
  | _, _, _ => false          (* "manipulation never fails or panics" *)
  end.

(* what the statement says a decoder hands to the formatter: objects as they are, arrays
   of collection backends under "collection"; other combinations are outside C06 *)
Definition decode_spec (is_collection : bool) (payload : json) : option obj :=
  match is_collection, payload with
  | true, JArr l => Some [("collection", JArr l)]
  | false, JObj m => Some m
  | _, _ => None
  end.

Definition spec_resp_b (c : cfg) (is_collection : bool) (payload : json)
           (o_t o_f : obs) (o : option obs) : bool :=
  match decode_spec is_collection payload with
  | Some d => match o with Some oo => spec_b c d o_t o_f oo | None => false end
  | None => match o with Some OPanic => false | _ => true end
  end.

(* =====================  statements used by the proofs about the oracle  ===================== *)
(* observation-level forms: values compared as maps (json_eqb) instead of syntactically *)
Definition allow_obs_at (L : list (list string)) (d out : json) (p : list string) : Prop :=
  (covered L p = true -> opt_eqb json_eqb (get_path out p) (get_path d p) = true) /\
  (covered L p = false ->
     (present out p = true <->
      exists l, In l L /\ strict_prefix p l = true /\ present d l = true) /\
     (present out p = true -> exists m, get_path out p = Some (JObj m))).

Definition deny_obs_at (L : list (list string)) (d out : json) (p : list string) : Prop :=
  (covered L p = true -> get_path out p = None) /\
  (covered L p = false ->
     match get_path d p with
     | None => get_path out p = None
     | Some (JObj _) => exists m, get_path out p = Some (JObj m)
     | Some x => exists y, get_path out p = Some y /\ json_eqb x y = true
     end).


(* two documents that are the same as nested maps: the same paths exist, objects face
   objects, other values are equal as maps *)
Definition path_agree (oa ob : option json) : Prop :=
  match oa, ob with
  | None, None => True
  | Some (JObj _), Some (JObj _) => True
  | Some x, Some y => is_obj x = false /\ is_obj y = false /\ json_eqb x y = true
  | _, _ => False
  end.
Definition agree (a b : json) : Prop := forall p, path_agree (get_path a p) (get_path b p).
Definition same_elements (L L' : list (list string)) : Prop := forall l, In l L <-> In l L'.


(* the same configuration up to the order of the lists / of the mapping *)
Definition same_cfg (c c' : cfg) : Prop :=
  target c = target c' /\ group c = group c' /\
  (allow c = [] <-> allow c' = []) /\
  same_elements (map split_dot (allow c)) (map split_dot (allow c')) /\
  same_elements (map split_dot (deny c)) (map split_dot (deny c')) /\
  Permutation (mapping c) (mapping c').

(* what the model's result looks like as an observation *)
Definition obs_of (r : result) : obs := match r with Ok m => OData m | Panic => OPanic end.


(* =====================  end to end (several backends, merge, client document)  ===================== *)
(* formatted outputs of the backends that answered, in arrival order *)
Definition outs (bs : list backend) : list obj :=
  flat_map (fun b => match backend_out b with Some m => [m] | None => [] end) bs.

(* the value a top-level union leaves under k: that of the last answer holding k *)
Fixpoint last_with (k : string) (ms : list obj) : option json :=
  match ms with
  | [] => None
  | m :: r => match last_with k r with Some x => Some x | None => lookup k m end
  end.

(* no two formatted outputs share a top-level key *)
Fixpoint disjoint_keys (ms : list obj) : Prop :=
  match ms with
  | [] => True
  | m :: r => (forall k, lookup k m <> None -> forall m', In m' r -> lookup k m' = None) /\
              disjoint_keys r
  end.
Fixpoint disjoint_keys_b (ms : list obj) : bool :=
  match ms with
  | [] => true
  | m :: r => forallb (fun kv => forallb (fun m' => negb (mem (fst kv) m')) r) m && disjoint_keys_b r
  end.

(* boolean form of "nothing reaches the client that is not in some backend's formatted
   output": every top-level member of the client document is (as a map) the member of the same
   name of one of the outputs - hence every path below it too *)
Definition noleak_e2e_b (os : list obj) (client : obj) : bool :=
  forallb (fun kv => existsb (fun m => match lookup (fst kv) m with
                                       | Some y => json_eqb (snd kv) y
                                       | None => false end) os) client.
(* and nothing a backend's formatter let through is lost (the merge is a union) *)
Definition all_delivered_b (os : list obj) (client : obj) : bool :=
  forallb (fun m => forallb (fun kv => mem (fst kv) client) m) os.
