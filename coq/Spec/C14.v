(* C14 - the property, as Prop and as boolean oracles over what the implementation was
   observed to do. *)
Require Import Verif.Common.Base Verif.Model.C14.
Local Open Scope Z_scope.

Definition herr_eqb (a b : herr) : bool :=
  match a, b with
  | ENoHosts, ENoHosts => true
  | ESub x, ESub y => str_eqb x y
  | EOther x, EOther y => str_eqb x y
  | _, _ => false
  end.

(* ---- one call: membership, empty list, subscriber error ---- *)
(* "Every host chosen by a balancer belongs to the host list its subscriber reported for
   that call; an empty list yields the 'no hosts' error and a subscriber error is passed on
   unchanged." *)
Definition CallOk (r : report) (o : res) : Prop :=
  match rp_err r with
  | Some e => o = Err (ESub e)
  | None => match rp_hosts r with
            | [] => o = Err ENoHosts
            | hs => exists h, o = Ok h /\ In h hs
            end
  end.

Definition call_ok_b (r : report) (o : res) : bool :=
  match rp_err r with
  | Some e => match o with Err (ESub e') => str_eqb e e' | _ => false end
  | None => match rp_hosts r with
            | [] => match o with Err ENoHosts => true | _ => false end
            | hs => match o with Ok h => str_mem h hs | _ => false end
            end
  end.

(* ---- fairness of M selections over a fixed list of n distinct hosts ---- *)
(* every host got floor(M/n) or ceil(M/n) of them *)
Definition Fair (hs picks : list string) : Prop :=
  let n := Z.of_nat (List.length hs) in
  let M := Z.of_nat (List.length picks) in
  forall h, In h hs -> M / n <= zcount h picks <= (M + n - 1) / n.

Definition fair_b (hs picks : list string) : bool :=
  let n := Z.of_nat (List.length hs) in
  let M := Z.of_nat (List.length picks) in
  forallb (fun h => let c := zcount h picks in (M / n <=? c) && (c <=? (M + n - 1) / n)) hs.

(* sequential history: ANY M consecutive selections of it (a window) are fair *)
Definition window (a m : nat) (l : list string) : list string := firstn m (skipn a l).

Definition RRFair (hs picks : list string) : Prop :=
  forall a m, (a + m <= List.length picks)%nat -> Fair hs (window a m picks).

(* boolean form for a sequential history: the picks repeat with period n and the first
   n of them are pairwise distinct members (so every window of n selections visits every
   host exactly once) *)
Definition periodic_b (n : nat) (l : list string) : bool :=
  list_eqb str_eqb (firstn (List.length l - n) l) (skipn n l).

Definition rr_seq_b (hs picks : list string) : bool :=
  forallb (fun p => str_mem p hs) picks &&
  nodup_str (firstn (List.length hs) picks) &&
  periodic_b (List.length hs) picks.

(* ---- a stable list with transient failures ----
   every answer of the subscriber is either the list hs or a failure (an error, an empty
   list): the list is fixed, some lookups fail.  Failed calls select nothing; the property
   speaks of the selections that were made *)
Definition succeeds (r : report) : bool :=
  match hosts_step r with inl _ => true | inr _ => false end.

Definition stable_b (hs : list string) (rs : list report) : bool :=
  forallb (fun r => match hosts_step r with
                    | inl l => list_eqb str_eqb l hs
                    | inr _ => true end) rs.

Definition Stable (hs : list string) (rs : list report) : Prop :=
  forall r, In r rs -> hosts_step r = inl hs \/ exists e, hosts_step r = inr e.

(* ---- a dynamic subscriber: the windows between changes of the list ----
   a block is a maximal run of consecutive calls whose successful lookups all report the same
   list (failed lookups in between do not end it); the selections made inside every block
   must be fair over every window.  cur: the list of the running block; acc: its picks *)
Definition close_b (cur : option (list string)) (acc : list string) : bool :=
  match cur with
  | Some hs => negb (nodup_str hs) || rr_seq_b hs acc
  | None => true
  end.

Definition pick_of (o : res) : list string := match o with Ok h => [h] | _ => [] end.

Fixpoint blocks_b (cur : option (list string)) (acc : list string) (steps : list (report * res)) : bool :=
  match steps with
  | [] => close_b cur acc
  | (r, o) :: rest =>
      match hosts_step r with
      | inr _ => blocks_b cur acc rest
      | inl l =>
          match cur with
          | Some hs => if list_eqb str_eqb l hs then blocks_b cur (acc ++ pick_of o) rest
                       else close_b cur acc && blocks_b (Some l) (pick_of o) rest
          | None => blocks_b (Some l) (pick_of o) rest
          end
      end
  end.

(* ---- random balancer: non-vanishing share ----
   observable form: over M selections every host got at least a quarter of the even share
   M/n (the harness draws M >= 64 n) *)
Definition Share (hs picks : list string) : Prop :=
  let n := Z.of_nat (List.length hs) in
  let M := Z.of_nat (List.length picks) in
  forall h, In h hs -> M <= 4 * n * zcount h picks.

Definition share_b (hs picks : list string) : bool :=
  let n := Z.of_nat (List.length hs) in
  let M := Z.of_nat (List.length picks) in
  forallb (fun h => M <=? 4 * n * zcount h picks) hs.

(* ---- the counter hypothesis of the balance theorem ---- *)
(* the M tickets drawn from c0 do not cross the uint64 wrap, or n divides 2^64.  The oracle
   stays 2^32 below the wrap (the theorem needs no margin): how the counter value read
   through the hook relates to the ticket of the next call (value before or after the add,
   a constant offset) is the implementation's business, not the property's *)
Definition no_wrap_b (c0 : Z) (M n : nat) : bool :=
  (c0 + Z.of_nat M + two32 <=? two64) || (two64 mod Z.of_nat n =? 0).
