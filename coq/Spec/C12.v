(* C12 - the property, as Prop and as a boolean checker over what was observed. *)
Require Import Verif.Common.Base Verif.Common.Json Verif.Model.C12.

(* s occurs inside t *)
Fixpoint is_prefix (s t : string) : bool :=
  match s, t with
  | EmptyString, _ => true
  | String a s', String b t' => Ascii.eqb a b && is_prefix s' t'
  | _, _ => false
  end.
Fixpoint is_infix (s t : string) : bool :=
  is_prefix s t || match t with EmptyString => false | String _ t' => is_infix s t' end.

(* "none of its body reaches the client", observable form: the backend body (when it is
   long enough to be distinctive: the harness uses marked bodies) does not occur in the
   raw client body *)
Definition no_leak_b (r : reply) (raw : string) : bool :=
  (String.length (r_body r) <? 8)%nat || negb (is_infix (r_body r) raw).

Definition body_obj (o : cobs) : option obj :=
  match c_body o with BJson (JObj m) => Some m | _ => None end.

Definition carries_b (d : obj) (body : obj) : bool :=
  forallb (fun kv => match lookup (fst kv) body with
                     | Some v => json_eqb (snd kv) v | None => false end) d.

Definition details_ok_b (n : string) (r : reply) (body : obj) : bool :=
  match lookup ("error_" ++ n)%string body with
  | Some (JObj e) =>
      match lookup "http_status_code" e with
      | Some (JNum l) => str_eqb l (z_lit (r_code r)) | _ => false end &&
      (* ... and that body: an empty body is an absent (omitempty) or empty http_body *)
      match lookup "http_body" e with
      | Some (JStr b) => str_eqb b (r_body r)
      | None => str_eqb (r_body r) ""
      | Some _ => false
      end
  | _ => false
  end.

(* single backend endpoint *)
Definition spec_single_b (m : mode) (r : reply) (decoded : option obj) (o : cobs) (raw : string) : bool :=
  if ok_status (r_code r) then
    match decoded with
    | Some d =>
        (c_status o =? 200)%Z &&
        match body_obj o with Some b => obj_eqb d b | None => false end &&
        str_eqb (c_completed o) (if Nat.eqb (List.length d) 0 then "false" else "true")
    | None => negb (str_eqb (c_completed o) "true")
    end
  else
    match m with
    | MDefault => (c_status o =? 500)%Z && str_eqb (c_completed o) "false" && no_leak_b r raw
    | MErrorCode => (c_status o =? r_code r)%Z && str_eqb (c_completed o) "false"
    | MDetails n =>
        str_eqb (c_completed o) "false" &&
        match body_obj o with Some b => details_ok_b n r b | None => false end
    end.

(* several backends *)
Definition spec_multi_b (ms : list (mode * reply * option obj)) (o : cobs) (raw : string) : bool :=
  let failed x := let '(m, r, d) := x in negb (ok_status (r_code r)) || match d with None => true | _ => false end in
  let anyfail := existsb failed ms in
  (* a failing backend in default mode leaks nothing *)
  forallb (fun x => let '(m, r, d) := x in
             ok_status (r_code r) || match m with MDefault => no_leak_b r raw | _ => true end) ms &&
  (* any failure: flagged incomplete *)
  (negb anyfail || str_eqb (c_completed o) "false") &&
  (* healthy siblings' data is delivered *)
  forallb (fun x => let '(m, r, d) := x in
             negb (ok_status (r_code r)) ||
             match d with
             | Some dd => Nat.eqb (List.length dd) 0 ||
                          ((c_status o =? 200)%Z &&
                           match body_obj o with Some b => carries_b dd b | None => false end)
             | None => true end) ms &&
  (* details mode: error_<name> present *)
  forallb (fun x => let '(m, r, d) := x in
             ok_status (r_code r) ||
             match m with
             | MDetails n => match body_obj o with Some b => details_ok_b n r b | None => false end
             | _ => true end) ms.

(* Prop forms used by the theorems *)
Definition raw_of (o : cobs) : string := match c_body o with BRaw s => s | BJson _ => "" end.

(* ======================================================================================
   Extension: the property over an endpoint built by the default factory (one or several
   backends, optional flatmap / static stages) as seen through any router.
   ====================================================================================== *)

Definition b_ok (b : backend) : bool := let '(_, r, _) := b in ok_status (r_code r).
Definition b_failed (b : backend) : bool :=
  let '(_, r, d) := b in
  negb (ok_status (r_code r)) || match d with None => true | Some _ => false end.

(* static data is DECLARED to replace or extend the answer.  A strategy other than "success"
   and "complete" also applies to a failed request: the client then gets the declared data
   (status 200) instead of the bare error status, by configuration. *)
Definition static_on_failure (st : option (string * obj)) : bool :=
  match st with
  | Some (n, _) => negb (str_eqb n "success" || str_eqb n "complete")
  | None => false
  end.

Definition static_keys (st : option (string * obj)) : list string :=
  match st with Some (_, d) => keys d | None => [] end.

Definition not_static (sk : list string) (d : obj) : obj :=
  filter (fun kv => negb (str_mem (fst kv) sk)) d.

Definition spec_endpoint_b (rt : router) (epx : obj) (b0 : backend) (rest : list backend)
           (o : cobs) (raw : string) : bool :=
  let ms := b0 :: rest in
  let st := static_cfg epx in
  let sk := static_keys st in
  let anyfail := existsb b_failed ms in
  (* default mode: none of a failing backend's body reaches the client *)
  forallb (fun b : backend => let '(m, r, _) := b in
             ok_status (r_code r) || match m with MDefault => no_leak_b r raw | _ => true end) ms &&
  (* a failed backend: the answer is flagged incomplete *)
  (negb anyfail || str_eqb (c_completed o) "false") &&
  (* 200/201: decoded and used - the data is delivered (also next to failing siblings) *)
  forallb (fun b : backend => let '(_, r, d) := b in
             negb (ok_status (r_code r)) ||
             match d with
             | Some dd =>
                 let dd' := not_static sk dd in
                 Nat.eqb (List.length dd') 0 ||
                 ((c_status o =? 200)%Z &&
                  match body_obj o with Some body => carries_b dd' body | None => false end &&
                  (anyfail || str_eqb (c_completed o) "true"))
             | None => true
             end) ms &&
  (* return_error_details: error_<name> holds the status and the body *)
  forallb (fun b : backend => let '(m, r, _) := b in
             ok_status (r_code r) ||
             match m with
             | MDetails n =>
                 str_mem ("error_" ++ n)%string sk ||
                 match body_obj o with Some body => details_ok_b n r body | None => false end
             | _ => true
             end) ms &&
  (* a sole backend: 500 by default, exactly its status with return_error_code *)
  match rest with
  | [] =>
      let '(m, r, d) := b0 in
      ok_status (r_code r) || static_on_failure st ||
      match m with
      | MDefault => (c_status o =? 500)%Z
      | MErrorCode => (c_status o =? r_code r)%Z
      | MDetails _ => true
      end
  | _ => true
  end &&
  (* without stages a sole backend is the first version's oracle *)
  match rest, st with
  | [], None => let '(m, r, d) := b0 in spec_single_b m r d o raw
  | _, _ => true
  end.

(* ---- proxy level: the (response, error) of the backend proxy (cases CProxy / CProxyRaw) ---- *)
Definition perr_eqb (a b : perr) : bool :=
  match a, b with
  | ENone, ENone | EInvalidStatus, EInvalidStatus | EDecode, EDecode => true
  | ECode c m e, ECode c' m' e' => (c =? c')%Z && str_eqb m m' && str_eqb e e'
  | _, _ => false
  end.

Definition proxy_spec_b (m : mode) (r : reply) (decoded : option obj) (o : pout) : bool :=
  if ok_status (r_code r) then
    match decoded, fst o with
    | Some d, Some p => obj_eqb d (p_data p) && p_complete p && perr_eqb (snd o) ENone
    | Some _, None => false
    | None, _ => true
    end
  else match m with
       | MDefault => match o with (None, EInvalidStatus) => true | _ => false end
       | MErrorCode => match o with (None, ECode c _ _) => (c =? r_code r)%Z | _ => false end
       | MDetails n => match fst o with
                       | Some p => negb (p_complete p) && details_ok_b n r (p_data p)
                       | None => false end
       end.

