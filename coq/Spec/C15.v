(* C15 - the property as Prop and as boolean oracles over what the implementation was
   observed to return.  The statement (properties.jsonl):
     "The host list derived from an SRV answer contains only targets of the lowest priority
      value, each repeated in proportion to its weight (never more often than a heavier target,
      total size bounded by max(100, number of records)), formatted as scheme://host:port.  A
      failed refresh leaves the previously resolved list in place, every caller gets a private
      copy of the list, and reads are safe while refreshes happen."
   "In proportion" is read as the floor formula of DESIGN.md section 7: with s the sum of the
   weights of the lowest-priority records and sc = max(100, their number), the quota of a record
   of weight w is w when s <= sc and floor(w*sc/s) otherwise, and every record occurs
   quota/d times for one common positive divisor d (the statement does not fix d).  The order
   of the list is not part of the statement: lists are compared as multisets. *)
Require Import Verif.Common.Base Verif.Model.C15.
From Coq Require Import Permutation Orders Mergesort Sorted.
Local Open Scope Z_scope.

(* ---- the lowest priority group, without any sorting ---- *)
Definition min_prio (rs : list srv) : Z :=
  match rs with [] => 0 | r :: t => fold_right Z.min (prio r) (map prio t) end.
Definition low (rs : list srv) : list srv :=
  let m := min_prio rs in filter (fun a => prio a =? m) rs.

(* ---- proportionality ---- *)
Definition quota_with (sc s w : Z) : Z := if s <=? sc then w else w * sc / s.
Definition quota (ws : list Z) (w : Z) : Z :=
  quota_with (Z.max 100 (Z.of_nat (List.length ws))) (sumZ ws) w.
Definition times_of (ws : list Z) (d w : Z) : Z := quota ws w / d.

(* the list the statement describes, in the order of the lowest-priority records *)
Definition expected (scheme : string) (g : list srv) (d : Z) : list string :=
  let ws := map weight g in
  let sc := Z.max 100 (Z.of_nat (List.length ws)) in
  let s := sumZ ws in   (* = times_of ws d (weight a), with the sums computed once *)
  flat_map (fun a => repeat (host_of scheme a) (Z.to_nat (quota_with sc s (weight a) / d))) g.

(* scheme: the effective scheme (http when none was given) *)
Definition Spec (scheme : string) (rs : list srv) (obs : list string) : Prop :=
  let g := low rs in
  let ws := map weight g in
  exists d, 0 < d /\
    (* in proportion: times * d = quota, for every record of the lowest priority *)
    (forall a, In a g -> times_of ws d (weight a) * d = quota ws (weight a)) /\
    (* only those records, each formatted scheme://host:port and repeated `times` times *)
    Permutation obs (expected scheme g d) /\
    (* never more often than a heavier target *)
    (forall a b, In a g -> In b g -> weight a <= weight b ->
                 times_of ws d (weight a) <= times_of ws d (weight b)) /\
    (* size bound *)
    Z.of_nat (List.length obs) <= Z.max 100 (Z.of_nat (List.length rs)).

(* ---- boolean form ---- *)
Module StrOrder <: TotalLeBool.
  Definition t := string.
  Definition leb := String.leb.
  Theorem leb_total : forall a1 a2, leb a1 a2 = true \/ leb a2 a1 = true.
  Proof. exact String.leb_total. Qed.
End StrOrder.
Module StrSort := Sort StrOrder.

(* multiset equality of two string lists: equal after sorting *)
Definition perm_b (a b : list string) : bool :=
  list_eqb str_eqb (StrSort.sort a) (StrSort.sort b).

(* the common divisor is determined by the length of the observed list: sum quota = d * length *)
Definition divisor_for (qs : list Z) (n : Z) : Z := if n =? 0 then 1 else sumZ qs / n.

Definition spec_b (scheme : string) (rs : list srv) (obs : list string) : bool :=
  let g := low rs in
  let ws := map weight g in
  let sc := Z.max 100 (Z.of_nat (List.length ws)) in
  let s := sumZ ws in
  let qs := map (quota_with sc s) ws in
  let n := Z.of_nat (List.length obs) in
  let d := divisor_for qs n in
  (0 <? d) && forallb (fun q => q mod d =? 0) qs &&
  perm_b obs (expected scheme g d) &&
  (n <=? Z.max 100 (Z.of_nat (List.length rs))).

(* unit level: the slice compact returns for the weights ws *)
Definition SpecCompact (ws out : list Z) : Prop :=
  exists d, 0 < d /\ Forall2 (fun w t => t * d = quota ws w) ws out /\
            sumZ out <= Z.max 100 (Z.of_nat (List.length ws)).

Fixpoint forall2b {A B} (f : A -> B -> bool) (a : list A) (b : list B) : bool :=
  match a, b with
  | [], [] => true
  | x :: r, y :: s => f x y && forall2b f r s
  | _, _ => false
  end.

Definition spec_compact_b (ws out : list Z) : bool :=
  let sc := Z.max 100 (Z.of_nat (List.length ws)) in
  let s := sumZ ws in
  let qs := map (quota_with sc s) ws in
  let n := sumZ out in
  let d := divisor_for qs n in
  (0 <? d) && forall2b (fun w t => t * d =? quota_with sc s w) ws out &&
  (n <=? Z.max 100 (Z.of_nat (List.length ws))).

(* ---- histories: what every read must have returned ---- *)
(* cur: the records of the last lookup that succeeded so far *)
Fixpoint SpecHist (scheme : string) (cur : option (list srv)) (evs : list event)
         (obs : list (list string)) : Prop :=
  match evs with
  | [] => obs = []
  | ELookup true rs :: r => SpecHist scheme (Some rs) r obs
  | ELookup false _ :: r => SpecHist scheme cur r obs      (* a failed refresh changes nothing *)
  | EScribble _ _ :: r => SpecHist scheme cur r obs        (* what callers do to their copies changes nothing *)
  | ERead :: r =>
      match obs with
      | [] => False
      | o :: obs' =>
          match cur with None => o = [] | Some rs => Spec scheme rs o end /\
          SpecHist scheme cur r obs'
      end
  end.

Fixpoint spec_hist_b (scheme : string) (cur : option (list srv)) (evs : list event)
         (obs : list (list string)) : bool :=
  match evs with
  | [] => match obs with [] => true | _ => false end
  | ELookup true rs :: r => spec_hist_b scheme (Some rs) r obs
  | ELookup false _ :: r => spec_hist_b scheme cur r obs
  | EScribble _ _ :: r => spec_hist_b scheme cur r obs
  | ERead :: r =>
      match obs with
      | [] => false
      | o :: obs' =>
          match cur with
          | None => match o with [] => true | _ => false end
          | Some rs => spec_b scheme rs o
          end && spec_hist_b scheme cur r obs'
      end
  end.

(* ---- readers running while refreshes happen ---- *)
Fixpoint drop_while {A} (f : A -> bool) (l : list A) : list A :=
  match l with
  | [] => []
  | x :: r => if f x then drop_while f r else l
  end.
(* seq (what one reader saw, in its own order) only contains lists that ok accepts for one of
   the successive answers rss, and never goes back to an older answer *)
Fixpoint in_order (ok : list srv -> list string -> bool) (rss : list (list srv))
         (seq : list (list string)) : bool :=
  match rss with
  | [] => match seq with [] => true | _ => false end
  | rs :: rest => in_order ok rest (drop_while (ok rs) seq)
  end.

Definition spec_race_b (scheme : string) (rss : list (list srv)) (seqs : list (list (list string)))
           (observed_race : bool) : bool :=
  negb observed_race && forallb (in_order (spec_b scheme) rss) seqs.

(* ---- vocabulary of the history theorems ---- *)
(* the records of the last lookup of a history that succeeded (cur: before the history) *)
Fixpoint last_ok (cur : option (list srv)) (evs : list event) : option (list srv) :=
  match evs with
  | [] => cur
  | ELookup true rs :: r => last_ok (Some rs) r
  | _ :: r => last_ok cur r
  end.
Fixpoint n_reads (evs : list event) : nat :=
  match evs with
  | [] => O
  | ERead :: r => S (n_reads r)
  | _ :: r => n_reads r
  end.
Definition is_scribble (e : event) : bool := match e with EScribble _ _ => true | _ => false end.

(* ---- what sort.Slice guarantees, whatever algorithm it uses ---- *)
(* the result is a rearrangement of the input in which no later element is less (by the
   comparator handed to sort.Slice) than an earlier one *)
Definition sort_post (input sorted : list srv) : Prop :=
  Permutation sorted input /\ StronglySorted (fun a b => srv_ltb b a = false) sorted.

(* rand.Perm(n) returns a permutation of 0..n-1 *)
Definition is_perm_of (n : nat) (perm : list nat) : Prop := Permutation perm (seq 0 n).
Definition is_perm_b (n : nat) (perm : list nat) : bool :=
  Nat.eqb (List.length perm) n && forallb (fun i => existsb (Nat.eqb i) perm) (seq 0 n).
