(* C16 - the property: Prop definitions and the boolean oracle over what the implementation
   was observed to do. *)
Require Import Verif.Common.Base Verif.Common.Json Verif.Common.Ctx Verif.Model.C16.
Close Scope Z_scope.

(* ---- observations ---- *)
(* ctx.Err() *)
Inductive cerr := CNil | CCanceled | CDeadline.

(* what the caller of the endpoint proxy got: response (nil | Data nil-or-map, IsComplete) and
   error (nil | the kinds of its entries, sorted) *)
Record cres := { c_resp : option (option obj * bool); c_err : option (list string) }.

(* a regular backend stub: how often it was called, the URL and the request it was handed *)
Record robs := { ro_id : nat; ro_calls : nat; ro_url : string; ro_req : request }.

(* a shadow backend stub.  Times are nanoseconds since the moment just before the endpoint
   proxy was called. *)
Record sobs := {
  so_id : nat; so_calls : nat;
  so_req : request;                  (* what it was handed; q_body = what it read from Body *)
  so_priv_hdr : bool; so_priv_par : bool; so_priv_body : bool;
                                     (* Headers / Params / Body are not the client's objects
                                        (nor another backend's) *)
  so_value : bool;                   (* ctx.Value reaches the client's context *)
  so_deadline : option Z;            (* ctx.Deadline() *)
  so_seen : Z;                       (* when the stub was entered *)
  so_cancel : option (cerr * Z);     (* ctx.Err() measured after the client's context was
                                        cancelled and the endpoint proxy had returned, and when *)
  so_final : option (cerr * Z) }.    (* hanging stub: ctx.Err() once ctx.Done() fired, and when *)

Inductive soutcome := SOk | SErr | SGarbage | SHang.

(* ---- equalities ---- *)
Definition mmap_eqb (a b : mmap) : bool :=
  list_eqb (fun x y => str_eqb (fst x) (fst y) && list_eqb str_eqb (snd x) (snd y)) a b.
Definition par_eqb (a b : list (string * string)) : bool :=
  list_eqb (fun x y => str_eqb (fst x) (fst y) && str_eqb (snd x) (snd y)) a b.
(* the request as the property speaks of it (the path is rewritten per backend) *)
Definition req_eqb (a b : request) : bool :=
  str_eqb (q_method a) (q_method b) && mmap_eqb (q_hdr a) (q_hdr b) && mmap_eqb (q_qry a) (q_qry b) &&
  par_eqb (q_par a) (q_par b) && opt_eqb str_eqb (q_body a) (q_body b).
Definition robs_eqb (a b : robs) : bool :=
  Nat.eqb (ro_id a) (ro_id b) && Nat.eqb (ro_calls a) (ro_calls b) && str_eqb (ro_url a) (ro_url b) &&
  str_eqb (q_path (ro_req a)) (q_path (ro_req b)) && req_eqb (ro_req a) (ro_req b).
Definition resp_eqb (a b : option obj * bool) : bool :=
  opt_eqb obj_eqb (fst a) (fst b) && Bool.eqb (snd a) (snd b).
Definition cres_eqb (a b : cres) : bool :=
  opt_eqb resp_eqb (c_resp a) (c_resp b) && opt_eqb (list_eqb str_eqb) (c_err a) (c_err b).

(* ---- the property on one observed call ---- *)
(* T: the shadow timeout of the endpoint; b: the backend's configuration; hang: the stub
   stays silent until its context ends; fullcopy: the backend has neither filters nor GraphQL,
   so what it is handed must be the client's request with the backend's method *)
Definition spec_shadow_b (T : Z) (req : request) (fullcopy : bool) (b : backend) (hang : bool) (s : sobs) : bool :=
  Nat.eqb (so_calls s) 1 &&
  (* its own full copy, including the body *)
  (negb fullcopy || (opt_eqb str_eqb (q_body (so_req s)) (q_body req) && req_eqb (so_req s) (handed b req))) &&
  so_priv_hdr s && so_priv_par s && so_priv_body s &&
  (* bounded by the shadow timeout *)
  match so_deadline s with
  | None => false
  | Some d =>
      (d <=? so_seen s + T)%Z &&
      (* not cancelled when the client's request ends: after that its context is alive, or
         has run into its own deadline *)
      match so_cancel s with
      | None | Some (CNil, _) => true
      | Some (CCanceled, _) => false
      | Some (CDeadline, t) => (d <=? t)%Z
      end &&
      (* a silent backend is released by the deadline, not before, and by nothing else *)
      (negb hang || match so_final s with Some (CDeadline, t) => (d <=? t)%Z | _ => false end)
  end.

Definition is_hang (outs : list (nat * soutcome)) (id : nat) : bool :=
  existsb (fun x => Nat.eqb (fst x) id && match snd x with SHang => true | _ => false end) outs.

Fixpoint forallb2 {A B} (f : A -> B -> bool) (a : list A) (b : list B) : bool :=
  match a, b with
  | [], [] => true
  | x :: r, y :: s => f x y && forallb2 f r s
  | _, _ => false
  end.

(* one call of the endpoint built by NewShadowFactory(factory) next to one call of the
   endpoint the plain factory builds for the regular backends only *)
Definition spec_run_b (bs : list backend) (req : request) (fullcopy : bool) (outs : list (nat * soutcome))
                      (plain shadowed : cres) (pregs sregs : list robs) (shs : list sobs) : bool :=
  let B := shadow_new bs in
  let T := match B with BShadowed _ _ t => t | _ => 0%Z end in
  (* response, error, completeness *)
  cres_eqb plain shadowed &&
  (* the regular backends are called with the same requests *)
  list_eqb robs_eqb pregs sregs &&
  (* every shadow backend is called, with its own full copy, detached, bounded *)
  forallb2 (fun b s => Nat.eqb (b_id b) (so_id s) && spec_shadow_b T req fullcopy b (is_hang outs (b_id b)) s)
           (shadow_of B) shs.

(* factory level: the error New returns *)
Definition spec_new_b (plain_err shadow_err : option string) : bool := opt_eqb str_eqb plain_err shadow_err.

(* ---- Prop forms ---- *)
(* what the caller observes does not depend on the shadow side *)
Definition Invariant {R} (with_shadows without : R) : Prop := with_shadows = without.

Definition FullCopy (r : request) (s : spawned) : Prop :=
  q_body (s_req s) = q_body r /\ q_hdr (s_req s) = q_hdr r /\ q_qry (s_req s) = q_qry r /\
  q_par (s_req s) = q_par r /\ q_method (s_req s) = q_method r.

(* cs: cancel functions called so far (client side tokens only) *)
Definition Detached (cs : list nat) (now : Z) (s : spawned) : Prop := done cs now (s_ctx s) = false.
Definition Bounded (t0 timeout : Z) (s : spawned) : Prop :=
  deadline (s_ctx s) = Some (t0 + timeout)%Z /\ forall cs now, (t0 + timeout <= now)%Z -> done cs now (s_ctx s) = true.

(* Prop reading of the per-backend oracle *)
Definition ShadowCallOK (T : Z) (req : request) (b : backend) (hang : bool) (s : sobs) : Prop :=
  so_calls s = 1 /\
  so_priv_hdr s = true /\ so_priv_par s = true /\ so_priv_body s = true /\
  exists d, so_deadline s = Some d /\ (d <= so_seen s + T)%Z /\
    (forall e t, so_cancel s = Some (e, t) -> e <> CCanceled /\ (e = CDeadline -> (d <= t)%Z)) /\
    (hang = true -> exists t, so_final s = Some (CDeadline, t) /\ (d <= t)%Z).
