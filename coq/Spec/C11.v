(* C11 - the property, as Prop and as a boolean checker over what was observed.

   "For whatever (response, error) pair the proxy pipeline yields, the HTTP reply carries
    X-Krakend-Completed: true exactly when there is a non-empty, complete response (false
    otherwise), a Cache-Control: public, max-age header only in that case and only when a
    cache TTL is configured, and the gateway identification header always.  When the
    pipeline yields an error and no response, the status is the error's own status code if
    it carries one and 500 otherwise, and a JSON body, when one is rendered, is the
    serialisation of the response data." *)
Require Import Verif.Common.Base Verif.Common.Json Verif.Model.C11.

Fixpoint is_prefix (s t : string) : bool :=
  match s, t with
  | EmptyString, _ => true
  | String a s', String b t' => Ascii.eqb a b && is_prefix s' t'
  | _, _ => false
  end.

(* a Cache-Control value of the gateway's form *)
Definition gateway_cache (v : string) : bool := is_prefix "public, max-age" v.

(* "carries X-Krakend-Completed: true exactly when ... (false otherwise)": a field line with
   value true is there iff the response is non-empty and complete, one with value false iff
   it is not *)
Definition completed_truthful (i : input) (o : reply) : Prop :=
  (In V_true (o_completed o) <-> cond i = true) /\
  (In V_false (o_completed o) <-> cond i = false).

(* "a Cache-Control: public, max-age header only in that case and only when a cache TTL is
   configured" *)
Definition cache_truthful (i : input) (o : reply) : Prop :=
  forall v, In v (o_cache o) -> gateway_cache v = true -> cond i = true /\ i_ttl i <> 0%Z.

(* "the gateway identification header always" *)
Definition version_present (i : input) (o : reply) : Prop := In (i_ver i) (o_version o).

(* "when the pipeline yields an error and no response, the status is the error's own status
   code if it carries one and 500 otherwise" (500 = the answer of the stock translator; the
   handler factories take the translator as an argument, i_errf is its answer).  Only
   statuses net/http accepts can be the status of a reply.  The statement is about errors of
   the pipeline (i_err); that the handlers treat an expired context like an error is stated
   of the model (C11_error_status, over eff_err) but not demanded here. *)
Definition error_status_ok (i : input) (o : reply) : Prop :=
  i_resp i = None -> forall e, i_err i = Some e -> valid_code (err_status i e) = true ->
  o_status o = err_status i e.

(* "a JSON body, when one is rendered, is the serialisation of the response data" (for the
   json-collection encoding: of its "collection" member) *)
Definition json_body_ok (i : input) (o : reply) : Prop :=
  forall v r, o_body o = BJson v -> i_resp i = Some r ->
  match i_render i with
  | RJson => json_eqb (data_json r) v = true
  | RCollection => json_eqb (collection (Some r)) v = true
  | _ => True
  end.

(* The one cell where the HTTPErrorInterceptor of the mux engine (a mechanism of this
   property: "forces 'false' on non-200 statuses") and the "exactly when" clause cannot both
   hold: a non-empty complete response rendered by the no-op render with an explicit status
   other than 200.  The no-op pipeline never yields data, so the cell is outside what the
   pipeline yields; the completeness clause is stated outside it (see
   C11_engine_override_refuted). *)
Definition engine_override (i : input) : bool :=
  match i_impl i, i_render i, i_resp i with
  | MuxEngine, RNoop, Some r =>
      cond i && negb (r_status r =? 0)%Z && negb (r_status r =? 200)%Z
  | _, _, _ => false
  end.

Definition Spec (i : input) (o : reply) : Prop :=
  (engine_override i = false -> completed_truthful i o) /\
  cache_truthful i o /\ version_present i o /\ error_status_ok i o /\ json_body_ok i o.

(* ---- boolean form ---- *)
Definition completed_b (i : input) (o : reply) : bool :=
  Bool.eqb (str_mem V_true (o_completed o)) (cond i) &&
  Bool.eqb (str_mem V_false (o_completed o)) (negb (cond i)).
Definition cache_b (i : input) (o : reply) : bool :=
  forallb (fun v => negb (gateway_cache v) || (cond i && negb (i_ttl i =? 0)%Z)) (o_cache o).
Definition version_b (i : input) (o : reply) : bool := str_mem (i_ver i) (o_version o).
Definition error_status_b (i : input) (o : reply) : bool :=
  match i_resp i, i_err i with
  | None, Some e => negb (valid_code (err_status i e)) || (o_status o =? err_status i e)%Z
  | _, _ => true
  end.
Definition json_body_b (i : input) (o : reply) : bool :=
  match o_body o, i_resp i with
  | BJson v, Some r =>
      match i_render i with
      | RJson => json_eqb (data_json r) v
      | RCollection => json_eqb (collection (Some r)) v
      | _ => true
      end
  | _, _ => true
  end.

Definition spec_b (i : input) (o : reply) : bool :=
  (engine_override i || completed_b i o) && cache_b i o && version_b i o &&
  error_status_b i o && json_body_b i o.

(* a run that ends in a panic of net/http (no reply) is acceptable only when a status on
   the way is not a valid HTTP status *)
Definition codes_valid (i : input) : bool :=
  match eff_err i with Some e => valid_code (err_status i e) | None => true end &&
  match i_resp i with Some r => (r_status r =? 0)%Z || valid_code (r_status r) | None => true end.
Definition spec_out_b (i : input) (out : outcome) : bool :=
  match out with Reply o => spec_b i o | Panic => negb (codes_valid i) end.

(* ---- the recorded finding (F-C11): a metadata header of the response is appended next to
   one of the two headers the gateway writes itself ---- *)
Definition hdr_pair (out : outcome) : option (list string * list string) :=
  match out with Reply o => Some (o_completed o, o_cache o) | Panic => None end.
Definition pair_eqb (a b : option (list string * list string)) : bool :=
  opt_eqb (fun x y => list_eqb str_eqb (fst x) (fst y) && list_eqb str_eqb (snd x) (snd y)) a b.
Definition in_finding (i : input) : bool :=
  negb (pair_eqb (hdr_pair (handler i)) (hdr_pair (handler (strip_meta i)))).
(* hypothesis of the positive theorems: the metadata names neither header *)
Definition meta_disjoint (i : input) : Prop :=
  meta_vals H_completed (meta_of i) = [] /\ meta_vals H_cache (meta_of i) = [].

(* ---- well-formedness assumed of inputs (checked on every generated case) ---- *)
(* int(CacheTTL.Seconds()) goes through float64; below 2^22 s the rounding cannot reach the
   next integer, so truncation of the exact quotient is what the code computes *)
Definition ttl_in_range (ttl : Z) : bool := (Z.abs ttl <? 4194304 * 1000000000)%Z.
Definition data_wf (i : input) : bool :=
  match i_resp i with
  | Some r => match r_data r with Some m => wfj (JObj m) | None => true end
  | None => true
  end.
(* one spelling per header in a metadata map (two spellings of one header would be appended
   in map iteration order) *)
Definition meta_wf (i : input) : bool := nodup_str (map (fun kv => canon (fst kv)) (meta_of i)).
Definition input_wf (i : input) : bool :=
  ttl_in_range (i_ttl i) && data_wf i && meta_wf i && negb (str_eqb (i_ver i) "") &&
  (* c.Errors exists in the gin chain only *)
  match i_impl i, i_ctx_errs i with Gin, _ => true | _, [] => true | _, _ => false end.
