(* C18 - the property: Prop definitions and the boolean oracles over what the
   implementation was observed to do. *)
Require Import Verif.Common.Base Verif.Common.Json Verif.Model.C18.

(* ---------- boolean equalities on observations ---------- *)
Definition level_eqb (a b : level) : bool :=
  match a, b with LEndpoint, LEndpoint | LBackend, LBackend => true | _, _ => false end.
Definition err_eqb (a b : err) : bool :=
  match a, b with
  | ENone, ENone => true
  | EInner x, EInner y => str_eqb x y
  | EMod l p, EMod l' p' => level_eqb l l' && Nat.eqb p p'
  | EOther x, EOther y => str_eqb x y
  | _, _ => false
  end.
(* Data compared as maps; a nil map is not an empty map *)
Definition resp_eqb (a b : resp) : bool :=
  opt_eqb obj_eqb (r_data a) (r_data b) && Bool.eqb (r_complete a) (r_complete b).
Definition outcome_eqb (a b : outcome) : bool :=
  match a, b with
  | OPanic, OPanic => true
  | ORet r e, ORet r' e' => opt_eqb resp_eqb r r' && err_eqb e e'
  | _, _ => false
  end.
Definition event_eqb (a b : event) : bool :=
  match a, b with
  | EvReq l p, EvReq l' p' => level_eqb l l' && Nat.eqb p p'
  | EvResp l p, EvResp l' p' => level_eqb l l' && Nat.eqb p p'
  | EvBackend, EvBackend => true
  | _, _ => false
  end.
Definition log_eqb (a b : list event) : bool := list_eqb event_eqb a b.
Definition comp_eqb (a b : comp) : bool := log_eqb (fst a) (fst b) && outcome_eqb (snd a) (snd b).

Fixpoint prefix_b (p l : list event) : bool :=
  match p, l with
  | [], _ => true
  | x :: p', y :: l' => event_eqb x y && prefix_b p' l'
  | _ :: _, [] => false
  end.

(* ---------- static data: when a strategy holds ---------- *)

(* "complete response": a response is there and it is flagged complete *)
Definition complete_resp (r : option resp) : Prop := exists x, r = Some x /\ r_complete x = true.

(* always / success: no error / errored: an error / complete: complete response without
   error / incomplete: missing or incomplete response.  Names other than the five
   constrain nothing (they behave as "always", as the code's default). *)
Definition holds (name : string) (r : option resp) (e : err) : Prop :=
  (name = "success" -> e = ENone) /\
  (name = "errored" -> e <> ENone) /\
  (name = "complete" -> e = ENone /\ complete_resp r) /\
  (name = "incomplete" -> ~ complete_resp r).

Definition holds_b (name : string) (r : option resp) (e : err) : bool :=
  (negb (str_eqb name "success") || negb (is_err e)) &&
  (negb (str_eqb name "errored") || is_err e) &&
  (negb (str_eqb name "complete") || (negb (is_err e) && complete_of r)) &&
  (negb (str_eqb name "incomplete") || negb (complete_of r)).

(* the field k of the result that the property prescribes: the static value when the static
   data has the name, the inner outcome's field otherwise *)
Definition expected_field (d : obj) (r : option resp) (k : string) : option json :=
  match lookup k d with Some v => Some v | None => lookup k (data_of r) end.

(* the property on an observed outcome `out` of the static middleware configured with data
   d and strategy `name` around an inner outcome (r, e); observed documents are compared
   with json_eqb (objects as maps) *)
Definition static_spec_obs (d : obj) (name : string) (r : option resp) (e : err) (out : outcome) : Prop :=
  (holds name r e ->
     exists x m, out = ORet (Some x) e /\ r_data x = Some m /\ r_complete x = complete_of r /\
                 forall k, opt_eqb json_eqb (expected_field d r k) (lookup k m) = true) /\
  (~ holds name r e -> outcome_eqb (ORet r e) out = true).

Definition has_b (m : obj) (kv : string * json) : bool :=
  match lookup (fst kv) m with Some v => json_eqb (snd kv) v | None => false end.

Definition static_spec_b (d : obj) (name : string) (r : option resp) (e : err) (out : outcome) : bool :=
  if holds_b name r e then
    match out with
    | ORet (Some x) e' =>
        err_eqb e e' && Bool.eqb (r_complete x) (complete_of r) &&
        match r_data x with
        | Some m =>
            forallb (has_b m) d &&                                                    (* static data present, overriding *)
            forallb (fun kv => mem (fst kv) d || has_b m kv) (data_of r) &&           (* other fields kept *)
            forallb (fun kv => mem (fst kv) d || mem (fst kv) (data_of r)) m          (* nothing else *)
        | None => false
        end
    | _ => false
    end
  else outcome_eqb (ORet r e) out.

(* no (valid) static configuration: nothing is added *)
Definition static_case_spec_b (cfg : option (obj * string)) (r : option resp) (e : err) (out : outcome) : bool :=
  match cfg with
  | None => outcome_eqb (ORet r e) out
  | Some (d, name) => static_spec_b d name r e out
  end.

(* ---------- modifiers ---------- *)

(* which configured entries are request / response modifiers, declaratively: the entries,
   numbered by their position, whose name is registered for that direction (a name
   registered for both directions counts as a request modifier only) and whose factory
   yields a modifier *)
Definition as_request (g : reg) : bool := match g with RReq | RBoth => true | RResp => false end.
Definition as_response (g : reg) : bool := match g with RResp => true | _ => false end.
Definition is_nil_factory (b : beh) : bool := match b with BNilFactory => true | _ => false end.

Definition selected (want : reg -> bool) (R : registry) (x : nat * (centry * beh)) : bool :=
  match fst (snd x) with
  | CStr n => match lookup n R with Some g => want g && negb (is_nil_factory (snd (snd x))) | None => false end
  | CNotString => false
  end.

Definition numbered {A} (start : nat) (l : list A) : list (nat * A) := combine (seq start (List.length l)) l.

Definition configured (want : reg -> bool) (R : registry) (l : list (centry * beh)) : mods :=
  map (fun x => (fst x, snd (snd x))) (filter (selected want R) (numbered 0 l)).
Definition configured_req := configured as_request.
Definition configured_resp := configured as_response.

(* running a list of modifiers in order: `runs l called failed` - the modifiers of l are
   invoked one after the other; the first failing one is the last one invoked *)
Inductive runs : mods -> list nat -> option nat -> Prop :=
| runs_nil : runs [] [] None
| runs_fail p rest : runs ((p, BFail) :: rest) [p] (Some p)
| runs_next p b rest c f : b <> BFail -> runs rest c f -> runs ((p, b) :: rest) (p :: c) f.

Fixpoint called (l : mods) : list nat :=
  match l with [] => [] | (p, b) :: r => if is_fail b then [p] else p :: called r end.
Fixpoint failed (l : mods) : option nat :=
  match l with [] => None | (p, b) :: r => if is_fail b then Some p else failed r end.

(* the property for one plugin middleware with request modifiers rq and response modifiers
   rs around `inner`; eqo: how outcomes are compared (eq for the model, outcome_eqb for
   observations).  "Afterwards" is read as: after an inner call that returned a response
   and no error - an inner error is handed up as it is, and so is an inner call that
   returned neither response nor error (nothing to modify: no response modifier runs).
   The relation is total over all inner outcomes. *)
Inductive plugin_spec (eqo : outcome -> outcome -> Prop) (lv : level) (rq rs : mods) (inner : comp) : comp -> Prop :=
| ps_req_abort c p o :
    runs rq c (Some p) -> eqo (ORet None (EMod lv p)) o ->
    plugin_spec eqo lv rq rs inner (map (EvReq lv) c, o)
| ps_inner_panic c o :
    runs rq c None -> snd inner = OPanic -> eqo OPanic o ->
    plugin_spec eqo lv rq rs inner ((map (EvReq lv) c ++ fst inner)%list, o)
| ps_inner_error c r e o :
    runs rq c None -> snd inner = ORet r e -> e <> ENone -> eqo (ORet r e) o ->
    plugin_spec eqo lv rq rs inner ((map (EvReq lv) c ++ fst inner)%list, o)
| ps_no_resp_mods c r o :
    runs rq c None -> snd inner = ORet r ENone -> rs = [] -> eqo (ORet r ENone) o ->
    plugin_spec eqo lv rq rs inner ((map (EvReq lv) c ++ fst inner)%list, o)
| ps_resp_abort c x c2 p o :
    runs rq c None -> snd inner = ORet (Some x) ENone -> runs rs c2 (Some p) ->
    eqo (ORet None (EMod lv p)) o ->
    plugin_spec eqo lv rq rs inner ((map (EvReq lv) c ++ fst inner ++ map (EvResp lv) c2)%list, o)
| ps_done c x c2 o :
    runs rq c None -> snd inner = ORet (Some x) ENone -> runs rs c2 None ->
    eqo (ORet (Some x) ENone) o ->
    plugin_spec eqo lv rq rs inner ((map (EvReq lv) c ++ fst inner ++ map (EvResp lv) c2)%list, o)
| ps_no_response c o :
    runs rq c None -> snd inner = ORet None ENone -> eqo (ORet None ENone) o ->
    plugin_spec eqo lv rq rs inner ((map (EvReq lv) c ++ fst inner)%list, o).

Definition obs_eq (a b : outcome) : Prop := outcome_eqb a b = true.

Definition plugin_spec_b (lv : level) (rq rs : mods) (inner obs : comp) : bool :=
  let '(li, oi) := inner in
  let '(lo, oo) := obs in
  match failed rq with
  | Some p => log_eqb (map (EvReq lv) (called rq)) lo && outcome_eqb (ORet None (EMod lv p)) oo
  | None =>
      let pre := (map (EvReq lv) (called rq) ++ li)%list in
      match oi with
      | OPanic => log_eqb pre lo && outcome_eqb OPanic oo
      | ORet r e =>
          if is_err e then log_eqb pre lo && outcome_eqb (ORet r e) oo
          else match rs, r with
               | [], _ => log_eqb pre lo && outcome_eqb (ORet r ENone) oo
               | _ :: _, None => log_eqb pre lo && outcome_eqb (ORet None ENone) oo
               | _ :: _, Some x =>
                   log_eqb (pre ++ map (EvResp lv) (called rs))%list lo &&
                   outcome_eqb (match failed rs with
                                | Some p => ORet None (EMod lv p)
                                | None => ORet (Some x) ENone end) oo
               end
      end
  end.

(* a middleware given by the shape of its configuration *)
Definition shape_names (s : pshape) : list (centry * beh) :=
  match s with PNames l => l | _ => [] end.

Definition plugin_case_spec_b (lv : level) (R : registry) (s : pshape) (inner obs : comp) : bool :=
  plugin_spec_b lv (configured_req R (shape_names s)) (configured_resp R (shape_names s)) inner obs.

(* ---------- position in the endpoint stack ---------- *)

(* static around (endpoint modifiers around (backend modifiers around the backend)) *)
Definition static_layer_spec (cfg : option (obj * string)) (ce obs : comp) : Prop :=
  log_eqb (fst ce) (fst obs) = true /\
  match snd ce with
  | OPanic => snd obs = OPanic
  | ORet r e =>
      match cfg with
      | None => outcome_eqb (ORet r e) (snd obs) = true
      | Some (d, name) => static_spec_obs d name r e (snd obs)
      end
  end.

Definition layer_spec (lv : level) (R : registry) (s : pshape) (inner out : comp) : Prop :=
  plugin_spec eq lv (configured_req R (shape_names s)) (configured_resp R (shape_names s)) inner out.

Definition stack_spec (ss : sshape) (R : registry) (pe pb : pshape) (r : option resp) (e : err) (obs : comp) : Prop :=
  exists cb ce, layer_spec LBackend R pb (backend_call r e) cb /\
                layer_spec LEndpoint R pe cb ce /\
                static_layer_spec (static_cfg ss) ce obs.

Definition stack_spec_b (ss : sshape) (R : registry) (pe pb : pshape) (r : option resp) (e : err) (obs : comp) : bool :=
  let rqb := configured_req R (shape_names pb) in
  let rsb := configured_resp R (shape_names pb) in
  let rqe := configured_req R (shape_names pe) in
  let rse := configured_resp R (shape_names pe) in
  let cb := plugin_run LBackend rqb rsb (backend_call r e) in
  let ce := plugin_run LEndpoint rqe rse cb in
  log_eqb (fst ce) (fst obs) &&
  match snd ce with
  | OPanic => outcome_eqb OPanic (snd obs)
  | ORet r' e' => static_case_spec_b (static_cfg ss) r' e' (snd obs)
  end.

(* ---------- values: each modifier sees the previous one's output ---------- *)
Definition tag_eqb (a b : tag) : bool := level_eqb (fst a) (fst b) && Nat.eqb (snd a) (snd b).
Definition trace_eqb (a b : trace) : bool := list_eqb tag_eqb a b.
Definition vevent_eqb (a b : vevent) : bool :=
  match a, b with
  | VReq l p s, VReq l' p' s' => level_eqb l l' && Nat.eqb p p' && trace_eqb s s'
  | VResp l p s, VResp l' p' s' => level_eqb l l' && Nat.eqb p p' && trace_eqb s s'
  | VBackend s, VBackend s' => trace_eqb s s'
  | _, _ => false
  end.
Definition vresult_eqb (a b : vresult) : bool :=
  match a, b with VNone, VNone => true | VRet t, VRet t' => trace_eqb t t' | _, _ => false end.
Definition vcomp_eqb (a b : list vevent * vresult) : bool :=
  list_eqb vevent_eqb (fst a) (fst b) && vresult_eqb (snd a) (snd b).

Definition modifies (b : beh) : bool := match b with BModify => true | _ => false end.

(* the tags added by the modifiers of l, in order *)
Definition tags (lv : level) (l : mods) : trace :=
  map (fun m => (lv, fst m)) (filter (fun m => modifies (snd m)) l).

Definition strips (b : beh) : bool := match b with BStrip => true | _ => false end.

(* what one modifier does to the value it is given (when it does not fail) *)
Definition apply_beh (lv : level) (m : nat * beh) (v : trace) : trace :=
  match snd m with
  | BModify => (v ++ [(lv, fst m)])%list
  | BStrip => []
  | _ => v
  end.
(* the value after the modifiers of l, one after the other *)
Definition steps (lv : level) (l : mods) (v : trace) : trace :=
  fold_left (fun acc m => apply_beh lv m acc) l v.

(* declaratively: the i-th invoked modifier sees the initial value as changed by the
   modifiers before it; nothing else is invoked after the first failure *)
Definition seen_decl (lv : level) (l : mods) (v : trace) : list (nat * trace) :=
  map (fun i => match nth_error l i with
                | Some (p, _) => (p, steps lv (firstn i l) v)
                | None => (0, [])
                end) (seq 0 (List.length (called l))).
Definition out_decl (lv : level) (l : mods) (v : trace) : option trace :=
  match failed l with Some _ => None | None => Some (steps lv l v) end.

Definition vlayer_decl (lv : level) (rq rs : mods) (inner : vproxy) : vproxy := fun v =>
  match out_decl lv rq v with
  | None => (vreq lv (seen_decl lv rq v), VNone)
  | Some v' =>
      let '(li, ri) := inner v' in
      match ri with
      | VNone => ((vreq lv (seen_decl lv rq v) ++ li)%list, VNone)
      | VRet t =>
          ((vreq lv (seen_decl lv rq v) ++ li ++ vresp lv (seen_decl lv rs t))%list,
           match out_decl lv rs t with Some t' => VRet t' | None => VNone end)
      end
  end.

Definition vstack_decl (R : registry) (pe pb : pshape) (t0 : option trace) : vproxy :=
  vlayer_decl LEndpoint (configured_req R (shape_names pe)) (configured_resp R (shape_names pe))
    (vlayer_decl LBackend (configured_req R (shape_names pb)) (configured_resp R (shape_names pb))
       (vbackend t0)).

Definition thread_spec_b (R : registry) (pe pb : pshape) (v0 : trace) (t0 : option trace)
           (obs : list vevent * vresult) : bool :=
  vcomp_eqb (vstack_decl R pe pb t0 v0) obs.

(* forgetting the values gives the call log of the order model *)
Definition erase (e : vevent) : event :=
  match e with VReq l p _ => EvReq l p | VBackend _ => EvBackend | VResp l p _ => EvResp l p end.
