(* C03 - the property: Prop definitions and the boolean oracle over what the implementation
   was observed to do. *)
Require Import Verif.Common.Base Verif.Common.Heap Verif.Model.C03.

(* equality of Go maps given as association lists (first binding of a key counts) *)
Definition vals_eqb (a b : list string) : bool := list_eqb str_eqb a b.
Definition mmap_eqb (a b : mmap) : bool :=
  forallb (fun kv => opt_eqb vals_eqb (lookup (fst kv) a) (lookup (fst kv) b)) (a ++ b).
Definition mmap_equiv (a b : mmap) : Prop := forall k, lookup k a = lookup k b.

Definition sent_eqb (a b : sent) : bool :=
  str_eqb (s_method a) (s_method b) && str_eqb (s_url a) (s_url b) &&
  mmap_eqb (s_query a) (s_query b) && mmap_eqb (s_hdr a) (s_hdr b) && str_eqb (s_body a) (s_body b).
(* method, URL, query string, headers and body are the same *)
Definition sent_equiv (a b : sent) : Prop :=
  s_method a = s_method b /\ s_url a = s_url b /\ mmap_equiv (s_query a) (s_query b) /\
  mmap_equiv (s_hdr a) (s_hdr b) /\ s_body a = s_body b.

(* observation of one backend: the requests its executor received in the fan-out (one per
   concurrent call, any order) and the ones it received as the endpoint's only backend *)
Definition bobs := (list sent * list sent)%type.

Definition isolated_b (o : bobs) : bool :=
  Nat.eqb (List.length (fst o)) (List.length (snd o)) &&
  forallb (fun s => forallb (sent_eqb s) (snd o)) (fst o).
Definition Isolated (o : bobs) : Prop :=
  List.length (fst o) = List.length (snd o) /\
  forall s s', In s (fst o) -> In s' (snd o) -> sent_equiv s s'.

(* the property over one processed request: every backend was sent exactly what it is sent
   alone, and the race detector saw no unsynchronised conflicting access in lura code *)
Definition spec_b (obs : list bobs) (race : bool) : bool := negb race && forallb isolated_b obs.
Definition Spec (obs : list bobs) (race : bool) : Prop := race = false /\ forall o, In o obs -> Isolated o.

(* the model-level counterpart: in the schedule-free semantics every attempt of every
   backend is sent what the backend is sent alone *)
Definition opt_sent_eqb (a b : option sent) : bool := opt_eqb sent_eqb a b.
Definition model_isolated_b (cfg : config) (q : request) : bool :=
  forallb (fun k =>
     let alone := sent_seq (solo cfg k) q 0 in
     forallb (fun s => forallb (opt_sent_eqb s) alone) (sent_seq cfg q k))
  (seq 0 (List.length cfg)).

(* Which inputs the statement covers.  Bodies are replicated only when some backend uses a
   method other than GET/HEAD; otherwise the pipelines hold the SAME body reader.  That is
   harmless as long as at most one pipeline touches it: a backend touches the body it is handed
   unless it is a GraphQL QUERY backend without concurrent calls (the query stage replaces the
   Body field of its own struct and never reads or closes the old reader). *)
Definition touches_body (b : backend) : bool :=
  (2 <=? b_cc b)%nat ||
  match b_gql b with
  | Some g => match g_kind g with GMutation => true | GQuery => false end
  | None => true
  end.
Fixpoint at_most_one_toucher (bs : list backend) : bool :=
  match bs with
  | [] => true
  | b :: r => if touches_body b then negb (existsb touches_body r) else at_most_one_toucher r
  end.
(* no sharing at all: single backend, no body, or replicated bodies *)
Definition in_scope_basic (cfg : config) (q : request) : bool :=
  match cfg with
  | [_] => true
  | _ => match q_body q with None => true | Some _ => has_unsafe cfg end
  end.
(* excluded: a body shared by shallow clones that two or more pipelines consume *)
Definition in_scope (cfg : config) (q : request) : bool :=
  match cfg with
  | [_] => true
  | _ => match q_body q with None => true | Some _ => has_unsafe cfg || at_most_one_toucher cfg end
  end.

(* what the model itself "observes": per backend the requests handed to the http proxy in the
   fan-out and alone, in the schedule-free semantics *)
Definition present {A} (l : list (option A)) : list A :=
  flat_map (fun o => match o with Some x => [x] | None => [] end) l.
Definition model_obs (cfg : config) (q : request) : list bobs :=
  map (fun k => (present (sent_seq cfg q k), present (sent_seq (solo cfg k) q 0))) (seq 0 (List.length cfg)).

(* soundness of an object-level access summary w.r.t. a line-level model: every event on a
   memory location is covered by a summary access to the object the location belongs to, a
   write by a write *)
Definition cov (coarse : list acc) (e : fev) : Prop :=
  exists a, In a coarse /\ Heap.aobj a = obj_of (floc e) /\ (is_fw e = true -> Heap.is_wr a = true).
Definition covers (fine : list fev) (coarse : list acc) : Prop := Forall (cov coarse) fine.
