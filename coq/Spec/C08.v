(* C08 - the property, as Prop and as a boolean oracle over what the backend's
   HTTPRequestExecutor was handed (header map and parsed URL query). *)
Require Import Verif.Common.Base Verif.Model.C08.

Definition is_nil {A} (l : list A) : bool := match l with [] => true | _ => false end.
Definition sl_eqb (a b : list string) : bool := list_eqb str_eqb a b.

Section Spec.
  Variable c : config.
  Variable r : request.
  Variable o : obs.

  (* the lists as the running gateway holds them (after config Init; the endpoint's header
     list defaults to server.HeadersToSend when none is declared) *)
  Definition ep_hl : list string := eff_headers (init_headers (c_ep_headers c)).
  Definition be_hl : list string := init_headers (c_be_headers c).

  (* headers *)
  Definition allowed_ep_h (h : string) : Prop := In star ep_hl \/ In h ep_hl.
  (* a backend without a list of its own imposes nothing; '*' in a backend list is a name *)
  Definition allowed_be_h (h : string) : Prop := be_hl = [] \/ In h be_hl.
  (* the values the client sent under the name h (any case, repeated lines), in order *)
  Definition client_h (h : string) : list string :=
    map snd (filter (fun p => str_eqb (canon (fst p)) (canon h)) (r_lines r)).
  (* the gateway always writes these three itself *)
  Definition overwritten (h : string) : Prop := h = XFF \/ h = XFH \/ h = XFV.
  (* ... and User-Agent when the client's is not forwarded: the gateway's own four *)
  Definition own (h : string) : Prop := overwritten h \/ h = UA.
  Definition sent_h (h : string) : list string := getl h (o_headers o).
  (* the value the gateway itself gives each of its four headers: the client's address as the
     router determines it, the Host the client addressed, the gateway's User-Agent (twice) *)
  Definition own_value (h : string) : option (list string) :=
    if str_eqb h XFF then Some [r_ip r]
    else if str_eqb h XFH then Some [r_host r]
    else if str_eqb h UA then Some [r_ua r]
    else if str_eqb h XFV then Some [r_ua r]
    else None.
  (* h is one of the gateway's own four AND carries the gateway's value *)
  Definition own_ok (h : string) (vs : list string) : Prop := own_value h = Some vs.
  Definition own_ok_b (h : string) (vs : list string) : bool :=
    match own_value h with Some v => sl_eqb v vs | None => false end.

  (* "A backend receives a client header only if it is listed in the endpoint's input_headers
     (or '*' is listed) and, when the backend declares its own lists, in those too ... Apart
     from these, the backend sees only the gateway's own X-Forwarded-For, X-Forwarded-Host,
     User-Agent and X-Forwarded-Via": every header the backend sees is one of the four with the
     value the gateway gives it, or an allowed name carrying exactly what the client sent under it
     (so a client's X-Forwarded-Host / User-Agent value reaches a backend only through the lists) *)
  Definition headers_sound : Prop :=
    forall h, sent_h h <> [] ->
      own_ok h (sent_h h) \/ (allowed_ep_h h /\ allowed_be_h h /\ sent_h h = client_h h).

  (* "every parameter that is allowed and present is forwarded with its values unchanged"
     (under the canonical spelling of the name; the three names the gateway overwrites by
     design are its own, not the client's) *)
  Definition headers_complete : Prop :=
    forall h, allowed_ep_h h -> allowed_be_h h -> ~ overwritten (canon h) ->
      client_h h <> [] -> sent_h (canon h) = client_h h.

  (* query string *)
  Definition allowed_ep_q (k : string) : Prop := In star (c_ep_query c) \/ In k (c_ep_query c).
  Definition allowed_be_q (k : string) : Prop := c_be_query c = [] \/ In k (c_be_query c).
  Definition client_q (k : string) : list string := vals_of k (r_query r).
  Definition static_q (k : string) : list string := vals_of k (c_static c).
  Definition sent_q (k : string) : list string := getl k (o_query o).

  (* under every key the backend sees the values written in url_pattern followed by either
     nothing or - only for an allowed key - exactly the client's values *)
  Definition query_sound : Prop :=
    forall k, exists fwd, sent_q k = (static_q k ++ fwd)%list /\
      (fwd = [] \/ (allowed_ep_q k /\ allowed_be_q k /\ fwd = client_q k)).
  Definition query_complete : Prop :=
    forall k, allowed_ep_q k -> allowed_be_q k -> sent_q k = (static_q k ++ client_q k)%list.

  Definition C08_spec : Prop :=
    headers_sound /\ headers_complete /\ query_sound /\ query_complete.

  (* ---- boolean forms ---- *)
  Definition allowed_ep_hb (h : string) : bool := str_mem star ep_hl || str_mem h ep_hl.
  Definition allowed_be_hb (h : string) : bool := is_nil be_hl || str_mem h be_hl.
  Definition overwritten_b (h : string) : bool := str_eqb h XFF || str_eqb h XFH || str_eqb h XFV.
  Definition own_b (h : string) : bool := overwritten_b h || str_eqb h UA.
  Definition allowed_ep_qb (k : string) : bool := str_mem star (c_ep_query c) || str_mem k (c_ep_query c).
  Definition allowed_be_qb (k : string) : bool := is_nil (c_be_query c) || str_mem k (c_be_query c).

  Definition headers_sound_b : bool :=
    forallb (fun kv => let h := fst kv in
               is_nil (sent_h h) || own_ok_b h (sent_h h) ||
               (allowed_ep_hb h && allowed_be_hb h && sl_eqb (sent_h h) (client_h h)))
            (o_headers o).
  Definition headers_complete_b : bool :=
    forallb (fun p => let h := canon (fst p) in
               overwritten_b h || negb (allowed_ep_hb h && allowed_be_hb h) ||
               sl_eqb (sent_h h) (client_h h))
            (r_lines r).
  (* the forwarded part under key k *)
  Definition fwd_q (k : string) : list string :=
    if allowed_ep_qb k && allowed_be_qb k then client_q k else [].
  Definition query_exact : Prop := forall k, sent_q k = (static_q k ++ fwd_q k)%list.
  Definition query_b : bool :=
    forallb (fun k => sl_eqb (sent_q k) (static_q k ++ fwd_q k))
            (keys (o_query o) ++ map fst (c_static c) ++ map fst (r_query r)).

  Definition spec_b : bool := headers_sound_b && headers_complete_b && query_b.
End Spec.

(* GraphQL backends: the stage's own two headers and (GET transport) three parameters join the
   gateway-owned names; everything else is as for a plain backend *)
Section SpecGql.
  Variable g : gql.
  Variable c : config.
  Variable r : request.
  Variable o : obs.

  Definition gql_own_hb (h : string) : bool :=
    match g with GNone => false | _ => str_eqb h CT || str_eqb h CL end.
  Definition gql_own_qb (k : string) : bool :=
    match g with GGet _ => str_mem k gql_keys | _ => false end.
  Definition gql_opq : hmap := match g with GGet q => q | _ => [] end.

  Definition gql_headers_sound : Prop :=
    forall h, sent_h o h <> [] ->
      own_ok r h (sent_h o h) \/ gql_own_hb h = true \/ (allowed_ep_h c h /\ allowed_be_h c h /\ sent_h o h = client_h r h).
  Definition gql_headers_complete : Prop :=
    forall h, allowed_ep_h c h -> allowed_be_h c h -> ~ overwritten (canon h) -> gql_own_hb (canon h) = false ->
      client_h r h <> [] -> sent_h o (canon h) = client_h r h.
  (* the stage's own headers carry the stage's values, whatever the client sent and the lists say *)
  Definition gql_own_headers : Prop :=
    match g with
    | GNone => True
    | GPost n => sent_h o CT = [json_ct] /\ sent_h o CL = [n]
    | GGet _ => sent_h o CT = [json_ct] /\ sent_h o CL = ["0"]
    end.
  Definition gql_query_exact : Prop :=
    forall k, sent_q o k =
      (static_q c k ++ (if gql_own_qb k then getl k gql_opq else fwd_q c r k))%list.

  Definition spec_gql_b : bool :=
    forallb (fun kv => let h := fst kv in
               is_nil (sent_h o h) || own_ok_b r h (sent_h o h) || gql_own_hb h ||
               (allowed_ep_hb c h && allowed_be_hb c h && sl_eqb (sent_h o h) (client_h r h)))
            (o_headers o) &&
    forallb (fun p => let h := canon (fst p) in
               overwritten_b h || gql_own_hb h || negb (allowed_ep_hb c h && allowed_be_hb c h) ||
               sl_eqb (sent_h o h) (client_h r h))
            (r_lines r) &&
    match g with
    | GNone => true
    | GPost n => sl_eqb (sent_h o CT) [json_ct] && sl_eqb (sent_h o CL) [n]
    | GGet _ => sl_eqb (sent_h o CT) [json_ct] && sl_eqb (sent_h o CL) ["0"]
    end &&
    forallb (fun k => sl_eqb (sent_q o k)
                        (static_q c k ++ (if gql_own_qb k then getl k gql_opq else fwd_q c r k)))
            (keys (o_query o) ++ map fst (c_static c) ++ map fst (r_query r) ++ gql_keys).
End SpecGql.
