(* C10 - the property as Prop and as boolean oracles over what the implementation was
   observed to do. *)
Require Import Verif.Common.Base Verif.Model.C10.

Local Open Scope N_scope.

(* ---- "the forwarded client parameters with their exact values" ----
   enc is the piece of the query string that carries them: decoding it (ParseQuery) succeeds
   and gives, for every key, exactly the list of values of the forwarded map.  The order of
   the keys and the spelling of the escapes are left open. *)
(* "exactly": the piece carries nothing else - no empty pair (a stray '&') *)
Definition no_empty_piece (enc : string) : bool :=
  str_eqb enc "" || forallb (fun p => negb (str_eqb p "")) (split_on c_amp enc).

Definition fwd_ok (q : values) (enc : string) : Prop :=
  no_empty_piece enc = true /\
  exists pairs, parse_query enc = (pairs, true) /\ forall k, pvals k pairs = vals k q.

Definition fwd_ok_b (q : values) (enc : string) : bool :=
  no_empty_piece enc &&
  let '(pairs, ok) := parse_query enc in
  ok && forallb (fun k => list_eqb str_eqb (pvals k pairs) (vals k q))
                (map fst q ++ map fst pairs)%list.

(* ---- "its query string consists of exactly the query written in url_pattern plus the
   forwarded client parameters" ---- *)
Definition query_ok (static : string) (q : values) (rawquery : string) : Prop :=
  exists enc, fwd_ok q enc /\
    ((static = "" /\ rawquery = enc) \/
     (static <> "" /\ enc = "" /\ rawquery = static) \/
     (static <> "" /\ rawquery = (static ++ String (chr c_amp) enc)%string)).

Definition query_ok_b (static : string) (q : values) (rawquery : string) : bool :=
  if str_eqb static "" then fwd_ok_b q rawquery
  else is_prefix static rawquery &&
       match drop (String.length static) rawquery with
       | EmptyString => fwd_ok_b q ""
       | String c r => (code c =? c_amp) && fwd_ok_b q r
       end.

(* ---- the URL a backend is called with ----
   path: the generated path handed to the load balancer (url_pattern after substitution);
   its part before the first '?' is the path proper, the rest the query written in
   url_pattern.  o_path is what a backend obtains by decoding the request path once. *)
(* the request target handed to the executor (URL.RequestURI: escaped path, then '?' and the raw
   query).  "host followed by the generated path" is about the path AS GENERATED: where the
   generated path part pp is a valid escaped path (net/url validEncoded: letters, digits,
   - _ . ~ , the sub-delimiters and : @ [ ] / , and percent escapes) the path of the target
   is pp byte for byte.  Otherwise pp contains a byte that cannot stand raw in a request target
   (space, double quote, less-than, greater-than, backslash, caret, backquote, braces, bar, or
   a byte >= 0x80) and Go itself re-escapes the decoded path (EscapedPath falls back to the
   default escaping of Path); there the comparison is on the once-decoded paths. *)
Definition wire_ok (pp wire rawquery : string) : Prop :=
  let '(wp, wq, _) := cut c_qm wire in
  wq = rawquery /\
  (if valid_encoded MPath pp then wp = pp
   else exists d, path_unescape wp = Some d /\ path_unescape pp = Some d).

Definition wire_ok_b (pp wire rawquery : string) : bool :=
  let '(wp, wq, _) := cut c_qm wire in
  str_eqb wq rawquery &&
  (if valid_encoded MPath pp then str_eqb wp pp
   else match path_unescape wp, path_unescape pp with
        | Some a, Some b => str_eqb a b
        | _, _ => false
        end).

Definition url_ok (hosts : list string) (path : string) (q : values) (o : called) : Prop :=
  let '(pp, static, _) := cut c_qm path in
  In (o_host o) hosts /\
  path_unescape pp = Some (o_path o) /\
  o_frag o = "" /\
  query_ok static q (o_rawquery o) /\
  wire_ok pp (o_wire o) (o_rawquery o).

Definition url_ok_b (hosts : list string) (path : string) (q : values) (o : called) : bool :=
  let '(pp, static, _) := cut c_qm path in
  str_mem (o_host o) hosts &&
  opt_str_eqb (path_unescape pp) (o_path o) &&
  str_eqb (o_frag o) "" &&
  query_ok_b static q (o_rawquery o) &&
  wire_ok_b pp (o_wire o) (o_rawquery o).

(* load balancer + http proxy driven directly: a url_pattern with a '#' is outside the
   statement ("with or without a static query"); nothing is said when no backend is called *)
Definition asm_spec_b (hosts : list string) (path : string) (q : values) (o : option called) : bool :=
  if has_byte c_hash path then true
  else match o with None => true | Some c => url_ok_b hosts path q c end.

(* ---- the gin engine ---- *)
Definition tainted (v : string) : bool :=
  has_byte c_pct v || has_byte c_qm v || has_byte c_hash v.

(* what was seen of one request served by the engine *)
Record gin_obs := {
  g_status : Z;
  g_outer : option (list (string * string) * values);  (* proxy reached: Params, Query *)
  g_inner : option (string * values);                  (* backend stage reached: Path, Query *)
  g_call : option called                               (* executor invoked *)
}.

Definition is_none {A} (o : option A) : bool := match o with None => true | Some _ => false end.

(* the three bytes a parameter must not be able to add *)
Definition same_counts (pattern path : string) : bool :=
  Nat.eqb (count_byte c_pct path) (count_byte c_pct pattern) &&
  Nat.eqb (count_byte c_qm path) (count_byte c_qm pattern) &&
  Nat.eqb (count_byte c_hash path) (count_byte c_hash pattern).

(* positional form: the first-'?' split of the generated path exists exactly when url_pattern
   has one, and neither the path part nor the query part received a '%', '?' or '#': a
   parameter written in the path part stayed there, one written in the static query too *)
Definition same_counts_pos (pattern path : string) : bool :=
  let '(pp, sq, f) := cut c_qm pattern in
  let '(gp, gs, gf) := cut c_qm path in
  Bool.eqb f gf && same_counts pp gp && same_counts sq gs.

(* extracted: the parameters the router extracts from the request line (None: no route /
   request line refused) *)
Definition gin_spec_b (extracted : option (list (string * string))) (pattern : string)
           (hosts : list string) (o : gin_obs) : bool :=
  match extracted with
  | Some ps =>
      if existsb (fun kv => tainted (snd kv)) ps then
        (* answered 400 without contacting any backend *)
        (g_status o =? 400)%Z && is_none (g_outer o) && is_none (g_inner o) && is_none (g_call o)
      else
        match g_call o with
        | None => true
        | Some c =>
            match g_inner o with
            | None => false
            | Some (path, q) =>
                (* nothing injected: no new '%', '?', '#'; and the URL is host + path + query *)
                same_counts_pos pattern path && url_ok_b hosts path q c
            end
        end
  | None => is_none (g_call o)
  end.

Definition extracted_of (route : list seg) (target : string) : option (list (string * string)) :=
  match wire_parse target with
  | None => None
  | Some (dp, _) => route_match route dp
  end.
