(* C20 - the property: Prop definitions and the boolean oracles over what was observed. *)
Require Import Verif.Common.Base Verif.Common.LockEv Verif.Model.C20.

(* ------------------------------------------------------------------------------------ *)
(* back-off delays (durations in ns, as returned by the real functions)                    *)
Open Scope Z_scope.

Definition in_domain (i : Z) : bool := (0 <=? i) && (i <=? 30).

Fixpoint sorted_z (l : list Z) : bool :=
  match l with
  | a :: r => match r with b :: _ => (a <=? b) && sorted_z r | [] => true end
  | [] => true
  end.

(* obs = delays observed for the attempts from, from+1, ...: on the attempts 0..30 they are
   never negative and never shrink as the attempt number grows *)
Definition in_dom_obs (from : Z) (obs : list Z) : list Z :=
  map snd (filter (fun p => in_domain (fst p)) (combine (zseq from (List.length obs)) obs)).
Definition back_spec_b (from : Z) (obs : list Z) : bool :=
  let l := in_dom_obs from obs in forallb (fun d => 0 <=? d) l && sorted_z l.

(* a jittered delay d for attempt i: positive and within one third (plus 1ms) of the nominal delay *)
Definition JitSpec (nom d : Z) : Prop := 0 < d /\ Z.abs (d - nom) <= nom / 3 + millisecond.
Definition jit_spec_b (nom d : Z) : bool := (0 <? d) && (Z.abs (d - nom) <=? nom / 3 + millisecond).

Close Scope Z_scope.

(* ------------------------------------------------------------------------------------ *)
(* recorded histories of one registry: operation, invocation ticket, return ticket
   (tickets come from one global counter, taken before the call and after it returned; they
   start at 1, the initial contents count as written at time 0) *)
Definition hev := (rop * Z * Z)%type.
Definition hwrite := (string * Z * Z * Z)%type.

Definition writes_of (evs : list hev) : list hwrite :=
  flat_map (fun e => match e with (RReg k v, i, r) => [(k, v, i, r)] | _ => [] end) evs.

(* the registrations of k: (value, invocation, return) *)
Definition on_key (k : string) (ws : list hwrite) : list (Z * Z * Z) :=
  flat_map (fun w => match w with (k', v, i, r) => if str_eqb k k' then [(v, i, r)] else [] end) ws.

(* some registration of the key began after time wret and had returned before time inv: whatever
   was written at wret is no longer the previous value for an operation invoked at inv *)
Definition superseded (wk : list (Z * Z * Z)) (wret inv : Z) : bool :=
  existsb (fun w => match w with (_, i', r') => (r' <? inv)%Z && (wret <? i')%Z end) wk.

(* a lookup of k invoked at inv and returned at ret yielded res: res is the value of a
   registration that began before ret and was not superseded before inv ("either the previous or
   the newly registered value"); the initial contents count as registered at time 0 *)
Definition valid_read (init : rmap) (ws : list hwrite) (k : string) (res : option Z) (inv ret : Z) : bool :=
  let wk := on_key k ws in
  match res with
  | None =>
      match lookup k init with
      | None => negb (existsb (fun w => match w with (_, _, r') => (r' <? inv)%Z end) wk)
      | Some _ => false
      end
  | Some v =>
      match lookup k init with
      | Some v0 => (v0 =? v)%Z && negb (superseded wk 0%Z inv)
      | None => false
      end ||
      existsb (fun w => match w with (v', i', r') =>
                 (v' =? v)%Z && (i' <? ret)%Z && negb (superseded wk r' inv) end) wk
  end.

Fixpoint dedup_str (l : list string) : list string :=
  match l with [] => [] | x :: r => if str_mem x r then dedup_str r else x :: dedup_str r end.

Definition valid_snapshot (init : rmap) (ws : list hwrite) (snap : rmap) (inv ret : Z) : bool :=
  forallb (fun k => valid_read init ws k (lookup k snap) inv ret)
          (dedup_str (keys init ++ map (fun w => match w with (k, _, _, _) => k end) ws ++ keys snap)).

Definition hist_ok (init : rmap) (evs : list hev) : bool :=
  let ws := writes_of evs in
  forallb (fun e => match e with
                    | (RReg _ _, _, _) => true
                    | (RGet k res, i, r) => valid_read init ws k res i r
                    | (RClone snap, i, r) => valid_snapshot init ws snap i r
                    end) evs.

(* the contents read after every operation has returned *)
Definition end_time (evs : list hev) : Z := (1 + fold_right (fun e m => Z.max (snd e) m) 0 evs)%Z.
Definition final_ok (init : rmap) (evs : list hev) (final : rmap) : bool :=
  valid_snapshot init (writes_of evs) final (end_time evs) (end_time evs).

(* one goroutine: the i-th operation occupies the tickets 2i+1, 2i+2 *)
Fixpoint seq_hist (n : Z) (ops : list rop) : list hev :=
  match ops with [] => [] | o :: r => (o, 2 * n + 1, 2 * n + 2)%Z :: seq_hist (n + 1)%Z r end.

(* equality of finite maps (order of the members is irrelevant) *)
Definition rmap_eqb (a b : rmap) : bool :=
  forallb (fun k => opt_eqb Z.eqb (lookup k a) (lookup k b)) (keys a ++ keys b).
Definition nsmap_eqb (a b : nsmap) : bool :=
  forallb (fun k => opt_eqb rmap_eqb (lookup k a) (lookup k b)) (keys a ++ keys b).
Definition rop_eqb (a b : rop) : bool :=
  match a, b with
  | RReg k v, RReg k' v' => str_eqb k k' && (v =? v')%Z
  | RGet k r, RGet k' r' => str_eqb k k' && opt_eqb Z.eqb r r'
  | RClone s, RClone s' => rmap_eqb s s'
  | _, _ => false
  end.

(* namespaced register: every registration (names pairwise distinct) is there at the end *)
Definition ns_all_present (regs : list (string * string * Z)) (final : nsmap) : bool :=
  forallb (fun x => match x with (ns, name, v) =>
             match lookup ns final with
             | Some inner => opt_eqb Z.eqb (lookup name inner) (Some v)
             | None => false end end) regs.

(* ------------------------------------------------------------------------------------ *)
(* the interleaving machine: what is claimed of every reachable state                      *)
Section MachineSpec.
  Context {D X : Type}.

  (* the discipline the source facts are checked against, plus: one lock guards the object *)
  Definition wf_op (m : string) (o : @op D X) : Prop :=
    disciplined (o_body o) = true /\ locks_named m (o_body o) = true.
  Definition wf_progs (m : string) (progs : list (list (@op D X))) : Prop :=
    Forall (Forall (wf_op m)) progs.

  (* no two threads stand before conflicting accesses (a write and any access to one object) *)
  Definition no_race (s : @state D X) : Prop :=
    forall t u tht thu a b, t <> u ->
      nth_error (s_threads s) t = Some tht -> nth_error (s_threads s) u = Some thu ->
      next_acc tht = Some a -> next_acc thu = Some b -> conflicts a b = false.

  (* no object was destroyed by a racy write *)
  Definition clean (s : @state D X) : Prop := forall o, s_data s o <> None.

  (* thread t has completed i operations and its next one is invoked and has not returned *)
  Definition in_flight (s : @state D X) (t i : nat) : Prop :=
    exists th, nth_error (s_threads s) t = Some th /\ List.length (t_log th) = i /\ t_cur th <> None.

  (* the i-th operation o of thread t returned r: at some point of the execution between its
     invocation and its return the object it reads had contents d with r = o_rd o d *)
  Definition lin_point (s0 : @state D X) (sched : list nat) (t i : nat) (o : @op D X) (r : @res X) : Prop :=
    exists s1 s2 smid ob d,
      sched = s1 ++ s2 /\ run s0 s1 = Some smid /\ in_flight smid t i /\
      In (LRead ob) (o_body o) /\ s_data smid ob = Some d /\ r = RVal (o_rd o d).
End MachineSpec.

(* ------------------------------------------------------------------------------------ *)
(* register.Namespaced in general (Model/C20.v, part d) *)

(* name is registered in namespace ns of the outer register obj *)
Definition ns_present (s : @state nsmap nres) (obj ns name : string) : Prop :=
  exists d inner v, s_data s obj = Some d /\ lookup ns d = Some inner /\ lookup name inner = Some v.

(* the operation stored its name: in the namespace it found, or in the new one it created.  (The
   other final results belong to paths the real code cannot take: the early-return path although
   the namespace was missing, or a path without any call.) *)
Definition ns_stored (r : @res nres) : Prop := r = RVal NFoundT \/ r = RVal NStored.

(* a program of the general theorem: every operation is one of the three methods, executing some
   path that passes the check-then-act shape on obj *)
Definition ns_prog_ok (obj : string) (progs : list (list (@op nsmap nres))) : Prop :=
  Forall (Forall (fun o => exists k body, o = ns_op k body /\ cta_ok obj body = true)) progs.

(* a registry program for the machine-history theorem: every operation is disciplined on the one
   lock m, writes only obj, and lookups / snapshots do not write *)
Definition kprogs_ok (m obj : string) (kp : list (list (gkind * list lev))) : Prop :=
  Forall (Forall (fun x => wf_op m (gop x) /\ kind_body_ok obj x = true)) kp.
