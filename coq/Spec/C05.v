(* C05 - the property, as Prop and as boolean oracles over what was observed. *)
Require Import Verif.Common.Base Verif.Model.C05.

(* ---- decidable equalities ---- *)
Definition err_eqb (a b : error) : bool :=
  match a, b with
  | EAttempt i, EAttempt j => N.eqb i j
  | ENull, ENull | EDeadline, EDeadline | ECanceled, ECanceled => true
  | EOther s, EOther t => str_eqb s t
  | _, _ => false
  end.
Definition resp_eqb (a b : response) : bool :=
  N.eqb (r_id a) (r_id b) && Bool.eqb (r_complete a) (r_complete b).

(* ---- the outcomes of the attempts, as the messages they deliver (a multiset: the
        property quantifies over every arrival order of them) ---- *)
Definition res_in (r : response) (prod : list ev) : bool :=
  existsb (fun e => match e with Res x => resp_eqb x r | _ => false end) prod.
Definition err_in (x : error) (prod : list ev) : bool :=
  existsb (fun e => match e with Fail y => err_eqb y x | _ => false end) prod.
Definition is_complete_ev (e : ev) : bool := match e with Res r => r_complete r | _ => false end.
Definition any_complete (prod : list ev) : bool := existsb is_complete_ev prod.

Definition complete_in (prod : list ev) : Prop :=
  exists r, In (Res r) prod /\ r_complete r = true.

(* The statement.  prod: what the attempts produced; o: what the caller received.
   (1) some attempt completed: a complete response produced by an attempt, and no error;
   (2) no attempt completed: the response (if any) and the error (if any) were produced
       by attempts, and there is at least one of them. *)
Definition Spec (prod : list ev) (o : result) : Prop :=
  (complete_in prod ->
     exists r, o = (Some r, None) /\ r_complete r = true /\ In (Res r) prod) /\
  (~ complete_in prod ->
     (forall r, fst o = Some r -> In (Res r) prod) /\
     (forall e, snd o = Some e -> In (Fail e) prod) /\
     o <> (None, None)).

Definition spec_b (prod : list ev) (o : result) : bool :=
  if any_complete prod then
    match o with
    | (Some r, None) => r_complete r && res_in r prod
    | _ => false
    end
  else
    match fst o with None => true | Some r => res_in r prod end &&
    match snd o with None => true | Some e => err_in e prod end &&
    negb (match o with (None, None) => true | _ => false end).

(* When the parent context is done during collection (outside the quantifier of the
   property) only this much remains: nothing is fabricated, and a complete response
   comes without an error. *)
Definition SpecParent (prod : list ev) (o : result) : Prop :=
  (forall r, fst o = Some r -> In (Res r) prod) /\
  (forall e, snd o = Some e -> In (Fail e) prod) /\
  (forall r, fst o = Some r -> r_complete r = true -> snd o = None).

Definition spec_parent_b (prod : list ev) (o : result) : bool :=
  match fst o with None => true | Some r => res_in r prod end &&
  match snd o with None => true | Some e => err_in e prod end &&
  match o with (Some r, Some _) => negb (r_complete r) | _ => true end.

(* what attempt i can produce, given its kind: a silent attempt answers with the error
   of its context, whichever it is *)
Definition slot_outcomes (kinds : list kind) (i : nat) : list ev :=
  match nth_error kinds i with
  | Some KSilent => [Fail EDeadline; Fail ECanceled]
  (* (response, error) together: the attempt failed (an error outcome); the incomplete
     response that came with the error is still something the attempt produced *)
  | Some KIncompleteErr => [Fail (EAttempt (N.of_nat i)); Res (slot_resp i false)]
  | _ => slot_events kinds i
  end.
Definition produced (kinds : list kind) : list ev :=
  flat_map (slot_outcomes kinds) (seq 0 (List.length kinds)).

(* the non-silent slots, in spawn order *)
Definition nonsilent_slots (kinds : list kind) : list nat :=
  filter (fun i => match nth_error kinds i with Some k => negb (is_silent k) | None => false end)
         (seq 0 (List.length kinds)).

(* ---- "the same request is issued N times" ---- *)
Definition strs_eqb := list_eqb str_eqb.
Definition multi_eqb (a b : list (string * list string)) : bool :=
  list_eqb (fun x y => str_eqb (fst x) (fst y) && strs_eqb (snd x) (snd y)) a b.
Definition params_eqb (a b : list (string * string)) : bool :=
  list_eqb (fun x y => str_eqb (fst x) (fst y) && str_eqb (snd x) (snd y)) a b.
Definition req_eqb (a b : request) : bool :=
  str_eqb (q_method a) (q_method b) && opt_eqb str_eqb (q_url a) (q_url b) &&
  str_eqb (q_path a) (q_path b) && multi_eqb (q_query a) (q_query b) &&
  params_eqb (q_params a) (q_params b) && multi_eqb (q_headers a) (q_headers b) &&
  opt_eqb str_eqb (q_body a) (q_body b).

(* seen: per attempt, the request it was handed, its body read to the end *)
Definition SameRequests (n : nat) (req : request) (seen : list request) : Prop :=
  List.length seen = n /\ forall s, In s seen -> s = req.
Definition requests_b (n : nat) (req : request) (seen : list request) : bool :=
  Nat.eqb (List.length seen) n && forallb (fun s => req_eqb s req) seen.
