(* C07 - the property, as Prop and as a boolean oracle over what the backend was observed to
   receive.  The oracle is written in the property's own terms ("{param}" values, path
   parameter of that name, body completed with defaults); it does not use the model's
   placeholder / bind / complete functions. *)
Require Import Verif.Common.Base Verif.Common.Json Verif.Model.C07.

(* ---------- equality of JSON values: objects as maps, numbers by value ---------- *)

Definition is_digit (c : ascii) : bool := let n := N_of_ascii c in ((48 <=? n) && (n <=? 57))%N.

(* reads digits: mantissa accumulated, number of digits read, rest *)
Fixpoint scan_digits (s : string) (m : N) (cnt : Z) : N * Z * string :=
  match s with
  | String c r => if is_digit c then scan_digits r (m * 10 + (N_of_ascii c - 48))%N (cnt + 1)%Z
                  else (m, cnt, s)
  | EmptyString => (m, cnt, s)
  end.

Fixpoint strip_zeros (fuel : nat) (m : N) (e : Z) : N * Z :=
  match fuel with
  | O => (m, e)
  | S f => if ((m mod 10 =? 0) && negb (m =? 0))%N then strip_zeros f (m / 10)%N (e + 1)%Z else (m, e)
  end.

(* value of a JSON number literal as sign, mantissa without trailing zeros, decimal exponent;
   None when the text is not a number literal *)
Definition num_value (lit : string) : option (bool * N * Z) :=
  let '(neg, s1) := match lit with
                    | String c r => if Ascii.eqb c "-" then (true, r) else (false, lit)
                    | EmptyString => (false, lit) end in
  let '(m1, c1, s2) := scan_digits s1 0%N 0%Z in
  if (c1 =? 0)%Z then None else
  let '(m2, c2, s3) := match s2 with
                       | String c r => if Ascii.eqb c "." then scan_digits r m1 0%Z else (m1, 0%Z, s2)
                       | EmptyString => (m1, 0%Z, s2) end in
  let res (ex : Z) :=
    let '(m, e) := strip_zeros (S (N.to_nat (N.log2 m2))) m2 (ex - c2)%Z in
    if (m =? 0)%N then Some (false, 0%N, 0%Z) else Some (neg, m, e) in
  match s3 with
  | EmptyString => res 0%Z
  | String c r =>
      if Ascii.eqb c "e" || Ascii.eqb c "E" then
        let '(eneg, s4) := match r with
                           | String d r' => if Ascii.eqb d "-" then (true, r')
                                            else if Ascii.eqb d "+" then (false, r') else (false, r)
                           | EmptyString => (false, r) end in
        let '(ev, ec, s5) := scan_digits s4 0%N 0%Z in
        if (ec =? 0)%Z then None else
        match s5 with
        | EmptyString => res (if eneg then (- Z.of_N ev)%Z else Z.of_N ev)
        | _ => None
        end
      else None
  end.

Definition num_canon (lit : string) : string :=
  match num_value lit with
  | Some (neg, m, e) => ((if neg then "-" else "") ++ dec_N m ++ "e" ++ dec_Z e)%string
  | None => ("?" ++ lit)%string
  end.

Fixpoint norm_json (v : json) : json :=
  match v with
  | JNum l => JNum (num_canon l)
  | JArr l => JArr (map norm_json l)
  | JObj m => JObj (map (fun kv => (fst kv, norm_json (snd kv))) m)
  | _ => v
  end.

Definition jeq (a b : json) : bool := json_eqb (norm_json a) (norm_json b).

(* ---------- "{param}" values ---------- *)

(* the text between the braces of a brace-wrapped, non-empty name *)
Definition unwrap (v : string) : option string :=
  match v with
  | String c r =>
      if Ascii.eqb c lbrace then
        match last_byte r with
        | Some l => if Ascii.eqb l rbrace && negb (str_eqb (drop_last r) "") then Some (drop_last r) else None
        | None => None
        end
      else None
  | EmptyString => None
  end.

(* Prop form *)
Definition param_ref (v name : string) : Prop :=
  name <> "" /\ v = String lbrace (name ++ String rbrace "").

(* one configured default and the value the backend must get for it (query operations).  The
   request's path parameter {name} is stored by the routers under config_cap name; when the
   request has no such parameter the statement does not say what is sent *)
Definition value_ok_b (ps : params) (dflt observed : json) : bool :=
  match dflt with
  | JStr s =>
      match unwrap s with
      | Some n => match lookup (config_cap n) ps with
                  | Some p => jeq observed (JStr p)
                  | None => true
                  end
      | None => jeq observed dflt
      end
  | _ => jeq observed dflt
  end.

Definition query_vars_ok_b (ps : params) (defaults observed : obj) : bool :=
  Nat.eqb (List.length observed) (List.length defaults) &&
  forallb (fun kv => match lookup (fst kv) observed with
                     | Some v => value_ok_b ps (snd kv) v
                     | None => false end) defaults.

(* mutation: every observed variable is the body's, or - for a key the body lacks - the
   default's; every key of the body and of the defaults is present *)
Definition mutation_vars_ok_b (body defaults observed : obj) : bool :=
  forallb (fun kv => match lookup (fst kv) body with
                     | Some b => jeq (snd kv) b
                     | None => match lookup (fst kv) defaults with
                               | Some d => jeq (snd kv) d
                               | None => false end
                     end) observed &&
  forallb (fun k => mem k observed) (keys body ++ keys defaults)%list.

Definition opts_of (i : input) : opts := b_opts (i_backend i).

Definition vars_ok_b (i : input) (vs : obj) : bool :=
  match o_type (opts_of i) with
  | TQuery => query_vars_ok_b (i_params i) (o_vars (opts_of i)) vs
  | TMutation =>
      match i_body i with
      | BObject b => mutation_vars_ok_b b (o_vars (opts_of i)) vs
      | _ => false
      end
  end.

(* "a body that is not a JSON object fails the call" *)
Definition must_fail (i : input) : bool :=
  match o_type (opts_of i), i_body i with
  | TMutation, BObject _ => false
  | TMutation, _ => true
  | TQuery, _ => false
  end.

Fixpoint is_prefix (s t : string) : bool :=
  match s, t with
  | EmptyString, _ => true
  | String a s', String b t' => Ascii.eqb a b && is_prefix s' t'
  | _, _ => false
  end.

(* absent variables = the empty map *)
Definition as_vars (v : option json) : option obj :=
  match v with None => Some [] | Some (JObj m) => Some m | Some _ => None end.

Definition post_ok_b (i : input) (s : sent) : bool :=
  str_eqb (s_method s) "POST" &&
  match s_body s with
  | Some (JObj b) =>
      match lookup "query" b with Some (JStr q) => str_eqb q (o_query (opts_of i)) | _ => false end &&
      match lookup "operationName" b with
      | Some (JStr n) => str_eqb n (o_name (opts_of i))
      | None => str_eqb (o_name (opts_of i)) ""
      | _ => false end &&
      match as_vars (lookup "variables" b) with Some vs => vars_ok_b i vs | None => false end
  | _ => false
  end &&
  (s_clen s =? s_body_len s)%Z &&
  list_eqb str_eqb (s_clen_hdr s) [dec_Z (s_body_len s)] &&
  match s_ctype s with [t] => is_prefix "application/json" t | _ => false end.

Definition get_ok_b (i : input) (s : sent) : bool :=
  str_eqb (s_method s) "GET" &&
  list_eqb str_eqb (s_q s) [o_query (opts_of i)] &&
  match s_name s with
  | [] => str_eqb (o_name (opts_of i)) ""
  | [n] => str_eqb n (o_name (opts_of i))
  | _ => false end &&
  match s_vars s with
  | [] => vars_ok_b i []
  | [JObj vs] => vars_ok_b i vs
  | _ => false end.

Definition spec_b (i : input) (o : outcome) : bool :=
  if must_fail i then match o with Failed => true | _ => false end
  else match o with
       | Sent s => match o_method (opts_of i) with TPost => post_ok_b i s | TGet => get_ok_b i s end
       | _ => false
       end.

(* ---------- Prop form ---------- *)

Definition jequiv (a b : json) : Prop := jeq a b = true.

Definition value_spec (ps : params) (dflt observed : json) : Prop :=
  (forall s n p, dflt = JStr s -> param_ref s n -> lookup (config_cap n) ps = Some p ->
                 jequiv observed (JStr p)) /\
  ((forall s n, dflt = JStr s -> ~ param_ref s n) -> jequiv observed dflt).

Definition vars_spec (i : input) (vs : obj) : Prop :=
  match o_type (opts_of i) with
  | TQuery =>
      List.length vs = List.length (o_vars (opts_of i)) /\
      forall k d, In (k, d) (o_vars (opts_of i)) ->
                  exists v, lookup k vs = Some v /\ value_spec (i_params i) d v
  | TMutation =>
      exists b, i_body i = BObject b /\
      (forall k v, In (k, v) vs ->
         match lookup k b with
         | Some x => jequiv v x
         | None => exists d, lookup k (o_vars (opts_of i)) = Some d /\ jequiv v d
         end) /\
      (forall k, In k (keys b) \/ In k (keys (o_vars (opts_of i))) -> mem k vs = true)
  end.

Definition Spec (i : input) (o : outcome) : Prop :=
  if must_fail i then o = Failed
  else exists s, o = Sent s /\
    match o_method (opts_of i) with
    | TPost =>
        s_method s = "POST" /\
        (exists b vs, s_body s = Some (JObj b) /\
           lookup "query" b = Some (JStr (o_query (opts_of i))) /\
           (lookup "operationName" b = Some (JStr (o_name (opts_of i))) \/
            (lookup "operationName" b = None /\ o_name (opts_of i) = "")) /\
           as_vars (lookup "variables" b) = Some vs /\ vars_spec i vs) /\
        s_clen s = s_body_len s /\ s_clen_hdr s = [dec_Z (s_body_len s)] /\
        (exists t, s_ctype s = [t] /\ is_prefix "application/json" t = true)
    | TGet =>
        s_method s = "GET" /\ s_q s = [o_query (opts_of i)] /\
        (s_name s = [o_name (opts_of i)] \/ (s_name s = [] /\ o_name (opts_of i) = "")) /\
        (exists vs, (s_vars s = [JObj vs] \/ (s_vars s = [] /\ vs = [])) /\ vars_spec i vs)
    end.

(* ---------- JSON strings, declaratively (RFC 8259, section 7) ---------- *)
(* [denotes t s]: the text t between the quotes of a JSON string stands for the byte string s *)
Local Open Scope N_scope.

Definition hex4 (h1 h2 h3 h4 : N) : option N :=
  match hexval h1, hexval h2, hexval h3, hexval h4 with
  | Some a, Some b, Some c, Some d => Some (((a * 16 + b) * 16 + c) * 16 + d)
  | _, _, _, _ => None
  end.

(* char = unescaped / escape ( quotation-mark, reverse-solidus, solidus, b, f, n, r, t, uXXXX );
   unescaped = %x20-21 / %x23-5B / %x5D-10FFFF (here: any byte from 0x20 on except the two) *)
Inductive denotes : list N -> list N -> Prop :=
| D_nil : denotes [] []
| D_char c t s : 32 <= c -> c <> 34 -> c <> 92 -> denotes t s -> denotes (c :: t) (c :: s)
| D_simple c b t s : simple_esc c = Some b -> denotes t s -> denotes (92 :: c :: t) (b :: s)
| D_u h1 h2 h3 h4 cp o t s :
    hex4 h1 h2 h3 h4 = Some cp -> utf8_enc cp = Some o -> denotes t s ->
    denotes (92 :: 117 :: h1 :: h2 :: h3 :: h4 :: t) (o ++ s)%list.

