(* C17 - the property: Prop definitions over the model, and the boolean oracle spec_b over
   what the implementation was observed to do. *)
Require Import Verif.Common.Base Verif.Common.Json Verif.Model.C17.

(* ------------------------------------------------------------------------------------ *)
(* the quantifier: well-typed configurations *)

(* non-negative durations and counts *)
Definition nonneg_endpoint (e : endpoint) : Prop :=
  (0 <= e_timeout e)%Z /\ (0 <= e_cache e)%Z /\ (0 <= e_cc e)%Z.
Definition nonneg_cfg (s : svc) : Prop :=
  (0 <= s_timeout s)%Z /\ (0 <= s_cache s)%Z /\ Forall nonneg_endpoint (s_endpoints s).

(* at least one host per backend: its own list, or the service's *)
Definition has_host (s : svc) (b : backend) : Prop := b_host b <> [] \/ s_host s <> [].

(* documented shape of the merge section: the combiner is a string, the propagated
   parameters are strings *)
Definition is_jstr (v : json) : bool := match v with JStr _ => true | _ => false end.
Definition merge_section_typed (x : obj) : Prop :=
  forall e, lookup ns_proxy x = Some (JObj e) ->
    (forall v, lookup "combiner" e = Some v -> is_jstr v = true) /\
    (forall a, lookup "sequential_propagated_params" e = Some (JArr a) -> forallb is_jstr a = true).

(* an async agent: non-negative consumer timeout, typed merge section (its pipe is built by the
   same factory), a host for every backend *)
Definition agent_typed (s : svc) (a : agent) : Prop :=
  (0 <= a_timeout a)%Z /\ merge_section_typed (a_extra a) /\ Forall (has_host s) (a_backends a).

Definition well_typed (s : svc) : Prop :=
  nonneg_cfg s /\
  Forall (fun e => merge_section_typed (e_extra e) /\ Forall (has_host s) (e_backends e)) (s_endpoints s) /\
  Forall (agent_typed s) (s_agents s).

Definition nonneg_endpoint_b (e : endpoint) : bool :=
  ((0 <=? e_timeout e) && (0 <=? e_cache e) && (0 <=? e_cc e))%Z.
Definition merge_section_typed_b (x : obj) : bool :=
  match lookup ns_proxy x with
  | Some (JObj e) =>
      match lookup "combiner" e with Some v => is_jstr v | None => true end &&
      match lookup "sequential_propagated_params" e with Some (JArr a) => forallb is_jstr a | _ => true end
  | _ => true
  end.
Definition nonempty {A} (l : list A) : bool := match l with [] => false | _ => true end.
Definition well_typed_b (s : svc) : bool :=
  ((0 <=? s_timeout s) && (0 <=? s_cache s))%Z &&
  forallb nonneg_endpoint_b (s_endpoints s) &&
  forallb (fun e => merge_section_typed_b (e_extra e) &&
                    forallb (fun b => nonempty (b_host b) || nonempty (s_host s)) (e_backends e))
          (s_endpoints s) &&
  forallb (fun a => (0 <=? a_timeout a)%Z && merge_section_typed_b (a_extra a) &&
                    forallb (fun b => nonempty (b_host b) || nonempty (s_host s)) (a_backends a))
          (s_agents s).

(* ------------------------------------------------------------------------------------ *)
(* configurations that must be rejected *)

Section Rejects.
  Variable clean_host : string -> option string.

  Definition bad_version (s : svc) : Prop := s_version s <> config_version.
  Definition bad_host_in (hs : list string) : Prop := exists h, In h hs /\ clean_host h = None.
  (* a host of the service, or of a backend that did not switch the sanitiser off *)
  Definition invalid_host (s : svc) : Prop :=
    bad_host_in (s_host s) \/
    (exists e b, In e (s_endpoints s) /\ In b (e_backends e) /\ b_nosan b = false /\ bad_host_in (b_host b)) \/
    (exists a b, In a (s_agents s) /\ In b (a_backends a) /\ b_nosan b = false /\ bad_host_in (b_host b)).
  Definition no_backends (e : endpoint) : Prop := e_backends e = [].
  (* reserved or malformed path (Proof/C17.v characterises invalid_path without the scanner) *)
  Definition bad_path (e : endpoint) : Prop := invalid_path (clean_path (e_path e)) = true.
  (* the endpoint's output encoding after defaults *)
  Definition eff_enc (s : svc) (e : endpoint) : string :=
    if str_eqb (e_enc e) "" then (if str_eqb (s_enc s) "" then "json" else s_enc s) else e_enc e.
  Definition noop_multi (s : svc) (e : endpoint) : Prop :=
    eff_enc s e = noop /\ (2 <= List.length (e_backends e))%nat.
  (* the parameters an endpoint declares *)
  Definition declared (s : svc) (e : endpoint) : list string :=
    if s_norest s then simple_keys (clean_path (e_path e)) else strict_keys (clean_path (e_path e)).
  (* a placeholder of the backend pattern that is neither declared nor filled by the
     sequential merger / the JWT component *)
  Definition undeclared_param (s : svc) (e : endpoint) (b : backend) : Prop :=
    exists o, In o (simple_keys (clean_path (b_url b))) /\ seq_param o = false /\ ~ In o (declared s e).

  Definition must_reject (s : svc) : Prop :=
    bad_version s \/ invalid_host s \/
    exists e, In e (s_endpoints s) /\
      (no_backends e \/ bad_path e \/ noop_multi s e \/
       exists b, In b (e_backends e) /\ undeclared_param s e b).

  Definition bad_host_in_b (hs : list string) : bool :=
    existsb (fun h => match clean_host h with None => true | Some _ => false end) hs.
  Definition undeclared_param_b (s : svc) (e : endpoint) (b : backend) : bool :=
    existsb (fun o => negb (seq_param o) && negb (str_mem o (declared s e))) (simple_keys (clean_path (b_url b))).
  Definition must_reject_b (s : svc) : bool :=
    negb (s_version s =? config_version)%Z ||
    bad_host_in_b (s_host s) ||
    existsb (fun e => existsb (fun b => negb (b_nosan b) && bad_host_in_b (b_host b)) (e_backends e)) (s_endpoints s) ||
    existsb (fun a => existsb (fun b => negb (b_nosan b) && bad_host_in_b (b_host b)) (a_backends a)) (s_agents s) ||
    existsb (fun e =>
      negb (nonempty (e_backends e)) ||
      invalid_path (clean_path (e_path e)) ||
      (str_eqb (eff_enc s e) noop && (2 <=? List.length (e_backends e))%nat) ||
      existsb (undeclared_param_b s e) (e_backends e)) (s_endpoints s).
End Rejects.

(* ------------------------------------------------------------------------------------ *)
(* post-conditions, on the model's records *)

Definition canonical (h : string) : Prop := canon_header h = h.

Section Post.
  Variable clean_host : string -> option string.

  Definition sanitised (h : string) : Prop := exists h0, clean_host h0 = Some h.

  (* every key is the capitalised form of a placeholder of the pattern that the router
     (declared parameter), the sequential merger (resp<i>_...) or the JWT component (JWT....)
     fills at request time - and every placeholder got its key *)
  Definition placeholders_resolvable (decl : list string) (url_in : string) (keys : list string) : Prop :=
    Forall (fun k => exists o, k = cap o /\ In o (simple_keys (clean_path url_in)) /\
                               (seq_param o = true \/ In o decl)) keys /\
    (forall o, In o (simple_keys (clean_path url_in)) -> In (cap o) keys).

  Definition post_backend (decl : list string) (b b' : backend) : Prop :=
    b_method b' <> "" /\ (0 < b_timeout b')%Z /\ (1 <= b_cc b')%Z /\ b_dec b' <> DNil /\
    (b_nosan b = false -> Forall sanitised (b_host b')) /\
    b_host b' <> [] /\
    Forall canonical (b_hdrs b') /\
    placeholders_resolvable decl (b_url b) (b_keys b').

  (* async agents: Init gives their backends hosts, a method, the consumer timeout, a decoder *)
  Definition post_agent_backend (b b' : backend) : Prop :=
    b_method b' <> "" /\ (0 < b_timeout b')%Z /\ b_dec b' <> DNil /\
    (b_nosan b = false -> Forall sanitised (b_host b')) /\ b_host b' <> [].
  Definition post_agent (a a' : agent) : Prop :=
    (0 < a_timeout a')%Z /\ (1 <= a_workers a')%Z /\ (second <= a_health a')%Z /\
    Forall2 post_agent_backend (a_backends a) (a_backends a').

  Definition post_endpoint (s : svc) (e e' : endpoint) : Prop :=
    e_method e' <> "" /\ (0 < e_timeout e')%Z /\ (1 <= e_cc e')%Z /\
    Forall canonical (e_hdrs e') /\
    Forall2 (post_backend (declared s e)) (e_backends e) (e_backends e') /\
    (* the decoder is usable for the endpoint: a no-op endpoint (it renders only the raw
       answer of its backend) has a backend with the no-op decoder *)
    (eff_enc s e = noop -> Forall (fun b' => b_dec b' = DNoop) (e_backends e')).
End Post.

(* ------------------------------------------------------------------------------------ *)
(* observations of the implementation and the boolean oracle *)

Inductive fkind := KOk | KErr | KPanic.

Record bobs := {
  ob_host : list string;  ob_method : string;  ob_url : string;  ob_keys : list string;
  ob_dec : decoder;  ob_timeout : Z;  ob_cc : Z;  ob_hdrs : list string }.
Record eobs := {
  oe_method : string;  oe_timeout : Z;  oe_cc : Z;  oe_hdrs : list string;
  oe_backends : list bobs;  oe_factory : fkind }.
Record aobs := {
  oa_timeout : Z;  oa_workers : Z;  oa_health : Z;  oa_backends : list bobs;  oa_factory : fkind }.
Inductive obs := OPanic | OErr | OOk (es : list eobs) (ags : list aobs).

Definition kind_of (f : fres) : fkind := match f with FOk => KOk | FErr => KErr | FPanic _ => KPanic end.
Definition bobs_of (b : backend) : bobs :=
  {| ob_host := b_host b; ob_method := b_method b; ob_url := b_url b; ob_keys := b_keys b;
     ob_dec := b_dec b; ob_timeout := b_timeout b; ob_cc := b_cc b; ob_hdrs := b_hdrs b |}.
Definition eobs_of (readable : string -> bool) (e : endpoint) : eobs :=
  {| oe_method := e_method e; oe_timeout := e_timeout e; oe_cc := e_cc e; oe_hdrs := e_hdrs e;
     oe_backends := map bobs_of (e_backends e); oe_factory := kind_of (factory_new readable e) |}.
Definition aobs_of (readable : string -> bool) (a : agent) : aobs :=
  {| oa_timeout := a_timeout a; oa_workers := a_workers a; oa_health := a_health a;
     oa_backends := map bobs_of (a_backends a); oa_factory := kind_of (agent_factory_new readable a) |}.
(* what the model predicts the harness sees: Parse, then DefaultFactory.New per endpoint, and per
   async agent through AgentStarter.Start *)
Definition obs_of (readable : string -> bool) (r : result svc) : obs :=
  match r with
  | Ok c => OOk (map (eobs_of readable) (s_endpoints c)) (map (aobs_of readable) (s_agents c))
  | Err _ => OErr
  | Panic _ => OPanic
  end.

(* the sanitiser as a finite table of real SafeCleanHost results *)
Definition tbl_fun (tbl : list (string * option string)) (h : string) : option string :=
  match lookup h tbl with Some r => r | None => None end.
Definition lower_fun (tbl : list (string * string)) (x : string) : string :=
  match lookup x tbl with Some r => r | None => x end.

Fixpoint forallb2 {A B} (f : A -> B -> bool) (l : list A) (m : list B) : bool :=
  match l, m with
  | [], [] => true
  | x :: r, y :: t => f x y && forallb2 f r t
  | _, _ => false
  end.

Definition is_dnoop (d : decoder) : bool := match d with DNoop => true | _ => false end.
Definition is_dnil (d : decoder) : bool := match d with DNil => true | _ => false end.
Definition is_kpanic (k : fkind) : bool := match k with KPanic => true | _ => false end.
Definition canonical_b (h : string) : bool := str_eqb (canon_header h) h.
Definition opt_str_eqb (a b : option string) : bool := opt_eqb str_eqb a b.

Section Oracle.
  Variable tbl : list (string * option string).

  Definition sanitised_b (h : string) : bool :=
    existsb (fun h0 => opt_str_eqb (tbl_fun tbl h0) (Some h)) (keys tbl).

  Definition resolvable_b (decl : list string) (url_in : string) (ks : list string) : bool :=
    let outs := simple_keys (clean_path url_in) in
    forallb (fun k => existsb (fun o => str_eqb k (cap o) && (seq_param o || str_mem o decl)) outs) ks &&
    forallb (fun o => str_mem (cap o) ks) outs.

  Definition post_backend_b (decl : list string) (b : backend) (o : bobs) : bool :=
    negb (str_eqb (ob_method o) "") && (0 <? ob_timeout o)%Z && (1 <=? ob_cc o)%Z &&
    negb (is_dnil (ob_dec o)) &&
    (b_nosan b || forallb sanitised_b (ob_host o)) &&
    nonempty (ob_host o) &&
    forallb canonical_b (ob_hdrs o) &&
    resolvable_b decl (b_url b) (ob_keys o).

  Definition post_endpoint_b (s : svc) (e : endpoint) (o : eobs) : bool :=
    negb (str_eqb (oe_method o) "") && (0 <? oe_timeout o)%Z && (1 <=? oe_cc o)%Z &&
    forallb canonical_b (oe_hdrs o) &&
    forallb2 (post_backend_b (declared s e)) (e_backends e) (oe_backends o) &&
    negb (is_kpanic (oe_factory o)) &&
    (negb (str_eqb (eff_enc s e) noop) || forallb (fun ob => is_dnoop (ob_dec ob)) (oe_backends o)).

  Definition post_agent_backend_b (b : backend) (o : bobs) : bool :=
    negb (str_eqb (ob_method o) "") && (0 <? ob_timeout o)%Z && negb (is_dnil (ob_dec o)) &&
    (b_nosan b || forallb sanitised_b (ob_host o)) && nonempty (ob_host o).
  Definition post_agent_b (a : agent) (o : aobs) : bool :=
    (0 <? oa_timeout o)%Z && (1 <=? oa_workers o)%Z && (second <=? oa_health o)%Z &&
    forallb2 post_agent_backend_b (a_backends a) (oa_backends o) &&
    negb (is_kpanic (oa_factory o)).

  (* the property, evaluated on what the implementation did with configuration s *)
  Definition spec_b (s : svc) (o : obs) : bool :=
    if well_typed_b s then
      match o with
      | OPanic => false
      | OErr => true
      | OOk es ags => negb (must_reject_b (tbl_fun tbl) s) && forallb2 (post_endpoint_b s) (s_endpoints s) es &&
                      forallb2 post_agent_b (s_agents s) ags
      end
    else true.
End Oracle.

(* the property as a Prop over an observation (what spec_b decides) *)
Definition bobs_ok (clean_host : string -> option string) (decl : list string) (b : backend) (ob : bobs) : Prop :=
  ob_method ob <> "" /\ (0 < ob_timeout ob)%Z /\ (1 <= ob_cc ob)%Z /\ ob_dec ob <> DNil /\
  (b_nosan b = false -> Forall (sanitised clean_host) (ob_host ob)) /\
  ob_host ob <> [] /\
  Forall canonical (ob_hdrs ob) /\
  placeholders_resolvable decl (b_url b) (ob_keys ob).
Definition eobs_ok (clean_host : string -> option string) (s : svc) (e : endpoint) (oe : eobs) : Prop :=
  oe_method oe <> "" /\ (0 < oe_timeout oe)%Z /\ (1 <= oe_cc oe)%Z /\
  Forall canonical (oe_hdrs oe) /\
  Forall2 (bobs_ok clean_host (declared s e)) (e_backends e) (oe_backends oe) /\
  oe_factory oe <> KPanic /\
  (eff_enc s e = noop -> Forall (fun ob => ob_dec ob = DNoop) (oe_backends oe)).
Definition abobs_ok (clean_host : string -> option string) (b : backend) (ob : bobs) : Prop :=
  ob_method ob <> "" /\ (0 < ob_timeout ob)%Z /\ ob_dec ob <> DNil /\
  (b_nosan b = false -> Forall (sanitised clean_host) (ob_host ob)) /\ ob_host ob <> [].
Definition aobs_ok (clean_host : string -> option string) (a : agent) (oa : aobs) : Prop :=
  (0 < oa_timeout oa)%Z /\ (1 <= oa_workers oa)%Z /\ (second <= oa_health oa)%Z /\
  Forall2 (abobs_ok clean_host) (a_backends a) (oa_backends oa) /\
  oa_factory oa <> KPanic.
Definition Spec (tbl : list (string * option string)) (s : svc) (o : obs) : Prop :=
  well_typed s ->
  o <> OPanic /\
  (must_reject (tbl_fun tbl) s -> o = OErr) /\
  (forall es ags, o = OOk es ags ->
     Forall2 (eobs_ok (tbl_fun tbl) s) (s_endpoints s) es /\
     Forall2 (aobs_ok (tbl_fun tbl)) (s_agents s) ags).
