(* C19 - the property: graceful shutdown, as a predicate over traces of events, and the
   boolean trace monitor that is run on the traces observed from the real server. *)
Require Import Verif.Common.Base.
Require Import Verif.Model.C19.

(* a occurs in t strictly before some occurrence of b *)
Fixpoint before (a b : event) (t : list event) : Prop :=
  match t with
  | [] => False
  | x :: r => (x = a /\ In b r) \/ before a b r
  end.

(* The statement of C19, clause by clause, over a complete trace (the run was driven until
   the runner returned and every client has its outcome):
   G1 every request accepted by a handler before the cancellation has finished before the
      runner returns;
   G2 ... and its client received the full response;
   G3 nothing is accepted after the runner returned (the listener stopped accepting);
   G4 a listener that cannot be started makes the runner return the listener's error
      (when the context is not cancelled: with both ready the select may take either);
   G5 the listener stops accepting when the context is cancelled, not when the handlers are done
      (bounded observation: StillAccepting is emitted when connections are still accepted
      seconds after the cancellation). *)
Definition G1 (t : list event) : Prop :=
  forall r v, before (Accept r) Cancel t -> In (RunnerReturn v) t ->
              before (HandlerDone r) (RunnerReturn v) t.
Definition G2 (t : list event) : Prop :=
  forall r, before (Accept r) Cancel t -> In (ClientGot r true) t /\ ~ In (ClientGot r false) t.
Definition G2safe (t : list event) : Prop :=
  forall r, In (Accept r) t -> ~ In (ClientGot r false) t.
Definition G3 (t : list event) : Prop :=
  forall v r, ~ before (RunnerReturn v) (Accept r) t.
Definition G4 (t : list event) : Prop :=
  In ListenFail t -> ~ In Cancel t -> In (RunnerReturn VListenErr) t.
Definition G4safe (t : list event) : Prop :=
  In ListenFail t -> ~ In Cancel t -> forall v, In (RunnerReturn v) t -> v = VListenErr.
Definition G5 (t : list event) : Prop := ~ In StillAccepting t.

Definition graceful (t : list event) : Prop := G1 t /\ G2 t /\ G3 t /\ G4 t /\ G5 t.

(* the part that holds of every prefix of every run (safety) *)
Definition safe (t : list event) : Prop := G1 t /\ G2safe t /\ G3 t /\ G4safe t /\ G5 t.

(* a run of the model is complete when the runner has returned and every finished request
   has been answered to its client (Prop form of Model.final_b) *)
Definition final (s : st) : Prop :=
  runner s = RReturned /\ forall r, getq r (reqs s) = Some QDone -> memn r (resp s) = true.

(* ---- the monitor ---- *)
Fixpoint mem_ev (a : event) (t : list event) : bool :=
  match t with [] => false | x :: r => event_eqb x a || mem_ev a r end.
Fixpoint before_b (a b : event) (t : list event) : bool :=
  match t with
  | [] => false
  | x :: r => (event_eqb x a && mem_ev b r) || before_b a b r
  end.

Definition g1_b (t : list event) : bool :=
  forallb (fun e => match e with
                    | Accept r =>
                        negb (before_b (Accept r) Cancel t) ||
                        forallb (fun e' => match e' with
                                           | RunnerReturn v => before_b (HandlerDone r) (RunnerReturn v) t
                                           | _ => true end) t
                    | _ => true end) t.
Definition g2_b (t : list event) : bool :=
  forallb (fun e => match e with
                    | Accept r =>
                        negb (before_b (Accept r) Cancel t) ||
                        (mem_ev (ClientGot r true) t && negb (mem_ev (ClientGot r false) t))
                    | _ => true end) t.
Definition g3_b (t : list event) : bool :=
  forallb (fun e => match e with
                    | RunnerReturn v =>
                        forallb (fun e' => match e' with
                                           | Accept r => negb (before_b (RunnerReturn v) (Accept r) t)
                                           | _ => true end) t
                    | _ => true end) t.
Definition g4_b (t : list event) : bool :=
  negb (mem_ev ListenFail t) || mem_ev Cancel t || mem_ev (RunnerReturn VListenErr) t.
Definition g5_b (t : list event) : bool := negb (mem_ev StillAccepting t).

Definition graceful_b (t : list event) : bool :=
  g1_b t && g2_b t && g3_b t && g4_b t && g5_b t.

(* ---- what the harness imposes (the input of a case) ---- *)
Inductive sstep :=
| SStart                 (* call the runner (in a goroutine); wait until it listens unless already cancelled / port held *)
| SLaunch (r : nat)      (* start client r and wait until its handler is running *)
| SRelease (r : nat)     (* open the gate of handler r and wait until the handler has finished *)
| SCancel                (* cancel the context *)
| SLate (r : nat)        (* one request attempt (gate already open), wait for its outcome *)
| SUntilRefused          (* repeat late attempts until one is refused (bounded) *)
| SPause                 (* give the runner a bounded time to return (it must not) *)
| SAwaitReturn           (* wait until the runner has returned *)
| SSlowOpen (r : nat)    (* raw client: open a connection, send the request line and part of the headers *)
| SSlowFinish (r : nat). (* ... send the rest of the headers, wait for the outcome *)

(* the events the script forces, in the order it forces them *)
Definition forced (s : sstep) : list event :=
  match s with
  | SLaunch r => [Accept r]
  | SRelease r => [HandlerDone r]
  | SCancel => [Cancel]
  | _ => []
  end.
Definition scripted_ids (sc : list sstep) : list nat :=
  flat_map (fun s => match s with SLaunch r => [r] | _ => [] end) sc.
Definition is_forced (ids : list nat) (e : event) : bool :=
  match e with
  | Accept r | HandlerDone r => memn r ids
  | Cancel => true
  | _ => false
  end.
(* the observed trace shows exactly the imposed order on the gated events, and ListenFail
   first exactly when the harness held the port *)
Definition imposed_b (port_held : bool) (sc : list sstep) (t : list event) : bool :=
  list_eqb event_eqb (filter (is_forced (scripted_ids sc)) t) (flat_map forced sc) &&
  Bool.eqb port_held (mem_ev ListenFail t) &&
  match t with ListenFail :: _ => true | _ => negb port_held end.
