(* C13 - the property, as Prop and as boolean oracles over what the client observed. *)
Require Import Verif.Common.Base Verif.Common.Json Verif.Model.C13.
Open Scope string_scope.
Open Scope list_scope.

(* "semantically identical": same fields, same nesting, every number with exactly the same
   literal text.  Objects are finite maps (member order is not part of a JSON object). *)
Inductive same_doc : json -> json -> Prop :=
| SNull : same_doc JNull JNull
| SBool : forall b, same_doc (JBool b) (JBool b)
| SNum : forall lit, same_doc (JNum lit) (JNum lit)
| SStr : forall s, same_doc (JStr s) (JStr s)
| SArr : forall l l', Forall2 same_doc l l' -> same_doc (JArr l) (JArr l')
| SObj : forall m m',
    (forall k, lookup k m = None <-> lookup k m' = None) ->
    (forall k x y, lookup k m = Some x -> lookup k m' = Some y -> same_doc x y) ->
    same_doc (JObj m) (JObj m').

(* positions inside a document *)
Inductive pstep := PKey (k : string) | PIdx (i : nat).
Fixpoint at_path (v : json) (p : list pstep) {struct p} : option json :=
  match p with
  | [] => Some v
  | PKey k :: r => match v with
                   | JObj m => match lookup k m with Some x => at_path x r | None => None end
                   | _ => None end
  | PIdx i :: r => match v with
                   | JArr l => match nth_error l i with Some x => at_path x r | None => None end
                   | _ => None end
  end.

Definition same_body (a b : cbody) : Prop :=
  match a, b with
  | BJson x, BJson y => same_doc x y
  | BRaw s, BRaw t => s = t
  | _, _ => False
  end.

Definition cbody_eqb (a b : cbody) : bool :=
  match a, b with
  | BJson x, BJson y => json_eqb x y
  | BRaw s, BRaw t => str_eqb s t
  | _, _ => false
  end.

(* what the statement promises the client, per configuration and kind of backend payload
   (None: the statement is silent, e.g. an array sent to a plain json backend) *)
Definition expected (e : benc) (coll : bool) (o : oenc) (b : bbody) : option cbody :=
  match e, b with
  | EJson, BDoc (JObj m) => if coll then None else match o with OJson => Some (BJson (JObj m)) | _ => None end
  | EJson, BDoc (JArr l) =>
      if coll then match o with
                   | OJson => Some (BJson (JObj [("collection", JArr l)]))
                   | OJsonCollection => Some (BJson (JArr l))
                   | OString => None end
      else None
  | ESafe, BDoc (JObj m) => match o with OJson => Some (BJson (JObj m)) | _ => None end
  | ESafe, BDoc (JArr l) => match o with
                            | OJson => Some (BJson (JObj [("collection", JArr l)]))
                            | OJsonCollection => Some (BJson (JArr l))
                            | OString => None end
  | ESafe, BDoc (JOther _) => None
  | ESafe, BDoc v => match o with OJson => Some (BJson (JObj [("content", v)])) | _ => None end
  | EString, BText s => match o with
                        | OString => Some (BRaw s)
                        | OJson => Some (BJson (JObj [("content", JStr s)]))
                        | OJsonCollection => None end
  | _, _ => None
  end.

Definition Spec_body (e : benc) (coll : bool) (o : oenc) (b : bbody) (obs : cobs) : Prop :=
  forall x, expected e coll o b = Some x -> c_status obs = 200%Z /\ same_body x (c_body obs).

Definition spec_body_b (e : benc) (coll : bool) (o : oenc) (b : bbody) (obs : cobs) : bool :=
  match expected e coll o b with
  | None => true
  | Some x => (c_status obs =? 200)%Z && cbody_eqb x (c_body obs)
  end.

(* well-formed payload: no duplicate member names at any depth *)
Definition wf_bbody (b : bbody) : bool := match b with BDoc v => wfj v | _ => true end.

(* ---- no-op ---- *)
Definition header_eqb (a b : header) : bool := str_eqb (fst a) (fst b) && str_eqb (snd a) (snd b).
Fixpoint count_h (h : header) (l : list header) : nat :=
  match l with [] => 0 | x :: r => (if header_eqb h x then 1 else 0) + count_h h r end.
(* every backend header line, with its multiplicity, is among the client's *)
Definition sub_mset (a b : list header) : bool :=
  forallb (fun h => Nat.leb (count_h h a) (count_h h b)) a.

Definition chunk_eqb (a b : chunk) : bool := N.eqb (fst a) (fst b) && str_eqb (snd a) (snd b).
Definition chunks_eqb := list_eqb chunk_eqb.

Definition Spec_noop (st : Z) (hs : list header) (body : list chunk) (o : nobs) : Prop :=
  n_status o = st /\ n_body o = body /\ n_err o = false /\
  forall h, count_h h hs <= count_h h (n_headers o).

Definition spec_noop_b (st : Z) (hs : list header) (body : list chunk) (o : nobs) : bool :=
  (n_status o =? st)%Z && chunks_eqb (n_body o) body && negb (n_err o) && sub_mset hs (n_headers o).
