(* JSON trees as decoded by the gateway (map[string]interface{} / []interface{} /
   json.Number / string / bool / nil).  Numbers carry their literal text.  JOther stands
   for a Go value of a type the emitter does not know (it never equals anything the
   models produce, so it always shows as a disagreement). *)
Require Import Verif.Common.Base.

Inductive json :=
| JNull
| JBool (b : bool)
| JNum (lit : string)
| JStr (s : string)
| JArr (l : list json)
| JObj (m : list (string * json))
| JOther (t : string).

Definition obj := list (string * json).

(* induction principle that reaches into arrays and objects *)
Section JsonInd.
  Variable P : json -> Prop.
  Hypothesis Hnull : P JNull.
  Hypothesis Hbool : forall b, P (JBool b).
  Hypothesis Hnum : forall s, P (JNum s).
  Hypothesis Hstr : forall s, P (JStr s).
  Hypothesis Harr : forall l, Forall P l -> P (JArr l).
  Hypothesis Hobj : forall m, Forall (fun kv => P (snd kv)) m -> P (JObj m).
  Hypothesis Hother : forall t, P (JOther t).
  Fixpoint json_ind' (v : json) : P v :=
    match v with
    | JNull => Hnull
    | JBool b => Hbool b
    | JNum s => Hnum s
    | JStr s => Hstr s
    | JArr l => Harr l ((fix go (l : list json) : Forall P l :=
                           match l with
                           | [] => Forall_nil _
                           | x :: r => Forall_cons x (json_ind' x) (go r)
                           end) l)
    | JObj m => Hobj m ((fix go (m : list (string * json)) : Forall (fun kv => P (snd kv)) m :=
                           match m with
                           | [] => Forall_nil _
                           | kv :: r => Forall_cons kv (json_ind' (snd kv)) (go r)
                           end) m)
    | JOther t => Hother t
    end.
End JsonInd.

(* equality of documents, objects compared as finite maps (order-insensitive) *)
Fixpoint json_eqb (a b : json) {struct a} : bool :=
  match a, b with
  | JNull, JNull => true
  | JBool x, JBool y => Bool.eqb x y
  | JNum x, JNum y => str_eqb x y
  | JStr x, JStr y => str_eqb x y
  | JArr l, JArr l' =>
      (fix go (l l' : list json) : bool :=
         match l, l' with
         | [], [] => true
         | x :: r, y :: r' => json_eqb x y && go r r'
         | _, _ => false
         end) l l'
  | JObj m, JObj m' =>
      Nat.eqb (List.length m) (List.length m') &&
      (fix go (m : list (string * json)) : bool :=
         match m with
         | [] => true
         | (k, x) :: r =>
             match lookup k m' with Some y => json_eqb x y | None => false end && go r
         end) m
  | _, _ => false
  end.

Definition obj_eqb (a b : obj) : bool := json_eqb (JObj a) (JObj b).

(* walk a path through objects only *)
Fixpoint get_path (v : json) (p : list string) {struct p} : option json :=
  match p with
  | [] => Some v
  | k :: r =>
      match v with
      | JObj m => match lookup k m with Some x => get_path x r | None => None end
      | _ => None
      end
  end.

(* well-formed documents: no duplicate keys at any depth (a Go map cannot have any) *)
Fixpoint wfj (v : json) : bool :=
  match v with
  | JObj m =>
      nodup_keys m &&
      (fix go (m : list (string * json)) : bool :=
         match m with [] => true | (_, x) :: r => wfj x && go r end) m
  | JArr l => (fix go (l : list json) : bool :=
                 match l with [] => true | x :: r => wfj x && go r end) l
  | JOther _ => false
  | _ => true
  end.

Definition is_obj (v : json) : bool := match v with JObj _ => true | _ => false end.
Definition unobj (v : json) : obj := match v with JObj m => m | _ => [] end.
