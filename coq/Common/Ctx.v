(* Go contexts, as far as cancellation and deadlines go.  A context value is the list of the
   frames it was derived through, innermost first ([] = context.Background()): each frame has a
   cancellation token and the deadline Deadline() reports at that level.  WithTimeout /
   WithDeadline store min(parent deadline, now + d) (as the standard library does), WithCancel
   inherits the parent's deadline.  The global state is the list of tokens whose cancel
   function has been called and the current time.  Values (ctx.Value) are not modelled. *)
From Coq Require Import List Bool Arith ZArith Lia.
Import ListNotations.
Open Scope Z_scope.

Record frame := { tok : nat; dl : option Z }.
Definition ctx := list frame.

Definition background : ctx := [].

Definition deadline (c : ctx) : option Z :=
  match c with [] => None | f :: _ => dl f end.

Definition omin (a : option Z) (b : Z) : Z :=
  match a with None => b | Some x => Z.min x b end.

Definition with_timeout (c : ctx) (t : nat) (now d : Z) : ctx :=
  {| tok := t; dl := Some (omin (deadline c) (now + d)) |} :: c.

Definition with_cancel (c : ctx) (t : nat) : ctx :=
  {| tok := t; dl := deadline c |} :: c.

Definition expired (now : Z) (f : frame) : bool :=
  match dl f with Some x => x <=? now | None => false end.

Definition tok_cancelled (cancelled : list nat) (f : frame) : bool :=
  existsb (Nat.eqb (tok f)) cancelled.

(* ctx.Err() <> nil *)
Definition done (cancelled : list nat) (now : Z) (c : ctx) : bool :=
  existsb (fun f => tok_cancelled cancelled f || expired now f) c.

(* well-formed: deadlines never grow towards the leaves (holds of everything built with the
   three constructors) *)
Fixpoint wf (c : ctx) : Prop :=
  match c with
  | [] => True
  | f :: r => wf r /\ match deadline r with
                      | None => True
                      | Some p => match dl f with Some x => x <= p | None => False end
                      end
  end.

Lemma wf_background : wf background.
Proof. exact I. Qed.

Lemma wf_with_timeout c t now d : wf c -> wf (with_timeout c t now d).
Proof.
  intros H. simpl. split; [exact H|]. unfold omin. destruct (deadline c); [lia|exact I].
Qed.

Lemma wf_with_cancel c t : wf c -> wf (with_cancel c t).
Proof.
  intros H. simpl. split; [exact H|]. destruct (deadline c); [lia|exact I].
Qed.

(* the deadline of a derived context is never later than now + d, nor than its parent's *)
Lemma with_timeout_deadline c t now d :
  exists x, deadline (with_timeout c t now d) = Some x /\ x <= now + d /\
            (forall p, deadline c = Some p -> x <= p).
Proof.
  simpl. eexists; split; [reflexivity|]. unfold omin. destruct (deadline c) as [p|].
  - split; [lia|]. intros q Hq. inversion Hq; subst. lia.
  - split; [lia|]. intros q Hq. discriminate.
Qed.

Lemma with_timeout_deadline_eq c t now d :
  deadline (with_timeout c t now d) = Some (omin (deadline c) (now + d)).
Proof. reflexivity. Qed.

Lemma with_cancel_deadline c t : deadline (with_cancel c t) = deadline c.
Proof. reflexivity. Qed.

(* done is inherited: everything derived from a done context is done *)
Lemma done_parent cs now f c : done cs now c = true -> done cs now (f :: c) = true.
Proof. intros H. simpl. rewrite H. apply orb_true_r. Qed.

Lemma done_app cs now pre c : done cs now c = true -> done cs now (pre ++ c) = true.
Proof. induction pre as [|f r IH]; simpl; intros H; auto. rewrite (IH H). apply orb_true_r. Qed.

Lemma existsb_mono {A} (f g : A -> bool) l :
  (forall x, f x = true -> g x = true) -> existsb f l = true -> existsb g l = true.
Proof.
  intros H. induction l as [|x r IH]; simpl; intros E; [discriminate|].
  apply orb_true_iff in E as [E|E]; apply orb_true_iff; [left; auto|right; auto].
Qed.

(* done is stable: time passing and further cancellations never un-do it *)
Lemma done_mono cs cs' now now' c :
  incl cs cs' -> now <= now' -> done cs now c = true -> done cs' now' c = true.
Proof.
  intros Hi Hn. unfold done. apply existsb_mono. intros f H.
  apply orb_true_iff in H as [H|H]; apply orb_true_iff.
  - left. unfold tok_cancelled in *. apply existsb_exists in H as (x & Hx & E).
    apply existsb_exists. exists x. split; auto.
  - right. unfold expired in *. destruct (dl f); [|discriminate].
    apply Z.leb_le in H. apply Z.leb_le. lia.
Qed.

(* calling the cancel function of a frame makes the context (and all derived ones) done *)
Lemma done_cancelled cs now c f : In f c -> In (tok f) cs -> done cs now c = true.
Proof.
  intros Hf Ht. unfold done. apply existsb_exists. exists f. split; auto.
  apply orb_true_iff. left. unfold tok_cancelled. apply existsb_exists.
  exists (tok f). split; auto. apply Nat.eqb_refl.
Qed.

Lemma done_head_cancelled cs now f c : In (tok f) cs -> done cs now (f :: c) = true.
Proof. intros H. apply (done_cancelled cs now (f :: c) f); simpl; auto. Qed.

(* reaching the deadline makes it done *)
Lemma done_deadline cs now c x : deadline c = Some x -> x <= now -> done cs now c = true.
Proof.
  destruct c as [|f r]; simpl; intros H Hx; [discriminate|].
  unfold expired. rewrite H. apply Z.leb_le in Hx. rewrite Hx. rewrite orb_true_r. reflexivity.
Qed.

(* a context is not done while no frame's token is cancelled and its deadline is ahead *)
Lemma not_done cs now c :
  wf c -> (forall f, In f c -> ~ In (tok f) cs) ->
  (forall x, deadline c = Some x -> now < x) ->
  (deadline c = None -> forall f, In f c -> dl f = None) ->
  done cs now c = false.
Proof.
  induction c as [|f r IH]; simpl; intros Hwf Ht Hd Hn; [reflexivity|].
  destruct Hwf as [Hwr Hle].
  assert (E1 : tok_cancelled cs f = false).
  { unfold tok_cancelled. destruct (existsb (Nat.eqb (tok f)) cs) eqn:E; auto.
    apply existsb_exists in E as (x & Hx & Ex). apply Nat.eqb_eq in Ex. subst x.
    exfalso. apply (Ht f); auto. }
  assert (E2 : expired now f = false).
  { unfold expired. destruct (dl f) as [x|] eqn:E; auto. apply Z.leb_gt. apply Hd. reflexivity. }
  rewrite E1, E2. simpl. apply IH; auto.
  - intros x Hx. rewrite Hx in Hle. destruct (dl f) as [y|] eqn:E; [|contradiction].
    specialize (Hd y eq_refl). lia.
  - intros Hnone g Hg. destruct (dl f) as [y|] eqn:E.
    + clear IH. (* parent has no deadline: its frames have none (wf) *)
      revert Hwr Hnone g Hg. clear. induction r as [|h t IHr]; simpl; intros Hw Hn g Hg; [contradiction|].
      destruct Hw as [Hw1 Hw2]. destruct Hg as [->|Hg]; [exact Hn|].
      apply IHr; auto. destruct (deadline t) eqn:Et; auto. rewrite Hn in Hw2. contradiction.
    + apply Hn; auto.
Qed.

(* a detached context (derived from Background) is untouched by whatever is cancelled outside *)
Lemma detached_alive cs now t now0 d :
  ~ In t cs -> now < now0 + d -> done cs now (with_timeout background t now0 d) = false.
Proof.
  intros Ht Hn. unfold with_timeout, background, done. simpl.
  assert (E : existsb (Nat.eqb t) cs = false).
  { destruct (existsb (Nat.eqb t) cs) eqn:E; auto.
    apply existsb_exists in E as (x & Hx & Ex). apply Nat.eqb_eq in Ex. subst. contradiction. }
  unfold tok_cancelled, expired. simpl. rewrite E. simpl.
  rewrite orb_false_r. apply Z.leb_gt. exact Hn.
Qed.

Lemma detached_deadline t now0 d : deadline (with_timeout background t now0 d) = Some (now0 + d).
Proof. reflexivity. Qed.
