(* Facts about json_eqb / wfj. *)
Require Import Verif.Common.Base Verif.Common.Json.

Lemma nodup_keys_cons {V} k (v : V) m :
  nodup_keys ((k, v) :: m) = true -> lookup k m = None /\ nodup_keys m = true.
Proof.
  unfold nodup_keys; simpl. intros H. apply andb_true_iff in H as [H1 H2].
  split; [|exact H2]. apply negb_true_iff in H1.
  apply lookup_None_notin. intros Hin. apply str_mem_In in Hin. unfold keys in *. congruence.
Qed.

Lemma wfj_obj_inv m : wfj (JObj m) = true ->
  nodup_keys m = true /\ Forall (fun kv => wfj (snd kv) = true) m.
Proof.
  simpl. intros H. apply andb_true_iff in H as [H1 H2]. split; [exact H1|].
  clear H1. induction m as [|[k x] r IH]; [constructor|].
  apply andb_true_iff in H2 as [Hx Hr]. constructor; [exact Hx|apply IH; exact Hr].
Qed.

Lemma wfj_arr_inv l : wfj (JArr l) = true -> Forall (fun x => wfj x = true) l.
Proof.
  simpl. induction l as [|x r IH]; intros H; [constructor|].
  apply andb_true_iff in H as [Hx Hr]. constructor; auto.
Qed.

(* the member loop of json_eqb on objects, named *)
Definition members_in (f : json -> json -> bool) (m m' : list (string * json)) : bool :=
  forallb (fun kv => match lookup (fst kv) m' with Some y => f (snd kv) y | None => false end) m.

Lemma json_eqb_obj m m' :
  json_eqb (JObj m) (JObj m') =
  Nat.eqb (List.length m) (List.length m') && members_in json_eqb m m'.
Proof.
  simpl. f_equal. unfold members_in.
  induction m as [|[k x] r IH]; simpl; [reflexivity|]. rewrite IH. reflexivity.
Qed.

Lemma json_eqb_arr l l' :
  json_eqb (JArr l) (JArr l') = list_eqb json_eqb l l'.
Proof.
  simpl. revert l'. induction l as [|x r IH]; destruct l' as [|y s]; simpl; try reflexivity.
  rewrite IH. reflexivity.
Qed.

Lemma json_eqb_refl v : wfj v = true -> json_eqb v v = true.
Proof.
  induction v using json_ind'; intros Hwf; try reflexivity.
  - simpl. destruct b; reflexivity.
  - simpl. apply str_eqb_refl.
  - simpl. apply str_eqb_refl.
  - rewrite json_eqb_arr. apply wfj_arr_inv in Hwf.
    induction l as [|x r IH]; simpl; [reflexivity|].
    inversion H; subst. inversion Hwf; subst.
    rewrite H2 by assumption. simpl. apply IH; assumption.
  - rewrite json_eqb_obj. rewrite Nat.eqb_refl. simpl.
    apply wfj_obj_inv in Hwf as [Hnd Hall].
    unfold members_in.
    (* generalise: every member of a suffix is found in the whole list with itself *)
    assert (G : forall pre suf, m = pre ++ suf -> nodup_keys m = true ->
              forallb (fun kv => match lookup (fst kv) m with
                                 | Some y => json_eqb (snd kv) y | None => false end) suf = true).
    { intros pre suf. revert pre. induction suf as [|[k x] r IH]; intros pre Heq Hn; [reflexivity|].
      simpl. apply andb_true_iff. split.
      - assert (Hl : lookup k m = Some x).
        { subst m. clear - Hn. induction pre as [|[k' x'] p IHp]; simpl.
          - rewrite str_eqb_refl. reflexivity.
          - simpl in Hn. apply nodup_keys_cons in Hn as [Hnone Hn'].
            destruct (str_eqb k k') eqn:E.
            + apply str_eqb_eq in E. subst k'.
              exfalso. apply lookup_None_notin in Hnone. apply Hnone.
              unfold keys. rewrite map_app. apply in_or_app. right. left. reflexivity.
            + apply IHp. exact Hn'. }
        rewrite Hl.
        rewrite Forall_forall in H, Hall.
        apply (H (k, x)); [|apply (Hall (k, x))]; subst m; apply in_or_app; right; left; reflexivity.
      - apply (IH (pre ++ [(k, x)])); [rewrite <- app_assoc; exact Heq|exact Hn]. }
    apply (G [] m); [reflexivity|exact Hnd].
  - discriminate.
Qed.

Lemma obj_eqb_refl m : wfj (JObj m) = true -> obj_eqb m m = true.
Proof. apply json_eqb_refl. Qed.
