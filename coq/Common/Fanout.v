(* The goroutine/channel pattern shared by parallelMerge (proxy/merging.go) and the
   concurrent middleware (proxy/concurrent.go), as a small-step transition system:

     n workers:    Running --LReturn i m--> Ret m --LSend i / LSendC i--> Sent
     two FIFO channels (payloads qp, failures qf) of capacity cap,
     one collector doing at most n iterations of a select (LRecv c, or LIdle when the
     select may fire on another ready case), then LFinish (which cancels the context);
     LTimeout cancels the context at any moment.

   A worker whose result is a payload selects between sending it and the cancellation
   of its context: once the context is cancelled it may deliver cancel_msg on the failure
   channel instead (LSendC).  step is a partial function: None = the label is disabled.
   Everything below holds for every n and every schedule (list of labels). *)
From Coq Require Import List Arith Lia Bool Permutation.
Import ListNotations.

Section Fanout.
  Variable msg : Type.
  Variable cap : nat.
  Inductive chan := ChP | ChF.
  Variable route : msg -> chan.
  Variable cancel_msg : msg.
  Hypothesis cancel_route : route cancel_msg = ChF.
  (* the collector may return early once what it received satisfies can_finish *)
  Variable can_finish : list msg -> bool.
  (* whether an iteration of the select can be consumed without a message *)
  Variable allow_idle : bool.

  (* Sent r d: the backend returned r, the worker delivered d *)
  Inductive wst := Running | Ret (m : msg) | Sent (r d : msg).

  Record st := { ws : list wst; qp : list msg; qf : list msg; got : list msg;
                 iters : nat; fin : bool; cancelled : bool }.

  Inductive label :=
  | LReturn (i : nat) (m : msg) | LSend (i : nat) | LSendC (i : nat)
  | LRecv (c : chan) | LIdle | LTimeout | LFinish.

  Fixpoint upd {A} (i : nat) (x : A) (l : list A) : list A :=
    match l, i with
    | [], _ => []
    | _ :: r, O => x :: r
    | y :: r, S j => y :: upd j x r
    end.

  Definition set_ws (s : st) (w : list wst) : st :=
    {| ws := w; qp := qp s; qf := qf s; got := got s; iters := iters s; fin := fin s; cancelled := cancelled s |}.

  Definition collecting (s : st) : bool :=
    negb (fin s) && (iters s <? length (ws s)) && negb (can_finish (got s)).

  Definition step (s : st) (l : label) : option st :=
    match l with
    | LReturn i m =>
        match nth_error (ws s) i with
        | Some Running => Some (set_ws s (upd i (Ret m) (ws s)))
        | _ => None
        end
    | LSend i =>
        match nth_error (ws s) i with
        | Some (Ret m) =>
            match route m with
            | ChP => if length (qp s) <? cap
                     then Some {| ws := upd i (Sent m m) (ws s); qp := qp s ++ [m]; qf := qf s; got := got s;
                                  iters := iters s; fin := fin s; cancelled := cancelled s |}
                     else None
            | ChF => if length (qf s) <? cap
                     then Some {| ws := upd i (Sent m m) (ws s); qp := qp s; qf := qf s ++ [m]; got := got s;
                                  iters := iters s; fin := fin s; cancelled := cancelled s |}
                     else None
            end
        | _ => None
        end
    | LSendC i =>
        match nth_error (ws s) i with
        | Some (Ret m) =>
            match route m with
            | ChP => if cancelled s && (length (qf s) <? cap)
                     then Some {| ws := upd i (Sent m cancel_msg) (ws s); qp := qp s; qf := qf s ++ [cancel_msg];
                                  got := got s; iters := iters s; fin := fin s; cancelled := cancelled s |}
                     else None
            | ChF => None
            end
        | _ => None
        end
    | LRecv c =>
        if collecting s then
          match c with
          | ChP => match qp s with
                   | m :: r => Some {| ws := ws s; qp := r; qf := qf s; got := got s ++ [m];
                                       iters := S (iters s); fin := fin s; cancelled := cancelled s |}
                   | [] => None end
          | ChF => match qf s with
                   | m :: r => Some {| ws := ws s; qp := qp s; qf := r; got := got s ++ [m];
                                       iters := S (iters s); fin := fin s; cancelled := cancelled s |}
                   | [] => None end
          end
        else None
    | LIdle =>
        if allow_idle && collecting s
        then Some {| ws := ws s; qp := qp s; qf := qf s; got := got s;
                     iters := S (iters s); fin := fin s; cancelled := cancelled s |}
        else None
    | LTimeout =>
        if cancelled s then None
        else Some {| ws := ws s; qp := qp s; qf := qf s; got := got s;
                     iters := iters s; fin := fin s; cancelled := true |}
    | LFinish =>
        if negb (fin s) && ((iters s =? length (ws s)) || can_finish (got s))
        then Some {| ws := ws s; qp := qp s; qf := qf s; got := got s;
                     iters := iters s; fin := true; cancelled := true |}
        else None
    end.

  Fixpoint run (s : st) (ls : list label) : option st :=
    match ls with
    | [] => Some s
    | l :: r => match step s l with Some s' => run s' r | None => None end
    end.

  Definition init (n : nat) : st :=
    {| ws := repeat Running n; qp := []; qf := []; got := []; iters := 0; fin := false; cancelled := false |}.

  (* messages delivered so far, in worker order *)
  Definition delivered (w : list wst) : list msg :=
    flat_map (fun x => match x with Sent _ d => [d] | _ => [] end) w.
  (* what each backend returned, for the workers that have returned *)
  Definition wf_wst (x : wst) : Prop :=
    match x with
    | Sent r d => d = r \/ (d = cancel_msg /\ route r = ChP)
    | _ => True
    end.

  Definition Inv (n : nat) (s : st) : Prop :=
    length (ws s) = n /\
    Permutation (delivered (ws s)) (got s ++ qp s ++ qf s) /\
    Forall wf_wst (ws s) /\
    length (got s) <= iters s /\ iters s <= n /\
    (allow_idle = false -> length (got s) = iters s).

  Lemma upd_length {A} i (x : A) l : length (upd i x l) = length l.
  Proof. revert i; induction l as [|y r IH]; intros [|i]; simpl; auto. Qed.

  Lemma delivered_upd_ret w i m :
    nth_error w i = Some Running -> delivered (upd i (Ret m) w) = delivered w.
  Proof.
    revert i; induction w as [|y r IH]; intros [|i] H; simpl in *; try discriminate.
    - inversion H; subst; reflexivity.
    - unfold delivered in *. simpl. rewrite (IH i H). reflexivity.
  Qed.

  Lemma delivered_upd_sent w i m d :
    nth_error w i = Some (Ret m) -> Permutation (delivered (upd i (Sent m d) w)) (d :: delivered w).
  Proof.
    revert i; induction w as [|y r IH]; intros [|i] H; simpl in *; try discriminate.
    - inversion H; subst. unfold delivered. simpl. apply Permutation_refl.
    - unfold delivered in *. simpl.
      eapply Permutation_trans; [apply Permutation_app_head; apply (IH i H)|].
      apply Permutation_sym. apply Permutation_middle.
  Qed.

  Lemma Forall_upd {A} (P : A -> Prop) i x l : Forall P l -> P x -> Forall P (upd i x l).
  Proof.
    intros Hl Hx. revert i. induction Hl as [|y r Hy Hr IH]; intros [|i]; simpl; constructor; auto.
  Qed.

  Lemma delivered_length_le w : length (delivered w) <= length w.
  Proof.
    unfold delivered. induction w as [|y r IH]; simpl; auto.
    rewrite app_length. destruct y; simpl; lia.
  Qed.

  (* a worker that has not sent yet leaves room *)
  Lemma delivered_lt w i : (forall r d, nth_error w i <> Some (Sent r d)) -> i < length w ->
    length (delivered w) < length w.
  Proof.
    revert i. induction w as [|y r IH]; intros [|i] Hn Hi; simpl in *; try lia.
    - unfold delivered. simpl. rewrite app_length.
      destruct y as [| m | r0 d]; simpl; try (pose proof (delivered_length_le r); unfold delivered in *; lia).
      exfalso. apply (Hn r0 d). reflexivity.
    - unfold delivered in *. simpl. rewrite app_length.
      assert (length (flat_map (fun x => match x with Sent _ d => [d] | _ => [] end) r) < length r)
        by (apply (IH i); [exact Hn|lia]).
      destruct y; simpl; lia.
  Qed.

  Lemma perm_ins_mid (a b c : list msg) m :
    Permutation (m :: a ++ b ++ c) (a ++ (b ++ [m]) ++ c).
  Proof.
    rewrite <- (app_assoc b). simpl. rewrite !app_assoc. apply Permutation_middle.
  Qed.
  Lemma perm_ins_end (a b c : list msg) m :
    Permutation (m :: a ++ b ++ c) (a ++ b ++ c ++ [m]).
  Proof. rewrite !app_assoc. apply Permutation_cons_append. Qed.

  Lemma step_inv n s l s' : Inv n s -> step s l = Some s' -> Inv n s'.
  Proof.
    unfold Inv. intros (Hn & Hp & Hw & Hg & Hi & Hid) H.
    destruct l as [i m|i|i|c| | |]; simpl in H.
    - destruct (nth_error (ws s) i) as [[| |]|] eqn:E; try discriminate.
      inversion H; subst; simpl. rewrite upd_length, (delivered_upd_ret _ _ _ E).
      repeat split; auto. apply Forall_upd; simpl; auto.
    - destruct (nth_error (ws s) i) as [[|m|]|] eqn:E; try discriminate.
      destruct (route m) eqn:R.
      + destruct (length (qp s) <? cap); try discriminate. inversion H; subst; simpl.
        rewrite upd_length. repeat split; auto.
        * eapply Permutation_trans; [apply (delivered_upd_sent _ _ _ m E)|].
          eapply Permutation_trans; [apply perm_skip; exact Hp|]. apply perm_ins_mid.
        * apply Forall_upd; simpl; auto.
      + destruct (length (qf s) <? cap); try discriminate. inversion H; subst; simpl.
        rewrite upd_length. repeat split; auto.
        * eapply Permutation_trans; [apply (delivered_upd_sent _ _ _ m E)|].
          eapply Permutation_trans; [apply perm_skip; exact Hp|]. apply perm_ins_end.
        * apply Forall_upd; simpl; auto.
    - destruct (nth_error (ws s) i) as [[|m|]|] eqn:E; try discriminate.
      destruct (route m) eqn:R; try discriminate.
      destruct (cancelled s && (length (qf s) <? cap)); try discriminate. inversion H; subst; simpl.
      rewrite upd_length. repeat split; auto.
      + eapply Permutation_trans; [apply (delivered_upd_sent _ _ _ cancel_msg E)|].
        eapply Permutation_trans; [apply perm_skip; exact Hp|]. apply perm_ins_end.
      + apply Forall_upd; simpl; auto.
    - destruct (collecting s) eqn:C; try discriminate.
      unfold collecting in C. apply andb_true_iff in C as [C C3]. apply andb_true_iff in C as [C1 C2].
      apply Nat.ltb_lt in C2.
      destruct c.
      + destruct (qp s) as [|m r] eqn:E; try discriminate. inversion H; subst; simpl in *.
        rewrite app_length; simpl. repeat split; auto; try lia.
        * rewrite <- app_assoc. simpl. exact Hp.
        * intros Ha. specialize (Hid Ha). lia.
      + destruct (qf s) as [|m r] eqn:E; try discriminate. inversion H; subst; simpl in *.
        rewrite app_length; simpl. repeat split; auto; try lia.
        * eapply Permutation_trans; [exact Hp|].
          rewrite <- app_assoc. apply Permutation_app_head. simpl.
          apply Permutation_sym. apply Permutation_middle.
        * intros Ha. specialize (Hid Ha). lia.
    - destruct allow_idle eqn:A; simpl in H; try discriminate.
      destruct (collecting s) eqn:C; try discriminate.
      unfold collecting in C. apply andb_true_iff in C as [C C3]. apply andb_true_iff in C as [C1 C2].
      apply Nat.ltb_lt in C2.
      inversion H; subst; simpl. repeat split; auto; try lia.
    - destruct (cancelled s); try discriminate. inversion H; subst; simpl. repeat split; auto.
    - destruct (negb (fin s) && ((iters s =? length (ws s)) || can_finish (got s))); try discriminate.
      inversion H; subst; simpl. repeat split; auto.
  Qed.

  Lemma run_inv n ls : forall s s', Inv n s -> run s ls = Some s' -> Inv n s'.
  Proof.
    induction ls as [|l r IH]; simpl; intros s s' Hi H.
    - inversion H; subst; auto.
    - destruct (step s l) as [s0|] eqn:E; try discriminate.
      apply (IH s0 s'); [|exact H]. apply (step_inv n s l s0 Hi E).
  Qed.

  Lemma delivered_repeat n : delivered (repeat Running n) = [].
  Proof. unfold delivered. induction n; simpl; auto. Qed.

  Lemma init_inv n : Inv n (init n).
  Proof.
    unfold Inv, init; simpl. rewrite repeat_length, delivered_repeat.
    repeat split; auto; try lia.
    induction n; simpl; constructor; simpl; auto.
  Qed.

  Lemma reachable_inv n ls s : run (init n) ls = Some s -> Inv n s.
  Proof. apply run_inv, init_inv. Qed.

  (* F1: with cap >= n, a worker holding a result is never blocked: its send is enabled
     in every reachable state, whatever the schedule *)
  Theorem no_blocked_sender n ls s i m :
    n <= cap -> run (init n) ls = Some s -> nth_error (ws s) i = Some (Ret m) ->
    step s (LSend i) <> None.
  Proof.
    intros Hcap Hr Hi. destruct (reachable_inv n ls s Hr) as (Hn & Hp & _).
    assert (Hlt : length (delivered (ws s)) < n).
    { subst n. apply (delivered_lt (ws s) i).
      - intros r d. rewrite Hi. discriminate.
      - apply nth_error_Some. rewrite Hi. discriminate. }
    apply Permutation_length in Hp. rewrite !app_length in Hp.
    simpl. rewrite Hi. destruct (route m).
    - destruct (Nat.ltb_spec (length (qp s)) cap); [discriminate|lia].
    - destruct (Nat.ltb_spec (length (qf s)) cap); [discriminate|lia].
  Qed.

  (* the cancelled variant of the send is never blocked either *)
  Theorem no_blocked_cancel_sender n ls s i m :
    n <= cap -> run (init n) ls = Some s -> nth_error (ws s) i = Some (Ret m) ->
    route m = ChP -> cancelled s = true -> step s (LSendC i) <> None.
  Proof.
    intros Hcap Hr Hi HR Hc. destruct (reachable_inv n ls s Hr) as (Hn & Hp & _).
    assert (Hlt : length (delivered (ws s)) < n).
    { subst n. apply (delivered_lt (ws s) i).
      - intros r d. rewrite Hi. discriminate.
      - apply nth_error_Some. rewrite Hi. discriminate. }
    apply Permutation_length in Hp. rewrite !app_length in Hp.
    simpl. rewrite Hi, HR, Hc. simpl.
    destruct (Nat.ltb_spec (length (qf s)) cap); [discriminate|lia].
  Qed.

  (* F3: what the collector has dequeued is always part of what the workers delivered *)
  Theorem got_sub_delivered n ls s :
    run (init n) ls = Some s -> exists rest, Permutation (delivered (ws s)) (got s ++ rest).
  Proof.
    intros Hr. destruct (reachable_inv n ls s Hr) as (_ & Hp & _).
    exists (qp s ++ qf s). exact Hp.
  Qed.

  Lemma delivered_full w : length (delivered w) = length w ->
    Forall (fun x => exists r d, x = Sent r d) w.
  Proof.
    induction w as [|y r IH]; intros H; [constructor|].
    unfold delivered in H. simpl in H. rewrite app_length in H.
    pose proof (delivered_length_le r) as Hle. unfold delivered in Hle.
    destruct y as [|m|r0 d]; simpl in H; try lia.
    constructor; [eauto|]. apply IH. unfold delivered. lia.
  Qed.

  (* F2+F3: when the collector has dequeued n messages, they are exactly (as a multiset)
     the n messages delivered, one per worker; the channels are empty; every worker has
     terminated its send *)
  Theorem full_collection n ls s :
    run (init n) ls = Some s -> length (got s) = n ->
    Permutation (got s) (delivered (ws s)) /\ qp s = [] /\ qf s = [] /\
    Forall (fun x => exists r d, x = Sent r d /\ (d = r \/ (d = cancel_msg /\ route r = ChP))) (ws s).
  Proof.
    intros Hr Hg. destruct (reachable_inv n ls s Hr) as (Hn & Hp & Hw & _).
    pose proof (Permutation_length Hp) as Hl. rewrite !app_length in Hl.
    pose proof (delivered_length_le (ws s)) as Hle.
    assert (Hq : length (qp s) = 0 /\ length (qf s) = 0) by lia.
    destruct Hq as [Hq1 Hq2].
    apply length_zero_iff_nil in Hq1. apply length_zero_iff_nil in Hq2.
    rewrite Hq1, Hq2, !app_nil_r in Hp.
    repeat split; auto; [apply Permutation_sym; exact Hp|].
    assert (Hfull : length (delivered (ws s)) = length (ws s)) by lia.
    apply delivered_full in Hfull.
    rewrite Forall_forall in *. intros x Hx.
    destruct (Hfull x Hx) as (r & d & ->). exists r, d. split; [reflexivity|].
    apply (Hw _ Hx).
  Qed.

  (* ---- termination of the workers after the collector has returned (F4) ---- *)
  Definition weight (x : wst) : nat := match x with Running => 2 | Ret _ => 1 | Sent _ _ => 0 end.
  Definition remaining (w : list wst) : nat := fold_right (fun x a => weight x + a) 0 w.

  Lemma remaining_upd w i x y :
    nth_error w i = Some y -> remaining (upd i x w) + weight y = remaining w + weight x.
  Proof.
    revert i; induction w as [|z r IH]; intros [|i] H; simpl in *; try discriminate.
    - inversion H; subst. lia.
    - specialize (IH i H). lia.
  Qed.

  Lemma remaining_le w : remaining w <= 2 * length w.
  Proof. induction w as [|y r IH]; simpl; auto. destruct y; simpl; lia. Qed.

  (* after the collector has finished only worker steps are enabled, and each of them
     strictly decreases the remaining work *)
  Lemma step_after_fin s l s' :
    fin s = true -> cancelled s = true -> step s l = Some s' ->
    fin s' = true /\ cancelled s' = true /\ remaining (ws s') < remaining (ws s).
  Proof.
    intros Hf Hc H. destruct l as [i m|i|i|c| | |]; simpl in H.
    - destruct (nth_error (ws s) i) as [[| |]|] eqn:E; try discriminate.
      inversion H; subst; simpl. pose proof (remaining_upd _ _ (Ret m) _ E). simpl in *. repeat split; auto; lia.
    - destruct (nth_error (ws s) i) as [[|m|]|] eqn:E; try discriminate.
      destruct (route m).
      + destruct (length (qp s) <? cap); try discriminate. inversion H; subst; simpl.
        pose proof (remaining_upd _ _ (Sent m m) _ E). simpl in *. repeat split; auto; lia.
      + destruct (length (qf s) <? cap); try discriminate. inversion H; subst; simpl.
        pose proof (remaining_upd _ _ (Sent m m) _ E). simpl in *. repeat split; auto; lia.
    - destruct (nth_error (ws s) i) as [[|m|]|] eqn:E; try discriminate.
      destruct (route m); try discriminate.
      destruct (cancelled s && (length (qf s) <? cap)); try discriminate. inversion H; subst; simpl.
      pose proof (remaining_upd _ _ (Sent m cancel_msg) _ E). simpl in *. repeat split; auto; lia.
    - unfold collecting in H. rewrite Hf in H. simpl in H. discriminate.
    - unfold collecting in H. rewrite Hf in H. simpl in H. rewrite andb_false_r in H. discriminate.
    - rewrite Hc in H. discriminate.
    - rewrite Hf in H. simpl in H. discriminate.
  Qed.

  (* every continuation after the return of the collector has at most 2n steps *)
  Theorem bounded_after_fin ls : forall s s',
    fin s = true -> cancelled s = true -> run s ls = Some s' ->
    length ls + remaining (ws s') <= remaining (ws s).
  Proof.
    induction ls as [|l r IH]; simpl; intros s s' Hf Hc H.
    - inversion H; subst. lia.
    - destruct (step s l) as [s0|] eqn:E; try discriminate.
      destruct (step_after_fin s l s0 Hf Hc E) as (Hf0 & Hc0 & Hlt).
      specialize (IH s0 s' Hf0 Hc0 H). lia.
  Qed.

  (* ... and while some worker has not terminated, some step is enabled (a Running
     backend can return - the environment assumption that a backend returns once its
     context is done - and a returned worker can always send, by F1) *)
  Theorem progress_after_fin n ls s i (any : msg) :
    n <= cap -> run (init n) ls = Some s ->
    i < length (ws s) -> (forall r d, nth_error (ws s) i <> Some (Sent r d)) ->
    exists l, step s l <> None.
  Proof.
    intros Hcap Hr Hi Hns.
    destruct (nth_error (ws s) i) as [x|] eqn:E; [|apply nth_error_None in E; lia].
    destruct x as [|m|r d].
    - exists (LReturn i any). simpl. rewrite E. discriminate.
    - exists (LSend i). apply (no_blocked_sender n ls s i m Hcap Hr E).
    - exfalso. apply (Hns r d). reflexivity.
  Qed.

  Lemma remaining_zero_all_sent w : remaining w = 0 -> Forall (fun x => exists r d, x = Sent r d) w.
  Proof.
    induction w as [|y r IH]; simpl; intros H; [constructor|].
    destruct y as [|m|r0 d]; simpl in H; try lia. constructor; [eauto|apply IH; lia].
  Qed.
End Fanout.

Arguments Running {msg}.
Arguments Ret {msg}.
Arguments Sent {msg}.
Arguments LReturn {msg}.
Arguments LSend {msg}.
Arguments LSendC {msg}.
Arguments LRecv {msg}.
Arguments LIdle {msg}.
Arguments LTimeout {msg}.
Arguments LFinish {msg}.
