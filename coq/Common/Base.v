(* Shared basics: byte strings, association lists, small boolean helpers.
   Standard library only. *)
From Coq Require Export List String Ascii Bool Arith ZArith NArith Lia.
Export ListNotations.
Open Scope string_scope.
Open Scope list_scope.

(* A byte string given by its byte codes: the emitter of the harness uses this for
   every string that is not plain printable ASCII. *)
Definition bs (l : list N) : string := string_of_list_ascii (map ascii_of_N l).
Arguments bs (l)%N_scope.

Definition str_eqb (a b : string) : bool := String.eqb a b.

Lemma str_eqb_eq a b : str_eqb a b = true <-> a = b.
Proof. apply String.eqb_eq. Qed.

Lemma str_eqb_refl a : str_eqb a a = true.
Proof. apply String.eqb_refl. Qed.

Lemma str_eqb_neq a b : str_eqb a b = false <-> a <> b.
Proof. apply String.eqb_neq. Qed.

(* Association lists keyed by strings (the model of a Go map: the list order is one
   iteration order; keys are meant to be distinct, see nodup_keys). *)
Section Assoc.
  Context {V : Type}.
  Fixpoint lookup (k : string) (m : list (string * V)) : option V :=
    match m with
    | [] => None
    | (k', v) :: r => if str_eqb k k' then Some v else lookup k r
    end.
  Fixpoint remove (k : string) (m : list (string * V)) : list (string * V) :=
    match m with
    | [] => []
    | (k', v) :: r => if str_eqb k k' then remove k r else (k', v) :: remove k r
    end.
  (* set keeps the position of an existing key (irrelevant for map semantics) *)
  Definition set (k : string) (v : V) (m : list (string * V)) : list (string * V) :=
    (k, v) :: remove k m.
  Definition keys (m : list (string * V)) : list string := map fst m.
  Definition mem (k : string) (m : list (string * V)) : bool :=
    match lookup k m with Some _ => true | None => false end.

  Lemma lookup_remove_eq k m : lookup k (remove k m) = None.
  Proof.
    induction m as [|[k' v] r IH]; simpl; auto.
    destruct (str_eqb k k') eqn:E; auto. simpl. rewrite E. exact IH.
  Qed.
  Lemma lookup_remove_neq k k' m : k <> k' -> lookup k (remove k' m) = lookup k m.
  Proof.
    intros Hn. induction m as [|[k2 v] r IH]; simpl; auto.
    destruct (str_eqb k' k2) eqn:E.
    - apply str_eqb_eq in E. subst k2.
      destruct (str_eqb k k') eqn:E2; [apply str_eqb_eq in E2; contradiction|exact IH].
    - simpl. destruct (str_eqb k k2); auto.
  Qed.
  Lemma lookup_set_eq k v m : lookup k (set k v m) = Some v.
  Proof. unfold set. simpl. rewrite str_eqb_refl. reflexivity. Qed.
  Lemma lookup_set_neq k k' v m : k <> k' -> lookup k (set k' v m) = lookup k m.
  Proof.
    intros Hn. unfold set. simpl.
    destruct (str_eqb k k') eqn:E; [apply str_eqb_eq in E; contradiction|].
    apply lookup_remove_neq; assumption.
  Qed.
  Lemma lookup_set k k' v m :
    lookup k (set k' v m) = if str_eqb k k' then Some v else lookup k m.
  Proof.
    destruct (str_eqb k k') eqn:E.
    - apply str_eqb_eq in E. subst. apply lookup_set_eq.
    - apply str_eqb_neq in E. apply lookup_set_neq; assumption.
  Qed.
  Lemma lookup_In k v m : lookup k m = Some v -> In (k, v) m.
  Proof.
    induction m as [|[k' v'] r IH]; simpl; [discriminate|].
    destruct (str_eqb k k') eqn:E; intros H.
    - apply str_eqb_eq in E. inversion H; subst. left; reflexivity.
    - right; auto.
  Qed.
  Lemma lookup_None_notin k m : lookup k m = None <-> ~ In k (keys m).
  Proof.
    induction m as [|[k' v'] r IH]; simpl; [tauto|].
    destruct (str_eqb k k') eqn:E.
    - apply str_eqb_eq in E. subst. split; [discriminate|intros H; exfalso; apply H; left; reflexivity].
    - apply str_eqb_neq in E. rewrite IH. unfold keys. split; intros H.
      + intros [H1|H1]; [congruence|contradiction].
      + intros H1. apply H. right. exact H1.
  Qed.
  Lemma lookup_Some_in k v m : lookup k m = Some v -> In k (keys m).
  Proof. intros H. apply lookup_In in H. unfold keys. apply in_map_iff. exists (k, v); auto. Qed.
  Lemma in_keys_lookup k m : In k (keys m) -> exists v, lookup k m = Some v.
  Proof.
    intros H. destruct (lookup k m) eqn:E; [eauto|].
    apply lookup_None_notin in E. contradiction.
  Qed.
End Assoc.

Fixpoint str_mem (x : string) (l : list string) : bool :=
  match l with [] => false | y :: r => str_eqb x y || str_mem x r end.

Lemma str_mem_In x l : str_mem x l = true <-> In x l.
Proof.
  induction l as [|y r IH]; simpl; [split; [discriminate|tauto]|].
  rewrite orb_true_iff, IH, str_eqb_eq. split; intros [H|H]; auto.
Qed.

Fixpoint nodup_str (l : list string) : bool :=
  match l with [] => true | x :: r => negb (str_mem x r) && nodup_str r end.

Lemma nodup_str_NoDup l : nodup_str l = true <-> NoDup l.
Proof.
  induction l as [|x r IH]; simpl.
  - split; [constructor|reflexivity].
  - rewrite andb_true_iff, negb_true_iff, IH. split.
    + intros [H1 H2]. constructor; [|exact H2]. intros Hin. apply str_mem_In in Hin. congruence.
    + intros H. inversion H; subst. split; [|assumption].
      destruct (str_mem x r) eqn:E; [apply str_mem_In in E; contradiction|reflexivity].
Qed.

Definition nodup_keys {V} (m : list (string * V)) : bool := nodup_str (keys m).

(* multiset equality of string lists (boolean) *)
Fixpoint count_str (x : string) (l : list string) : nat :=
  match l with [] => 0 | y :: r => (if str_eqb x y then 1 else 0) + count_str x r end.
Definition same_mset_str (a b : list string) : bool :=
  Nat.eqb (List.length a) (List.length b) &&
  forallb (fun x => Nat.eqb (count_str x a) (count_str x b)) a.

Definition opt_eqb {A} (f : A -> A -> bool) (a b : option A) : bool :=
  match a, b with Some x, Some y => f x y | None, None => true | _, _ => false end.

Fixpoint list_eqb {A} (f : A -> A -> bool) (a b : list A) : bool :=
  match a, b with
  | [], [] => true
  | x :: r, y :: s => f x y && list_eqb f r s
  | _, _ => false
  end.

Lemma list_eqb_eq {A} (f : A -> A -> bool) :
  (forall x y, f x y = true <-> x = y) -> forall a b, list_eqb f a b = true <-> a = b.
Proof.
  intros Hf. induction a as [|x r IH]; destruct b as [|y s]; simpl; try (split; [discriminate|discriminate]); [tauto|].
  rewrite andb_true_iff, Hf, IH. split; [intros [-> ->]; reflexivity|intros H; inversion H; auto].
Qed.

(* result of one case of a correspondence shard: (index, corr_ok, prop_ok) for the
   cases that do not pass both *)
Definition verdict := (nat * bool * bool)%type.
