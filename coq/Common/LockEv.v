(* Lock bracketing of a method, as regenerated from the sources by harness/cmd/facts:
   the lock calls and the accesses to the shared object in program order (a deferred
   Unlock moved to the end, same-receiver calls inlined).  `disciplined` is the executable
   lock discipline the registries and helpers are expected to follow; Generated/Facts_locks_*.v
   re-prove it over the regenerated event lists on every check, and Proof/C20*.v proves that a
   disciplined method is data-race free and atomic in the interleaving model. *)
From Coq Require Import List String Bool.
Import ListNotations.

Inductive lev :=
| LLock (m : string) | LUnlock (m : string) | LRLock (m : string) | LRUnlock (m : string)
| LRead (o : string) | LWrite (o : string)
| LSafeCall (o f : string).   (* a method call on an object that does its own locking *)

Inductive held := HNone | HRead (m : string) | HWrite (m : string).

(* one step of the discipline: None = violated *)
Definition lev_step (h : held) (e : lev) : option held :=
  match e, h with
  | LLock m, HNone => Some (HWrite m)
  | LRLock m, HNone => Some (HRead m)
  | LUnlock m, HWrite m' => if String.eqb m m' then Some HNone else None
  | LRUnlock m, HRead m' => if String.eqb m m' then Some HNone else None
  | LRead _, HRead _ => Some h
  | LRead _, HWrite _ => Some h
  | LWrite _, HWrite _ => Some h
  | LSafeCall _ _, _ => Some h
  | _, _ => None
  end.

Fixpoint lev_run (h : held) (l : list lev) : option held :=
  match l with
  | [] => Some h
  | e :: r => match lev_step h e with Some h' => lev_run h' r | None => None end
  end.

(* self-locking calls made while no lock is held: a method with two or more of them is a
   check-then-act sequence that other goroutines can interleave with *)
Fixpoint unlocked_calls (h : held) (l : list lev) : nat :=
  match l with
  | [] => 0
  | e :: r =>
      let n := match e, h with LSafeCall _ _, HNone => 1 | _, _ => 0 end in
      match lev_step h e with Some h' => n + unlocked_calls h' r | None => n end
  end.

(* every access is under a suitable lock, every lock taken is released, and at most one
   self-locking call happens outside a critical section *)
Definition disciplined (l : list lev) : bool :=
  match lev_run HNone l with
  | Some HNone => Nat.leb (unlocked_calls HNone l) 1
  | _ => false
  end.

(* package initialisers run before any goroutine exists *)
Definition is_init (name : string) : bool :=
  let fix suffix (s : string) : bool :=
    match s with
    | EmptyString => false
    | String _ r => String.eqb s ".init" || suffix r
    end in suffix name.

Definition all_disciplined (ms : list (string * list lev)) : bool :=
  forallb (fun m => is_init (fst m) || disciplined (snd m)) ms.

Definition has_methods (names : list string) (ms : list (string * list lev)) : bool :=
  forallb (fun n => existsb (fun m => String.eqb n (fst m)) ms) names.

(* does the method touch the shared object at all (guards against an extractor that
   found nothing) *)
Definition touches (l : list lev) : bool :=
  existsb (fun e => match e with LRead _ | LWrite _ | LSafeCall _ _ => true | _ => false end) l.
Definition all_touch (ms : list (string * list lev)) : bool := forallb (fun m => touches (snd m)) ms.

(* all lock events of a method name the one lock m: `disciplined` alone does not prevent two
   methods from guarding one object with different locks *)
Definition one_lock (m : string) (l : list lev) : bool :=
  forallb (fun e => match e with
                    | LLock m' | LUnlock m' | LRLock m' | LRUnlock m' => String.eqb m m'
                    | _ => true
                    end) l.
Definition all_one_lock (m : string) (ms : list (string * list lev)) : bool :=
  forallb (fun x => is_init (fst x) || one_lock m (snd x)) ms.

(* ---- path lists: the extractor enumerates every control-flow path of a method (an early
   return forks a path, a deferred unlock is run by the paths that passed the defer) ---- *)
Definition paths_disciplined (ps : list (list lev)) : bool := forallb disciplined ps.
Definition paths_one_lock (m : string) (ps : list (list lev)) : bool := forallb (one_lock m) ps.
Definition paths_touch (ps : list (list lev)) : bool := existsb touches ps.

Definition all_paths_disciplined (ms : list (string * list (list lev))) : bool :=
  forallb (fun x => is_init (fst x) || paths_disciplined (snd x)) ms.
Definition all_paths_one_lock (m : string) (ms : list (string * list (list lev))) : bool :=
  forallb (fun x => is_init (fst x) || paths_one_lock m (snd x)) ms.
Definition all_paths_touch (ms : list (string * list (list lev))) : bool :=
  forallb (fun x => paths_touch (snd x)) ms.
Definition has_path_methods (names : list string) (ms : list (string * list (list lev))) : bool :=
  forallb (fun n => existsb (fun m => String.eqb n (fst m)) ms) names.

(* ---- small helpers for the other fact topics ---- *)
Fixpoint index_of (a : string) (l : list string) : option nat :=
  match l with
  | [] => None
  | x :: r => if String.eqb a x then Some 0 else option_map S (index_of a r)
  end.
(* a is applied before b (so b wraps a) in a list of constructors in program order *)
Definition before (a b : string) (l : list string) : bool :=
  match index_of a l, index_of b l with
  | Some i, Some j => Nat.ltb i j
  | _, _ => false
  end.
Definition starts_with (p s : string) : bool := String.prefix p s.
(* channel capacity classes written by the extractor: "unbuffered" | "lit:<n>" | "expr:<text>" *)
Definition same_expr_caps (n : nat) (caps : list string) : bool :=
  match caps with
  | [] => false
  | c :: r => starts_with "expr:" c && forallb (String.eqb c) r && Nat.eqb (List.length caps) n
  end.
Definition pair_eqb (a b : string * string) : bool := String.eqb (fst a) (fst b) && String.eqb (snd a) (snd b).
Definition all_derived (l : list (string * string)) : bool :=
  negb (Nat.eqb (List.length l) 0) && forallb (fun p => String.eqb (snd p) "derived") l.

(* a method that makes two or more self-locking calls on a path is a compound operation
   (check-then-act): all of them must sit inside ONE critical section of the WRITE lock - no call
   before the lock is taken, none after it is released, no unlock in between (under a read lock two
   goroutines could still interleave their compound operations: Proof/C20_nsgen.v has the witness) *)
Definition is_safecall (e : lev) : bool := match e with LSafeCall _ _ => true | _ => false end.
Definition is_lockop (e : lev) : bool :=
  match e with LLock _ | LUnlock _ | LRLock _ | LRUnlock _ => true | _ => false end.
Fixpoint drop_until_call (l : list lev) : list lev :=
  match l with
  | [] => []
  | e :: r => if is_safecall e then l else drop_until_call r
  end.
Fixpoint locked_before_first_call (h : held) (l : list lev) : bool :=
  match l with
  | [] => true
  | e :: r => if is_safecall e then match h with HWrite _ => true | _ => false end   (* under the WRITE lock *)
              else match lev_step h e with Some h' => locked_before_first_call h' r | None => false end
  end.
Definition calls_atomic (l : list lev) : bool :=
  if Nat.leb (List.length (filter is_safecall l)) 1 then true
  else
    let mid := rev (drop_until_call (rev (drop_until_call l))) in   (* first call .. last call *)
    negb (existsb is_lockop mid) && locked_before_first_call HNone l.
Definition all_paths_calls_atomic (ms : list (string * list (list lev))) : bool :=
  forallb (fun x => is_init (fst x) || forallb calls_atomic (snd x)) ms.

(* ---- name-free version of one_lock: the methods of one owner (a type, or a package for plain
   functions) never name two different locks.  The extractor finds locks and shared objects by
   their declared types, so renaming a lock variable regenerates facts that still pass; a second
   lock guarding the same object through another method of the owner does not. ---- *)
Fixpoint owner_aux (s : string) : option string :=
  match s with
  | EmptyString => None
  | String c r => match owner_aux r with
                  | Some p => Some (String c p)
                  | None => if Ascii.eqb c (Ascii.ascii_of_nat 46) then Some EmptyString else None
                  end
  end.
Definition owner (s : string) : string := match owner_aux s with Some p => p | None => EmptyString end.
Definition lock_names (l : list lev) : list string :=
  flat_map (fun e => match e with LLock m | LUnlock m | LRLock m | LRUnlock m => [m] | _ => [] end) l.
Definition method_locks (x : string * list (list lev)) : list string := flat_map lock_names (snd x).
Definition all_paths_owner_one_lock (ms : list (string * list (list lev))) : bool :=
  forallb (fun x => is_init (fst x) ||
    forallb (fun y => is_init (fst y) || negb (String.eqb (owner (fst x)) (owner (fst y))) ||
      forallb (fun a => forallb (String.eqb a) (method_locks y)) (method_locks x)) ms) ms.

Lemma one_lock_lock_names m l : one_lock m l = forallb (String.eqb m) (lock_names l).
Proof.
  induction l as [|e r IH]; [reflexivity|].
  unfold one_lock, lock_names in *. cbn [forallb flat_map]. rewrite forallb_app, <- IH.
  destruct e; cbn [forallb]; rewrite ?andb_true_r; reflexivity.
Qed.

(* what the theorems of C20 need: every method has ONE lock that all its paths name *)
Lemma owner_one_lock_method ms x :
  all_paths_owner_one_lock ms = true -> In x ms -> is_init (fst x) = false ->
  exists m, paths_one_lock m (snd x) = true.
Proof.
  intros H Hx Hi. unfold all_paths_owner_one_lock in H. rewrite forallb_forall in H.
  specialize (H x Hx). rewrite Hi in H. cbn [orb] in H. rewrite forallb_forall in H.
  specialize (H x Hx). rewrite Hi, String.eqb_refl in H. cbn [orb negb] in H.
  destruct (method_locks x) as [|m rest] eqn:E.
  - exists EmptyString. unfold paths_one_lock. rewrite forallb_forall. intros p Hp.
    rewrite one_lock_lock_names.
    assert (lock_names p = []) as ->; [|reflexivity].
    unfold method_locks in E. destruct (lock_names p) as [|a r] eqn:Ep; [reflexivity|].
    exfalso. assert (In a (flat_map lock_names (snd x))) as Hin
      by (apply in_flat_map; exists p; split; [exact Hp|rewrite Ep; left; reflexivity]).
    rewrite E in Hin. destruct Hin.
  - exists m. unfold paths_one_lock. rewrite forallb_forall. intros p Hp.
    rewrite one_lock_lock_names. rewrite forallb_forall. intros a Ha.
    rewrite forallb_forall in H. specialize (H m (or_introl eq_refl)).
    rewrite forallb_forall in H. apply H. rewrite <- E. unfold method_locks.
    apply in_flat_map. exists p. split; assumption.
Qed.
