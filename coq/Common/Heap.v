(* Heap.v - shared objects, fork-tree programs, interleaving semantics, the structural
   race checker [race_free] and theorem H1 (non-interference): under [race_free] every
   interleaving gives every thread exactly the read results of the schedule-free
   (happens-before) semantics.  Second part: H2, lock discipline for flat thread pools.
   Standard library only; generic in the type of object names and of values.
   Used by C03 (parallel backends), C16 (shadow backends), C20 (registries). *)
From Coq Require Import List Arith Bool Lia.
Import ListNotations.

Section Heap.
  Variable obj : Type.
  Variable val : Type.
  Variable obj_eqb : obj -> obj -> bool.
  Hypothesis obj_eqb_spec : forall a b, obj_eqb a b = true <-> a = b.

  (* one atomic access: granularity is the object (a Go map, a struct, a reader) *)
  Inductive acc := Rd (o : obj) | Wr (o : obj) (v : val).
  (* a goroutine body: accesses in program order and spawns ([Fork p] = `go p`); joins are
     ignored (that can only add model races, never hide one) *)
  Inductive item := Acc (a : acc) | Fork (p : list item).
  Definition prog := list item.

  Definition aobj (a : acc) : obj := match a with Rd o => o | Wr o _ => o end.
  Definition is_wr (a : acc) : bool := match a with Wr _ _ => true | _ => false end.
  Definition conflict (a b : acc) : bool := obj_eqb (aobj a) (aobj b) && (is_wr a || is_wr b).

  Fixpoint accs_item (i : item) : list acc :=
    match i with
    | Acc a => [a]
    | Fork p => (fix go (p : list item) := match p with [] => [] | x :: r => accs_item x ++ go r end) p
    end.
  (* every access performed by p or by anything it spawns *)
  Definition accs (p : prog) : list acc := flat_map accs_item p.
  Lemma accs_fork p : accs_item (Fork p) = accs p.
  Proof. cbn [accs_item]. unfold accs. induction p as [|x r IH]; cbn [flat_map]; [reflexivity|]. rewrite <- IH. reflexivity. Qed.

  Definition no_conflict (l1 l2 : list acc) : bool :=
    forallb (fun a => forallb (fun b => negb (conflict a b)) l2) l1.

  (* the checker: what a spawned sub-program does must not conflict with what its parent
     does afterwards (including everything the parent spawns afterwards) *)
  Fixpoint rf_item (i : item) : bool :=
    match i with
    | Acc _ => true
    | Fork p => (fix go (p : list item) := match p with
                  | [] => true
                  | x :: r => rf_item x && go r &&
                              match x with Fork q => no_conflict (accs_item x) (flat_map accs_item r) | _ => true end
                  end) p
    end.
  Fixpoint race_free (p : prog) : bool :=
    match p with
    | [] => true
    | x :: r => rf_item x && race_free r &&
                match x with Fork q => no_conflict (accs_item x) (accs r) | _ => true end
    end.
  Lemma rf_fork p : rf_item (Fork p) = race_free p.
  Proof. cbn [rf_item]. induction p as [|x r IH]; cbn [race_free]; [reflexivity|]. rewrite <- IH. reflexivity. Qed.

  (* ---- concurrent (interleaving) semantics ---- *)
  Definition heap := obj -> val.
  Definition upd (h : heap) (o : obj) (v : val) : heap := fun o' => if obj_eqb o' o then v else h o'.

  (* tid: path of fork indices from the root; log: results of the reads performed so far;
     shadow: the heap as this thread's own history (and its ancestors' up to the fork)
     predicts it - ghost state, never consulted by [step] for a result *)
  Record thread := { tid : list nat; rem : prog; log : list val; shadow : heap; nforks : nat }.
  Record state := { hp : heap; pool : list thread }.

  Fixpoint set_nth {A} (n : nat) (x : A) (l : list A) : list A :=
    match l, n with [], _ => [] | _ :: r, O => x :: r | y :: r, S m => y :: set_nth m x r end.

  (* one step of thread number j of the pool; None = no such thread or it has finished *)
  Definition step (s : state) (j : nat) : option state :=
    match nth_error (pool s) j with
    | None => None
    | Some t =>
      match rem t with
      | [] => None
      | Acc (Rd o) :: r =>
          Some {| hp := hp s;
                  pool := set_nth j {| tid := tid t; rem := r; log := log t ++ [hp s o]; shadow := shadow t; nforks := nforks t |} (pool s) |}
      | Acc (Wr o v) :: r =>
          Some {| hp := upd (hp s) o v;
                  pool := set_nth j {| tid := tid t; rem := r; log := log t; shadow := upd (shadow t) o v; nforks := nforks t |} (pool s) |}
      | Fork p :: r =>
          Some {| hp := hp s;
                  pool := set_nth j {| tid := tid t; rem := r; log := log t; shadow := shadow t; nforks := S (nforks t) |} (pool s)
                          ++ [ {| tid := tid t ++ [nforks t]; rem := p; log := []; shadow := shadow t; nforks := 0 |} ] |}
      end
    end.
  (* a schedule is the list of pool indices that move, one per step: every interleaving *)
  Fixpoint run (s : state) (sched : list nat) : option state :=
    match sched with [] => Some s | j :: r => match step s j with Some s' => run s' r | None => None end end.
  Definition init (p : prog) (h : heap) : state :=
    {| hp := h; pool := [ {| tid := []; rem := p; log := []; shadow := h; nforks := 0 |} ] |}.

  (* ---- schedule-free (happens-before) semantics ---- *)
  (* what a thread running p from the heap sh reads *)
  Fixpoint exp_log (p : prog) (sh : heap) : list val :=
    match p with
    | [] => []
    | Acc (Rd o) :: r => sh o :: exp_log r sh
    | Acc (Wr o v) :: r => exp_log r (upd sh o v)
    | Fork _ :: r => exp_log r sh
    end.

  (* logs of everything spawned, transitively: [kid_logs_item (Fork q) path sh] is the thread
     [path] running q from sh, followed by its descendants *)
  Fixpoint kid_logs_item (i : item) (path : list nat) (sh : heap) : list (list nat * list val) :=
    match i with
    | Acc _ => []
    | Fork q =>
        (path, exp_log q sh) ::
        (fix go (q : list item) (sh : heap) (n : nat) : list (list nat * list val) :=
           match q with
           | [] => []
           | x :: r =>
               match x with
               | Acc (Rd _) => go r sh n
               | Acc (Wr o v) => go r (upd sh o v) n
               | Fork _ => kid_logs_item x (path ++ [n]) sh ++ go r sh (S n)
               end
           end) q sh 0
    end.
  Fixpoint kids (p : prog) (path : list nat) (sh : heap) (n : nat) : list (list nat * list val) :=
    match p with
    | [] => []
    | Acc (Rd _) :: r => kids r path sh n
    | Acc (Wr o v) :: r => kids r path (upd sh o v) n
    | Fork q :: r => kid_logs_item (Fork q) (path ++ [n]) sh ++ kids r path sh (S n)
    end.
  Definition thread_logs (path : list nat) (p : prog) (sh : heap) (n : nat) : list (list nat * list val) :=
    (path, exp_log p sh) :: kids p path sh n.
  Lemma kid_logs_fork q path sh : kid_logs_item (Fork q) path sh = thread_logs path q sh 0.
  Proof.
    unfold thread_logs. cbn [kid_logs_item]. f_equal.
    generalize 0 as n. revert sh. induction q as [|x r IH]; intros sh n; [reflexivity|].
    destruct x as [[o|o v]|q']; cbn [kids]; rewrite <- ?IH; reflexivity.
  Qed.
  (* the sequential semantics of a whole program: (thread id, read results) of every thread *)
  Definition seq_logs (p : prog) (h : heap) : list (list nat * list val) := thread_logs [] p h 0.

  (* ---- invariant ---- *)
  Definition objs_of (p : prog) : list obj := map aobj (accs p).
  Definition thread_ok (h : heap) (t : thread) : Prop :=
    race_free (rem t) = true /\ forall o, In o (objs_of (rem t)) -> h o = shadow t o.
  Definition pair_ok (t u : thread) : Prop := no_conflict (accs (rem t)) (accs (rem u)) = true.
  Definition Inv (s : state) : Prop :=
    (forall j t, nth_error (pool s) j = Some t -> thread_ok (hp s) t) /\
    (forall j k t u, j <> k -> nth_error (pool s) j = Some t -> nth_error (pool s) k = Some u -> pair_ok t u).

  (* the complete read log this thread will have produced when it ends, as predicted from
     its own shadow heap *)
  Definition predicted (t : thread) : list val := log t ++ exp_log (rem t) (shadow t).

  (* ---------- basic lemmas ---------- *)
  Lemma obj_eqb_refl o : obj_eqb o o = true.
  Proof. apply obj_eqb_spec. reflexivity. Qed.
  Lemma obj_eqb_sym a b : obj_eqb a b = obj_eqb b a.
  Proof.
    destruct (obj_eqb a b) eqn:E1, (obj_eqb b a) eqn:E2; auto.
    - apply obj_eqb_spec in E1. subst. rewrite obj_eqb_refl in E2. discriminate.
    - apply obj_eqb_spec in E2. subst. rewrite obj_eqb_refl in E1. discriminate.
  Qed.

  Lemma accs_cons_acc a r : accs (Acc a :: r) = a :: accs r.
  Proof. reflexivity. Qed.
  Lemma accs_cons_fork p r : accs (Fork p :: r) = accs p ++ accs r.
  Proof. unfold accs at 1. cbn [flat_map]. rewrite accs_fork. reflexivity. Qed.
  Lemma accs_app p q : accs (p ++ q) = accs p ++ accs q.
  Proof. unfold accs. apply flat_map_app. Qed.
  Lemma accs_map_Acc l : accs (map Acc l) = l.
  Proof. induction l as [|a r IH]; [reflexivity|]. cbn [map]. rewrite accs_cons_acc, IH. reflexivity. Qed.

  Lemma conflict_sym a b : conflict a b = conflict b a.
  Proof. unfold conflict. rewrite obj_eqb_sym, orb_comm. reflexivity. Qed.

  Lemma no_conflict_spec l1 l2 :
    no_conflict l1 l2 = true <-> forall a b, In a l1 -> In b l2 -> conflict a b = false.
  Proof.
    unfold no_conflict. rewrite forallb_forall. split.
    - intros H a b Ha Hb. specialize (H a Ha). rewrite forallb_forall in H. specialize (H b Hb).
      apply negb_true_iff in H. exact H.
    - intros H a Ha. apply forallb_forall. intros b Hb. apply negb_true_iff. auto.
  Qed.
  Lemma no_conflict_sym l1 l2 : no_conflict l1 l2 = true -> no_conflict l2 l1 = true.
  Proof. rewrite !no_conflict_spec. intros H a b Ha Hb. rewrite conflict_sym. auto. Qed.
  Lemma no_conflict_incl l1 l2 l1' l2' :
    incl l1' l1 -> incl l2' l2 -> no_conflict l1 l2 = true -> no_conflict l1' l2' = true.
  Proof. rewrite !no_conflict_spec. intros H1 H2 H a b Ha Hb. auto. Qed.
  Lemma no_conflict_nil_r l : no_conflict l [] = true.
  Proof. apply no_conflict_spec. intros a b _ []. Qed.
  Lemma no_conflict_app_r l l1 l2 :
    no_conflict l (l1 ++ l2) = true <-> no_conflict l l1 = true /\ no_conflict l l2 = true.
  Proof.
    rewrite !no_conflict_spec. split.
    - intros H. split; intros a b Ha Hb; apply H; auto; apply in_or_app; auto.
    - intros [H1 H2] a b Ha Hb. apply in_app_or in Hb as [Hb|Hb]; auto.
  Qed.

  (* two access lists cannot conflict when everything in the first is either an object of
     class c1 or a read of an object outside c2, symmetrically for the second, and the two
     classes are disjoint (ownership argument) *)
  Lemma no_conflict_classes (c1 c2 : obj -> bool) l1 l2 :
    (forall a, In a l1 -> c1 (aobj a) = true \/ (is_wr a = false /\ c2 (aobj a) = false)) ->
    (forall b, In b l2 -> c2 (aobj b) = true \/ (is_wr b = false /\ c1 (aobj b) = false)) ->
    (forall o, c1 o = true -> c2 o = true -> False) ->
    no_conflict l1 l2 = true.
  Proof.
    intros H1 H2 Hd. apply no_conflict_spec. intros a b Ha Hb.
    unfold conflict. destruct (obj_eqb (aobj a) (aobj b)) eqn:E; [|reflexivity].
    apply obj_eqb_spec in E. cbn [andb].
    destruct (H1 a Ha) as [Ca|[Wa Ca]]; destruct (H2 b Hb) as [Cb|[Wb Cb]].
    - exfalso. rewrite E in Ca. eauto.
    - rewrite E in Ca. congruence.
    - rewrite <- E in Cb. congruence.
    - rewrite Wa, Wb. reflexivity.
  Qed.

  Lemma race_free_tail x r : race_free (x :: r) = true -> race_free r = true.
  Proof. cbn [race_free]. intros H. apply andb_true_iff in H as [H _]. apply andb_true_iff in H as [_ H]. exact H. Qed.
  Lemma race_free_fork p r :
    race_free (Fork p :: r) = true -> race_free p = true /\ no_conflict (accs p) (accs r) = true.
  Proof.
    cbn [race_free]. intros H. apply andb_true_iff in H as [H H2]. apply andb_true_iff in H as [H1 _].
    rewrite rf_fork in H1. rewrite accs_fork in H2. auto.
  Qed.
  Lemma race_free_cons_acc a r : race_free (Acc a :: r) = race_free r.
  Proof. cbn [race_free rf_item]. rewrite andb_true_r. reflexivity. Qed.
  Lemma race_free_cons_fork p r :
    race_free (Fork p :: r) = race_free p && race_free r && no_conflict (accs p) (accs r).
  Proof. cbn [race_free]. rewrite rf_fork, accs_fork. reflexivity. Qed.
  Lemma race_free_map_Acc l : race_free (map Acc l) = true.
  Proof. induction l as [|a r IH]; [reflexivity|]. cbn [map]. rewrite race_free_cons_acc. exact IH. Qed.
  (* straight-line prefix: only the forks count *)
  Lemma race_free_app_acc l p : race_free (map Acc l ++ p) = race_free p.
  Proof. induction l as [|a r IH]; [reflexivity|]. cbn [map app]. rewrite race_free_cons_acc. exact IH. Qed.
  Lemma race_free_app p q :
    race_free (p ++ q) = true <->
    race_free p = true /\ race_free q = true /\
    (forall p1 f p2, p = p1 ++ Fork f :: p2 -> no_conflict (accs f) (accs q) = true).
  Proof.
    induction p as [|x r IH]; cbn [app].
    - split; [intros H; repeat split; auto; intros [|? ?] ? ? E; discriminate|tauto].
    - destruct x as [a|f].
      + rewrite !race_free_cons_acc, IH. split.
        * intros (H1 & H2 & H3). repeat split; auto. intros [|y p1] f p2 E; inversion E; subst. eapply H3; reflexivity.
        * intros (H1 & H2 & H3). repeat split; auto. intros p1 f p2 E. apply (H3 (Acc a :: p1) f p2). rewrite E. reflexivity.
      + rewrite !race_free_cons_fork, !andb_true_iff, IH, accs_app, no_conflict_app_r. split.
        * intros [[Hf (H1 & H2 & H3)] [H4 H5]]. repeat split; auto.
          intros [|y p1] f' p2 E; inversion E; subst; auto. eapply H3; reflexivity.
        * intros ([[Hf H1] H4] & H2 & H3). repeat split; auto.
          -- intros p1 f' p2 E. apply (H3 (Fork f :: p1) f' p2). rewrite E. reflexivity.
          -- apply (H3 [] f r). reflexivity.
  Qed.

  Lemma nth_set_nth_eq {A} j (x : A) l t : nth_error l j = Some t -> nth_error (set_nth j x l) j = Some x.
  Proof. revert j. induction l as [|y r IH]; intros [|j] H; simpl in *; try discriminate; auto. Qed.
  Lemma nth_set_nth_neq {A} j k (x : A) l : j <> k -> nth_error (set_nth j x l) k = nth_error l k.
  Proof. revert j k. induction l as [|y r IH]; intros [|j] [|k] H; simpl; auto; try congruence. Qed.
  Lemma set_nth_length {A} j (x : A) l : length (set_nth j x l) = length l.
  Proof. revert j. induction l as [|y r IH]; intros [|j]; simpl; auto. Qed.
  Lemma In_set_nth {A} j (x : A) l u : In u (set_nth j x l) -> u = x \/ In u l.
  Proof.
    revert j. induction l as [|y r IH]; intros [|j] H; simpl in *; try tauto.
    - destruct H as [H|H]; auto.
    - destruct H as [H|H]; auto. destruct (IH j H); auto.
  Qed.

  Lemma incl_objs_tail x r : incl (accs r) (accs (x :: r)).
  Proof. unfold accs. cbn [flat_map]. apply incl_appr, incl_refl. Qed.

  Lemma in_objs p o : In o (objs_of p) <-> exists a, In a (accs p) /\ aobj a = o.
  Proof. unfold objs_of. rewrite in_map_iff. split; intros [a [H1 H2]]; exists a; auto. Qed.

  Lemma lookup_after_update pl j t' k u (told : thread) :
    nth_error pl j = Some told ->
    nth_error (set_nth j t' pl) k = Some u -> (k = j /\ u = t') \/ (k <> j /\ nth_error pl k = Some u).
  Proof.
    intros Hj H. destruct (Nat.eq_dec k j) as [->|Hne].
    - rewrite (nth_set_nth_eq _ _ _ _ Hj) in H. inversion H; auto.
    - rewrite nth_set_nth_neq in H by auto. auto.
  Qed.

  (* ---------- the invariant is preserved by every step of every thread ---------- *)
  Theorem step_inv s j s' : Inv s -> step s j = Some s' -> Inv s'.
  Proof.
    intros [Hth Hpair] Hstep. unfold step in Hstep.
    destruct (nth_error (pool s) j) as [t|] eqn:Ej; [|discriminate].
    destruct (Hth j t Ej) as [Hrf Hsh].
    destruct (rem t) as [|[[o|o v]|p] r] eqn:Er; [discriminate| | |]; inversion Hstep; subst s'; clear Hstep; unfold Inv, thread_ok; cbn [hp pool].
    - (* read *)
      split.
      + intros k u Hk. destruct (lookup_after_update _ _ _ _ _ _ Ej Hk) as [[-> ->]|[Hne Hk']].
        * split; cbn [rem shadow]. { eapply race_free_tail; eauto. }
          intros o' Ho'. apply Hsh. apply in_objs in Ho' as [a [Ha <-]]. apply in_objs. exists a. split; auto.
          apply (incl_objs_tail (Acc (Rd o)) r); auto.
        * apply (Hth k u Hk').
      + intros k1 k2 u1 u2 Hne H1 H2.
        destruct (lookup_after_update _ _ _ _ _ _ Ej H1) as [[-> ->]|[Hn1 H1']];
        destruct (lookup_after_update _ _ _ _ _ _ Ej H2) as [[-> ->]|[Hn2 H2']]; try congruence.
        * unfold pair_ok; cbn [rem]. specialize (Hpair j k2 t u2 Hne Ej H2'). unfold pair_ok in Hpair. rewrite Er in Hpair.
          eapply no_conflict_incl; [apply (incl_objs_tail (Acc (Rd o)) r)|apply incl_refl|exact Hpair].
        * unfold pair_ok; cbn [rem]. specialize (Hpair k1 j u1 t Hne H1' Ej). unfold pair_ok in Hpair. rewrite Er in Hpair.
          eapply no_conflict_incl; [apply incl_refl|apply (incl_objs_tail (Acc (Rd o)) r)|exact Hpair].
        * apply (Hpair k1 k2 u1 u2 Hne H1' H2').
    - (* write *)
      split.
      + intros k u Hk. destruct (lookup_after_update _ _ _ _ _ _ Ej Hk) as [[-> ->]|[Hne Hk']].
        * split; cbn [rem shadow]. { eapply race_free_tail; eauto. }
          intros o' Ho'. unfold upd. destruct (obj_eqb o' o); [reflexivity|].
          apply Hsh. apply in_objs in Ho' as [a [Ha <-]]. apply in_objs. exists a. split; auto.
          apply (incl_objs_tail (Acc (Wr o v)) r); auto.
        * destruct (Hth k u Hk') as [Hrfu Hshu]. split; [exact Hrfu|].
          intros o' Ho'. unfold upd. destruct (obj_eqb o' o) eqn:Eo; [|apply Hshu; auto].
          apply obj_eqb_spec in Eo. subst o'.
          exfalso. (* u still accesses o while t writes it: two live threads in conflict *)
          assert (Hp : pair_ok t u) by (apply (Hpair j k t u); auto).
          unfold pair_ok in Hp. rewrite Er in Hp. rewrite no_conflict_spec in Hp.
          apply in_objs in Ho' as [a [Ha Hao]].
          specialize (Hp (Wr o v) a (or_introl eq_refl) Ha). unfold conflict in Hp. cbn [aobj is_wr] in Hp.
          rewrite Hao, obj_eqb_refl in Hp. discriminate.
      + intros k1 k2 u1 u2 Hne H1 H2.
        destruct (lookup_after_update _ _ _ _ _ _ Ej H1) as [[-> ->]|[Hn1 H1']];
        destruct (lookup_after_update _ _ _ _ _ _ Ej H2) as [[-> ->]|[Hn2 H2']]; try congruence.
        * unfold pair_ok; cbn [rem]. specialize (Hpair j k2 t u2 Hne Ej H2'). unfold pair_ok in Hpair. rewrite Er in Hpair.
          eapply no_conflict_incl; [apply (incl_objs_tail (Acc (Wr o v)) r)|apply incl_refl|exact Hpair].
        * unfold pair_ok; cbn [rem]. specialize (Hpair k1 j u1 t Hne H1' Ej). unfold pair_ok in Hpair. rewrite Er in Hpair.
          eapply no_conflict_incl; [apply incl_refl|apply (incl_objs_tail (Acc (Wr o v)) r)|exact Hpair].
        * apply (Hpair k1 k2 u1 u2 Hne H1' H2').
    - (* fork *)
      destruct (race_free_fork p r Hrf) as [Hrfp Hnc].
      set (t' := {| tid := tid t; rem := r; log := log t; shadow := shadow t; nforks := S (nforks t) |}).
      set (c := {| tid := tid t ++ [nforks t]; rem := p; log := []; shadow := shadow t; nforks := 0 |}).
      assert (Hlen : length (set_nth j t' (pool s)) = length (pool s)) by apply set_nth_length.
      assert (Hlook : forall k u, nth_error (set_nth j t' (pool s) ++ [c]) k = Some u ->
                (k = j /\ u = t') \/ (k <> j /\ k < length (pool s) /\ nth_error (pool s) k = Some u) \/ (k = length (pool s) /\ u = c)).
      { intros k u Hk. destruct (Nat.lt_ge_cases k (length (pool s))) as [Hlt|Hge].
        - rewrite nth_error_app1 in Hk by lia.
          destruct (lookup_after_update _ _ _ _ _ _ Ej Hk) as [[-> ->]|[Hn Hk']]; auto.
        - rewrite nth_error_app2 in Hk by lia. rewrite Hlen in Hk.
          destruct (k - length (pool s)) as [|m] eqn:Em; simpl in Hk.
          + inversion Hk. right; right. split; [lia|auto].
          + destruct m; discriminate. }
      assert (Hjlt : j < length (pool s)) by (apply nth_error_Some; congruence).
      assert (Hpin : incl (accs p) (accs (Fork p :: r))) by (rewrite accs_cons_fork; apply incl_appl, incl_refl).
      assert (Hrin : incl (accs r) (accs (Fork p :: r))) by (rewrite accs_cons_fork; apply incl_appr, incl_refl).
      split.
      + intros k u Hk. destruct (Hlook k u Hk) as [[-> ->]|[[Hn [Hlt Hk']]|[-> ->]]].
        * split; cbn [rem shadow]; [eapply race_free_tail; eauto|].
          intros o' Ho'. apply Hsh. apply in_objs in Ho' as [a [Ha <-]]. apply in_objs. exists a; split; auto.
        * apply (Hth k u Hk').
        * split; cbn [rem shadow]; [exact Hrfp|].
          intros o' Ho'. apply Hsh. apply in_objs in Ho' as [a [Ha <-]]. apply in_objs. exists a; split; auto.
      + intros k1 k2 u1 u2 Hne H1 H2.
        destruct (Hlook k1 u1 H1) as [[-> ->]|[[Hn1 [Hl1 H1']]|[-> ->]]];
        destruct (Hlook k2 u2 H2) as [[-> ->]|[[Hn2 [Hl2 H2']]|[-> ->]]]; try congruence; try lia; unfold pair_ok; cbn [rem].
        * specialize (Hpair j k2 t u2 Hne Ej H2'). unfold pair_ok in Hpair. rewrite Er in Hpair.
          eapply no_conflict_incl; [exact Hrin|apply incl_refl|exact Hpair].
        * apply no_conflict_sym. exact Hnc.
        * specialize (Hpair k1 j u1 t Hne H1' Ej). unfold pair_ok in Hpair. rewrite Er in Hpair.
          eapply no_conflict_incl; [apply incl_refl|exact Hrin|exact Hpair].
        * apply (Hpair k1 k2 u1 u2 Hne H1' H2').
        * assert (Hne' : k1 <> j) by auto.
          specialize (Hpair k1 j u1 t Hne' H1' Ej). unfold pair_ok in Hpair. rewrite Er in Hpair.
          eapply no_conflict_incl; [apply incl_refl|exact Hpin|exact Hpair].
        * exact Hnc.
        * assert (Hne' : j <> k2) by auto.
          specialize (Hpair j k2 t u2 Hne' Ej H2'). unfold pair_ok in Hpair. rewrite Er in Hpair.
          eapply no_conflict_incl; [exact Hpin|apply incl_refl|exact Hpair].
  Qed.

  Lemma init_inv p h : race_free p = true -> Inv (init p h).
  Proof.
    intros Hrf. split.
    - intros [|j] t H; simpl in H; [|destruct j; discriminate]. inversion H; subst. split; auto.
    - intros [|j] [|k] t u Hne H1 H2; simpl in *; try congruence; try (destruct j; discriminate); destruct k; discriminate.
  Qed.

  Lemma run_inv sched : forall s s', Inv s -> run s sched = Some s' -> Inv s'.
  Proof.
    induction sched as [|j r IH]; intros s s' Hi Hr; simpl in Hr.
    - inversion Hr; subst; auto.
    - destruct (step s j) as [s1|] eqn:E; [|discriminate]. eapply IH; [eapply step_inv; eauto|exact Hr].
  Qed.

  (* ---------- the predicted logs never change ---------- *)
  Definition entry (t : thread) : list (list nat * list val) :=
    (tid t, predicted t) :: kids (rem t) (tid t) (shadow t) (nforks t).
  Definition all_logs (s : state) : list (list nat * list val) := flat_map entry (pool s).

  Lemma step_logs s j s' x : Inv s -> step s j = Some s' -> In x (all_logs s') -> In x (all_logs s).
  Proof.
    intros [Hth _] Hstep Hx. unfold step in Hstep.
    destruct (nth_error (pool s) j) as [t|] eqn:Ej; [|discriminate].
    assert (Hin : In t (pool s)) by (eapply nth_error_In; eauto).
    destruct (Hth j t Ej) as [_ Hsh].
    unfold all_logs in *. apply in_flat_map in Hx as [u [Hu Hxu]]. apply in_flat_map.
    destruct (rem t) as [|[[o|o v]|p] r] eqn:Er; [discriminate| | |]; inversion Hstep; subst s'; clear Hstep; cbn [pool] in Hu.
    - apply In_set_nth in Hu as [->|Hu]; [|eauto]. exists t. split; auto.
      unfold entry, predicted in *. cbn [tid rem log shadow nforks] in Hxu. rewrite Er. cbn [exp_log kids].
      rewrite <- app_assoc in Hxu. cbn [app] in Hxu.
      rewrite (Hsh o) in Hxu; [exact Hxu|]. apply in_objs. exists (Rd o). split; [left; reflexivity|reflexivity].
    - apply In_set_nth in Hu as [->|Hu]; [|eauto]. exists t. split; auto.
      unfold entry, predicted in *. cbn [tid rem log shadow nforks] in Hxu. rewrite Er. cbn [exp_log kids]. exact Hxu.
    - apply in_app_or in Hu as [Hu|Hu].
      + apply In_set_nth in Hu as [->|Hu]; [|eauto]. exists t. split; auto.
        unfold entry, predicted in *. cbn [tid rem log shadow nforks] in Hxu. rewrite Er. cbn [exp_log kids].
        destruct Hxu as [Hxu|Hxu]; [left; exact Hxu|right]. apply in_or_app. right. exact Hxu.
      + destruct Hu as [<-|[]]. exists t. split; auto.
        unfold entry, predicted in *. cbn [tid rem log shadow nforks app] in Hxu. rewrite Er. cbn [kids].
        right. apply in_or_app. left. rewrite kid_logs_fork. exact Hxu.
  Qed.

  Lemma run_logs sched : forall s s' x, Inv s -> run s sched = Some s' -> In x (all_logs s') -> In x (all_logs s).
  Proof.
    induction sched as [|j r IH]; intros s s' x Hi Hr Hx; simpl in Hr.
    - inversion Hr; subst; auto.
    - destruct (step s j) as [s1|] eqn:E; [|discriminate].
      eapply step_logs; eauto. eapply IH; eauto. eapply step_inv; eauto.
  Qed.

  (* H1 (non-interference).  For a race-free fork tree, under EVERY interleaving, every
     thread that exists at any point of the execution has read, and will read, exactly what
     the schedule-free semantics says: its log so far followed by the prediction from its own
     shadow heap is one of the entries of [seq_logs], under its own thread id. *)
  Theorem H1_noninterference p h sched s t :
    race_free p = true -> run (init p h) sched = Some s -> In t (pool s) ->
    In (tid t, log t ++ exp_log (rem t) (shadow t)) (seq_logs p h).
  Proof.
    intros Hrf Hrun Ht.
    assert (Hx : In (tid t, predicted t) (all_logs s)).
    { unfold all_logs. apply in_flat_map. exists t. split; auto. left. reflexivity. }
    apply (run_logs _ _ _ _ (init_inv p h Hrf) Hrun) in Hx.
    unfold all_logs, init in Hx. cbn [pool flat_map entry] in Hx. rewrite app_nil_r in Hx.
    exact Hx.
  Qed.

  (* a thread that has finished has read exactly its sequential log *)
  Corollary H1_finished p h sched s t :
    race_free p = true -> run (init p h) sched = Some s -> In t (pool s) -> rem t = [] ->
    In (tid t, log t) (seq_logs p h).
  Proof.
    intros Hrf Hrun Ht Hr. pose proof (H1_noninterference _ _ _ _ _ Hrf Hrun Ht) as H.
    rewrite Hr in H. cbn [exp_log] in H. rewrite app_nil_r in H. exact H.
  Qed.

  (* and the heap itself agrees with every live thread on everything it may still touch *)
  Corollary H1_heap_agrees p h sched s t o :
    race_free p = true -> run (init p h) sched = Some s -> In t (pool s) ->
    In o (objs_of (rem t)) -> hp s o = shadow t o.
  Proof.
    intros Hrf Hrun Ht Ho. pose proof (run_inv _ _ _ (init_inv p h Hrf) Hrun) as [Hth _].
    apply In_nth_error in Ht as [j Hj]. destruct (Hth j t Hj) as [_ H]. auto.
  Qed.

  (* thread ids of the sequential semantics are pairwise distinct, so "the" log of a thread
     is well defined *)
  Fixpoint find_log (tidx : list nat) (l : list (list nat * list val)) : option (list val) :=
    match l with
    | [] => None
    | (p, lg) :: r => if list_eq_dec Nat.eq_dec tidx p then Some lg else find_log tidx r
    end.
End Heap.

Arguments Rd {obj val} o.
Arguments Wr {obj val} o v.
Arguments Acc {obj val} a.
Arguments Fork {obj val} p.
Arguments aobj {obj val} a.
Arguments is_wr {obj val} a.
Arguments accs_item {obj val} i.
Arguments accs {obj val} p.
Arguments objs_of {obj val} p.
Arguments conflict {obj val} obj_eqb a b.
Arguments no_conflict {obj val} obj_eqb l1 l2.
Arguments rf_item {obj val} obj_eqb i.
Arguments race_free {obj val} obj_eqb p.
Arguments upd {obj val} obj_eqb h o v.
Arguments tid {obj val} t.
Arguments rem {obj val} t.
Arguments log {obj val} t.
Arguments shadow {obj val} t.
Arguments nforks {obj val} t.
Arguments hp {obj val} s.
Arguments pool {obj val} s.
Arguments step {obj val} obj_eqb s j.
Arguments run {obj val} obj_eqb s sched.
Arguments init {obj val} p h.
Arguments exp_log {obj val} obj_eqb p sh.
Arguments kid_logs_item {obj val} obj_eqb i path sh.
Arguments kids {obj val} obj_eqb p path sh n.
Arguments thread_logs {obj val} obj_eqb path p sh n.
Arguments seq_logs {obj val} obj_eqb p h.
Arguments find_log {val} tidx l.

(* ------------------------------------------------------------------------------------ *)
(* H2: lock discipline.  Flat pool of threads (goroutines calling registry methods), each a
   list of events; mutexes are exclusive.  If every access of every thread is performed
   while holding the guard lock of the accessed object (lockset discipline, checked by
   [disciplined]), then in every reachable state of every schedule two different threads
   are never both about to perform accesses to the same object (mutual exclusion: no data
   race), and a thread that holds a lock is the one recorded in the lock table. *)
Section Locks.
  Variable obj : Type.
  Variable lock : Type.
  Variable lock_eqb : lock -> lock -> bool.
  Hypothesis lock_eqb_spec : forall a b, lock_eqb a b = true <-> a = b.
  Variable guard : obj -> lock.    (* the mutex that protects an object *)

  Inductive ev := EAcc (o : obj) (w : bool) | ELock (m : lock) | EUnlock (m : lock).

  Fixpoint lmem (m : lock) (l : list lock) : bool :=
    match l with [] => false | x :: r => lock_eqb m x || lmem m r end.
  Fixpoint lrem (m : lock) (l : list lock) : list lock :=
    match l with [] => [] | x :: r => if lock_eqb m x then r else x :: lrem m r end.

  (* static check of one thread: locks held (a list without repetition) while walking the
     events: no re-lock, unlock only what is held, every access under its guard *)
  Fixpoint disciplined (held : list lock) (p : list ev) : bool :=
    match p with
    | [] => true
    | EAcc o _ :: r => lmem (guard o) held && disciplined held r
    | ELock m :: r => negb (lmem m held) && disciplined (m :: held) r
    | EUnlock m :: r => lmem m held && disciplined (lrem m held) r
    end.

  Record lthread := { lrest : list ev; lheld : list lock }.
  Record lstate := { owner : lock -> option nat; lpool : list lthread }.

  Definition lupd (f : lock -> option nat) (m : lock) (v : option nat) : lock -> option nat :=
    fun m' => if lock_eqb m' m then v else f m'.

  Definition lstep (s : lstate) (j : nat) : option lstate :=
    match nth_error (lpool s) j with
    | None => None
    | Some t =>
      match lrest t with
      | [] => None
      | EAcc _ _ :: r => Some {| owner := owner s; lpool := set_nth j {| lrest := r; lheld := lheld t |} (lpool s) |}
      | ELock m :: r =>
          match owner s m with
          | Some _ => None                      (* blocked *)
          | None => Some {| owner := lupd (owner s) m (Some j);
                            lpool := set_nth j {| lrest := r; lheld := m :: lheld t |} (lpool s) |}
          end
      | EUnlock m :: r =>
          Some {| owner := lupd (owner s) m None;
                  lpool := set_nth j {| lrest := r; lheld := lrem m (lheld t) |} (lpool s) |}
      end
    end.
  Fixpoint lrun (s : lstate) (sched : list nat) : option lstate :=
    match sched with [] => Some s | j :: r => match lstep s j with Some s' => lrun s' r | None => None end end.
  Definition linit (ps : list (list ev)) : lstate :=
    {| owner := fun _ => None; lpool := map (fun p => {| lrest := p; lheld := [] |}) ps |}.

  Lemma lock_eqb_refl m : lock_eqb m m = true.
  Proof. apply lock_eqb_spec. reflexivity. Qed.

  Lemma lmem_lrem m m' l : lmem m (lrem m' l) = true -> lmem m l = true.
  Proof.
    induction l as [|x r IH]; simpl; auto.
    destruct (lock_eqb m' x) eqn:E; simpl.
    - intros H. rewrite H. apply orb_true_r.
    - intros H. apply orb_true_iff in H as [H|H]; [rewrite H; reflexivity|]. rewrite IH by auto. apply orb_true_r.
  Qed.

  Fixpoint nodup_l (l : list lock) : bool :=
    match l with [] => true | x :: r => negb (lmem x r) && nodup_l r end.

  Lemma lmem_lrem_neq m m' l : lock_eqb m m' = false -> lmem m (lrem m' l) = lmem m l.
  Proof.
    intros Hn. induction l as [|x r IH]; simpl; auto.
    destruct (lock_eqb m' x) eqn:E; simpl.
    - apply lock_eqb_spec in E. subst x. rewrite Hn. reflexivity.
    - rewrite IH. reflexivity.
  Qed.
  Lemma lmem_lrem_same m l : nodup_l l = true -> lmem m (lrem m l) = false.
  Proof.
    induction l as [|x r IH]; simpl; auto. intros H. apply andb_true_iff in H as [H1 H2].
    destruct (lock_eqb m x) eqn:E; simpl.
    - apply lock_eqb_spec in E. subst x. apply negb_true_iff in H1. exact H1.
    - rewrite E. simpl. auto.
  Qed.
  Lemma nodup_lrem m l : nodup_l l = true -> nodup_l (lrem m l) = true.
  Proof.
    induction l as [|x r IH]; simpl; auto. intros H. apply andb_true_iff in H as [H1 H2].
    destruct (lock_eqb m x) eqn:E; simpl; auto.
    rewrite IH by auto. rewrite andb_true_r. apply negb_true_iff. apply negb_true_iff in H1.
    destruct (lmem x (lrem m r)) eqn:E2; auto. apply lmem_lrem in E2. congruence.
  Qed.

  Definition LI (s : lstate) : Prop :=
    forall j t, nth_error (lpool s) j = Some t ->
      disciplined (lheld t) (lrest t) = true /\ nodup_l (lheld t) = true /\
      forall m, lmem m (lheld t) = true <-> owner s m = Some j.

  Lemma lstep_inv s j s' : LI s -> lstep s j = Some s' -> LI s'.
  Proof.
    intros HI Hstep. unfold lstep in Hstep.
    destruct (nth_error (lpool s) j) as [t|] eqn:Ej; [|discriminate].
    destruct (HI j t Ej) as (Hd & Hnd & Hown).
    destruct (lrest t) as [|[o w|m|m] r] eqn:Er; [discriminate| | |].
    - inversion Hstep; subst s'; clear Hstep. intros k u Hk. cbn [lpool owner] in *.
      destruct (Nat.eq_dec k j) as [->|Hne].
      + rewrite (nth_set_nth_eq _ _ _ _ Ej) in Hk. inversion Hk; subst u; cbn [lrest lheld].
        cbn [disciplined] in Hd. apply andb_true_iff in Hd as [_ Hd]. auto.
      + rewrite nth_set_nth_neq in Hk by auto. apply (HI k u Hk).
    - destruct (owner s m) eqn:Eo; [discriminate|]. inversion Hstep; subst s'; clear Hstep.
      cbn [disciplined] in Hd. apply andb_true_iff in Hd as [Hnm Hd]. apply negb_true_iff in Hnm.
      intros k u Hk. cbn [lpool owner] in *.
      destruct (Nat.eq_dec k j) as [->|Hne].
      + rewrite (nth_set_nth_eq _ _ _ _ Ej) in Hk. inversion Hk; subst u; cbn [lrest lheld].
        split; [exact Hd|]. split; [cbn [nodup_l]; rewrite Hnm; simpl; exact Hnd|].
        intros m'. unfold lupd. cbn [lmem]. destruct (lock_eqb m' m) eqn:E; simpl; [tauto|apply Hown].
      + rewrite nth_set_nth_neq in Hk by auto. destruct (HI k u Hk) as (Hd' & Hnd' & Hown').
        split; [exact Hd'|]. split; [exact Hnd'|].
        intros m'. unfold lupd. destruct (lock_eqb m' m) eqn:E.
        * apply lock_eqb_spec in E. subst m'. rewrite Hown', Eo. split; [discriminate|intros H; inversion H; congruence].
        * apply Hown'.
    - inversion Hstep; subst s'; clear Hstep.
      cbn [disciplined] in Hd. apply andb_true_iff in Hd as [Hm Hd].
      intros k u Hk. cbn [lpool owner] in *.
      destruct (Nat.eq_dec k j) as [->|Hne].
      + rewrite (nth_set_nth_eq _ _ _ _ Ej) in Hk. inversion Hk; subst u; cbn [lrest lheld].
        split; [exact Hd|]. split; [apply nodup_lrem; exact Hnd|].
        intros m'. unfold lupd. destruct (lock_eqb m' m) eqn:E.
        * apply lock_eqb_spec in E. subst m'. rewrite lmem_lrem_same by auto. split; discriminate.
        * rewrite lmem_lrem_neq by auto. apply Hown.
      + rewrite nth_set_nth_neq in Hk by auto. destruct (HI k u Hk) as (Hd' & Hnd' & Hown').
        split; [exact Hd'|]. split; [exact Hnd'|].
        intros m'. unfold lupd. destruct (lock_eqb m' m) eqn:E.
        * apply lock_eqb_spec in E. subst m'. rewrite Hown'. apply Hown in Hm. rewrite Hm.
          split; [intros H; inversion H; congruence|discriminate].
        * apply Hown'.
  Qed.

  Lemma linit_inv ps : forallb (disciplined []) ps = true -> LI (linit ps).
  Proof.
    intros H j t Hj. unfold linit in Hj. cbn [lpool] in Hj.
    rewrite nth_error_map in Hj. destruct (nth_error ps j) as [p|] eqn:E; [|discriminate].
    inversion Hj; subst t; cbn [lrest lheld owner].
    rewrite forallb_forall in H. split; [apply H; eapply nth_error_In; eauto|].
    split; [reflexivity|]. intros m. simpl. split; discriminate.
  Qed.

  Lemma lrun_inv sched : forall s s', LI s -> lrun s sched = Some s' -> LI s'.
  Proof.
    induction sched as [|j r IH]; intros s s' Hi Hr; simpl in Hr.
    - inversion Hr; subst; auto.
    - destruct (lstep s j) as [s1|] eqn:E; [|discriminate]. eapply IH; [eapply lstep_inv; eauto|exact Hr].
  Qed.

  (* H2: mutual exclusion of guarded accesses, every schedule, any number of threads *)
  Theorem H2_lock_discipline ps sched s j k tj tk o w r o' w' r' :
    forallb (disciplined []) ps = true ->
    lrun (linit ps) sched = Some s ->
    nth_error (lpool s) j = Some tj -> nth_error (lpool s) k = Some tk ->
    lrest tj = EAcc o w :: r -> lrest tk = EAcc o' w' :: r' ->
    guard o = guard o' -> j = k.
  Proof.
    intros Hd Hrun Hj Hk Ej Ek Hg.
    pose proof (lrun_inv _ _ _ (linit_inv _ Hd) Hrun) as HI.
    destruct (HI j tj Hj) as (Hdj & _ & Hoj). destruct (HI k tk Hk) as (Hdk & _ & Hok).
    rewrite Ej in Hdj. rewrite Ek in Hdk. cbn [disciplined] in Hdj, Hdk.
    apply andb_true_iff in Hdj as [Hmj _]. apply andb_true_iff in Hdk as [Hmk _].
    apply Hoj in Hmj. apply Hok in Hmk. rewrite Hg in Hmj. rewrite Hmj in Hmk. inversion Hmk. reflexivity.
  Qed.
End Locks.
