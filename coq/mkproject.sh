#!/bin/sh
# Regenerates _CoqProject (all .v files under the fixed directories) and the Makefile
# when the file list changed. Run from /verif/coq.
set -e
cd "$(dirname "$0")"
{ echo "-Q . Verif"; find Common Model Spec Proof Properties Corr Generated -name '*.v' | LC_ALL=C sort; } > _CoqProject.new
if ! cmp -s _CoqProject.new _CoqProject 2>/dev/null || [ ! -f Makefile ]; then
  mv _CoqProject.new _CoqProject
  coq_makefile -f _CoqProject -o Makefile >/dev/null
else
  rm -f _CoqProject.new
fi
