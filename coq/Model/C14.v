(* C14 - load balancers (sd/loadbalancing.go, sd/subscriber.go) and the load-balancing
   middleware (proxy/balancing.go).  Executable model only, no proofs.

   balancer.hosts():   subscriber error -> that error; empty list -> ErrNoHosts; else the list
   roundRobinLB.Host(): hosts(); ticket := atomic.AddUint64(&counter,1) - 1 (uint64: the
                        counter wraps at 2^64, the ticket is the value before the add);
                        hosts[ticket % len(hosts)]
   randomLB.Host():    hosts(); hosts[rand(uint32(len(hosts)))]; rand = fastrand.Uint32n,
                        Uint32n(x, n) = (x * n) >> 32 for the generator's 32-bit output x
   middleware:         host, err := lb.Host(); err -> (nil, err), next is not called;
                        otherwise next sees the URL host ++ path *)
Require Import Verif.Common.Base.
Local Open Scope Z_scope.

Definition two64 : Z := 18446744073709551616.
Definition two32 : Z := 4294967296.

(* error values are compared by identity in Go: ErrNoHosts is the package variable, a
   subscriber error is named by the label the harness gave to the error value it returned;
   anything else the harness saw come back is EOther *)
Inductive herr := ENoHosts | ESub (id : string) | EOther (txt : string).

(* result of one Host() call (or of one call through the middleware: Ok h = the next proxy
   was called once and saw a URL equal to h ++ path) *)
Inductive res := Ok (h : string) | Err (e : herr) | Panic.

(* what the subscriber reported for one call *)
Record report := { rp_hosts : list string; rp_err : option string }.

Definition hosts_step (r : report) : list string + herr :=
  match rp_err r with
  | Some e => inr (ESub e)
  | None => match rp_hosts r with [] => inr ENoHosts | hs => inl hs end
  end.

Definition pick (hs : list string) (i : Z) : res :=
  if (i <? 0) then Panic else
  match nth_error hs (Z.to_nat i) with Some h => Ok h | None => Panic end.

(* ---- round robin ---- *)
(* counter before -> (counter after, result).  The counter is untouched when hosts() fails. *)
Definition rr_step (c : Z) (r : report) : Z * res :=
  match hosts_step r with
  | inr e => (c, Err e)
  | inl hs => ((c + 1) mod two64, pick hs (c mod Z.of_nat (List.length hs)))
  end.

Fixpoint rr_run (c : Z) (rs : list report) : Z * list res :=
  match rs with
  | [] => (c, [])
  | r :: rest => let '(c1, o) := rr_step c r in
                 let '(c2, os) := rr_run c1 rest in (c2, o :: os)
  end.

(* the M consecutive tickets drawn from counter value c0 (wrap written explicitly) *)
Definition tickets (c0 : Z) (M : nat) : list Z :=
  map (fun i => (c0 + Z.of_nat i) mod two64) (seq 0 M).

(* picks of a fixed non-empty list for a list of tickets *)
Definition picks_of (hs : list string) (ts : list Z) : list res :=
  map (fun t => pick hs (t mod Z.of_nat (List.length hs))) ts.

(* ---- concurrent callers: the atomic add is ONE step of a thread system ----
   t_left: calls each caller still has to make; a schedule is the list of caller ids in
   the order in which their atomic adds take effect; t_issued: (caller, ticket), newest
   first.  Reading the host list (before) and indexing it (after) are local to the caller. *)
Record tsys := { t_ctr : Z; t_left : list nat; t_issued : list (nat * Z) }.

Fixpoint dec_nth (i : nat) (l : list nat) : option (list nat) :=
  match i, l with
  | O, S m :: r => Some (m :: r)
  | S j, x :: r => match dec_nth j r with Some r' => Some (x :: r') | None => None end
  | _, _ => None
  end.

(* None: the step is not enabled (no such caller, or it has finished) *)
Definition fetch_add (s : tsys) (i : nat) : option tsys :=
  match dec_nth i (t_left s) with
  | Some l' => Some {| t_ctr := (t_ctr s + 1) mod two64; t_left := l';
                       t_issued := (i, t_ctr s) :: t_issued s |}
  | None => None
  end.

Fixpoint run_sched (s : tsys) (sched : list nat) : option tsys :=
  match sched with
  | [] => Some s
  | i :: r => match fetch_add s i with Some s' => run_sched s' r | None => None end
  end.

Definition t_init (c0 : Z) (calls : list nat) : tsys :=
  {| t_ctr := c0; t_left := calls; t_issued := [] |}.

Definition t_done (s : tsys) : bool := forallb (Nat.eqb 0) (t_left s).

(* tickets of caller i, oldest first *)
Definition tickets_of (s : tsys) (i : nat) : list Z :=
  rev (flat_map (fun p => if Nat.eqb (fst p) i then [snd p] else []) (t_issued s)).

(* ---- random ---- *)
(* fastrand's range reduction of a 32-bit value x to [0, n) *)
Definition uint32n (x n : Z) : Z := (x * n) / two32.

(* the generator is external: its 32-bit output for this call is an argument *)
Definition rnd_step (x : Z) (r : report) : res :=
  match hosts_step r with
  | inr e => Err e
  | inl hs => pick hs (uint32n x (Z.of_nat (List.length hs)))
  end.

(* left end of the i-th interval of the partition of [0, K) induced by x |-> (x*n)/K *)
Definition lo (K n i : Z) : Z := (i * K + n - 1) / n.

(* fastrand.Uint32n as Go computes it: uint32((uint64(x) * uint64(n)) >> 32), every
   conversion and the 64-bit multiplication written with its wrap *)
Definition uint32n_go (x n : Z) : Z :=
  ((((x mod two32) * (n mod two32)) mod two64) / two32) mod two32.

(* ---- constructors (sd/loadbalancing.go, proxy/balancing.go) ----
   what a constructor can see of its subscriber: a sd.FixedSubscriber value (with its
   list) or anything else *)
Inductive sub_shape := SFixed (hs : list string) | SOther.

(* the balancer that was built: the single-host balancer (answers h without asking the
   subscriber), round robin with its initial counter, random *)
Inductive balancer := BNop (h : string) | BRR (c0 : Z) | BRandom.

(* NewRoundRobinLB: a fixed subscriber with exactly one host gets the single-host balancer;
   with l > 1 hosts the counter starts at fastrand.Uint32n(l) (x: the 32-bit draw);
   otherwise at 0 *)
Definition new_rr (s : sub_shape) (x : Z) : balancer :=
  match s with
  | SFixed [h] => BNop h
  | SFixed ((_ :: _ :: _) as hs) => BRR (uint32n x (Z.of_nat (List.length hs)))
  | _ => BRR 0
  end.

Definition new_random (s : sub_shape) : balancer :=
  match s with SFixed [h] => BNop h | _ => BRandom end.

(* NewBalancer: round robin iff GOMAXPROCS = 1 *)
Definition new_balancer (procs : Z) (s : sub_shape) (x : Z) : balancer :=
  if procs =? 1 then new_rr s x else new_random s.

(* the twelve exported middleware constructors and the balancer each one builds *)
Inductive ckind := CGeneric | CRoundRobin | CRandom.
Definition mw_constructors : list (string * ckind) :=
  [("NewLoadBalancedMiddleware", CGeneric);
   ("NewLoadBalancedMiddlewareWithSubscriber", CGeneric);
   ("NewLoadBalancedMiddlewareWithLogger", CGeneric);
   ("NewLoadBalancedMiddlewareWithSubscriberAndLogger", CGeneric);
   ("NewRoundRobinLoadBalancedMiddleware", CRoundRobin);
   ("NewRoundRobinLoadBalancedMiddlewareWithSubscriber", CRoundRobin);
   ("NewRoundRobinLoadBalancedMiddlewareWithLogger", CRoundRobin);
   ("NewRoundRobinLoadBalancedMiddlewareWithSubscriberAndLogger", CRoundRobin);
   ("NewRandomLoadBalancedMiddleware", CRandom);
   ("NewRandomLoadBalancedMiddlewareWithSubscriber", CRandom);
   ("NewRandomLoadBalancedMiddlewareWithLogger", CRandom);
   ("NewRandomLoadBalancedMiddlewareWithSubscriberAndLogger", CRandom)].

Definition build (k : ckind) (procs : Z) (s : sub_shape) (x : Z) : balancer :=
  match k with
  | CGeneric => new_balancer procs s x
  | CRoundRobin => new_rr s x
  | CRandom => new_random s
  end.

(* M calls of a built balancer over a fixed list hs (xs: the generator's draws, used by the
   random balancer only) *)
Definition bal_run (b : balancer) (hs : list string) (xs : list Z) : list res :=
  match b with
  | BNop h => map (fun _ => Ok h) xs
  | BRR c0 => snd (rr_run c0 (map (fun _ => {| rp_hosts := hs; rp_err := None |}) xs))
  | BRandom => map (fun x => rnd_step x {| rp_hosts := hs; rp_err := None |}) xs
  end.

(* the middleware around a balancer result: an error is returned and the next proxy is not
   called; otherwise the next proxy sees the URL host ++ path.  Nothing of an earlier pass
   of the same request enters *)
Inductive mwres := MwNext (url : string) | MwErr (e : herr) | MwPanic.
Definition mw_step (o : res) (path : string) : mwres :=
  match o with Ok h => MwNext (h ++ path)%string | Err e => MwErr e | Panic => MwPanic end.

(* ---- sd.NewRandomFixedSubscriber ----
   builds a NEW list holding a permutation of its argument (which permutation is decided by
   math/rand: external); the caller's slice - possibly the list a balancer is reading - is
   left as it was.  Result: (the caller's slice afterwards, the new subscriber's list) *)
Definition random_fixed (perm : list nat) (hs : list string) : list string * list string :=
  (hs, map (fun i => nth i hs "") perm).

(* ---- helpers shared by Spec and Corr ---- *)
Definition oks (os : list res) : list string :=
  flat_map (fun o => match o with Ok h => [h] | _ => [] end) os.

Definition zcount (h : string) (l : list string) : Z := Z.of_nat (count_str h l).
