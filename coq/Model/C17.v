(* C17 - executable model of configuration initialisation (config.ServiceConfig.Init as run by
   config.parser.Parse) and of the construction-time part of proxy.DefaultFactory(...).New.

   Every Go indexing / slicing / unchecked type assertion met on the way is written as an
   explicit Panic branch (None of idxZ / sliceZ, an empty list where [0] / [len-1] is taken,
   a json value of the wrong constructor where `x.(T)` is written without comma-ok).

   Not re-implemented (Section variables, instantiated per case by the harness from a table
   of what the real functions returned): the host sanitiser `config.URI.SafeCleanHost`
   (a regexp with optional groups where leftmost-first backtracking matters) and
   `strings.ToLower` on encodings (Unicode tables); likewise `os.ReadFile` of a GraphQL
   query_path (`readable`, the file system when the stack is built).  Hand-written and re-validated against
   Go's regexp / textproto / x/text on every run by the generator: the three placeholder
   scanners, `sequentialParamsPattern`, `invalidPattern`, `CanonicalMIMEHeaderKey`, the
   title-casing of one ASCII byte, `strings.ReplaceAll`, `sort.Strings`.

   NO proofs here. *)
Require Import Verif.Common.Base Verif.Common.Json.

(* ------------------------------------------------------------------------------------ *)
(* bytes *)

Definition code (a : ascii) : N := N_of_ascii a.
Definition in_range (lo hi : N) (a : ascii) : bool := ((lo <=? code a) && (code a <=? hi))%N.
Definition is_digit (a : ascii) : bool := in_range 48 57 a.
Definition is_lower (a : ascii) : bool := in_range 97 122 a.
Definition is_upper (a : ascii) : bool := in_range 65 90 a.
Definition is_alnum (a : ascii) : bool := is_digit a || is_lower a || is_upper a.
Definition is_c (n : N) (a : ascii) : bool := (code a =? n)%N.
Definition up (a : ascii) : ascii := if is_lower a then ascii_of_N (code a - 32) else a.
Definition low (a : ascii) : ascii := if is_upper a then ascii_of_N (code a + 32) else a.

Definition c_slash : N := 47.  Definition c_lbrace : N := 123.  Definition c_rbrace : N := 125.
Definition c_star : N := 42.   Definition c_nl : N := 10.       Definition c_dash : N := 45.
Definition c_us : N := 95.     Definition c_dot : N := 46.      Definition c_colon : N := 58.
Definition c_qm : N := 63.

(* [a-zA-Z\-_0-9] : endpointURLKeysPattern *)
Definition strict_class (a : ascii) : bool := is_alnum a || is_c c_dash a || is_c c_us a.
(* [\w\-\.:/] : simpleURLKeysPattern and the JWT part of sequentialParamsPattern *)
Definition simple_class (a : ascii) : bool :=
  is_alnum a || is_c c_us a || is_c c_dash a || is_c c_dot a || is_c c_colon a || is_c c_slash a.

Fixpoint str_forallb (p : ascii -> bool) (s : string) : bool :=
  match s with EmptyString => true | String c r => p c && str_forallb p r end.

Fixpoint is_prefix (p s : string) : bool :=
  match p, s with
  | EmptyString, _ => true
  | String a p', String b s' => Ascii.eqb a b && is_prefix p' s'
  | _, _ => false
  end.

Fixpoint strip_prefix (p s : string) : option string :=
  match p, s with
  | EmptyString, _ => Some s
  | String a p', String b s' => if Ascii.eqb a b then strip_prefix p' s' else None
  | _, _ => None
  end.

(* Go: s[i] ; None = index out of range (run-time panic) *)
Definition idxZ (s : string) (i : Z) : option ascii :=
  if (i <? 0)%Z then None else String.get (Z.to_nat i) s.
(* Go: s[lo:hi] ; None = slice bounds out of range (run-time panic) *)
Definition sliceZ (s : string) (lo hi : Z) : option string :=
  if ((0 <=? lo) && (lo <=? hi) && (hi <=? Z.of_nat (String.length s)))%Z
  then Some (String.substring (Z.to_nat lo) (Z.to_nat (hi - lo)) s) else None.

(* ------------------------------------------------------------------------------------ *)
(* results *)

Inductive err := EVersion | EAddress | EHost | EPath | ENoBackends | EAmbiguous | ENoop | EWrongNumber | EUndefinedParam | EParse.

Inductive result (A : Type) :=
| Ok (a : A)
| Err (e : err)
| Panic (site : string).
Arguments Ok {A} a.  Arguments Err {A} e.  Arguments Panic {A} site.

Definition bind {A B} (r : result A) (f : A -> result B) : result B :=
  match r with Ok a => f a | Err e => Err e | Panic s => Panic s end.

Fixpoint mapM {A B} (f : A -> result B) (l : list A) : result (list B) :=
  match l with
  | [] => Ok []
  | x :: r => bind (f x) (fun y => bind (mapM f r) (fun ys => Ok (y :: ys)))
  end.

(* ------------------------------------------------------------------------------------ *)
(* regular expressions, hand-written *)

Fixpoint span (p : ascii -> bool) (s : string) : string * string :=
  match s with
  | String c r => if p c then let '(a, b) := span p r in (String c a, b) else (EmptyString, s)
  | EmptyString => (EmptyString, EmptyString)
  end.

(* \{(cls+)\} anchored at the head of s: the key and the length of the match.  `}` is outside
   both classes, so only the maximal run can be followed by it: no backtracking. *)
Definition brace_at (cls : ascii -> bool) (s : string) : option (string * nat) :=
  match s with
  | String a r =>
      if is_c c_lbrace a then
        let '(k, rest) := span cls r in
        match k, rest with
        | String _ _, String b _ => if is_c c_rbrace b then Some (k, 2 + String.length k) else None
        | _, _ => None
        end
      else None
  | EmptyString => None
  end.
Definition simple_at (s : string) : option (string * nat) := brace_at simple_class s.
(* /\{([a-zA-Z\-_0-9]+)\} *)
Definition strict_at (s : string) : option (string * nat) :=
  match s with
  | String a r => if is_c c_slash a then
                    match brace_at strict_class r with Some (k, n) => Some (k, S n) | None => None end
                  else None
  | EmptyString => None
  end.

(* FindAllStringSubmatch(s, -1) projected on group 1: leftmost, non-overlapping.
   skip = bytes of the current match still to be passed over. *)
Fixpoint find_all (at_ : string -> option (string * nat)) (skip : nat) (s : string) : list string :=
  match s with
  | EmptyString => []
  | String c r =>
      match skip with
      | S k => find_all at_ k r
      | O => match at_ s with
             | Some (key, n) => key :: find_all at_ (n - 1) r
             | None => find_all at_ 0 r
             end
      end
  end.
Definition strict_keys (s : string) : list string := find_all strict_at 0 s.
Definition simple_keys (s : string) : list string := find_all simple_at 0 s.

(* ^(resp[\d]+_.+)?(JWT\.([\w\-\.:/]+))?$  -- MatchString.
   `.` does not match a newline and `$` is end of text, so: the empty string, or
   resp<digits>_<one or more non-newline bytes> (a JWT suffix is swallowed by `.+`), or
   JWT.<class bytes>. *)
Definition not_nl (a : ascii) : bool := negb (is_c c_nl a).
Definition seq_resp (s : string) : bool :=
  match strip_prefix "resp" s with
  | Some r => let '(d, rest) := span is_digit r in
              match d, rest with
              | String _ _, String u t => is_c c_us u && match t with String _ _ => str_forallb not_nl t | EmptyString => false end
              | _, _ => false
              end
  | None => false
  end.
Definition seq_jwt (s : string) : bool :=
  match strip_prefix "JWT." s with
  | Some (String c r) => str_forallb simple_class (String c r)
  | _ => false
  end.
Definition seq_param (s : string) : bool :=
  match s with EmptyString => true | _ => seq_resp s || seq_jwt s end.

(* invalidPattern, three alternatives:  ^[^/]   or   \*.   or   /__(debug|echo|health)T$
   where T is: nothing, or a slash followed by any non-newline bytes.  MatchString is an
   unanchored search: only the first alternative is tied to the start, only the third to
   the end. *)
Definition reserved_tail (s : string) : bool :=
  match s with
  | EmptyString => true
  | String a r => is_c c_slash a && str_forallb not_nl r
  end.
Definition reserved_words : list string := ["debug"; "echo"; "health"].
Definition reserved_at (s : string) : bool :=
  existsb (fun w => match strip_prefix ("/__" ++ w) s with Some t => reserved_tail t | None => false end)
          reserved_words.
Definition star_at (s : string) : bool :=
  match s with
  | String a (String b _) => is_c c_star a && not_nl b
  | _ => false
  end.
Fixpoint invalid_anywhere (s : string) : bool :=
  match s with
  | EmptyString => false
  | String c r => star_at s || reserved_at s || invalid_anywhere r
  end.
Definition invalid_path (s : string) : bool :=
  match s with
  | String a _ => negb (is_c c_slash a) || invalid_anywhere s
  | EmptyString => false
  end.

(* ------------------------------------------------------------------------------------ *)
(* standard-library pieces, hand-written *)

(* strings.ReplaceAll(s, old, new) for a non-empty old (the only use: old = "{"+k+"}") *)
Fixpoint replace_go (old new : string) (skip : nat) (s : string) : string :=
  match s with
  | EmptyString => EmptyString
  | String c r =>
      match skip with
      | S k => replace_go old new k r
      | O => if is_prefix old s then (new ++ replace_go old new (String.length old - 1) r)%string
             else String c (replace_go old new 0 r)
      end
  end.
Definition replace_all (s old new : string) : string :=
  match old with EmptyString => s | _ => replace_go old new 0 s end.

(* byte-wise order of sort.Strings *)
Fixpoint str_leb (a b : string) : bool :=
  match a, b with
  | EmptyString, _ => true
  | String _ _, EmptyString => false
  | String x a', String y b' =>
      if (code x <? code y)%N then true else if (code y <? code x)%N then false else str_leb a' b'
  end.
Fixpoint insert_sorted (x : string) (l : list string) : list string :=
  match l with
  | [] => [x]
  | y :: r => if str_leb x y then x :: l else y :: insert_sorted x r
  end.
Fixpoint sort_strings (l : list string) : list string :=
  match l with [] => [] | x :: r => insert_sorted x (sort_strings r) end.
(* adjacent duplicates of a sorted list *)
Fixpoint dedup (l : list string) : list string :=
  match l with
  | [] => []
  | x :: r => match r with
              | y :: _ => if str_eqb x y then dedup r else x :: dedup r
              | [] => [x]
              end
  end.

(* strings.Split(s, ".") : never empty *)
Fixpoint split_dot (s : string) : list string :=
  match s with
  | EmptyString => [EmptyString]
  | String c r => if is_c c_dot c then EmptyString :: split_dot r
                  else match split_dot r with
                       | h :: t => String c h :: t
                       | [] => [String c EmptyString]
                       end
  end.

(* net/textproto.CanonicalMIMEHeaderKey: a name made of token bytes only is canonicalised
   (upper case at the start and after each '-', lower case elsewhere), any other string is
   returned unchanged *)
Definition token_specials : list N := [33; 35; 36; 37; 38; 39; 42; 43; 45; 46; 94; 95; 96; 124; 126]%N.
Definition is_token_byte (a : ascii) : bool :=
  is_alnum a || existsb (fun n => is_c n a) token_specials.
Fixpoint canon_go (upper : bool) (s : string) : string :=
  match s with
  | EmptyString => EmptyString
  | String c r =>
      let c' := if upper then up c else low c in
      String c' (canon_go (is_c c_dash c') r)
  end.
Definition canon_header (s : string) : string :=
  if str_forallb is_token_byte s then canon_go true s else s.

(* cases.Title(language.Und).String(x[:1]) + x[1:] for x starting with an ASCII byte *)
Definition cap (s : string) : string :=
  match s with EmptyString => EmptyString | String c r => String (up c) r end.

(* URI.CleanPath *)
Definition clean_path (p : string) : string :=
  String (ascii_of_N c_slash)
         (match p with String a r => if is_c c_slash a then r else p | EmptyString => p end).

(* the part of s before the first '?', and the rest (starting with '?' when there is one) *)
Fixpoint cut_qm (s : string) : string * string :=
  match s with
  | EmptyString => (EmptyString, EmptyString)
  | String c r => if is_c c_qm c then (EmptyString, s)
                  else let '(a, b) := cut_qm r in (String c a, b)
  end.
Definition lb : string := String (ascii_of_N c_lbrace) EmptyString.
Definition rb : string := String (ascii_of_N c_rbrace) EmptyString.
(* URI.GetEndpointPath with the colon router pattern (config.RoutingPattern default):
   per parameter, Split at "?", ReplaceAll in the first part, Join *)
Definition endpoint_path (path : string) (params : list string) : string :=
  fold_left (fun res p => let '(a, b) := cut_qm res in
                          (replace_all a (lb ++ p ++ rb) (":" ++ p) ++ b)%string) params path.

(* ------------------------------------------------------------------------------------ *)
(* configuration *)

Inductive decoder := DNil | DJson | DJsonColl | DSafe | DString | DNoop.

Record backend := {
  b_host : list string;  b_nosan : bool;  b_method : string;  b_url : string;
  b_enc : string;  b_coll : bool;  b_sd : string;
  b_hdrs : list string;  b_allow : list string;  b_mapping : list (string * string);
  b_extra : obj;
  (* set by Init *)
  b_keys : list string;  b_dec : decoder;  b_timeout : Z;  b_cc : Z }.

Record endpoint := {
  e_path : string;  e_method : string;  e_backends : list backend;
  e_cc : Z;  e_timeout : Z;  e_cache : Z;  e_enc : string;  e_hdrs : list string;
  e_extra : obj }.

(* an async agent: consumer timeout, workers, health interval (connection), its backends and
   extra_config.  AgentStarter.Start builds its pipe with the same proxy factory as an
   endpoint's, from a synthetic endpoint (agent_endpoint below). *)
Record agent := {
  a_name : string;  a_timeout : Z;  a_workers : Z;  a_health : Z;
  a_backends : list backend;  a_extra : obj }.

Record svc := {
  s_version : Z;  s_bad_addr : bool;  s_host : list string;
  s_timeout : Z;  s_cache : Z;  s_enc : string;  s_norest : bool;
  s_endpoints : list endpoint;  s_agents : list agent }.

Definition noop : string := "no-op".

Definition decoder_of (lower_enc : string) (coll : bool) : decoder :=
  if str_eqb lower_enc "safejson" then DSafe
  else if str_eqb lower_enc "string" then DString
  else if str_eqb lower_enc noop then DNoop
  else if coll then DJsonColl else DJson.   (* "json" and the register's fallback *)

Section Init.
  (* config.URI.SafeCleanHost: None = errInvalidHost *)
  Variable clean_host : string -> option string.
  (* strings.ToLower *)
  Variable to_lower : string -> string.

  Fixpoint clean_hosts (hs : list string) : option (list string) :=
    match hs with
    | [] => Some []
    | h :: r => match clean_host h with
                | None => None
                | Some h' => match clean_hosts r with Some r' => Some (h' :: r') | None => None end
                end
    end.

  (* uniqueOutput: the sorted distinct placeholders and the "set size" it computes: an
     element is counted when its successor is met, so the last distinct one never is *)
  Definition unique_output (outs : list string) : list string * nat :=
    let u := dedup (sort_strings outs) in
    (u, List.length (filter (fun o => negb (seq_param o)) (removelast u))).

  (* the loop of initBackendURLMappings over the sorted distinct placeholders *)
  Fixpoint rewrite_keys (declared : list string) (outs : list string) (url : string) (keys : list string)
    : result (string * list string) :=
    match outs with
    | [] => Ok (url, keys)
    | o :: r =>
        if negb (seq_param o) && negb (str_mem o declared) then Err EUndefinedParam
        else match sliceZ o 0 1, sliceZ o 1 (Z.of_nat (String.length o)) with   (* output[:1], output[1:] *)
             | Some h, Some t =>
                 let key := (cap h ++ t)%string in
                 rewrite_keys declared r
                   (replace_all url (lb ++ o ++ rb) (lb ++ lb ++ "." ++ key ++ rb ++ rb)) (keys ++ [key])
             | _, _ => Panic "config.go:659 output[:1]"
             end
    end.

  (* initBackendDefaults + initBackendURLMappings; e is the endpoint after its own defaults,
     shosts the sanitised service hosts, declared the endpoint's placeholders *)
  Definition init_backend (shosts : list string) (e : endpoint) (declared : list string) (b : backend)
    : result backend :=
    bind (match b_host b with
          | [] => Ok shosts
          | _ => if b_nosan b then Ok (b_host b)
                 else match clean_hosts (b_host b) with Some hs => Ok hs | None => Err EHost end
          end) (fun hosts =>
    let method := if str_eqb (b_method b) "" then e_method e else b_method b in
    let enc := if str_eqb (e_enc e) noop then noop else b_enc b in
    let dec := decoder_of (to_lower enc) (b_coll b) in
    let hdrs := map canon_header (b_hdrs b) in
    let url := clean_path (b_url b) in
    let '(outs, set_size) := unique_output (simple_keys url) in
    if (List.length (dedup (sort_strings declared)) <? set_size)%nat then Err EWrongNumber
    else bind (rewrite_keys declared outs url []) (fun uk =>
      Ok {| b_host := hosts; b_nosan := b_nosan b; b_method := method; b_url := fst uk;
            b_enc := enc; b_coll := b_coll b; b_sd := b_sd b; b_hdrs := hdrs;
            b_allow := b_allow b; b_mapping := b_mapping b; b_extra := b_extra b;
            b_keys := snd uk; b_dec := dec; b_timeout := e_timeout e; b_cc := e_cc e |})).

  (* ambiguousParams: two different declared parameters that the routers expose under the
     same key (first byte title-cased).  seen maps a key to the last parameter met with it;
     p[:1] is a slicing site. *)
  Fixpoint ambiguous_go (seen : list (string * string)) (ps : list string) : result bool :=
    match ps with
    | [] => Ok false
    | p :: r =>
        match sliceZ p 0 1, sliceZ p 1 (Z.of_nat (String.length p)) with
        | Some h, Some t =>
            let key := (cap h ++ t)%string in
            match lookup key seen with
            | Some q => if negb (str_eqb q p) then Ok true else ambiguous_go (set key p seen) r
            | None => ambiguous_go (set key p seen) r
            end
        | _, _ => Panic "config.go:675 p[:1]"
        end
    end.

  (* one iteration of initEndpoints; s carries the service values after initGlobalParams *)
  Definition init_endpoint (s : svc) (e : endpoint) : result endpoint :=
    let path := clean_path (e_path e) in
    if invalid_path path then Err EPath
    else match e_backends e with
    | [] => Err ENoBackends
    | _ =>
      let hdrs := map canon_header (e_hdrs e) in
      let declared := if s_norest s then simple_keys path else strict_keys path in
      bind (ambiguous_go [] declared) (fun amb =>
      if (amb : bool) then Err EAmbiguous else
      let path' := endpoint_path path declared in
      let method := if str_eqb (e_method e) "" then "GET" else e_method e in
      let cache := if negb (s_cache s =? 0)%Z && (e_cache e =? 0)%Z then s_cache s else e_cache e in
      let timeout := if negb (s_timeout s =? 0)%Z && (e_timeout e =? 0)%Z then s_timeout s else e_timeout e in
      let cc := if (e_cc e =? 0)%Z then 1%Z else e_cc e in
      let enc := if str_eqb (e_enc e) "" then (if str_eqb (s_enc s) "" then "json" else s_enc s) else e_enc e in
      let e1 := {| e_path := path'; e_method := method; e_backends := e_backends e; e_cc := cc;
                   e_timeout := timeout; e_cache := cache; e_enc := enc; e_hdrs := hdrs;
                   e_extra := e_extra e |} in
      if str_eqb enc noop && (1 <? List.length (e_backends e))%nat then Err ENoop
      else bind (mapM (init_backend (s_host s) e1 declared) (e_backends e)) (fun bs =>
        Ok {| e_path := path'; e_method := method; e_backends := bs; e_cc := cc;
              e_timeout := timeout; e_cache := cache; e_enc := enc; e_hdrs := hdrs;
              e_extra := e_extra e |}))
    end.

  (* the backend loop of initAsyncAgents: hosts, method, timeout, decoder - the url_pattern,
     the header list and the concurrency are left as parsed *)
  Definition init_agent_backend (shosts : list string) (timeout : Z) (b : backend) : result backend :=
    bind (match b_host b with
          | [] => Ok shosts
          | _ => if b_nosan b then Ok (b_host b)
                 else match clean_hosts (b_host b) with Some hs => Ok hs | None => Err EHost end
          end) (fun hosts =>
      Ok {| b_host := hosts; b_nosan := b_nosan b;
            b_method := (if str_eqb (b_method b) "" then "GET" else b_method b); b_url := b_url b;
            b_enc := b_enc b; b_coll := b_coll b; b_sd := b_sd b; b_hdrs := b_hdrs b;
            b_allow := b_allow b; b_mapping := b_mapping b; b_extra := b_extra b;
            b_keys := b_keys b; b_dec := decoder_of (to_lower (b_enc b)) (b_coll b);
            b_timeout := timeout; b_cc := b_cc b |}).

  Definition second : Z := 1000000000.
  (* initAsyncAgentDefaults + the backend loop; s carries the values after initGlobalParams *)
  Definition init_agent (s : svc) (a : agent) : result agent :=
    let timeout := if negb (s_timeout s =? 0)%Z && (a_timeout a =? 0)%Z then s_timeout s else a_timeout a in
    let workers := if (a_workers a <? 1)%Z then 1%Z else a_workers a in
    let health := if (a_health a <? second)%Z then second else a_health a in
    bind (mapM (init_agent_backend (s_host s) timeout) (a_backends a)) (fun bs =>
      Ok {| a_name := a_name a; a_timeout := timeout; a_workers := workers; a_health := health;
            a_backends := bs; a_extra := a_extra a |}).

  Definition default_timeout : Z := 2000000000.   (* config.DefaultTimeout, nanoseconds *)
  Definition config_version : Z := 3.

  (* ServiceConfig.Init: version, global parameters, async agents, endpoints *)
  Definition init (s : svc) : result svc :=
    if negb (s_version s =? config_version)%Z then Err EVersion
    else if s_bad_addr s then Err EAddress
    else
      let timeout := if (s_timeout s =? 0)%Z then default_timeout else s_timeout s in
      match clean_hosts (s_host s) with
      | None => Err EHost
      | Some hs =>
          let s1 := {| s_version := s_version s; s_bad_addr := false; s_host := hs; s_timeout := timeout;
                       s_cache := s_cache s; s_enc := s_enc s; s_norest := s_norest s;
                       s_endpoints := s_endpoints s; s_agents := s_agents s |} in
          bind (mapM (init_agent s1) (s_agents s)) (fun ags =>
          bind (mapM (init_endpoint s1) (s_endpoints s)) (fun es =>
            Ok {| s_version := s_version s; s_bad_addr := false; s_host := hs; s_timeout := timeout;
                  s_cache := s_cache s; s_enc := s_enc s; s_norest := s_norest s; s_endpoints := es;
                  s_agents := ags |}))
      end.
End Init.

(* ------------------------------------------------------------------------------------ *)
(* proxy.DefaultFactory(...).New : what runs when the stack is built *)

Inductive fres := FOk | FErr | FPanic (site : string).

Definition ns_proxy : string := "github.com/devopsfaith/krakend/proxy".
Definition ns_graphql : string := "github.com/devopsfaith/krakend/transport/http/client/graphql".

Definition seq_f (a b : fres) : fres := match a with FOk => b | _ => a end.
Fixpoint all_f {A} (f : A -> fres) (l : list A) : fres :=
  match l with [] => FOk | x :: r => seq_f (f x) (all_f f r) end.

Definition str_field_ok (m : obj) (k : string) : bool :=
  match lookup k m with None | Some JNull | Some (JStr _) => true | _ => false end.
Section Factory.
(* os.ReadFile(path) succeeds - the file system at the moment the stack is built; instantiated
   per case by the harness from what os.ReadFile answered for every query_path of the case *)
Variable readable : string -> bool.

(* graphql.GetOptions: Some vars = the options were read: json.Marshal + Unmarshal into
   Options succeeded and, when query_path is a non-empty string, the file could be read.
   None = an error: NewGraphQLMiddleware warns and builds the backend without the stage. *)
Definition gql_options (extra : obj) : option obj :=
  match lookup ns_graphql extra with
  | None => None
  | Some JNull => Some []
  | Some (JObj m) =>
      if forallb (str_field_ok m) ["query"; "operationName"; "query_path"; "type"; "method"] then
        let vars := match lookup "variables" m with
                    | None | Some JNull => Some []
                    | Some (JObj vs) => Some vs
                    | _ => None
                    end in
        match lookup "query_path" m with
        | Some (JStr (String c r)) => if readable (String c r) then vars else None
        | _ => vars
        end
      else None
  | Some _ => None
  end.

(* graphql.New, one variable with a string value:
     if len(val) > 2 && val[0] == '{' && val[len(val)-1] == '}' { ... val[1:2] ... val[2:len(val)-1] } *)
Definition gql_var (val : string) : fres :=
  let n := Z.of_nat (String.length val) in
  if (2 <? n)%Z then
    match idxZ val 0 with
    | None => FPanic "graphql.go:103 val[0]"
    | Some a =>
        if negb (is_c c_lbrace a) then FOk
        else match idxZ val (n - 1) with
             | None => FPanic "graphql.go:103 val[len(val)-1]"
             | Some b =>
                 if negb (is_c c_rbrace b) then FOk
                 else match sliceZ val 1 2, sliceZ val 2 (n - 1) with
                      | Some _, Some _ => FOk
                      | None, _ => FPanic "graphql.go:104 val[1:2]"
                      | _, None => FPanic "graphql.go:104 val[2:len(val)-1]"
                      end
             end
    end
  else FOk.
Definition gql_new (vars : obj) : fres :=
  all_f (fun kv => match snd kv with JStr val => gql_var val | _ => FOk end) vars.
Definition graphql_mw (extra : obj) : fres :=
  match gql_options extra with Some vars => gql_new vars | None => FOk end.

(* newFlatmapFormatter(...) != nil *)
Definition flatmap_op_ok (v : json) : bool :=
  match v with
  | JObj m => match lookup "type" m with Some (JStr _) => true | _ => false end
  | _ => false
  end.
Definition has_flatmap (extra : obj) : bool :=
  match lookup ns_proxy extra with
  | Some (JObj e) => match lookup "flatmap_filter" e with
                     | Some (JArr vs) => existsb flatmap_op_ok vs
                     | _ => false
                     end
  | _ => false
  end.

(* NewEntityFormatter: wlFields[len(wlFields)-1] for every allow entry (only when the allow
   list is used), strings.Split(m, ".")[0] for every mapping *)
Definition formatter_new (b : backend) : fres :=
  if has_flatmap (b_extra b) then FOk
  else seq_f
    (all_f (fun k => match rev (split_dot k) with [] => FPanic "formatter.go:125 wlFields[len-1]" | _ => FOk end)
           (b_allow b))
    (all_f (fun kv => match split_dot (snd kv) with [] => FPanic "formatter.go:50 v[0]" | _ => FOk end)
           (b_mapping b)).

(* the subscriber factory: the "dns" entry (sd/dnssrv, registered by the harness as in
   KrakenD) reads cfg.Host[0]; every other name falls back to the fixed subscriber *)
Definition subscriber_new (b : backend) : fres :=
  if str_eqb (b_sd b) "dns" then
    match b_host b with [] => FPanic "dnssrv/subscriber.go:46 cfg.Host[0]" | _ => FOk end
  else FOk.

(* defaultFactory.newStack *)
Definition stack_new (b : backend) : fres :=
  seq_f (if str_eqb (b_enc b) noop then FOk else formatter_new b)
        (seq_f (subscriber_new b) (graphql_mw (b_extra b))).

(* NewMergeDataMiddleware: getResponseCombinerName's v.(string), sequentialMergerConfig's p.(string) *)
Definition merge_new (extra : obj) : fres :=
  match lookup ns_proxy extra with
  | Some (JObj e) =>
      seq_f (match lookup "combiner" e with
             | None | Some (JStr _) => FOk
             | Some _ => FPanic "merging.go:438 v.(string)"
             end)
            (match lookup "sequential_propagated_params" e with
             | Some (JArr a) => all_f (fun p => match p with JStr _ => FOk | _ => FPanic "merging.go:134 p.(string)" end) a
             | _ => FOk
             end)
  | _ => FOk
  end.

(* defaultFactory.New on an initialised endpoint *)
Definition factory_new (e : endpoint) : fres :=
  match e_backends e with
  | [] => FErr
  | [b] => stack_new b
  | bs => seq_f (all_f stack_new bs) (merge_new (e_extra e))
  end.
(* the endpoint AgentStarter.Start hands to the proxy factory for an agent (after it gave the
   name AsyncAgent-<i> to an unnamed agent; the name does not matter to the factory) *)
Definition agent_endpoint (a : agent) : endpoint :=
  {| e_path := a_name a; e_method := ""; e_backends := a_backends a; e_cc := 0; e_timeout := a_timeout a;
     e_cache := 0; e_enc := ""; e_hdrs := []; e_extra := a_extra a |}.
Definition agent_factory_new (a : agent) : fres := factory_new (agent_endpoint a).
End Factory.
