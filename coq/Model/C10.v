(* C10 - backend URL assembly (proxy/balancing.go newLoadBalancedMiddleware, proxy/http.go
   NewHTTPProxyDetailed, proxy/request.go GeneratePath), the gin parameter checker
   (router/gin/engine.go paramChecker) and the pieces of net/url they rest on
   (QueryEscape / QueryUnescape / PathUnescape / Values.Encode / ParseQuery / Parse /
   EscapedPath / String), all on byte strings.  Executable model only - no proofs here. *)
Require Import Verif.Common.Base.

Local Open Scope N_scope.

(* ------------------------------------------------------------------------------------ *)
(* bytes *)

Definition code (c : ascii) : N := N_of_ascii c.
Definition chr (n : N) : ascii := ascii_of_N n.

Definition c_pct : N := 37.   (* % *)
Definition c_plus : N := 43.  (* + *)
Definition c_sp : N := 32.
Definition c_amp : N := 38.   (* & *)
Definition c_eq : N := 61.    (* = *)
Definition c_semi : N := 59.  (* ; *)
Definition c_qm : N := 63.    (* ? *)
Definition c_hash : N := 35.  (* # *)
Definition c_slash : N := 47. (* / *)

Definition is_alnum (n : N) : bool :=
  ((97 <=? n) && (n <=? 122)) || ((65 <=? n) && (n <=? 90)) || ((48 <=? n) && (n <=? 57)).
(* - _ . ~ *)
Definition is_mark (n : N) : bool := (n =? 45) || (n =? 95) || (n =? 46) || (n =? 126).
(* $ & + , / : ; = ? @ *)
Definition is_reserved (n : N) : bool :=
  (n =? 36) || (n =? 38) || (n =? 43) || (n =? 44) || (n =? 47) || (n =? 58) || (n =? 59) ||
  (n =? 61) || (n =? 63) || (n =? 64).

(* net/url "encoding" modes that matter here *)
Inductive mode := MPath | MQuery | MFragment.

(* net/url shouldEscape *)
Definition should_escape (m : mode) (c : ascii) : bool :=
  let n := code c in
  if is_alnum n then false
  else if is_mark n then false
  else if is_reserved n then
         match m with MPath => n =? c_qm | MQuery => true | MFragment => false end
  else match m with
       | MFragment => negb ((n =? 33) || (n =? 40) || (n =? 41) || (n =? 42))  (* ! ( ) * *)
       | _ => true
       end.

(* upperhex[n] *)
Definition hex_digit (n : N) : ascii := chr (if n <? 10 then 48 + n else 55 + n).

(* ishex / unhex *)
Definition unhex (c : ascii) : option N :=
  let n := code c in
  if (48 <=? n) && (n <=? 57) then Some (n - 48)
  else if (97 <=? n) && (n <=? 102) then Some (n - 87)
  else if (65 <=? n) && (n <=? 70) then Some (n - 55)
  else None.

Definition esc_byte (m : mode) (c : ascii) : string :=
  if (code c =? c_sp) && match m with MQuery => true | _ => false end then String (chr c_plus) ""
  else if should_escape m c then
         String (chr c_pct) (String (hex_digit (code c / 16)) (String (hex_digit (code c mod 16)) ""))
       else String c "".

(* net/url escape(s, mode) *)
Fixpoint escape (m : mode) (s : string) : string :=
  match s with
  | EmptyString => EmptyString
  | String c r => (esc_byte m c ++ escape m r)%string
  end.

(* net/url unescape(s, mode): None = EscapeError *)
Fixpoint unescape (m : mode) (s : string) : option string :=
  match s with
  | EmptyString => Some EmptyString
  | String c r =>
      if code c =? c_pct then
        match r with
        | String a (String b r') =>
            match unhex a, unhex b with
            | Some x, Some y =>
                match unescape m r' with
                | Some t => Some (String (chr (16 * x + y)) t)
                | None => None
                end
            | _, _ => None
            end
        | _ => None
        end
      else
        match unescape m r with
        | Some t =>
            Some (String (if (code c =? c_plus) && match m with MQuery => true | _ => false end
                          then chr c_sp else c) t)
        | None => None
        end
  end.

Definition query_escape := escape MQuery.
Definition query_unescape := unescape MQuery.
Definition path_unescape := unescape MPath.

(* ------------------------------------------------------------------------------------ *)
(* small string helpers *)

Fixpoint has_byte (n : N) (s : string) : bool :=
  match s with
  | EmptyString => false
  | String c r => (code c =? n) || has_byte n r
  end.

Fixpoint count_byte (n : N) (s : string) : nat :=
  match s with
  | EmptyString => O
  | String c r => if code c =? n then S (count_byte n r) else count_byte n r
  end.

(* strings.Cut(s, sep) for a one byte separator: (before, after, found) *)
Fixpoint cut (n : N) (s : string) : string * string * bool :=
  match s with
  | EmptyString => (EmptyString, EmptyString, false)
  | String c r =>
      if code c =? n then (EmptyString, r, true)
      else let '(a, b, f) := cut n r in (String c a, b, f)
  end.

(* strings.Split(s, sep) for a one byte separator (never empty: "" gives [""]) *)
Fixpoint split_on (n : N) (s : string) : list string :=
  match s with
  | EmptyString => [EmptyString]
  | String c r =>
      if code c =? n then EmptyString :: split_on n r
      else match split_on n r with
           | [] => [String c EmptyString]
           | x :: t => String c x :: t
           end
  end.

Fixpoint is_prefix (p s : string) : bool :=
  match p, s with
  | EmptyString, _ => true
  | String a p', String b s' => Ascii.eqb a b && is_prefix p' s'
  | _, _ => false
  end.

Fixpoint drop (n : nat) (s : string) : string :=
  match n, s with
  | O, _ => s
  | S n', String _ r => drop n' r
  | S _, EmptyString => EmptyString
  end.

Fixpoint last_byte (s : string) : option N :=
  match s with
  | EmptyString => None
  | String c EmptyString => Some (code c)
  | String _ r => last_byte r
  end.

Fixpoint drop_last (s : string) : string :=
  match s with
  | EmptyString => EmptyString
  | String _ EmptyString => EmptyString
  | String c r => String c (drop_last r)
  end.

(* stringContainsCTLByte *)
Fixpoint has_ctl (s : string) : bool :=
  match s with
  | EmptyString => false
  | String c r => (code c <? 32) || (code c =? 127) || has_ctl r
  end.

(* ------------------------------------------------------------------------------------ *)
(* url.Values: a Go map key -> list of values; list order = one iteration order *)

Definition values := list (string * list string).

(* byte-wise order of Go strings *)
Fixpoint str_leb (a b : string) : bool :=
  match a, b with
  | EmptyString, _ => true
  | String _ _, EmptyString => false
  | String x a', String y b' =>
      if code x <? code y then true
      else if code y <? code x then false
      else str_leb a' b'
  end.

Fixpoint insert_key (x : string * list string) (l : values) : values :=
  match l with
  | [] => [x]
  | y :: r => if str_leb (fst x) (fst y) then x :: l else y :: insert_key x r
  end.

(* slices.Sort(keys) *)
Fixpoint sort_keys (q : values) : values :=
  match q with
  | [] => []
  | x :: r => insert_key x (sort_keys r)
  end.

(* the (key, value) pairs in the order Encode writes them, given the key order *)
Definition pairs_of (q : values) : list (string * string) :=
  flat_map (fun kv => map (fun v => (fst kv, v)) (snd kv)) q.

Definition enc_pair (kv : string * string) : string :=
  (query_escape (fst kv) ++ String (chr c_eq) (query_escape (snd kv)))%string.

Fixpoint join_amp (l : list string) : string :=
  match l with
  | [] => EmptyString
  | [x] => x
  | x :: r => (x ++ String (chr c_amp) (join_amp r))%string
  end.

(* url.Values.Encode *)
Definition values_encode (q : values) : string :=
  join_amp (map enc_pair (pairs_of (sort_keys q))).

(* one '&'-separated piece of url.parseQuery: Some (Some kv) appended, Some None skipped
   silently (empty), None = error recorded and piece skipped *)
Definition parse_piece (p : string) : option (option (string * string)) :=
  if has_byte c_semi p then None
  else match p with
       | EmptyString => Some None
       | _ => let '(k, v, _) := cut c_eq p in
              match query_unescape k with
              | None => None
              | Some k' => match query_unescape v with
                           | None => None
                           | Some v' => Some (Some (k', v'))
                           end
              end
       end.

Fixpoint parse_pieces (ps : list string) : list (string * string) * bool :=
  match ps with
  | [] => ([], true)
  | p :: r =>
      let '(l, ok) := parse_pieces r in
      match parse_piece p with
      | None => (l, false)
      | Some None => (l, ok)
      | Some (Some kv) => (kv :: l, ok)
      end
  end.

(* url.ParseQuery: the pairs appended to the map, in order, and "err == nil" *)
Definition parse_query (s : string) : list (string * string) * bool :=
  match s with
  | EmptyString => ([], true)
  | _ => parse_pieces (split_on c_amp s)
  end.

(* m[k] after the pairs were appended *)
Definition pvals (k : string) (l : list (string * string)) : list string :=
  flat_map (fun kv => if str_eqb k (fst kv) then [snd kv] else []) l.

(* q[k] (nil when absent) *)
Definition vals (k : string) (q : values) : list string :=
  flat_map (fun kv => if str_eqb k (fst kv) then snd kv else []) q.

(* ------------------------------------------------------------------------------------ *)
(* Request.GeneratePath: bytes.ReplaceAll per parameter; the list order stands for the map
   iteration order.  (transcribed here; C09 owns the substitution property) *)

Fixpoint replace_fuel (fuel : nat) (s key v : string) : string :=
  match fuel with
  | O => s
  | S f =>
      match s with
      | EmptyString => EmptyString
      | String c r =>
          if is_prefix key s then (v ++ replace_fuel f (drop (String.length key) s) key v)%string
          else String c (replace_fuel f r key v)
      end
  end.

(* bytes.ReplaceAll for a non-empty key *)
Definition replace_all (s key v : string) : string := replace_fuel (String.length s) s key v.

Definition placeholder (k : string) : string := ("{{." ++ k ++ "}}")%string.

Definition generate_path (pattern : string) (params : list (string * string)) : string :=
  fold_left (fun acc kv => replace_all acc (placeholder (fst kv)) (snd kv)) params pattern.

(* ------------------------------------------------------------------------------------ *)
(* url.Parse(host + path) for a configured host (scheme://name[:port], config.CleanHosts)
   and a path that starts with '/' *)

Record purl := {
  u_host : string;      (* scheme://authority, kept as written *)
  u_path : string;      (* URL.Path (decoded) *)
  u_rawp : string;      (* the path text as written (candidate RawPath) *)
  u_force : bool;       (* ForceQuery *)
  u_rawquery : string;
  u_frag : string;      (* URL.Fragment (decoded) *)
  u_rawf : string       (* fragment text as written (candidate RawFragment) *)
}.

Inductive pres := PErr | POutOfModel | POk (u : purl).

Definition starts_with_slash (s : string) : bool :=
  match s with String c _ => code c =? c_slash | EmptyString => false end.

(* what config.CleanHosts lets through: no byte that url.Parse would treat specially
   after the scheme *)
Fixpoint host_tail_ok (s : string) : bool :=
  match s with
  | EmptyString => true
  | String c r =>
      let n := code c in
      (is_alnum n || (n =? 46) || (n =? 95) || (n =? 45) || (n =? 58)) && host_tail_ok r
  end.
Definition wf_host (h : string) : bool :=
  if is_prefix "http://" h then
    negb (str_eqb (drop 7 h) "") && host_tail_ok (drop 7 h)
  else if is_prefix "https://" h then
    negb (str_eqb (drop 8 h) "") && host_tail_ok (drop 8 h)
  else false.

Definition url_parse (host path : string) : pres :=
  if negb (wf_host host) || negb (starts_with_slash path) then POutOfModel
  else
    let '(pre, frag, _) := cut c_hash path in
    if has_ctl pre then PErr
    else
      let '(p, rawq, force) :=
        if match last_byte pre with Some n => n =? c_qm | None => false end
           && Nat.eqb (count_byte c_qm pre) 1
        then (drop_last pre, EmptyString, true)
        else let '(a, b, _) := cut c_qm pre in (a, b, false) in
      match unescape MPath p with
      | None => PErr
      | Some dp =>
          match unescape MFragment frag with
          | None => PErr
          | Some df =>
              POk {| u_host := host; u_path := dp; u_rawp := p; u_force := force;
                     u_rawquery := rawq; u_frag := df; u_rawf := frag |}
          end
      end.

(* net/url validEncoded *)
Fixpoint valid_encoded (m : mode) (s : string) : bool :=
  match s with
  | EmptyString => true
  | String c r =>
      let n := code c in
      ((n =? 33) || (n =? 36) || (n =? 38) || (n =? 39) || (n =? 40) || (n =? 41) || (n =? 42) ||
       (n =? 43) || (n =? 44) || (n =? 59) || (n =? 61) || (n =? 58) || (n =? 64) ||
       (n =? 91) || (n =? 93) || (n =? 37) || negb (should_escape m c)) && valid_encoded m r
  end.

Definition opt_str_eqb (a : option string) (b : string) : bool :=
  match a with Some x => str_eqb x b | None => false end.

(* setPath + EscapedPath *)
Definition escaped_path (u : purl) : string :=
  let rawpath := if str_eqb (u_rawp u) (escape MPath (u_path u)) then EmptyString else u_rawp u in
  if negb (str_eqb rawpath "") && valid_encoded MPath rawpath
     && opt_str_eqb (unescape MPath rawpath) (u_path u)
  then rawpath
  else if str_eqb (u_path u) "*" then "*"
  else escape MPath (u_path u).

(* setFragment + EscapedFragment *)
Definition escaped_fragment (u : purl) : string :=
  let rawf := if str_eqb (u_rawf u) (escape MFragment (u_frag u)) then EmptyString else u_rawf u in
  if negb (str_eqb rawf "") && valid_encoded MFragment rawf
     && opt_str_eqb (unescape MFragment rawf) (u_frag u)
  then rawf
  else escape MFragment (u_frag u).

(* the statement of newLoadBalancedMiddleware after url.Parse *)
Definition append_query (u : purl) (q : values) : purl :=
  match q with
  | [] => u
  | _ =>
      {| u_host := u_host u; u_path := u_path u; u_rawp := u_rawp u; u_force := u_force u;
         u_rawquery := if str_eqb (u_rawquery u) "" then values_encode q
                       else (u_rawquery u ++ String (chr c_amp) (values_encode q))%string;
         u_frag := u_frag u; u_rawf := u_rawf u |}
  end.

Definition query_suffix (u : purl) : string :=
  if u_force u || negb (str_eqb (u_rawquery u) "")
  then String (chr c_qm) (u_rawquery u) else EmptyString.

(* URL.String(): what NewHTTPProxyDetailed hands to http.NewRequest *)
Definition url_string (u : purl) : string :=
  (u_host u ++ escaped_path u ++ query_suffix u ++
   (if str_eqb (u_frag u) "" then EmptyString else String (chr c_hash) (escaped_fragment u)))%string.

(* what the executor is called with (fields of the re-parsed URL of the outgoing request) *)
Record called := {
  o_host : string;      (* Scheme "://" Host *)
  o_path : string;      (* URL.Path: what a backend decoding the path once obtains *)
  o_rawquery : string;  (* URL.RawQuery *)
  o_frag : string;      (* URL.Fragment *)
  o_wire : string       (* URL.RequestURI(): the request target written on the wire *)
}.

(* None: the executor is not invoked (url.Parse failed) *)
Definition assemble (host path : string) (q : values) : option called :=
  match url_parse host path with
  | POk u0 =>
      let u := append_query u0 q in
      Some {| o_host := u_host u; o_path := u_path u; o_rawquery := u_rawquery u;
              o_frag := u_frag u; o_wire := (escaped_path u ++ query_suffix u)%string |}
  | _ => None
  end.

(* the glue of NewHTTPProxyDetailed made explicit: the balancer's URL is serialised
   (request.URL.String()) and http.NewRequest PARSES THAT STRING AGAIN; the executor sees the
   fields of the re-parsed URL.  url_rest is URL.String() after scheme://host. *)
Definition url_rest (u : purl) : string :=
  (escaped_path u ++ query_suffix u ++
   (if str_eqb (u_frag u) "" then EmptyString else String (chr c_hash) (escaped_fragment u)))%string.

Definition observe (u : purl) : called :=
  {| o_host := u_host u; o_path := u_path u; o_rawquery := u_rawquery u;
     o_frag := u_frag u; o_wire := (escaped_path u ++ query_suffix u)%string |}.

Definition assemble_glue (host path : string) (q : values) : option called :=
  match url_parse host path with
  | POk u0 =>
      let u := append_query u0 q in
      match url_parse (u_host u) (url_rest u) with
      | POk u' => Some (observe u')
      | _ => None
      end
  | _ => None
  end.

(* ------------------------------------------------------------------------------------ *)
(* gin: paramChecker and the way a request line reaches it *)

(* one parameter: PathUnescape succeeds, changes nothing, and no '?' / '#' *)
Definition param_ok (v : string) : bool :=
  match path_unescape v with
  | None => false
  | Some s => str_eqb s v && negb (has_byte c_qm s) && negb (has_byte c_hash s)
  end.

(* route of the endpoint: literal segments and named parameters *)
Inductive seg := Lit (s : string) | Par (name : string).

Fixpoint match_segs (r : list seg) (p : list string) : option (list (string * string)) :=
  match r, p with
  | [], [] => Some []
  | Lit s :: r', x :: p' => if str_eqb s x then match_segs r' p' else None
  | Par n :: r', x :: p' =>
      if str_eqb x "" then None
      else match match_segs r' p' with Some l => Some ((n, x) :: l) | None => None end
  | _, _ => None
  end.

(* gin matches on URL.Path (UseRawPath is off): parameters are pieces of the DECODED path *)
Definition route_match (r : list seg) (path : string) : option (list (string * string)) :=
  match split_on c_slash path with
  | EmptyString :: segs => match_segs r segs
  | _ => None
  end.

(* http.ReadRequest + url.ParseRequestURI on the request target: decoded path and raw query *)
Fixpoint has_ctl_or_space (s : string) : bool :=
  match s with
  | EmptyString => false
  | String c r => (code c <=? 32) || (code c =? 127) || has_ctl_or_space r
  end.

Definition wire_parse (target : string) : option (string * string) :=
  if str_eqb target "*" then Some ("*", EmptyString)   (* the asterisk form: Path "*" *)
  else if has_ctl_or_space target || negb (starts_with_slash target) then None
  else
    let '(p, rawq) :=
      if match last_byte target with Some n => n =? c_qm | None => false end
         && Nat.eqb (count_byte c_qm target) 1
      then (drop_last target, EmptyString)
      else let '(a, b, _) := cut c_qm target in (a, b) in
    match unescape MPath p with
    | Some dp => Some (dp, rawq)
    | None => None
    end.

(* first letter of the parameter name upper-cased (gin adapter: CanonicalMIMEHeaderKey of the
   first character); names used here start with an ASCII letter *)
Definition cap_first (k : string) : string :=
  match k with
  | String c r => let n := code c in
                  String (if (97 <=? n) && (n <=? 122) then chr (n - 32) else c) r
  | EmptyString => EmptyString
  end.

(* which client parameters the endpoint forwards: the list of names or "*" *)
Fixpoint dedup_keys (seen : list string) (l : list (string * string)) : list string :=
  match l with
  | [] => []
  | (k, _) :: r => if str_mem k seen then dedup_keys seen r else k :: dedup_keys (k :: seen) r
  end.

Definition client_values (pairs : list (string * string)) : values :=
  map (fun k => (k, pvals k pairs)) (dedup_keys [] pairs).

Definition forwarded (allow : list string) (pairs : list (string * string)) : values :=
  let all := client_values pairs in
  if str_mem "*" allow then all
  else filter (fun kv => str_mem (fst kv) allow) all.

Inductive gin_result :=
| GMalformed                 (* net/http refuses the request line: the router is not reached *)
| GNotRouted                 (* no route: 404 or a redirect, the proxy is not reached *)
| GReject                    (* paramChecker: 400, the proxy is not reached *)
| GProxy (params : list (string * string)) (path : string) (qep q : values) (c : option called).

(* NewFilterQueryStringsMiddleware: an empty backend list filters nothing *)
Definition backend_filter (be_allow : list string) (q : values) : values :=
  match be_allow with
  | [] => q
  | _ => filter (fun kv => str_mem (fst kv) be_allow) q
  end.

Definition gin_request (route : list seg) (allow be_allow : list string) (pattern host : string)
           (target : string) : gin_result :=
  match wire_parse target with
  | None => GMalformed
  | Some (dp, rawq) =>
      match route_match route dp with
      | None => GNotRouted
      | Some ps =>
          if forallb (fun kv => param_ok (snd kv)) ps then
            let params := map (fun kv => (cap_first (fst kv), snd kv)) ps in
            let path := generate_path pattern params in
            let qep := forwarded allow (fst (parse_query rawq)) in
            let q := backend_filter be_allow qep in
            GProxy params path qep q (assemble host path q)
          else GReject
      end
  end.

Definition gin_status (r : gin_result) : Z :=
  match r with
  | GReject => 400%Z
  | GProxy _ _ _ _ (Some _) => 200%Z
  | GProxy _ _ _ _ None => 500%Z
  | _ => 0%Z
  end.
