(* C06 - response manipulation (proxy/formatter.go: entityFormatter.Format, extractTarget,
   newAllowlistingFilter/buildDictPath/AllowlistPrune, newDenylistingFilter/buildDenyTree/
   recDelete; encoding/encoding.go: the JSON decoders).  Executable model only.
   Go maps are association lists; the list order stands for one iteration order. *)
Require Import Verif.Common.Base Verif.Common.Json.

(* strings.Split(s, "."): never empty; "" gives [""] *)
Fixpoint split_dot (s : string) : list string :=
  match s with
  | EmptyString => [""]
  | String c r =>
      if Ascii.eqb c "."%char then "" :: split_dot r
      else match split_dot r with
           | h :: t => String c h :: t
           | [] => [String c ""]
           end
  end.

(* ---- allow list ---- *)
(* the dictionary built by newAllowlistingFilter: `true` is a leaf, a nested map a node *)
Inductive wl := WLeaf | WNode (m : list (string * wl)).
Definition wtree := list (string * wl).

(* buildDictPath(acc, fields[:n-1]) followed by d[fields[n-1]] = true: an existing node is
   descended, anything else (absent or a leaf) is replaced by a fresh chain of nodes; the
   last field is overwritten by a leaf whatever was there *)
Fixpoint insert_allow (path : list string) (t : wtree) : wtree :=
  match path with
  | [] => t
  | [k] => set k WLeaf t
  | k :: rest =>
      match lookup k t with
      | Some (WNode sub) => set k (WNode (insert_allow rest sub)) t
      | _ => set k (WNode (insert_allow rest [])) t
      end
  end.

Definition build_allow (L : list (list string)) : wtree :=
  fold_left (fun t p => insert_allow p t) L [].

(* AllowlistPrune: a member is kept when its key is a leaf of the allow dictionary, or a
   node and the member is an object that is not emptied by the recursive pruning *)
Fixpoint prune_json (w : wtree) (v : json) {struct v} : json :=
  match v with
  | JObj d =>
      JObj ((fix go (d : list (string * json)) : list (string * json) :=
               match d with
               | [] => []
               | (k, x) :: r =>
                   match lookup k w with
                   | None => go r
                   | Some WLeaf => (k, x) :: go r
                   | Some (WNode sw) =>
                       match x with
                       | JObj _ => match prune_json sw x with
                                   | JObj [] => go r
                                   | x' => (k, x') :: go r
                                   end
                       | _ => go r
                       end
                   end
               end) d)
  | _ => v
  end.

Definition allow_filter (w : wtree) (d : obj) : obj := unobj (prune_json w (JObj d)).

(* ---- deny list ---- *)
(* the tree built by buildDenyTree: nil marks "delete here", a nested map an inner node.
   The Go tree is a map[string]interface{}; DOther stands for any other value: recDelete
   asserts rv.(map[string]interface{}) without checking, so meeting DOther is a panic. *)
Inductive dt := DNil | DNode (m : list (string * dt)) | DOther.
Definition dtree := list (string * dt).

Fixpoint insert_deny (path : list string) (t : dtree) : dtree :=
  match path with
  | [] => t
  | [n] => set n DNil t
  | n :: rest =>
      match lookup n t with
      | Some DNil => t
      | Some (DNode c) => set n (DNode (insert_deny rest c)) t
      | Some DOther => set n DNil t          (* "this should never happen" branch *)
      | None => set n (DNode (insert_deny rest [])) t
      end
  end.

Definition build_deny (L : list (list string)) : dtree :=
  fold_left (fun t p => insert_deny p t) L [].

(* recDelete: only objects are touched; arrays and scalars are left alone *)
Fixpoint rec_delete (ref : dtree) (v : json) {struct v} : json :=
  match v with
  | JObj d =>
      JObj ((fix go (d : list (string * json)) : list (string * json) :=
               match d with
               | [] => []
               | (k, x) :: r =>
                   match lookup k ref with
                   | Some DNil => go r
                   | Some (DNode c) => (k, rec_delete c x) :: go r
                   | _ => (k, x) :: go r
                   end
               end) d)
  | _ => v
  end.

(* does recDelete hit the unchecked type assertion? (a key present in both the tree and
   the object whose tree value is neither nil nor a map) *)
Fixpoint deny_panics (ref : dtree) (v : json) {struct v} : bool :=
  match v with
  | JObj d =>
      (fix go (d : list (string * json)) : bool :=
         match d with
         | [] => false
         | (k, x) :: r =>
             match lookup k ref with
             | Some DOther => true
             | Some (DNode c) => deny_panics c x || go r
             | _ => go r
             end
         end) d
  | _ => false
  end.

Definition deny_filter (t : dtree) (d : obj) : obj := unobj (rec_delete t (JObj d)).

(* ---- target, mapping, group ---- *)
Fixpoint extract_target (t : list string) (d : obj) : obj :=
  match t with
  | [] => d
  | p :: r => match lookup p d with
              | Some (JObj m) => extract_target r m
              | _ => []
              end
  end.

(* the loop over the (sanitised) mapping, in list order *)
Definition map_one (d : obj) (sd : string * string) : obj :=
  match lookup (fst sd) d with
  | Some v => remove (fst sd) (set (snd sd) v d)
  | None => d
  end.
Definition apply_mapping (mp : list (string * string)) (d : obj) : obj := fold_left map_one mp d.

Record cfg := { target : string; allow : list string; deny : list string;
                mapping : list (string * string); group : string }.

Inductive result := Ok (m : obj) | Panic.

Definition is_nil {A} (l : list A) : bool := match l with [] => true | _ => false end.

(* NewEntityFormatter keeps the part of every destination before the first dot *)
Definition sanitize (mp : list (string * string)) : list (string * string) :=
  map (fun sd => (fst sd, hd "" (split_dot (snd sd)))) mp.

Definition target_stage (c : cfg) (d : obj) : obj :=
  if str_eqb (target c) "" then d else extract_target (split_dot (target c)) d.

Definition filter_stage (c : cfg) (d : obj) : result :=
  if is_nil d then Ok d
  else if is_nil (allow c) then
         let t := build_deny (map split_dot (deny c)) in
         if deny_panics t (JObj d) then Panic else Ok (deny_filter t d)
       else Ok (allow_filter (build_allow (map split_dot (allow c))) d).

Definition mapping_stage (c : cfg) (d : obj) : obj :=
  if is_nil d then d else apply_mapping (sanitize (mapping c)) d.

Definition group_stage (c : cfg) (d : obj) : obj :=
  if str_eqb (group c) "" then d else [(group c, JObj d)].

Definition format (c : cfg) (d : obj) : result :=
  match filter_stage c (target_stage c d) with
  | Panic => Panic
  | Ok f => Ok (group_stage c (mapping_stage c f))
  end.

(* ---- which formatter NewEntityFormatter hands out (newFlatmapFormatter) ----
   ns: the value found under the proxy namespace of the backend's extra_config (None: absent).
   The flatmap formatter REPLACES this formatter (allow/deny/mapping are then ignored) exactly
   when that value is an object whose "flatmap_filter" is a list holding at least one usable
   operation: an object with a string "type".  Anything else - absent, another type, an empty
   list, a list of unusable entries - leaves the entity formatter modelled above in place. *)
Definition usable_op (v : json) : bool :=
  match v with
  | JObj m => match lookup "type" m with Some (JStr _) => true | _ => false end
  | _ => false
  end.
Definition uses_flatmap (ns : option json) : bool :=
  match ns with
  | Some (JObj e) => match lookup "flatmap_filter" e with
                     | Some (JArr vs) => existsb usable_op vs
                     | _ => false
                     end
  | _ => false
  end.

(* ---- decoders (encoding.JSONDecoder / JSONCollectionDecoder; config.go selects by
   is_collection): None = the decoder returns an error.  `null` leaves the Go value nil,
   which is observed as an empty map / empty slice. *)
Definition decode (is_collection : bool) (payload : json) : option obj :=
  if is_collection then
    match payload with
    | JArr l => Some [("collection", JArr l)]
    | JNull => Some [("collection", JArr [])]
    | _ => None
    end
  else
    match payload with
    | JObj m => Some m
    | JNull => Some []
    | _ => None
    end.

(* backend payload -> decoder -> formatter (proxy/http_response.go) *)
Definition respond (c : cfg) (is_collection : bool) (payload : json) : option result :=
  match decode is_collection payload with
  | Some d => Some (format c d)
  | None => None
  end.

(* ---- end to end: an endpoint with several backends ----
   Each backend payload is decoded and formatted with that backend's own configuration
   (respond); the parallel merge (proxy/merging.go, model: Verif.Model.C01 instantiated with
   json values) unites the formatted outputs at top level in the order the answers arrive;
   the router renders the merged Data as the JSON document the client receives. *)
Require Verif.Model.C01.

Record backend := { b_cfg : cfg; b_coll : bool; b_payload : json }.

(* the formatted output of a backend that answered; None: its decoder failed (an error) *)
Definition backend_out (b : backend) : option obj :=
  match respond (b_cfg b) (b_coll b) (b_payload b) with
  | Some (Ok m) => Some m
  | _ => None
  end.

(* the message requestPart delivers to the merge for this backend *)
Definition msg_of_backend (b : backend) : C01.msg json :=
  match backend_out b with
  | Some m => C01.MP {| C01.data := Some m; C01.complete := true |}
  | None => C01.MF (C01.EBackend "decode")
  end.

(* the document the client receives when the backends' answers arrive in the order of the
   list; None: no document (no backend answered: the router replies with an error status) *)
Definition client_doc (arrived : list backend) : option obj :=
  match fst (C01.merge_run (List.length arrived) (map msg_of_backend arrived)) with
  | Some r => C01.data r
  | None => None
  end.
