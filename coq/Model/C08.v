(* C08 - which client headers and query-string parameters reach a backend.
   Executable model of: config Init (header names canonicalised), the two router request
   builders (router/gin/endpoint.go NewRequest, router/mux/endpoint.go NewRequestBuilder - the
   one used by mux, chi, gorilla, httptreemux, negroni), the default header list, the backend
   level filters (proxy/headers_filter.go, proxy/query_strings_filter.go), the order of the
   default backend stack (proxy/factory.go newStack) and the rendering of the query into the URL
   (proxy/balancing.go).  No proofs here. *)
Require Import Verif.Common.Base.

(* ------------------------------------------------------------------------------------ *)
(* bytes and textproto.CanonicalMIMEHeaderKey *)

Definition in_range (lo hi : N) (c : ascii) : bool :=
  let n := N_of_ascii c in (lo <=? n)%N && (n <=? hi)%N.
Definition is_lower (c : ascii) : bool := in_range 97 122 c.
Definition is_upper (c : ascii) : bool := in_range 65 90 c.
Definition is_digit (c : ascii) : bool := in_range 48 57 c.
Definition to_upper (c : ascii) : ascii :=
  if is_lower c then ascii_of_N (N_of_ascii c - 32) else c.
Definition to_lower (c : ascii) : ascii :=
  if is_upper c then ascii_of_N (N_of_ascii c + 32) else c.

Fixpoint ascii_mem (c : ascii) (s : string) : bool :=
  match s with
  | EmptyString => false
  | String d r => Ascii.eqb c d || ascii_mem c r
  end.

(* validHeaderFieldByte: the token characters of RFC 7230 *)
Definition is_token (c : ascii) : bool :=
  is_lower c || is_upper c || is_digit c || ascii_mem c "!#$%&'*+-.^_`|~".

Fixpoint all_token (s : string) : bool :=
  match s with
  | EmptyString => true
  | String c r => is_token c && all_token r
  end.

Definition dash : ascii := "-"%char.

(* the rewriting loop: upper-case the first letter and every letter after '-', lower-case
   the others *)
Fixpoint canon_go (up : bool) (s : string) : string :=
  match s with
  | EmptyString => EmptyString
  | String c r =>
      let c' := if up then to_upper c else to_lower c in
      String c' (canon_go (Ascii.eqb c' dash) r)
  end.

(* a name with a byte that is not a token character is returned unchanged *)
Definition canon (s : string) : string :=
  if all_token s then canon_go true s else s.

(* ------------------------------------------------------------------------------------ *)
(* Go maps string -> []string as association lists (Base: lookup / set / remove).  What a
   reader of the map observes under a key: the value list, [] when absent. *)

Definition hmap := list (string * list string).

Definition getl (k : string) (m : hmap) : list string :=
  match lookup k m with Some vs => vs | None => [] end.

(* m[k] = append(m[k], v) *)
Definition add_val (m : hmap) (p : string * string) : hmap :=
  set (fst p) (getl (fst p) m ++ [snd p]) m.

(* net/http header parsing, url.ParseQuery: pairs in order of appearance grouped by key *)
Definition group (ps : list (string * string)) : hmap := fold_left add_val ps [].

(* the values given for key k, in order *)
Definition vals_of (k : string) (ps : list (string * string)) : list string :=
  map snd (filter (fun p => str_eqb (fst p) k) ps).

(* url.Values.Encode as a list of pairs (the order of the keys is irrelevant to a reader
   that parses the query again; the order of the values of one key is kept) *)
Definition flatten (m : hmap) : list (string * string) :=
  List.concat (map (fun kv => map (fun v => (fst kv, v)) (snd kv)) m).

(* ------------------------------------------------------------------------------------ *)
(* constants (transport/http/server/server.go, core) *)

Definition XFF := "X-Forwarded-For".
Definition XFH := "X-Forwarded-Host".
Definition XFV := "X-Forwarded-Via".
Definition UA := "User-Agent".
Definition star := "*".
Definition default_headers : list string := ["Content-Type"].

(* ------------------------------------------------------------------------------------ *)
(* configuration and client request *)

Inductive adapter := Gin | Mux | Chi | Gorilla | Httptreemux | Negroni.
Inductive builder := BGin | BMux.
(* router/chi/endpoint.go, router/gorilla/router.go, router/httptreemux/router.go,
   router/negroni/router.go all instantiate mux.NewRequestBuilder *)
Definition builder_of (a : adapter) : builder :=
  match a with Gin => BGin | _ => BMux end.

Record config := {
  c_adapter : adapter;
  c_ep_headers : list string;      (* endpoint input_headers as written in the file *)
  c_ep_query : list string;        (* endpoint input_query_strings *)
  c_be_headers : list string;      (* backend input_headers *)
  c_be_query : list string;        (* backend input_query_strings *)
  c_static : list (string * string)  (* the query written in url_pattern, parsed *)
}.

Record request := {
  r_lines : list (string * string);   (* header lines as sent: name (any case), value *)
  r_query : list (string * string);   (* query parameters as sent (decoded), in order *)
  r_host : string;
  r_ip : string;                      (* what ClientIP() / clientIP(r) answers *)
  r_ua : string                       (* server.UserAgentHeaderValue *)
}.

(* config.Init: initEndpoints / initBackendDefaults canonicalise the header lists in place;
   the query-string lists are left as written *)
Definition init_headers (l : list string) : list string := map canon l.

(* an endpoint without input_headers gets server.HeadersToSend *)
Definition eff_headers (l : list string) : list string :=
  match l with [] => default_headers | _ => l end.

(* what net/http hands to the handler: names canonicalised, values grouped in order *)
Definition client_hmap (lines : list (string * string)) : hmap :=
  group (map (fun p => (canon (fst p), snd p)) lines).
Definition client_qmap (q : list (string * string)) : hmap := group q.

(* ------------------------------------------------------------------------------------ *)
(* the request builders *)

(* for _, k := range headersToSend { if k == "*" { headers = r.Header; break }
     if h, ok := r.Header[Canonical(k)]; ok { headers[k] = h } } *)
Fixpoint select_h (l : list string) (cm acc : hmap) : hmap :=
  match l with
  | [] => acc
  | k :: r =>
      if str_eqb k star then cm
      else match lookup (canon k) cm with
           | Some h => select_h r cm (set k h acc)
           | None => select_h r cm acc
           end
  end.

(* for i := range queryString { if qs[i] == "*" { query = all; break }
     if v, ok := queryValues[qs[i]]; ok && len(v) > 0 { query[qs[i]] = v } } *)
Fixpoint select_q (l : list string) (qm acc : hmap) : hmap :=
  match l with
  | [] => acc
  | k :: r =>
      if str_eqb k star then qm
      else match lookup k qm with
           | Some (v :: vs) => select_q r qm (set k (v :: vs) acc)
           | _ => select_q r qm acc
           end
  end.

Definition add_gateway (ip host ua : string) (m : hmap) : hmap :=
  let m1 := set XFF [ip] m in
  let m2 := set XFH [host] m1 in
  if mem UA m2 then set XFV [ua] m2 else set UA [ua] m2.

(* the proxy.Request, as far as C08 looks at it *)
Record preq := {
  p_headers : hmap;
  p_query : hmap;
  p_url : option (list (string * string))   (* query of the URL once rendered *)
}.

(* router/mux/endpoint.go NewRequestBuilder *)
Definition mux_new_request (headersToSend queryString : list string) (r : request) : preq :=
  let headers := select_h headersToSend (client_hmap (r_lines r)) [] in
  let headers := add_gateway (r_ip r) (r_host r) (r_ua r) headers in
  let queryValues := client_qmap (r_query r) in
  let query := select_q queryString queryValues [] in
  {| p_headers := headers; p_query := query; p_url := None |}.

(* router/gin/endpoint.go NewRequest (parses the query again in the wildcard branch) *)
Definition gin_new_request (headersToSend queryString : list string) (r : request) : preq :=
  let headers := select_h headersToSend (client_hmap (r_lines r)) [] in
  let headers := add_gateway (r_ip r) (r_host r) (r_ua r) headers in
  let query :=
    (fix go (l : list string) (acc : hmap) : hmap :=
       match l with
       | [] => acc
       | k :: rest =>
           if str_eqb k star then client_qmap (r_query r)
           else match lookup k (client_qmap (r_query r)) with
                | Some (v :: vs) => go rest (set k (v :: vs) acc)
                | _ => go rest acc
                end
       end) queryString [] in
  {| p_headers := headers; p_query := query; p_url := None |}.

Definition new_request (b : builder) : list string -> list string -> request -> preq :=
  match b with BGin => gin_new_request | BMux => mux_new_request end.

(* ------------------------------------------------------------------------------------ *)
(* the backend stack *)

(* proxy/headers_filter.go and proxy/query_strings_filter.go (same code over two maps) *)
Definition count_allowed (l : list string) (m : hmap) : nat :=
  List.length (filter (fun kv => str_mem (fst kv) l) m).

Definition rebuild (l : list string) (m : hmap) : hmap :=
  fold_left (fun acc v => match lookup v m with Some vs => set v vs acc | None => acc end) l [].

Definition be_filter (l : list string) (m : hmap) : hmap :=
  match l with
  | [] => m                                         (* emptyMiddlewareFallback *)
  | _ =>
      if Nat.eqb (List.length m) 0 then m
      else if Nat.eqb (count_allowed l m) (List.length m) then m   (* nothing to filter *)
      else rebuild l m
  end.

Inductive stage := SFilterQuery | SFilterHeaders | SRender | SNeutral.

(* defaultFactory.newStack, innermost first (regenerated from the sources as
   SourceFacts.stack_newStack and compared with this literal by Facts_stack.stack_order_ok) *)
Definition newStack_names : list string :=
  ["pf.backendFactory"; "NewBackendPluginMiddleware"; "NewLoadBalancedMiddlewareWithSubscriberAndLogger";
   "NewGraphQLMiddleware"; "NewFilterHeadersMiddleware"; "NewFilterQueryStringsMiddleware";
   "NewConcurrentMiddlewareWithLogger"; "NewRequestBuilderMiddlewareWithLogger"].

(* what each stage does to headers / query / URL of a plain (non GraphQL) backend: the
   request builder sets path and method, the concurrent stage clones, the plugin stage is
   the identity without plugins, the GraphQL stage is the identity for a plain backend *)
Definition stage_of (name : string) : stage :=
  if str_eqb name "NewFilterQueryStringsMiddleware" then SFilterQuery
  else if str_eqb name "NewFilterHeadersMiddleware" then SFilterHeaders
  else if str_eqb name "NewLoadBalancedMiddlewareWithSubscriberAndLogger" then SRender
  else SNeutral.

(* a request travels from the outermost middleware to the backend: reverse order *)
Definition exec_order (names : list string) : list stage := map stage_of (rev names).
Definition default_exec : list stage := exec_order newStack_names.

Definition run_stage (be_h be_q : list string) (static : list (string * string)) (s : stage) (p : preq) : preq :=
  match s with
  | SFilterQuery => {| p_headers := p_headers p; p_query := be_filter be_q (p_query p); p_url := p_url p |}
  | SFilterHeaders => {| p_headers := be_filter be_h (p_headers p); p_query := p_query p; p_url := p_url p |}
  | SRender => {| p_headers := p_headers p; p_query := p_query p; p_url := Some (static ++ flatten (p_query p))%list |}
  | SNeutral => p
  end.

Definition run_stack (stages : list stage) (be_h be_q : list string) (static : list (string * string)) (p : preq) : preq :=
  fold_left (fun acc s => run_stage be_h be_q static s acc) stages p.

(* ------------------------------------------------------------------------------------ *)
(* what the HTTPRequestExecutor of the backend is handed: the header map and the parsed
   query of the URL *)

Record obs := { o_headers : hmap; o_query : hmap }.

Definition observe (p : preq) : obs :=
  {| o_headers := p_headers p;
     o_query := match p_url p with Some ps => group ps | None => [] end |}.

Definition outgoing_with (stages : list stage) (c : config) (r : request) : obs :=
  let eh := eff_headers (init_headers (c_ep_headers c)) in
  let p := new_request (builder_of (c_adapter c)) eh (c_ep_query c) r in
  observe (run_stack stages (init_headers (c_be_headers c)) (c_be_query c) (c_static c) p).

Definition outgoing (c : config) (r : request) : obs := outgoing_with default_exec c r.

(* ------------------------------------------------------------------------------------ *)
(* wire level of the query string: url.QueryEscape / url.QueryUnescape, url.Values.Encode (as
   far as a reader that parses again can tell: keys in map order instead of sorted order),
   url.ParseQuery, and the text proxy/balancing.go writes into URL.RawQuery.  The pair level
   above (flatten / group) is what remains of this layer once Proof/C08.v has shown that
   parsing undoes encoding. *)

Definition amp : ascii := "&"%char.
Definition eqc : ascii := "="%char.
Definition semi : ascii := ";"%char.
Definition pct : ascii := "%"%char.
Definition plus : ascii := "+"%char.
Definition spc : ascii := " "%char.

(* shouldEscape(c, encodeQueryComponent) = false *)
Definition unreserved (c : ascii) : bool :=
  is_lower c || is_upper c || is_digit c || ascii_mem c "-_.~".

Definition hex_digit (n : N) : ascii :=
  if (n <? 10)%N then ascii_of_N (48 + n) else ascii_of_N (55 + n).   (* "0123456789ABCDEF" *)

(* ishex / unhex: both cases accepted *)
Definition hexval (c : ascii) : option N :=
  let n := N_of_ascii c in
  if is_digit c then Some (n - 48)%N
  else if in_range 65 70 c then Some (n - 55)%N
  else if in_range 97 102 c then Some (n - 87)%N
  else None.

Definition escape_byte (c : ascii) : string :=
  if unreserved c then String c EmptyString
  else if Ascii.eqb c spc then String plus EmptyString
  else let n := N_of_ascii c in
       String pct (String (hex_digit (n / 16)) (String (hex_digit (n mod 16)) EmptyString)).

Fixpoint query_escape (s : string) : string :=
  match s with
  | EmptyString => EmptyString
  | String c r => (escape_byte c ++ query_escape r)%string
  end.

(* None = EscapeError *)
Fixpoint query_unescape (s : string) : option string :=
  match s with
  | EmptyString => Some EmptyString
  | String c r =>
      if Ascii.eqb c pct then
        match r with
        | String a (String b r') =>
            match hexval a, hexval b with
            | Some x, Some y => option_map (String (ascii_of_N (16 * x + y))) (query_unescape r')
            | _, _ => None
            end
        | _ => None
        end
      else if Ascii.eqb c plus then option_map (String spc) (query_unescape r)
      else option_map (String c) (query_unescape r)
  end.

Definition encode_pair (p : string * string) : string :=
  (query_escape (fst p) ++ String eqc (query_escape (snd p)))%string.

Fixpoint join_amp (l : list string) : string :=
  match l with
  | [] => EmptyString
  | [x] => x
  | x :: r => (x ++ String amp (join_amp r))%string
  end.

Definition encode_pairs (ps : list (string * string)) : string := join_amp (map encode_pair ps).

(* strings.Split on one byte: never the empty list *)
Fixpoint split_on (d : ascii) (s : string) : list string :=
  match s with
  | EmptyString => [EmptyString]
  | String c r =>
      if Ascii.eqb c d then EmptyString :: split_on d r
      else match split_on d r with
           | x :: xs => String c x :: xs
           | [] => [String c EmptyString]
           end
  end.

(* strings.Cut *)
Fixpoint cut (d : ascii) (s : string) : string * string :=
  match s with
  | EmptyString => (EmptyString, EmptyString)
  | String c r => if Ascii.eqb c d then (EmptyString, r)
                  else let '(a, b) := cut d r in (String c a, b)
  end.

(* one '&'-separated piece of url.ParseQuery: empty pieces, pieces with ';' and pieces whose
   key or value does not unescape are dropped (the error is reported, the rest is kept) *)
Definition parse_segment (seg : string) : option (string * string) :=
  match seg with
  | EmptyString => None
  | _ =>
      if ascii_mem semi seg then None
      else let '(k, v) := cut eqc seg in
           match query_unescape k, query_unescape v with
           | Some k', Some v' => Some (k', v')
           | _, _ => None
           end
  end.

Fixpoint filter_map {A B} (f : A -> option B) (l : list A) : list B :=
  match l with
  | [] => []
  | x :: r => match f x with Some y => y :: filter_map f r | None => filter_map f r end
  end.

Definition parse_query (raw : string) : list (string * string) :=
  filter_map parse_segment (split_on amp raw).

(* proxy/balancing.go: RawQuery of url.Parse(host + path) is the text after '?' in url_pattern;
   if len(r.Query) > 0 { if len(RawQuery) > 0 { RawQuery += "&" + Encode() } else { RawQuery += Encode() } } *)
Definition render_raw (static_raw : string) (q : hmap) : string :=
  match q with
  | [] => static_raw
  | _ => match static_raw with
         | EmptyString => encode_pairs (flatten q)
         | _ => (static_raw ++ String amp (encode_pairs (flatten q)))%string
         end
  end.

(* the Query map the load balancer renders, and the RawQuery the executor is handed *)
Definition final_query (c : config) (r : request) : hmap :=
  be_filter (c_be_query c)
    (p_query (new_request (builder_of (c_adapter c)) (eff_headers (init_headers (c_ep_headers c))) (c_ep_query c) r)).

Definition outgoing_raw (c : config) (static_raw : string) (r : request) : string :=
  render_raw static_raw (final_query c r).

(* ------------------------------------------------------------------------------------ *)
(* GraphQL backends (proxy/graphql.go): the stage sits between the two filters and the load
   balancer.  It gives the request its own Content-Length / Content-Type and, with the GET
   transport, its own query / operationName / variables parameters (the client's parameters
   of these names are dropped).  What the operation's parameter values and the body are is
   C07's subject: here they are inputs. *)

Definition CT := "Content-Type".
Definition CL := "Content-Length".
Definition json_ct := "application/json".

Inductive gql :=
| GNone                      (* plain backend *)
| GPost (clen : string)      (* POST transport: length of the generated body *)
| GGet (opq : hmap).         (* GET transport: the parameters generated for the operation *)

Definition gql_keys : list string := ["query"; "operationName"; "variables"].

Definition gql_headers (n : string) (h : hmap) : hmap := set CT [json_ct] (set CL [n] h).

Definition gql_query (opq q : hmap) : hmap :=
  fold_left (fun acc kv => set (fst kv) (snd kv) acc) opq
            (remove "variables" (remove "operationName" (remove "query" q))).

Definition graphql_stage (g : gql) (p : preq) : preq :=
  match g with
  | GNone => p
  | GPost n => {| p_headers := gql_headers n (p_headers p); p_query := p_query p; p_url := p_url p |}
  | GGet opq => {| p_headers := gql_headers "0" (p_headers p); p_query := gql_query opq (p_query p); p_url := p_url p |}
  end.

(* the default stack with the GraphQL stage in its place (Proof/C08.v: the place is the one
   newStack_names gives it, and with GNone this is `outgoing`) *)
Definition outgoing_gql (g : gql) (c : config) (r : request) : obs :=
  let be_h := init_headers (c_be_headers c) in
  let st := run_stage be_h (c_be_query c) (c_static c) in
  let p := new_request (builder_of (c_adapter c)) (eff_headers (init_headers (c_ep_headers c))) (c_ep_query c) r in
  observe (st SRender (graphql_stage g (st SFilterHeaders (st SFilterQuery p)))).
