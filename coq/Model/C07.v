(* C07 - GraphQL backends: option handling and variable binding
   (transport/http/client/graphql/graphql.go), the GraphQL middleware (proxy/graphql.go) and its
   place in the default backend stack (proxy/factory.go newStack, proxy/balancing.go,
   proxy/headers_filter.go, proxy/query_strings_filter.go, proxy/http.go).
   Executable model only.  The model works on decoded trees: the byte level of the JSON and URL
   encodings is encoding/json's and net/url's (the harness decodes what the backend received
   with the same libraries); Model part 2 below gives the string escaping of encoding/json on
   bytes.  The model describes the code with the three repairs of /verif/fixes/C07-*.diff applied:
   a mutation body that is the literal null is rejected (null-body), numbers of the body keep
   their literal (body-numbers), the operation's URL parameters replace client query strings of
   the same name (get-query-collision). *)
Require Import Verif.Common.Base Verif.Common.Json.

(* ---------- capitalisation shared with the configuration ---------- *)

(* cases.Title(language.Und).String on a ONE BYTE string (both call sites slice one byte):
   a-z become A-Z, every other byte (digits, punctuation, bytes >= 0x80) is unchanged *)
Definition upper_byte (c : ascii) : ascii :=
  let n := N_of_ascii c in
  if ((97 <=? n) && (n <=? 122))%N then ascii_of_N (n - 32) else c.

Definition cap_first (s : string) : string :=
  match s with EmptyString => EmptyString | String c r => String (upper_byte c) r end.

(* config.initBackendURLMappings: key := title.String(output[:1]) + output[1:]; this is the name
   under which the routers store the path parameter {output} in Request.Params *)
Definition config_cap (name : string) : string := cap_first name.

(* ---------- graphql.New: placeholder detection ---------- *)

Fixpoint last_byte (s : string) : option ascii :=
  match s with
  | EmptyString => None
  | String c EmptyString => Some c
  | String _ r => last_byte r
  end.
Fixpoint drop_last (s : string) : string :=
  match s with
  | EmptyString => EmptyString
  | String _ EmptyString => EmptyString
  | String c r => String c (drop_last r)
  end.

Definition lbrace : ascii := ascii_of_N 123.
Definition rbrace : ascii := ascii_of_N 125.

(* len(val) > 2 && val[0] == '{' && val[len(val)-1] == '}'  ->  key = Title(val[1:2]) + val[2:len-1] *)
Definition placeholder (val : string) : option string :=
  match val with
  | String c r =>
      if Ascii.eqb c lbrace && (2 <=? String.length r)%nat &&
         match last_byte r with Some l => Ascii.eqb l rbrace | None => false end
      then Some (cap_first (drop_last r)) else None
  | EmptyString => None
  end.

Definition params := list (string * string).

(* params[key] of a Go map: the zero value when absent *)
Definition param (ps : params) (k : string) : string :=
  match lookup k ps with Some v => v | None => EmptyString end.

Definition bind_value (ps : params) (v : json) : json :=
  match v with
  | JStr s => match placeholder s with Some k => JStr (param ps k) | None => v end
  | _ => v
  end.

(* paramExtractor: every replacement overwrites its own key; order of the map irrelevant *)
Definition bind_vars (ps : params) (vars : obj) : obj :=
  map (fun kv => (fst kv, bind_value ps (snd kv))) vars.

(* ---------- options ---------- *)
Inductive optype := TQuery | TMutation.
Inductive transport := TPost | TGet.

Record opts := { o_query : string; o_name : string; o_vars : obj; o_type : optype; o_method : transport }.

(* what the client body is, as classified by an independent decoding (encoding/json with
   UseNumber): an object, the literal null, another JSON value, or not a JSON text at all
   (empty, blank, truncated, trailing data - and a body STREAM that fails with a read error,
   whatever prefix it delivered before: what arrived is not the client's body; also for the
   copies proxy.CloneRequest hands to the attempts of concurrent_calls > 1, see
   fixes/C07-clone-body-read-error.diff) *)
Inductive cbody := BObject (o : obj) | BNull | BOtherValue | BInvalid.

(* fromBody: the body's members, then the configured defaults for the keys it lacks *)
Definition complete (body defaults : obj) : obj :=
  (body ++ filter (fun kv => negb (mem (fst kv) body)) defaults)%list.

Record gql := { g_query : string; g_name : string; g_vars : obj }.

(* None: the extractor returns an error *)
Definition gql_request (o : opts) (ps : params) (b : cbody) : option gql :=
  match o_type o with
  | TQuery => Some {| g_query := o_query o; g_name := o_name o; g_vars := bind_vars ps (o_vars o) |}
  | TMutation =>
      match b with
      | BObject m => Some {| g_query := o_query o; g_name := o_name o; g_vars := complete m (o_vars o) |}
      | _ => None
      end
  end.

(* the unrepaired fromBody (json.Unmarshal of null leaves the map nil without error): kept to
   state the defect; Panic when a default has to be stored into the nil map *)
Inductive unrepaired := UOk (g : gql) | UErr | UPanic.
Definition gql_request_unrepaired (o : opts) (ps : params) (b : cbody) : unrepaired :=
  match o_type o, b with
  | TMutation, BNull =>
      match o_vars o with
      | [] => UOk {| g_query := o_query o; g_name := o_name o; g_vars := [] |}
      | _ => UPanic
      end
  | _, _ => match gql_request o ps b with Some g => UOk g | None => UErr end
  end.

(* json.Marshal of GraphQLRequest (operationName and variables are omitempty) *)
Definition body_json (g : gql) : json :=
  JObj ([("query", JStr (g_query g))]
        ++ (if str_eqb (g_name g) "" then [] else [("operationName", JStr (g_name g))])
        ++ (match g_vars g with [] => [] | _ => [("variables", JObj (g_vars g))] end))%list.

(* ---------- the request as it travels down the backend stack ---------- *)

(* a query-string value: plain text, or the JSON encoding of a tree *)
Inductive qval := QText (s : string) | QJson (v : json).
(* a header value: plain text, or the decimal rendering of a length *)
Inductive hval := HText (s : string) | HLen (n : Z).
Definition qmap := list (string * list qval).
Definition hmap := list (string * list hval).

(* query[k] = []string{v}.  The three names of the operation are taken away from what the
   client sent and then set from the operation (before fixes/C07-get-query-collision.diff:
   url.Values.Add, i.e. appended after the client's values) *)
Definition qset (k : string) (v : qval) (m : qmap) : qmap := set k [v] m.
Definition without_operation (m : qmap) : qmap :=
  remove "query" (remove "operationName" (remove "variables" m)).

(* QueryFromParams / QueryFromBody *)
Definition get_params (g : gql) : list (string * qval) :=
  ([("query", QText (g_query g))]
   ++ (if str_eqb (g_name g) "" then [] else [("operationName", QText (g_name g))])
   ++ (match g_vars g with [] => [] | _ => [("variables", QJson (JObj (g_vars g)))] end))%list.

(* Request.Query after the GraphQL stage of the GET transport *)
Definition operation_query (g : gql) (q : qmap) : qmap :=
  fold_left (fun m kv => qset (fst kv) (snd kv) m) (get_params g) (without_operation q).

Inductive pbody := PClient | PGql (g : gql) | PEmpty.

Record preq := {
  p_method : string;
  p_query : qmap;      (* Request.Query *)
  p_urlq : qmap;       (* the parameters rendered into Request.URL *)
  p_hdrs : hmap;
  p_body : pbody }.

Record backend := {
  b_method : string;             (* config.Backend.Method *)
  b_hdr_allow : list string;     (* HeadersToPass (canonical names), [] = no filter *)
  b_qs_allow : list string;      (* QueryStringsToPass, [] = no filter *)
  b_opts : opts }.

Inductive stage :=
  SBuilder | SConcurrent | SFilterQS | SFilterHeaders | SGraphQL | SBalancer | SPlugin | SBackend.

Definition restrict {V} (allow : list string) (m : list (string * V)) : list (string * V) :=
  match allow with
  | [] => m
  | _ => filter (fun kv => str_mem (fst kv) allow) m
  end.

(* what one middleware does to the request; None: it returns an error without calling next.
   len: the length of the JSON text json.Marshal produces for the operation (encoding/json's,
   supplied from outside) *)
Definition stage_fn (be : backend) (ps : params) (cb : cbody) (len : Z) (s : stage) (p : preq) : option preq :=
  match s with
  | SBuilder => Some {| p_method := b_method be; p_query := p_query p; p_urlq := p_urlq p;
                        p_hdrs := p_hdrs p; p_body := p_body p |}
  | SFilterQS => Some {| p_method := p_method p; p_query := restrict (b_qs_allow be) (p_query p);
                         p_urlq := p_urlq p; p_hdrs := p_hdrs p; p_body := p_body p |}
  | SFilterHeaders => Some {| p_method := p_method p; p_query := p_query p; p_urlq := p_urlq p;
                              p_hdrs := restrict (b_hdr_allow be) (p_hdrs p); p_body := p_body p |}
  | SGraphQL =>
      match gql_request (b_opts be) ps cb with
      | None => None
      | Some g =>
          match o_method (b_opts be) with
          | TGet =>
              Some {| p_method := "GET";
                      p_query := operation_query g (p_query p);
                      p_urlq := p_urlq p;
                      p_hdrs := set "Content-Type" [HText "application/json"]
                                  (set "Content-Length" [HLen 0] (p_hdrs p));
                      p_body := PEmpty |}
          | TPost =>
              Some {| p_method := "POST"; p_query := p_query p; p_urlq := p_urlq p;
                      p_hdrs := set "Content-Type" [HText "application/json"]
                                  (set "Content-Length" [HLen len] (p_hdrs p));
                      p_body := PGql g |}
          end
      end
  (* url.Parse(host + path), then the encoded query appended to URL.RawQuery: a '#' of the
     generated path (a parameter value embedded by url_pattern) opens the fragment in the path
     part and does not swallow the query; a '?' of the path and paths that do not parse are
     C10's subject and are not generated here *)
  | SBalancer => Some {| p_method := p_method p; p_query := p_query p; p_urlq := p_query p;
                         p_hdrs := p_hdrs p; p_body := p_body p |}
  | SConcurrent | SPlugin | SBackend => Some p
  end.

(* ---------- what the backend's HTTPRequestExecutor is handed, decoded ---------- *)
Record sent := {
  s_method : string;
  s_q : list string;          (* values of the URL parameter "query" *)
  s_name : list string;       (* values of the URL parameter "operationName" *)
  s_vars : list json;         (* JSON-decoded values of the URL parameter "variables" *)
  s_body : option json;       (* JSON-decoded request body; None: no bytes *)
  s_body_len : Z;             (* number of bytes read from the body *)
  s_clen : Z;                 (* http.Request.ContentLength *)
  s_clen_hdr : list string;   (* values of the Content-Length header *)
  s_ctype : list string }.    (* values of the Content-Type header *)

Inductive outcome :=
| Sent (s : sent)      (* the executor was called (once) *)
| Failed               (* an error was returned and the executor was never called *)
| Panicked
| Odd (what : string). (* anything else: no call and no error, several calls *)

(* decimal rendering (strconv.Itoa) *)
Fixpoint dec_digits (fuel : nat) (n : N) (acc : string) : string :=
  match fuel with
  | O => acc
  | S f =>
      let d := String (ascii_of_N (48 + n mod 10)) acc in
      if (n / 10 =? 0)%N then d else dec_digits f (n / 10) d
  end.
Definition dec_N (n : N) : string := dec_digits (S (N.to_nat (N.log2 n))) n "".
Definition dec_Z (z : Z) : string :=
  if (z <? 0)%Z then ("-" ++ dec_N (Z.to_N (- z)))%string else dec_N (Z.to_N z).

Definition qtexts (vs : option (list qval)) : list string :=
  match vs with
  | Some l => map (fun v => match v with QText s => s | QJson _ => "<json>" end) l
  | None => []
  end.
Definition qjsons (vs : option (list qval)) : list json :=
  match vs with
  | Some l => map (fun v => match v with QJson j => j | QText _ => JOther "text" end) l
  | None => []
  end.
Definition hrender (v : hval) : string := match v with HText s => s | HLen n => dec_Z n end.
Definition hvals (vs : option (list hval)) : list string :=
  match vs with Some l => map hrender l | None => [] end.

(* proxy/http.go: ContentLength is taken from a single numeric Content-Length header *)
Definition clen_of (vs : option (list hval)) : Z :=
  match vs with Some [HLen n] => n | _ => 0%Z end.

Definition sent_of (len : Z) (p : preq) : sent :=
  {| s_method := p_method p;
     s_q := qtexts (lookup "query" (p_urlq p));
     s_name := qtexts (lookup "operationName" (p_urlq p));
     s_vars := qjsons (lookup "variables" (p_urlq p));
     s_body := match p_body p with
               | PGql g => Some (body_json g)
               | PEmpty => None
               | PClient => Some (JOther "client body")
               end;
     s_body_len := match p_body p with PEmpty => 0%Z | _ => len end;
     s_clen := clen_of (lookup "Content-Length" (p_hdrs p));
     s_clen_hdr := hvals (lookup "Content-Length" (p_hdrs p));
     s_ctype := hvals (lookup "Content-Type" (p_hdrs p)) |}.

Fixpoint run (be : backend) (ps : params) (cb : cbody) (len : Z) (st : list stage) (p : preq) : outcome :=
  match st with
  | [] => Odd "no backend stage"
  | SBackend :: _ => Sent (sent_of len p)
  | s :: r =>
      match stage_fn be ps cb len s p with
      | Some p' => run be ps cb len r p'
      | None => Failed
      end
  end.

(* execution order of defaultFactory.newStack (the reverse of the order of construction) *)
Definition exec_stack (concurrent : bool) : list stage :=
  ([SBuilder] ++ (if concurrent then [SConcurrent] else []) ++
   [SFilterQS; SFilterHeaders; SGraphQL; SBalancer; SPlugin; SBackend])%list.

(* the order the seeded patch C08-revert-stack-order re-introduces: URL rendered first *)
Definition exec_stack_url_first : list stage :=
  [SBuilder; SBalancer; SFilterQS; SFilterHeaders; SGraphQL; SPlugin; SBackend].

Definition stage_name (s : stage) : string :=
  match s with
  | SBuilder => "NewRequestBuilderMiddlewareWithLogger"
  | SConcurrent => "NewConcurrentMiddlewareWithLogger"
  | SFilterQS => "NewFilterQueryStringsMiddleware"
  | SFilterHeaders => "NewFilterHeadersMiddleware"
  | SGraphQL => "NewGraphQLMiddleware"
  | SBalancer => "NewLoadBalancedMiddlewareWithSubscriberAndLogger"
  | SPlugin => "NewBackendPluginMiddleware"
  | SBackend => "pf.backendFactory"
  end.

(* the request the router hands to the stack *)
Record input := {
  i_backend : backend;
  i_concurrent : bool;
  i_params : params;
  i_body : cbody;
  i_method : string;                      (* Request.Method as it arrives *)
  i_query : list (string * list string);  (* Request.Query as it arrives *)
  i_hdrs : list (string * list string) }. (* Request.Headers as they arrive *)

Definition initial (i : input) : preq :=
  {| p_method := i_method i;
     p_query := map (fun kv => (fst kv, map QText (snd kv))) (i_query i);
     p_urlq := [];
     p_hdrs := map (fun kv => (fst kv, map HText (snd kv))) (i_hdrs i);
     p_body := PClient |}.

Definition model_on (st : list stage) (i : input) (len : Z) : outcome :=
  run (i_backend i) (i_params i) (i_body i) len st (initial i).

Definition model (i : input) (len : Z) : outcome := model_on (exec_stack (i_concurrent i)) i len.

(* ---------- Part 2: byte strings that are not valid UTF-8 ---------- *)
(* A JSON string is a sequence of Unicode characters.  encoding/json (json.Marshal of the
   operation, of the variables parameter, and the Marshal/Unmarshal round trip of GetOptions)
   reads the Go string with utf8.DecodeRuneInString and writes U+FFFD for every byte that does
   not start a well-formed sequence, then continues with the NEXT byte.  The tree-level model
   above is therefore about strings that are valid UTF-8; for any other byte string the backend
   receives [sanitize s]. *)

Definition in_range (lo hi b : N) : bool := ((lo <=? b) && (b <=? hi))%N.
Definition is_cont (b : N) : bool := in_range 128 191 b.

(* length of the well-formed UTF-8 sequence at the head of the list (RFC 3629, as
   unicode/utf8 accepts: no overlong forms, no surrogates, at most U+10FFFF); 0 = none *)
Definition seq_len (l : list N) : nat :=
  match l with
  | [] => 0
  | b0 :: r =>
      if (b0 <? 128)%N then 1
      else if in_range 194 223 b0 then
        match r with b1 :: _ => if is_cont b1 then 2 else 0 | _ => 0 end
      else if in_range 224 239 b0 then
        match r with
        | b1 :: b2 :: _ =>
            if (if (b0 =? 224)%N then in_range 160 191 b1
                else if (b0 =? 237)%N then in_range 128 159 b1 else is_cont b1) && is_cont b2
            then 3 else 0
        | _ => 0 end
      else if in_range 240 244 b0 then
        match r with
        | b1 :: b2 :: b3 :: _ =>
            if (if (b0 =? 240)%N then in_range 144 191 b1
                else if (b0 =? 244)%N then in_range 128 143 b1 else is_cont b1) && is_cont b2 && is_cont b3
            then 4 else 0
        | _ => 0 end
      else 0
  end.

(* k: bytes of the current well-formed sequence still to be copied *)
Fixpoint sanitize_from (l : list N) (k : nat) : list N :=
  match l with
  | [] => []
  | b :: r =>
      match k with
      | S k' => b :: sanitize_from r k'
      | O => match seq_len l with
             | O => 239%N :: 191%N :: 189%N :: sanitize_from r 0
             | S n => b :: sanitize_from r n
             end
      end
  end.

Fixpoint valid_from (l : list N) (k : nat) : bool :=
  match l with
  | [] => true
  | b :: r =>
      match k with
      | S k' => valid_from r k'
      | O => match seq_len l with
             | O => false
             | S n => valid_from r n
             end
      end
  end.

Definition bytes_of (s : string) : list N := map N_of_ascii (list_ascii_of_string s).
Definition sanitize (s : string) : string := bs (sanitize_from (bytes_of s) 0).
Definition valid_utf8 (s : string) : bool := valid_from (bytes_of s) 0.

(* ---------- Part 3: the string escaping of encoding/json on bytes ---------- *)
(* appendString with escapeHTML (what json.Marshal uses for the operation and for the
   variables parameter), without the surrounding quotes.  skip: the bytes of a U+2028/U+2029
   sequence that the \u202x token already covers. *)

Definition hexd (n : N) : N := if (n <? 10)%N then (48 + n)%N else (87 + n)%N.
Definition u00 (b : N) : list N := [92; 117; 48; 48; hexd (b / 16); hexd (b mod 16)]%N.

Definition esc_ascii (b : N) : list N :=
  (if (b =? 34) || (b =? 92) then [92; b]
   else if b =? 8 then [92; 98] else if b =? 12 then [92; 102] else if b =? 10 then [92; 110]
   else if b =? 13 then [92; 114] else if b =? 9 then [92; 116]
   else if (b <? 32) || (b =? 60) || (b =? 62) || (b =? 38) then u00 b
   else [b])%N.

Definition tok_fffd : list N := [92; 117; 102; 102; 102; 100]%N.
Definition tok_ls (last : N) : list N := [92; 117; 50; 48; 50; (if (last =? 168)%N then 56 else 57)]%N.

(* E2 80 A8 / E2 80 A9 *)
Definition is_ls (l : list N) : bool :=
  match l with
  | b0 :: b1 :: b2 :: _ => ((b0 =? 226) && (b1 =? 128) && ((b2 =? 168) || (b2 =? 169)))%N
  | _ => false
  end.

Fixpoint escape_from (l : list N) (k : nat) (skip : bool) : list N :=
  match l with
  | [] => []
  | b :: r =>
      match k with
      | S k' => ((if skip then [] else [b]) ++ escape_from r k' skip)%list
      | O => match seq_len l with
             | O => (tok_fffd ++ escape_from r 0 false)%list
             | S n =>
                 if is_ls l then (tok_ls (nth 1 r 0%N) ++ escape_from r n true)%list
                 else ((match n with O => esc_ascii b | _ => [b] end) ++ escape_from r n false)%list
             end
      end
  end.

Definition escape_bytes (l : list N) : list N := escape_from l 0 false.
Definition escape (s : string) : string := bs (escape_bytes (bytes_of s)).

(* the decoder (unquote of encoding/json) as a state machine; raw bytes >= 0x80 are copied,
   which is what the library does on well-formed UTF-8 - all the encoder produces.  A
   surrogate half in a \u escape is rejected here (the encoder never writes one). *)
Inductive dstate := DNormal | DEsc | DHex (n : nat) (acc : N).

Definition hexval (c : N) : option N :=
  if in_range 48 57 c then Some (c - 48)%N
  else if in_range 97 102 c then Some (c - 87)%N
  else if in_range 65 70 c then Some (c - 55)%N else None.

Definition utf8_enc (cp : N) : option (list N) :=
  (if cp <? 128 then Some [cp]
   else if cp <? 2048 then Some [192 + cp / 64; 128 + cp mod 64]
   else if in_range 55296 57343 cp then None
   else Some [224 + cp / 4096; 128 + (cp / 64) mod 64; 128 + cp mod 64])%N.

Definition simple_esc (c : N) : option N :=
  (if (c =? 34) || (c =? 92) || (c =? 47) then Some c
   else if c =? 98 then Some 8 else if c =? 102 then Some 12 else if c =? 110 then Some 10
   else if c =? 114 then Some 13 else if c =? 116 then Some 9 else None)%N.

Definition dstep (st : dstate) (c : N) : option (dstate * list N) :=
  match st with
  | DNormal => if (c =? 92)%N then Some (DEsc, [])
               else if ((c =? 34) || (c <? 32))%N then None else Some (DNormal, [c])
  | DEsc => if (c =? 117)%N then Some (DHex 0 0%N, [])
            else match simple_esc c with Some b => Some (DNormal, [b]) | None => None end
  | DHex n acc =>
      match hexval c with
      | None => None
      | Some d => let acc' := (acc * 16 + d)%N in
                  if Nat.eqb n 3 then match utf8_enc acc' with Some o => Some (DNormal, o) | None => None end
                  else Some (DHex (S n) acc', [])
      end
  end.

Fixpoint drun (st : dstate) (l : list N) : option (dstate * list N) :=
  match l with
  | [] => Some (st, [])
  | c :: r =>
      match dstep st c with
      | None => None
      | Some (st', o) =>
          match drun st' r with
          | None => None
          | Some (st'', o') => Some (st'', (o ++ o')%list)
          end
      end
  end.

Definition unescape_bytes (l : list N) : option (list N) :=
  match drun DNormal l with Some (DNormal, o) => Some o | _ => None end.

(* ---------- Part 4: json.Marshal of the operation, on bytes ---------- *)
(* The POST body and its Content-Length: the GraphQLRequest struct is written with its fields
   in declaration order (query, operationName and variables omitted when empty), maps with
   their keys in byte order, strings through the escaper of Part 3, numbers with the literal
   they carry (json.Number of the client body; the text encoding/json prints for the float64
   of a configured default), no white space. *)

Fixpoint bytes_ltb (a b : list N) : bool :=
  match a, b with
  | _, [] => false
  | [], _ :: _ => true
  | x :: a', y :: b' => if (x <? y)%N then true else if (y <? x)%N then false else bytes_ltb a' b'
  end.

Fixpoint insert_member (kv : list N * list N) (l : list (list N * list N)) : list (list N * list N) :=
  match l with
  | [] => [kv]
  | kv' :: r => if bytes_ltb (fst kv') (fst kv) then kv' :: insert_member kv r else kv :: l
  end.
Definition sort_members (l : list (list N * list N)) : list (list N * list N) :=
  fold_right insert_member [] l.

Definition quoted (s : list N) : list N := (34%N :: escape_bytes s ++ [34%N])%list.

Fixpoint join_bytes (sep : N) (l : list (list N)) : list N :=
  match l with
  | [] => []
  | [x] => x
  | x :: r => (x ++ sep :: join_bytes sep r)%list
  end.

Definition member_bytes (kv : list N * list N) : list N := (quoted (fst kv) ++ 58%N :: snd kv)%list.

Fixpoint encode_json (v : json) : list N :=
  match v with
  | JNull => [110; 117; 108; 108]%N
  | JBool true => [116; 114; 117; 101]%N
  | JBool false => [102; 97; 108; 115; 101]%N
  | JNum lit => bytes_of lit
  | JStr s => quoted (bytes_of s)
  | JArr l => (91%N :: join_bytes 44 ((fix go (l : list json) : list (list N) :=
                                         match l with [] => [] | x :: r => encode_json x :: go r end) l)
               ++ [93%N])%list
  | JObj m => (123%N :: join_bytes 44 (map member_bytes (sort_members
                 ((fix go (m : list (string * json)) : list (list N * list N) :=
                     match m with [] => [] | (k, x) :: r => (bytes_of k, encode_json x) :: go r end) m)))
               ++ [125%N])%list
  | JOther _ => [63%N]
  end.

Definition encode_body (g : gql) : list N :=
  (123%N :: join_bytes 44
     ([member_bytes (bytes_of "query", quoted (bytes_of (g_query g)))]
      ++ (if str_eqb (g_name g) "" then []
          else [member_bytes (bytes_of "operationName", quoted (bytes_of (g_name g)))])
      ++ (match g_vars g with
          | [] => []
          | _ => [member_bytes (bytes_of "variables", encode_json (JObj (g_vars g)))]
          end))
   ++ [125%N])%list.

Definition body_length (g : gql) : Z := Z.of_nat (List.length (encode_body g)).

(* the length the model predicts for the request body of input i (no oracle) *)
Definition predicted_len (i : input) : Z :=
  match gql_request (b_opts (i_backend i)) (i_params i) (i_body i) with
  | Some g => body_length g
  | None => 0%Z
  end.

Definition model_len (i : input) : outcome := model i (predicted_len i).

(* the bytes of the POST body *)
Definition model_body (i : input) : option string :=
  match gql_request (b_opts (i_backend i)) (i_params i) (i_body i), o_method (b_opts (i_backend i)) with
  | Some g, TPost => Some (bs (encode_body g))
  | _, _ => None
  end.

(* ---------- Part 5: GetOptions - spelling of type and method ---------- *)
(* opt.Type = strings.ToLower(type), opt.Method = strings.ToUpper(method); a method other than
   GET / POST becomes POST; the middleware serves the types "query" and "mutation" and is a
   pass-through for every other type.  strings.ToLower / ToUpper are Unicode aware: besides
   A-Z / a-z, the runes whose simple case mapping is an ASCII letter are U+0130 (-> i) and
   U+212A KELVIN SIGN (-> k) for ToLower, U+017F LONG S (-> S) and U+0131 DOTLESS I (-> I) for
   ToUpper; every other rune keeps non-ASCII bytes and so cannot complete one of the words. *)

Fixpoint lower_bytes (l : list N) : list N :=
  match l with
  | 196%N :: 176%N :: r => 105%N :: lower_bytes r
  | 226%N :: 132%N :: 170%N :: r => 107%N :: lower_bytes r
  | b :: r => (if in_range 65 90 b then (b + 32)%N else b) :: lower_bytes r
  | [] => []
  end.

Fixpoint upper_bytes (l : list N) : list N :=
  match l with
  | 197%N :: 191%N :: r => 83%N :: upper_bytes r
  | 196%N :: 177%N :: r => 73%N :: upper_bytes r
  | b :: r => (if in_range 97 122 b then (b - 32)%N else b) :: upper_bytes r
  | [] => []
  end.

Definition norm_type (t : string) : option optype :=
  let l := bs (lower_bytes (bytes_of t)) in
  if str_eqb l "query" then Some TQuery else if str_eqb l "mutation" then Some TMutation else None.

Definition norm_method (m : string) : transport :=
  if str_eqb (bs (upper_bytes (bytes_of m))) "GET" then TGet else TPost.

(* for inputs whose type is one of the two served ones *)
Definition type_of (t : string) : optype := match norm_type t with Some ty => ty | None => TQuery end.
