(* C05 - the concurrent-calls middleware (proxy/concurrent.go) and CloneRequest
   (proxy/request.go).  Executable model only.

   NewConcurrentMiddlewareWithLogger, for ConcurrentCalls = n:
     - n attempts are spawned, each on its own CloneRequest(request) (evaluated one after
       the other by the calling goroutine);
     - the caller then performs at most n iterations of
           select { response = <-results (return at once when complete)
                  | err = <-failed | <-ctx.Done() (the PARENT context) }
       and finally returns (response, err): the last response / last error dequeued.
   processConcurrentCall delivers exactly one message per attempt: the error, or
   errNullResult for (nil, nil), or the response - unless the budget context is done,
   then possibly ctx.Err() instead of the response. *)
Require Import Verif.Common.Base.

(* ---- what travels on the two channels ---- *)
Inductive error :=
| EAttempt (id : N)      (* the error value returned by attempt id's backend call *)
| ENull                  (* errNullResult: the backend call returned (nil, nil) *)
| EDeadline              (* context.DeadlineExceeded *)
| ECanceled              (* context.Canceled *)
| EOther (s : string).

(* a response is identified by the attempt that produced it *)
Record response := mkResp { r_id : N; r_complete : bool }.

(* one iteration of the select of the collection loop *)
Inductive ev := Res (r : response) | Fail (e : error) | ParentDone.

Definition result := (option response * option error)%type.

(* the collection loop: fuel = iterations left *)
Fixpoint collect (fuel : nat) (evs : list ev) (resp : option response) (err : option error) : result :=
  match fuel, evs with
  | S f, Res r :: rest => if r_complete r then (Some r, None) else collect f rest (Some r) err
  | S f, Fail e :: rest => collect f rest resp (Some e)
  | S f, ParentDone :: rest => collect f rest resp err
  | _, _ => (resp, err)
  end.

Definition middleware (n : nat) (evs : list ev) : result := collect n evs None None.

(* ---- scenarios driven by the harness ---- *)
(* what the backend call of an attempt does once it is let go *)
Inductive kind :=
| KComplete      (* returns a complete response *)
| KIncomplete    (* returns a response with IsComplete = false *)
| KError         (* returns its own error *)
| KEmpty         (* returns (nil, nil) *)
| KSilent        (* returns nothing until its context is done, then (nil, ctx.Err()) *)
| KIncompleteErr (* returns an incomplete response TOGETHER with an error *)
| KCompleteErr.  (* returns a complete response TOGETHER with an error *)

Definition slot_resp (i : nat) (c : bool) : response := {| r_id := N.of_nat i; r_complete := c |}.

(* what the backend call (next) of an attempt returns: a Response pointer and an error *)
Definition call_result := (option response * option error)%type.

(* processConcurrentCall while the budget context is alive: exactly ONE message per call.
   err != nil is tested first (the response that came with it is dropped), then the nil
   result (errNullResult), otherwise the response goes to the results channel. *)
Definition process_call (res : call_result) : ev :=
  match res with
  | (_, Some e) => Fail e
  | (None, None) => Fail ENull
  | (Some r, None) => Res r
  end.

(* what the stub backend call of slot i returns once it is let go (None: not before its
   context is done) *)
Definition kind_result (i : nat) (k : kind) : option call_result :=
  match k with
  | KComplete => Some (Some (slot_resp i true), None)
  | KIncomplete => Some (Some (slot_resp i false), None)
  | KError => Some (None, Some (EAttempt (N.of_nat i)))
  | KEmpty => Some (None, None)
  | KSilent => None
  | KIncompleteErr => Some (Some (slot_resp i false), Some (EAttempt (N.of_nat i)))
  | KCompleteErr => Some (Some (slot_resp i true), Some (EAttempt (N.of_nat i)))
  end.

(* the message attempt i delivers when it is released before the budget expires *)
Definition slot_events (kinds : list kind) (i : nat) : list ev :=
  match nth_error kinds i with
  | Some k => match kind_result i k with Some res => [process_call res] | None => [] end
  | None => []
  end.

Definition is_silent (k : kind) : bool := match k with KSilent => true | _ => false end.
Definition silent_count (kinds : list kind) : nat := List.length (filter is_silent kinds).

(* order: the non-silent slots in the order in which their messages are dequeued *)
Definition arrivals (kinds : list kind) (order : list nat) : list ev :=
  flat_map (slot_events kinds) order.

(* parent context alive: after the released attempts, the silent ones answer only when the
   budget expires (DeadlineExceeded), one failure message each *)
Definition events (kinds : list kind) (order : list nat) : list ev :=
  (arrivals kinds order ++ repeat (Fail EDeadline) (silent_count kinds))%list.

(* parent context cancelled after k messages were dequeued, while every other attempt is
   still held back: the remaining iterations are consumed by ctx.Done() *)
Definition events_parent (n : nat) (kinds : list kind) (order : list nat) (k : nat) : list ev :=
  (firstn k (arrivals kinds order) ++ repeat ParentDone n)%list.

(* the slot whose answer wins: the first one in arrival order whose backend call returns a
   complete response without an error *)
Fixpoint first_complete_slot (kinds : list kind) (order : list nat) : option nat :=
  match order with
  | [] => None
  | i :: rest => match nth_error kinds i with
                 | Some KComplete => Some i
                 | _ => first_complete_slot kinds rest
                 end
  end.

Definition run_scenario (n : nat) (kinds : list kind) (order : list nat) (parent : option nat) : result :=
  match parent with
  | None => middleware n (events kinds order)
  | Some k => middleware n (events_parent n kinds order k)
  end.

(* ---- requests and CloneRequest ---- *)
(* q_body: None = nil Body; Some s = a reader from which s is still to be read *)
Record request := mkReq {
  q_method : string; q_url : option string; q_path : string;
  q_query : list (string * list string);
  q_params : list (string * string);
  q_headers : list (string * list string);
  q_body : option string }.

Definition with_body (r : request) (b : option string) : request :=
  {| q_method := q_method r; q_url := q_url r; q_path := q_path r; q_query := q_query r;
     q_params := q_params r; q_headers := q_headers r; q_body := b |}.

(* CloneRequest r = (clone, r afterwards).  With a body: buf.ReadFrom(r.Body) drains the
   reader, then r.Body and clone.Body become fresh readers over the buffered bytes.
   Method, URL (re-parsed from its text), path, query are copied; params and headers are
   deep copies (same content). *)
Definition clone_request (r : request) : request * request :=
  match q_body r with
  | None => (r, r)
  | Some s =>
      let buf := s in
      let drained := with_body r (Some EmptyString) in
      (with_body r (Some buf), with_body drained (Some buf))
  end.

(* the requests handed to the n attempts, in spawn order: EVERY attempt gets its own
   CloneRequest copy (the calls are evaluated one after the other by the calling goroutine,
   each one re-buffering the caller's request for the next); the caller's request itself is
   handed to nobody *)
Fixpoint spawn (n : nat) (r : request) : list request :=
  match n with
  | O => []
  | S m => let '(c, r') := clone_request r in c :: spawn m r'
  end.

(* the caller's own request after the n CloneRequest calls *)
Fixpoint caller_after (n : nat) (r : request) : request :=
  match n with
  | O => r
  | S m => caller_after m (snd (clone_request r))
  end.

(* ---- the goroutine/channel layer: Common/Fanout.v instantiated for this middleware ----
   One worker per attempt; results travel on the payload channel, errors (and
   errNullResult) on the failure channel, both of capacity n = ConcurrentCalls; an attempt
   holding a response may deliver the error of the budget context instead once that context
   is done; the collector may return as soon as it has dequeued a complete response;
   idle = true lets an iteration of the select be consumed by the parent's ctx.Done(). *)
Require Verif.Common.Fanout.

Inductive msg := MRes (r : response) | MFail (e : error).
Definition route (m : msg) : Fanout.chan :=
  match m with MRes _ => Fanout.ChP | MFail _ => Fanout.ChF end.
Definition ev_of (m : msg) : ev := match m with MRes r => Res r | MFail e => Fail e end.
Definition msg_complete (m : msg) : bool := match m with MRes r => r_complete r | MFail _ => false end.
Definition can_finish (got : list msg) : bool := existsb msg_complete got.

Definition sys_run (n : nat) (cerr : error) (idle : bool) :=
  Fanout.run msg n route (MFail cerr) can_finish idle.
Definition sys_step (n : nat) (cerr : error) (idle : bool) :=
  Fanout.step msg n route (MFail cerr) can_finish idle.

(* what the collector returns, from the messages it dequeued (idle iterations change
   neither the response nor the error variable) *)
(* the message a worker of the schedule layer holds after its backend call returned *)
Definition msg_of_call (res : call_result) : msg :=
  match res with
  | (_, Some e) => MFail e
  | (None, None) => MFail ENull
  | (Some r, None) => MRes r
  end.

Definition outcome (got : list msg) : result := middleware (List.length got) (map ev_of got).
