(* C19 - model of the HTTP server runner (transport/http/server/server.go,
   RunServerWithLoggerFactory) as a transition system against the documented net/http
   contract as environment.  Executable definitions only, no proofs.

   The code, as read (the shape is regenerated and re-proved on every run, Facts_server.v):
       done := make(chan error)                      (unbuffered)
       go func() { done <- s.ListenAndServe() }()
       select {
       case err := <-done:  return err
       case <-ctx.Done():   return s.Shutdown(context.Background())
       }
   Environment (net/http, documented): ListenAndServe either fails to listen (its error goes
   to done) or listens and accepts connections until the listener is closed; Shutdown closes
   the listener at the call, never interrupts an active connection, closes idle ones, and
   returns (background context: no deadline) only when no connection is new/active any more;
   a connection accepted before the listener was closed still has its request served.

   One type [event] is used for the labels of the transition system and for the observed
   traces: the harness sees the observable ones ([observable]); the others are internal. *)
Require Import Verif.Common.Base.

(* value returned by the runner: nil, the listener's error, any other error *)
Inductive rv := VNil | VListenErr | VOther.

Inductive event :=
(* internal *)
| ListenOk                    (* ListenAndServe bound the address and serves *)
| ListenAbort                 (* ListenAndServe found the server shut down: ErrServerClosed, never accepts *)
| Conn (r : nat)              (* the listener accepted the connection that carries request r *)
| Drop (r : nat)              (* a connection that never started a request is closed *)
| ShutdownCall                (* the runner took the ctx.Done() branch and called Shutdown(background) *)
| ShutdownReturn (e : bool)   (* Shutdown returned (e: with a listener-close error) *)
(* observable *)
| ListenFail                  (* the listener cannot be started (the harness holds the port) *)
| Accept (r : nat)            (* request r accepted by a handler: the handler is running *)
| HandlerDone (r : nat)       (* the handler of r finished *)
| ClientGot (r : nat) (full : bool)  (* the client of r received status 200 and the complete body / failed *)
| Cancel                      (* the context given to the runner is cancelled *)
| RunnerReturn (v : rv)       (* the runner returned v *)
| Refused                     (* a connection attempt was refused *)
| StillAccepting.             (* bounded wait expired: seconds after Cancel connections are still accepted *)

Definition observable (e : event) : bool :=
  match e with
  | ListenOk | ListenAbort | Conn _ | Drop _ | ShutdownCall | ShutdownReturn _ => false
  | _ => true
  end.

Inductive lst := LInit | LOpen | LFailed | LClosed.
Inductive rst := RSelect | RShutdown | RShutRet (e : bool) | RReturned.
(* a request: connection accepted / handler running / handler finished / never served *)
Inductive qst := QConn | QRun | QDone | QGone.

Record st := mkst {
  lis : lst;                  (* the listener goroutine *)
  canc : bool;                (* ctx cancelled *)
  runner : rst;               (* the runner: in the select / inside Shutdown / Shutdown returned / returned *)
  reqs : list (nat * qst);    (* requests (most recent binding first) *)
  resp : list nat             (* clients that have their outcome *)
}.

Definition init : st := mkst LInit false RSelect [] [].

Fixpoint getq (r : nat) (m : list (nat * qst)) : option qst :=
  match m with
  | [] => None
  | (k, q) :: t => if Nat.eqb r k then Some q else getq r t
  end.
Definition setq (r : nat) (q : qst) (m : list (nat * qst)) : list (nat * qst) := (r, q) :: m.
Fixpoint memn (r : nat) (l : list nat) : bool :=
  match l with [] => false | x :: t => Nat.eqb r x || memn r t end.

Definition busy (o : option qst) : bool :=
  match o with Some QConn | Some QRun => true | _ => false end.
(* no connection is new or active *)
Definition quiet (m : list (nat * qst)) : bool :=
  forallb (fun k => negb (busy (getq k m))) (map fst m).

Definition set_lis (s : st) (l : lst) := mkst l (canc s) (runner s) (reqs s) (resp s).
Definition set_runner (s : st) (r : rst) := mkst (lis s) (canc s) r (reqs s) (resp s).
Definition set_req (s : st) (r : nat) (q : qst) := mkst (lis s) (canc s) (runner s) (setq r q (reqs s)) (resp s).
Definition add_resp (s : st) (r : nat) := mkst (lis s) (canc s) (runner s) (reqs s) (r :: resp s).

(* step s e = None: e is not enabled in s *)
Definition step (s : st) (e : event) : option st :=
  match e with
  | ListenOk =>
      match lis s, runner s with LInit, RSelect => Some (set_lis s LOpen) | _, _ => None end
  | ListenAbort =>
      match lis s, runner s with
      | LInit, RSelect => None
      | LInit, _ => Some (set_lis s LClosed)
      | _, _ => None
      end
  | ListenFail =>
      match lis s with LInit => Some (set_lis s LFailed) | _ => None end
  | Conn r =>
      match lis s, getq r (reqs s) with LOpen, None => Some (set_req s r QConn) | _, _ => None end
  | Accept r =>
      match getq r (reqs s) with Some QConn => Some (set_req s r QRun) | _ => None end
  | HandlerDone r =>
      match getq r (reqs s) with Some QRun => Some (set_req s r QDone) | _ => None end
  | Drop r =>
      match getq r (reqs s) with Some QConn => Some (set_req s r QGone) | _ => None end
  | ClientGot r true =>
      match getq r (reqs s) with
      | Some QDone => if memn r (resp s) then None else Some (add_resp s r)
      | _ => None
      end
  | ClientGot r false =>
      if memn r (resp s) then None else
      match getq r (reqs s) with
      | None | Some QGone => Some (add_resp (set_req s r QGone) r)
      | _ => None
      end
  | Cancel =>
      if canc s then None else Some (mkst (lis s) true (runner s) (reqs s) (resp s))
  | ShutdownCall =>
      match runner s with
      | RSelect =>
          if canc s
          then Some (mkst (match lis s with LOpen => LClosed | l => l end) (canc s) RShutdown (reqs s) (resp s))
          else None
      | _ => None
      end
  | ShutdownReturn e =>
      match runner s with
      | RShutdown => if quiet (reqs s) then Some (set_runner s (RShutRet e)) else None
      | _ => None
      end
  | RunnerReturn VListenErr =>
      match runner s, lis s with RSelect, LFailed => Some (set_runner s RReturned) | _, _ => None end
  | RunnerReturn VNil =>
      match runner s with RShutRet false => Some (set_runner s RReturned) | _ => None end
  | RunnerReturn VOther =>
      match runner s with RShutRet true => Some (set_runner s RReturned) | _ => None end
  | Refused =>
      match lis s with LOpen => None | _ => Some s end
  | StillAccepting => None
  end.

Fixpoint run (s : st) (ls : list event) : option st :=
  match ls with
  | [] => Some s
  | e :: r => match step s e with Some s' => run s' r | None => None end
  end.

(* a run is complete when the runner has returned and every finished request has been
   answered to its client *)
Definition final_b (s : st) : bool :=
  match runner s with RReturned => true | _ => false end &&
  forallb (fun k => match getq k (reqs s) with Some QDone => memn k (resp s) | _ => true end)
          (map fst (reqs s)).

(* ---------------------------------------------------------------------------------- *)
(* Trace inclusion: is an observed trace (observable events only) a trace of the model?
   [explain] guesses the internal events (listener start and all connections at the first
   accepted request, Shutdown as late as possible); the guess is not trusted: [accepts_b]
   re-runs the model on it and compares the projection. *)

Definition event_eqb (a b : event) : bool :=
  match a, b with
  | ListenOk, ListenOk | ListenAbort, ListenAbort | ShutdownCall, ShutdownCall
  | ListenFail, ListenFail | Cancel, Cancel | Refused, Refused
  | StillAccepting, StillAccepting => true
  | Conn x, Conn y | Drop x, Drop y | Accept x, Accept y | HandlerDone x, HandlerDone y => Nat.eqb x y
  | ShutdownReturn x, ShutdownReturn y => Bool.eqb x y
  | ClientGot x f, ClientGot y g => Nat.eqb x y && Bool.eqb f g
  | RunnerReturn VNil, RunnerReturn VNil | RunnerReturn VListenErr, RunnerReturn VListenErr
  | RunnerReturn VOther, RunnerReturn VOther => true
  | _, _ => false
  end.

Fixpoint dedup (l : list nat) : list nat :=
  match l with [] => [] | x :: t => if memn x t then dedup t else x :: dedup t end.

Definition accept_ids (t : list event) : list nat :=
  dedup (flat_map (fun e => match e with Accept r => [r] | _ => [] end) t).
Definition conn_ids (m : list (nat * qst)) : list nat :=
  filter (fun k => match getq k m with Some QConn => true | _ => false end) (dedup (map fst m)).

Fixpoint explain (s : st) (t : list event) : list event :=
  match t with
  | [] => []
  | e :: t' =>
      let pre :=
        match e with
        | Accept r =>
            match lis s with
            | LInit => ListenOk :: map Conn (accept_ids t)
            | _ => match getq r (reqs s) with None => [Conn r] | _ => [] end
            end
        | Refused =>
            match lis s, runner s with LOpen, RSelect => [ShutdownCall] | _, _ => [] end
        | RunnerReturn VListenErr => []
        | RunnerReturn v =>
            match runner s with
            | RShutRet _ => []
            | RSelect => ShutdownCall :: map Drop (conn_ids (reqs s)) ++
                         [ShutdownReturn (match v with VOther => true | _ => false end)]
            | _ => map Drop (conn_ids (reqs s)) ++
                   [ShutdownReturn (match v with VOther => true | _ => false end)]
            end
        | _ => []
        end in
      let ls := (pre ++ [e])%list in
      match run s ls with
      | Some s' => (ls ++ explain s' t')%list
      | None => ls
      end
  end.

Definition accepts_b (t : list event) : bool :=
  forallb observable t &&
  let ls := explain init t in
  match run init ls with
  | Some s => final_b s && list_eqb event_eqb (filter observable ls) t
  | None => false
  end.

(* ---------------------------------------------------------------------------------- *)
(* Extension: connections that take the h2c upgrade.  With use_h2c on, NewServerWithLogger wraps the
   handler in h2c.NewHandler; a request that carries the upgrade offer gets its connection HIJACKED
   by that handler and is served by a private http2.Server.  net/http's Shutdown tracks only its own
   connections: a hijacked one is neither waited for nor closed.  The extended system runs the base
   system unchanged (XB) next to the hijacked requests, which Shutdown's quiescence test (quiet, over
   the base requests only) does not see.  With use_h2c off the offer is ignored: the request is an
   ordinary base request (Conn/Accept) and XUpgrade is disabled. *)
Inductive hst := HRun | HDone.

Inductive xevent :=
| XB (e : event)                  (* an event of the base system *)
| XUpgrade (r : nat)              (* request r takes the upgrade; its handler starts: observed as Accept r *)
| XUpDone (r : nat)               (* its handler finished: observed as HandlerDone r *)
| XUpGot (r : nat) (full : bool). (* its client's outcome: observed as ClientGot r full *)

Record xst := mkx { xb : st; xh : list (nat * hst); xresp : list nat }.
Definition xinit : xst := mkx init [] [].

Fixpoint geth (r : nat) (m : list (nat * hst)) : option hst :=
  match m with [] => None | (k, q) :: t => if Nat.eqb r k then Some q else geth r t end.

(* the request id a base event introduces (ids of base and hijacked requests are distinct) *)
Definition introduces (e : event) : option nat :=
  match e with Conn r => Some r | ClientGot r false => Some r | _ => None end.

Definition xstep (use_h2c : bool) (s : xst) (e : xevent) : option xst :=
  match e with
  | XB e =>
      match introduces e with
      | Some r => match geth r (xh s) with
                  | Some _ => None
                  | None => option_map (fun b => mkx b (xh s) (xresp s)) (step (xb s) e)
                  end
      | None => option_map (fun b => mkx b (xh s) (xresp s)) (step (xb s) e)
      end
  | XUpgrade r =>
      if use_h2c then
        match lis (xb s), getq r (reqs (xb s)), geth r (xh s) with
        | LOpen, None, None => Some (mkx (xb s) ((r, HRun) :: xh s) (xresp s))
        | _, _, _ => None
        end
      else None
  | XUpDone r =>
      match geth r (xh s) with Some HRun => Some (mkx (xb s) ((r, HDone) :: xh s) (xresp s)) | _ => None end
  | XUpGot r true =>
      match geth r (xh s) with
      | Some HDone => if memn r (xresp s) then None else Some (mkx (xb s) (xh s) (r :: xresp s))
      | _ => None
      end
  | XUpGot r false =>
      (* the connection is cut: only once the runner has returned (the process may exit) *)
      match geth r (xh s), runner (xb s) with
      | Some _, RReturned => if memn r (xresp s) then None else Some (mkx (xb s) (xh s) (r :: xresp s))
      | _, _ => None
      end
  end.

Fixpoint xrun (use_h2c : bool) (s : xst) (ls : list xevent) : option xst :=
  match ls with
  | [] => Some s
  | e :: r => match xstep use_h2c s e with Some s' => xrun use_h2c s' r | None => None end
  end.

(* what the harness observes of an extended schedule *)
Definition xobs (e : xevent) : list event :=
  match e with
  | XB e => if observable e then [e] else []
  | XUpgrade r => [Accept r]
  | XUpDone r => [HandlerDone r]
  | XUpGot r f => [ClientGot r f]
  end.
Definition xtrace (ls : list xevent) : list event := flat_map xobs ls.

Definition is_base (e : xevent) : bool := match e with XB _ => true | _ => false end.
Definition unbase (ls : list xevent) : list event :=
  flat_map (fun e => match e with XB b => [b] | _ => [] end) ls.

(* inclusion of an observed trace with upgraded requests [ups] in the extended system: the base part is
   explained as before (listener already open), the events of the upgraded requests are put back at
   their places; the guess is validated by running the extended system on it *)
Definition is_up (ups : list nat) (e : event) : bool :=
  match e with Accept r | HandlerDone r | ClientGot r _ => memn r ups | _ => false end.
Definition up_event (e : event) : xevent :=
  match e with
  | Accept r => XUpgrade r
  | HandlerDone r => XUpDone r
  | ClientGot r f => XUpGot r f
  | e => XB e
  end.
(* the prefix of ls up to and including its first observable event, and the rest *)
Fixpoint take_obs (ls : list event) : list event * list event :=
  match ls with
  | [] => ([], [])
  | e :: r => if observable e then ([e], r) else let (p, q) := take_obs r in (e :: p, q)
  end.
Fixpoint xmerge (ups : list nat) (t : list event) (ls : list event) : list xevent :=
  match t with
  | [] => map XB ls
  | e :: t' =>
      if is_up ups e then up_event e :: xmerge ups t' ls
      else let (p, rest) := take_obs ls in (map XB p ++ xmerge ups t' rest)%list
  end.
Definition xexplain (ups : list nat) (t : list event) : list xevent :=
  XB ListenOk ::
  xmerge ups t (explain (set_lis init LOpen) (filter (fun e => negb (is_up ups e)) t)).
Definition xaccepts_b (ups : list nat) (t : list event) : bool :=
  forallb observable t &&
  let xs := xexplain ups t in
  match xrun true xinit xs with
  | Some s => final_b (xb s) && list_eqb event_eqb (xtrace xs) t
  | None => false
  end.
