(* C11 - what the client sees of completeness, caching and errors.
   Executable model of router/gin/endpoint.go (CustomErrorEndpointHandler), router/mux/
   endpoint.go (CustomEndpointHandlerWithHTTPError), router/mux/engine.go
   (HTTPErrorInterceptor) and the renders of router/{gin,mux}/render.go, as far as status,
   the headers X-Krakend-Completed / Cache-Control / X-Krakend and the body go.
   No proofs here. *)
Require Import Verif.Common.Base Verif.Common.Json.
From Coq Require Import DecimalString.

(* ---- header names and values (transport/http/server/server.go, core/version.go) ---- *)

(* net/textproto.CanonicalMIMEHeaderKey: a name made of token bytes only gets an upper-case
   first letter and an upper-case letter after every '-', the rest lower-case; a name with
   any other byte (space included) is left as it is. *)
Definition is_upper (n : N) : bool := (65 <=? n)%N && (n <=? 90)%N.
Definition is_lower (n : N) : bool := (97 <=? n)%N && (n <=? 122)%N.
Definition is_digit (n : N) : bool := (48 <=? n)%N && (n <=? 57)%N.
Definition token_byte (c : ascii) : bool :=
  let n := N_of_ascii c in
  is_upper n || is_lower n || is_digit n ||
  existsb (N.eqb n) [33; 35; 36; 37; 38; 39; 42; 43; 45; 46; 94; 95; 96; 124; 126]%N.
Fixpoint all_token (s : string) : bool :=
  match s with EmptyString => true | String c r => token_byte c && all_token r end.
Definition to_upper (c : ascii) : ascii :=
  let n := N_of_ascii c in if is_lower n then ascii_of_N (n - 32) else c.
Definition to_lower (c : ascii) : ascii :=
  let n := N_of_ascii c in if is_upper n then ascii_of_N (n + 32) else c.
Fixpoint canon_go (up : bool) (s : string) : string :=
  match s with
  | EmptyString => EmptyString
  | String c r => let c' := if up then to_upper c else to_lower c in
                  String c' (canon_go (N.eqb (N_of_ascii c') 45) r)
  end.
Definition canon (s : string) : string := if all_token s then canon_go true s else s.

Definition H_completed : string := canon "X-Krakend-Completed".   (* server.CompleteResponseHeaderName *)
Definition H_cache : string := canon "Cache-Control".
Definition H_version : string := canon "X-KRAKEND".               (* core.KrakendHeaderName *)
Definition V_true : string := "true".                             (* HeaderCompleteResponseValue *)
Definition V_false : string := "false".                           (* HeaderIncompleteResponseValue *)

(* ---- the reply header map (http.Header): Set replaces, Add appends ---- *)
Definition hdrs := list (string * list string).
Definition hget (k : string) (h : hdrs) : list string :=
  match lookup k h with Some v => v | None => [] end.
Definition hset (k v : string) (h : hdrs) : hdrs := set k [v] h.
Definition hadd (k v : string) (h : hdrs) : hdrs := set k (hget k h ++ [v]) h.
(* for k, vs := range Metadata.Headers { for _, v := range vs { Header().Add(k, v) } } *)
Definition add_values (k : string) (vs : list string) (h : hdrs) : hdrs :=
  fold_left (fun h v => hadd (canon k) v h) vs h.
Definition add_meta (meta : list (string * list string)) (h : hdrs) : hdrs :=
  fold_left (fun h kv => add_values (fst kv) (snd kv) h) meta h.

(* ---- inputs ---- *)
Inductive impl := Gin | Mux | MuxEngine.   (* MuxEngine: the mux handler behind BasicEngine *)
Inductive render := RJson | RNoop | RString | RCollection
                  | RXml | RYaml.            (* registered by the gin package only *)

Record resp := mk_resp {
  r_data : option obj;                       (* None: nil map *)
  r_complete : bool;
  r_meta : list (string * list string);      (* Metadata.Headers, one iteration order *)
  r_status : Z;                              (* Metadata.StatusCode *)
  r_io : option string                       (* Io (no-op body) *)
}.
Record perr := mk_perr {
  e_status : option Z;                       (* Some n: the error has StatusCode() = n *)
  e_multi : bool;                            (* it has Errors() *)
  e_msg : string;                            (* Error() *)
  e_buried : option Z;                       (* Some n: not the error itself but an error it wraps
                                                (%w, errors.Join, Unwrap() []error, an As method,
                                                an entry of Errors()) has StatusCode() = n *)
  e_timeout : bool                            (* the error, or one it wraps, has Timeout() = true
                                                (context.DeadlineExceeded, *url.Error, net.Error) *)
}.
(* an error found in gin's c.Errors when the endpoint handler starts *)
Inductive ctx_err := CEPlain | CEStatus (n : Z) | CEMeta.

Record input := mk_input {
  i_impl : impl;
  i_render : render;                         (* what getRender(configuration) selects *)
  i_resp : option resp;
  i_err : option perr;
  i_ttl : Z;                                 (* CacheTTL in nanoseconds *)
  i_ctx_done : bool;                         (* requestCtx done when the proxy returns *)
  i_errf : Z;                                (* answer of the ToHTTPError translator; stock: 500 *)
  i_ver : string;                            (* core.KrakendHeaderValue *)
  i_ctx_errs : list ctx_err                  (* gin only: errors an earlier handler of the chain
                                                attached with c.Error(..) without aborting *)
}.

(* ---- outputs: the projection the property speaks of ---- *)
(* BOther: a serialisation the model does not describe (XML, YAML) *)
Inductive body := BJson (v : json) | BRaw (s : string) | BOther.
Record reply := mk_reply {
  o_status : Z;
  o_completed : list string;                 (* values of X-Krakend-Completed, in order *)
  o_cache : list string;                     (* values of Cache-Control *)
  o_version : list string;                   (* values of X-Krakend *)
  o_body : body
}.
(* Panic: net/http refuses a status outside 100..999 (WriteHeader panics) - no reply *)
Inductive outcome := Reply (r : reply) | Panic.

Definition project (status : Z) (h : hdrs) (b : body) : outcome :=
  Reply {| o_status := status; o_completed := hget H_completed h; o_cache := hget H_cache h;
           o_version := hget H_version h; o_body := b |}.

(* ---- pieces ---- *)
Definition nonempty (r : resp) : bool :=
  match r_data r with Some (_ :: _) => true | _ => false end.
Definition cond (i : input) : bool :=
  match i_resp i with Some r => nonempty r && r_complete r | None => false end.

(* select on requestCtx.Done(): a missing error is replaced by ErrInternalError *)
Definition internal_error : perr :=
  {| e_status := None; e_multi := false; e_msg := "internal server error"; e_buried := None; e_timeout := false |}.
Definition eff_err (i : input) : option perr :=
  match i_err i with
  | Some e => Some e
  | None => if i_ctx_done i then Some internal_error else None
  end.
(* server.DefaultToHTTPError, the translator of EndpointHandler / CustomEndpointHandler: it
   does not look at the error at all (in particular not at e_timeout) *)
Definition stock_translator (e : perr) : Z := 500.

(* core.KrakendHeaderValue of a process: "Version <build>" from the build, replaced by the
   constant "Version undefined" once a gin engine was made by NewEngine with the option
   hide_version_header (the value is process-global: every handler, gin or mux, created before
   or after, shows it from then on) *)
Definition version_value (build : string) (hide : bool) : string :=
  if hide then "Version undefined" else build.

(* both handlers ask the error ITSELF (type assertion err.(responseError)), they do not walk
   what it wraps: e_buried is not read *)
Definition err_status (i : input) (e : perr) : Z :=
  match e_status e with Some n => n | None => i_errf i end.
Definition valid_code (n : Z) : bool := (100 <=? n)%Z && (n <=? 999)%Z.

(* fmt.Sprintf("public, max-age=%d", int(CacheTTL.Seconds())): truncation towards zero
   (exact while |ttl| < 2^22 s, see Spec.ttl_in_range) *)
Definition dec (z : Z) : string := NilZero.string_of_int (Z.to_int z).
Definition max_age (ttl : Z) : Z := Z.quot ttl 1000000000.
Definition cache_value (ttl : Z) : string := ("public, max-age=" ++ dec (max_age ttl))%string.
Definition cache_enabled (ttl : Z) : bool := negb (ttl =? 0)%Z.

Definition nl : string := String (ascii_of_N 10) "".

Definition data_json (r : resp) : json :=
  match r_data r with Some m => JObj m | None => JNull end.   (* a nil map serialises as null *)
Definition member (k : string) (r : resp) : option json :=
  match r_data r with Some m => lookup k m | None => None end.
Definition string_content (r : option resp) : string :=
  match r with
  | Some r => match member "content" r with Some (JStr s) => s | _ => "" end
  | None => ""
  end.
Definition collection (r : option resp) : json :=
  match r with
  | Some r => match member "collection" r with Some v => v | None => JArr [] end
  | None => JArr []
  end.
Definition io_body (r : resp) : string := match r_io r with Some s => s | None => "" end.

(* own headers written before the render, and the metadata pass of the handler *)
Definition base_headers (i : input) : hdrs := hset H_version (i_ver i) [].

(* ---- gin ---- *)
(* gin's responseWriter.WriteHeader ignores a code <= 0; the recorded status is written at
   the end and panics when it is not a valid status *)
Definition gin_status (code : Z) (k : Z -> outcome) : outcome :=
  if (code <=? 0)%Z then k 200%Z else if valid_code code then k code else Panic.

Definition json_of (r : option resp) : json :=
  match r with Some r => data_json r | None => JObj [] end.

(* headers when the handler is done and the render (or the error exit) starts: own cache
   header, then the metadata pass (non-empty data only), then c.Header(completed) = Set *)
Definition gin_pre (i : input) : hdrs :=
  let h0 := base_headers i in
  let h1 := match i_resp i with
            | Some r =>
                if nonempty r then
                  add_meta (r_meta r)
                    (if r_complete r && cache_enabled (i_ttl i)
                     then hset H_cache (cache_value (i_ttl i)) h0 else h0)
                else h0
            | None => h0
            end in
  hset H_completed (if cond i then V_true else V_false) h1.

Definition gin_render (i : input) (h : hdrs) : outcome :=
  match i_render i with
  | RJson => project 200 h (BJson (json_of (i_resp i)))
  | RString => project 200 h (BRaw (string_content (i_resp i)))
  | RCollection => project 200 h (BJson (collection (i_resp i)))
  | RXml | RYaml => project 200 h BOther     (* c.XML / c.YAML with the status so far *)
  | RNoop =>
      match i_resp i with
      | None => project 500 h (BRaw "")
      | Some r => gin_status (r_status r)
                    (fun st => project st (add_meta (r_meta r) h) (BRaw (io_body r)))
      end
  end.

(* c.Errors (i_ctx_errs) is only walked to log its entries (`for _, err := range c.Errors`,
   a loop variable of its own) and, with returnErrorMsg = false, nothing of it reaches the
   reply: the model does not read i_ctx_errs *)
Definition gin_handler (i : input) : outcome :=
  match eff_err i, i_resp i with
  | Some e, None => gin_status (err_status i e) (fun st => project st (gin_pre i) (BRaw ""))
  | _, _ => gin_render i (gin_pre i)
  end.

(* ---- mux ---- *)
(* an explicit WriteHeader(code): the interceptor of the engine (first call only - there is
   one call per path) forces the completeness header to false when code <> 200 *)
Definition write_header (engine : bool) (code : Z) (h : hdrs) (b : body) : outcome :=
  if valid_code code then
    project code (if engine && negb (code =? 200)%Z then hset H_completed V_false h else h) b
  else Panic.
(* http.Error *)
Definition http_error (engine : bool) (msg : string) (code : Z) (h : hdrs) : outcome :=
  write_header engine code h (BRaw (msg ++ nl)).

Definition mux_render (engine : bool) (i : input) (h : hdrs) : outcome :=
  match i_render i with
  | RJson => project 200 h (BJson (json_of (i_resp i)))       (* implicit WriteHeader(200) *)
  | RString => project 200 h (BRaw (string_content (i_resp i)))
  | RCollection => project 200 h (BJson (collection (i_resp i)))
  | RXml | RYaml => project 200 h BOther     (* not registered in the mux package: get_render
                                                never selects them there (C11_mux_renders) *)
  | RNoop =>
      match i_resp i with
      | None => http_error engine "" 500 h
      | Some r =>
          let h' := add_meta (r_meta r) h in
          if (r_status r =? 0)%Z then project 200 h' (BRaw (io_body r))
          else write_header engine (r_status r) h' (BRaw (io_body r))
      end
  end.

(* non-empty response: own headers, then the metadata pass *)
Definition mux_pre (i : input) (r : resp) : hdrs :=
  let h0 := base_headers i in
  add_meta (r_meta r)
    (if r_complete r then
       let hc := hset H_completed V_true h0 in
       if cache_enabled (i_ttl i) then hset H_cache (cache_value (i_ttl i)) hc else hc
     else hset H_completed V_false h0).

(* nil or empty response: flagged incomplete; an error is answered with http.Error *)
Definition mux_fallback (engine : bool) (i : input) : outcome :=
  let h1 := hset H_completed V_false (base_headers i) in
  match eff_err i with
  | Some e => http_error engine (e_msg e) (err_status i e) h1
  | None => mux_render engine i h1
  end.

Definition mux_handler (engine : bool) (i : input) : outcome :=
  match i_resp i with
  | Some r => if nonempty r then mux_render engine i (mux_pre i r) else mux_fallback engine i
  | None => mux_fallback engine i
  end.

Definition handler (i : input) : outcome :=
  match i_impl i with
  | Gin => gin_handler i
  | Mux => mux_handler false i
  | MuxEngine => mux_handler true i
  end.

(* ---- which render serves an endpoint: getRender / getWithFallback / renderRegister of
   router/gin/render.go and router/mux/render.go, and gin's negotiated render ---- *)
Inductive rname := NRender (r : render) | NNegotiate.
Definition registered (im : impl) (name : string) : option rname :=
  if str_eqb name "string" then Some (NRender RString)          (* encoding.STRING *)
  else if str_eqb name "json" then Some (NRender RJson)         (* encoding.JSON *)
  else if str_eqb name "no-op" then Some (NRender RNoop)        (* encoding.NOOP *)
  else if str_eqb name "json-collection" then Some (NRender RCollection)
  else match im with
       | Gin => if str_eqb name "xml" then Some (NRender RXml)
                else if str_eqb name "yaml" then Some (NRender RYaml)
                else if str_eqb name "negotiate" then Some NNegotiate
                else None
       | _ => None
       end.
Definition with_fallback (im : impl) (key : string) (fb : rname) : rname :=
  match registered im key with Some r => r | None => fb end.
(* fallback: json, or the encoding of the ONLY backend; then the endpoint's output_encoding *)
Definition get_render (im : impl) (output : string) (backends : list string) : rname :=
  let fb := match backends with [e] => with_fallback im e (NRender RJson) | _ => NRender RJson end in
  if str_eqb output "" then fb else with_fallback im output fb.
(* what c.NegotiateFormat(JSON, Plain, XML, YAML) makes of the Accept header *)
Inductive accept := AcNone | AcJson | AcPlain | AcXml | AcYaml | AcOther.
Definition negotiate (a : accept) : render :=
  match a with AcXml => RXml | AcPlain | AcYaml => RYaml | _ => RJson end.
Definition resolve (n : rname) (a : accept) : render :=
  match n with NRender r => r | NNegotiate => negotiate a end.
Definition render_of_config (im : impl) (output : string) (backends : list string) (a : accept) : render :=
  resolve (get_render im output backends) a.

(* the same input without metadata headers: what the gateway writes on its own *)
Definition strip_meta (i : input) : input :=
  {| i_impl := i_impl i; i_render := i_render i;
     i_resp := match i_resp i with
               | Some r => Some {| r_data := r_data r; r_complete := r_complete r; r_meta := [];
                                   r_status := r_status r; r_io := r_io r |}
               | None => None end;
     i_err := i_err i; i_ttl := i_ttl i; i_ctx_done := i_ctx_done i; i_errf := i_errf i; i_ver := i_ver i;
     i_ctx_errs := i_ctx_errs i |}.

(* values a metadata map contributes to one reply header *)
Definition meta_vals (k : string) (meta : list (string * list string)) : list string :=
  flat_map (fun kv => if str_eqb (canon (fst kv)) k then snd kv else []) meta.
Definition meta_of (i : input) : list (string * list string) :=
  match i_resp i with Some r => r_meta r | None => [] end.

(* ---- one layer down: the handlers as SEQUENCES OF WRITER OPERATIONS, and the writers ----
   What reaches the client is the header map as it is when the status line is sent: the first
   WriteHeader / Write on a net/http writer (httptest's recorder takes its snapshot there),
   gin's responseWriter remembers c.Status(..) and sends it with the first Write or when the
   chain ends.  A header set after that point would not be sent.  ops_of lists what each
   handler and render does, in source order; exec runs the list against the writer. *)
Inductive op :=
| OSet (k v : string)                          (* Header().Set / c.Header *)
| OSetAbsent (k v : string)                    (* gin renders: Content-Type unless present *)
| ODel (k : string)
| OAddMeta (meta : list (string * list string))
| OStatus (code : Z)                           (* gin: c.Status - remembered, nothing sent *)
| OWriteHeader (code : Z)                      (* explicit WriteHeader (through the interceptor) *)
| OWrite (b : body).

Record wstate := mk_w {
  w_hdrs : hdrs;
  w_pending : Z;                               (* gin's remembered status; 200 at the start *)
  w_sent : option (Z * hdrs);                  (* status line sent: code and header snapshot *)
  w_body : body;
  w_once : bool                                (* the interceptor has seen a WriteHeader *)
}.
Definition w_init : wstate :=
  {| w_hdrs := []; w_pending := 200; w_sent := None; w_body := BRaw ""; w_once := false |}.

Definition set_hdrs (s : wstate) (h : hdrs) : wstate :=
  {| w_hdrs := h; w_pending := w_pending s; w_sent := w_sent s; w_body := w_body s; w_once := w_once s |}.
Definition send (s : wstate) (code : Z) : option wstate :=
  match w_sent s with
  | Some _ => Some s                            (* superfluous WriteHeader: ignored *)
  | None => if valid_code code
            then Some {| w_hdrs := w_hdrs s; w_pending := w_pending s; w_sent := Some (code, w_hdrs s);
                         w_body := w_body s; w_once := w_once s |}
            else None                           (* panic: invalid WriteHeader code *)
  end.

Definition hset_absent (k v : string) (h : hdrs) : hdrs :=
  match lookup k h with Some (_ :: _) => h | _ => hset k v h end.
Definition wstep (engine : bool) (s : wstate) (o : op) : option wstate :=
  match o with
  | OSet k v => Some (set_hdrs s (hset k v (w_hdrs s)))
  | OSetAbsent k v => Some (set_hdrs s (hset_absent k v (w_hdrs s)))
  | ODel k => Some (set_hdrs s (remove k (w_hdrs s)))
  | OAddMeta m => Some (set_hdrs s (add_meta m (w_hdrs s)))
  | OStatus c =>
      Some (if (0 <? c)%Z && match w_sent s with None => true | Some _ => false end
            then {| w_hdrs := w_hdrs s; w_pending := c; w_sent := w_sent s; w_body := w_body s; w_once := w_once s |}
            else s)
  | OWriteHeader c =>
      let s1 := if engine && negb (w_once s)
                then {| w_hdrs := if (c =? 200)%Z then w_hdrs s else hset H_completed V_false (w_hdrs s);
                        w_pending := w_pending s; w_sent := w_sent s; w_body := w_body s; w_once := true |}
                else s in
      send s1 c
  | OWrite b =>
      match send s (w_pending s) with
      | Some s1 => Some {| w_hdrs := w_hdrs s1; w_pending := w_pending s1; w_sent := w_sent s1;
                           w_body := b; w_once := w_once s1 |}
      | None => None
      end
  end.
Fixpoint wrun (engine : bool) (s : wstate) (ops : list op) : option wstate :=
  match ops with
  | [] => Some s
  | o :: r => match wstep engine s o with Some s1 => wrun engine s1 r | None => None end
  end.
(* the chain ends: gin sends the remembered status; the recorder reports 200 and the map *)
Definition wfinish (s : option wstate) : outcome :=
  match s with
  | None => Panic
  | Some s =>
      match send s (w_pending s) with
      | Some s1 => match w_sent s1 with
                   | Some (code, snap) => project code snap (w_body s1)
                   | None => Panic
                   end
      | None => Panic
      end
  end.
Definition exec (engine : bool) (ops : list op) : outcome := wfinish (wrun engine w_init ops).

Definition CT : string := "Content-Type".
(* gin: operations of the handler before the render or the error exit *)
Definition gin_pre_ops (i : input) : list op :=
  [OSet H_version (i_ver i)] ++
  match i_resp i with
  | Some r => if nonempty r
              then (if r_complete r && cache_enabled (i_ttl i) then [OSet H_cache (cache_value (i_ttl i))] else [])
                   ++ [OAddMeta (r_meta r)]
              else []
  | None => []
  end ++
  [OSet H_completed (if cond i then V_true else V_false)].
Definition io_ops (r : resp) : list op :=
  match r_io r with Some s => [OWrite (BRaw s)] | None => [] end.
Definition gin_render_ops (i : input) : list op :=
  match i_render i with
  | RJson => [OSetAbsent CT "application/json; charset=utf-8"; OWrite (BJson (json_of (i_resp i)))]
  | RString => [OSetAbsent CT "text/plain; charset=utf-8"; OWrite (BRaw (string_content (i_resp i)))]
  | RCollection => [OSetAbsent CT "application/json; charset=utf-8"; OWrite (BJson (collection (i_resp i)))]
  | RXml => [OSetAbsent CT "application/xml; charset=utf-8"; OWrite BOther]
  | RYaml => [OSetAbsent CT "application/x-yaml; charset=utf-8"; OWrite BOther]
  | RNoop => match i_resp i with
             | None => [OStatus 500]
             | Some r => [OAddMeta (r_meta r); OStatus (r_status r)] ++ io_ops r
             end
  end.
Definition gin_ops (i : input) : list op :=
  gin_pre_ops i ++
  match eff_err i, i_resp i with
  | Some e, None => [OStatus (err_status i e)]
  | _, _ => gin_render_ops i
  end.

Definition http_error_ops (msg : string) (code : Z) : list op :=
  [ODel "Content-Length"; OSet CT "text/plain; charset=utf-8"; OSet "X-Content-Type-Options" "nosniff";
   OWriteHeader code; OWrite (BRaw (msg ++ nl))].
Definition mux_render_ops (i : input) : list op :=
  match i_render i with
  | RJson => [OSet CT "application/json"; OWrite (BJson (json_of (i_resp i)))]
  | RString => [OSet CT "text/plain"; OWrite (BRaw (string_content (i_resp i)))]
  | RCollection => [OSet CT "application/json"; OWrite (BJson (collection (i_resp i)))]
  | RXml | RYaml => [OWrite BOther]
  | RNoop => match i_resp i with
             | None => http_error_ops "" 500
             | Some r => [OAddMeta (r_meta r)] ++
                         (if (r_status r =? 0)%Z then [] else [OWriteHeader (r_status r)]) ++ io_ops r
             end
  end.
Definition mux_ops (i : input) : list op :=
  [OSet H_version (i_ver i)] ++
  match i_resp i with
  | Some r =>
      if nonempty r then
        (if r_complete r
         then [OSet H_completed V_true] ++
              (if cache_enabled (i_ttl i) then [OSet H_cache (cache_value (i_ttl i))] else [])
         else [OSet H_completed V_false]) ++
        [OAddMeta (r_meta r)] ++ mux_render_ops i
      else [OSet H_completed V_false] ++
           match eff_err i with
           | Some e => http_error_ops (e_msg e) (err_status i e)
           | None => mux_render_ops i
           end
  | None => [OSet H_completed V_false] ++
            match eff_err i with
            | Some e => http_error_ops (e_msg e) (err_status i e)
            | None => mux_render_ops i
            end
  end.
Definition ops_of (i : input) : list op :=
  match i_impl i with Gin => gin_ops i | _ => mux_ops i end.
Definition is_engine (i : input) : bool := match i_impl i with MuxEngine => true | _ => false end.
(* the trace-level model of the whole handler *)
Definition handler_ops (i : input) : outcome := exec (is_engine i) (ops_of i).
