(* C12 - classification of backend HTTP statuses (transport/http/client/status.go,
   proxy/http.go) and how the outcome surfaces at the client through the gin and mux
   endpoint handlers.  Executable model only. *)
Require Import Verif.Common.Base Verif.Common.Json.

(* a value found (or not) under a key of the backend's extra_config namespace *)
Inductive cfgval := VAbsent | VStr (s : string) | VBool (b : bool) | VOtherType.

Inductive mode := MDefault | MErrorCode | MDetails (name : string).

(* GetHTTPStatusHandler: return_error_details wins when present; a present but unusable
   value (wrong type or "") falls to the default handler without looking at
   return_error_code (the else-if of the code). *)
Definition status_mode (details code : cfgval) : mode :=
  match details with
  | VAbsent => match code with VBool true => MErrorCode | _ => MDefault end
  | VStr s => if str_eqb s "" then MDefault else MDetails s
  | _ => MDefault
  end.

Record reply := { r_code : Z; r_body : string; r_enc : string }.

Inductive classification :=
| Use
| Fail
| FailWithCode (code : Z) (body enc : string)
| Detailed (name : string) (code : Z) (body enc : string).

Definition ok_status (code : Z) : bool := (code =? 200)%Z || (code =? 201)%Z.

Definition classify (m : mode) (r : reply) : classification :=
  if ok_status (r_code r) then Use
  else match m with
       | MDefault => Fail
       | MErrorCode => FailWithCode (r_code r) (r_body r) (r_enc r)
       | MDetails n => Detailed n (r_code r) (r_body r) (r_enc r)
       end.

(* what the http proxy hands to the pipeline *)
Inductive perr := ENone | EInvalidStatus | ECode (code : Z) (msg enc : string) | EDecode.
Record presp := { p_data : obj; p_complete : bool; p_status : Z }.
Definition pout := (option presp * perr)%type.

(* serialisation of HTTPResponseError (json tags, omitempty on body and encoding) *)
Definition z_lit (z : Z) : string :=
  (* only used for 100..599; decimal text *)
  let d (n : Z) := String (ascii_of_N (Z.to_N (48 + n))) "" in
  (if (z <? 10)%Z then d z
   else if (z <? 100)%Z then d (z / 10)%Z ++ d (z mod 10)%Z
   else d (z / 100)%Z ++ d ((z / 10) mod 10)%Z ++ d (z mod 10)%Z)%string.

Definition error_object (code : Z) (body enc : string) : json :=
  JObj ([("http_status_code", JNum (z_lit code))]
        ++ (if str_eqb body "" then [] else [("http_body", JStr body)])
        ++ (if str_eqb enc "" then [] else [("http_body_encoding", JStr enc)])).

(* decoded: what the configured decoder makes of the body (None: it fails).  The decoder
   is outside C12 (C13); the harness supplies an independent decoding of the body. *)
Definition http_proxy_outcome (m : mode) (r : reply) (decoded : option obj) : pout :=
  match classify m r with
  | Use => match decoded with
           | Some d => (Some {| p_data := d; p_complete := true; p_status := 0 |}, ENone)
           | None => (None, EDecode)
           end
  | Fail => (None, EInvalidStatus)
  | FailWithCode c b e => (None, ECode c b e)
  | Detailed n c b e =>
      (Some {| p_data := [(("error_" ++ n)%string, error_object c b e)];
               p_complete := false; p_status := c |}, ENone)
  end.

(* ---- client level ---- *)
Inductive impl := Gin | Mux.

Inductive cbody := BJson (v : json) | BRaw (s : string).
Record cobs := { c_status : Z; c_completed : string; c_body : cbody }.

(* merge of the backends' outcomes for a multi-backend endpoint (disjoint keys in the
   harness; union is then order independent). C01 owns the general statement. *)
Definition merge_outs (outs : list pout) : option presp * bool (* any error *) :=
  let payloads := flat_map (fun o => match fst o with Some p => [p] | None => [] end) outs in
  let anyerr := existsb (fun o => match fst o with None => true | Some _ => false end) outs in
  match payloads with
  | [] => (None, anyerr)
  | _ => (Some {| p_data := flat_map p_data payloads;
                  p_complete := forallb p_complete payloads && negb anyerr;
                  p_status := 0 |}, anyerr)
  end.

Definition nl : string := String (ascii_of_N 10) "".

Definition err_text (e : perr) : string :=
  match e with
  | ECode _ m _ => m | EInvalidStatus => "invalid status code"
  | EDecode => "decode" | ENone => "" end.

Fixpoint join_nl (l : list string) : string :=
  match l with [] => "" | [x] => x | x :: r => (x ++ nl ++ join_nl r)%string end.

(* gin: CustomErrorEndpointHandler with DefaultToHTTPError, returnErrorMsg = false;
   mux: CustomEndpointHandlerWithHTTPError (http.Error writes the error text + "\n").
   err: None = no error; Some (status, text) = the status the error maps to and its text. *)
Definition client_of (i : impl) (resp : option presp) (err : option (Z * string)) : cobs :=
  let nonempty := match resp with Some p => negb (Nat.eqb (List.length (p_data p)) 0) | None => false end in
  let completed := match resp with Some p => if nonempty && p_complete p then "true" else "false" | None => "false" end in
  match i with
  | Gin =>
      match resp, err with
      | None, None => {| c_status := 200; c_completed := completed; c_body := BJson (JObj []) |}
      | None, Some (st, _) => {| c_status := st; c_completed := completed; c_body := BRaw "" |}
      | Some p, _ => {| c_status := 200; c_completed := completed; c_body := BJson (JObj (p_data p)) |}
      end
  | Mux =>
      if nonempty then
        {| c_status := 200; c_completed := completed;
           c_body := BJson (JObj (match resp with Some p => p_data p | None => [] end)) |}
      else
        match err with
        | None => {| c_status := 200; c_completed := "false";
                     c_body := BJson (JObj (match resp with Some p => p_data p | None => [] end)) |}
        | Some (st, txt) => {| c_status := st; c_completed := "false"; c_body := BRaw (txt ++ nl) |}
        end
  end.

Definition err_of_single (e : perr) : option (Z * string) :=
  match e with
  | ENone => None
  | ECode c m _ => Some (c, m)
  | _ => Some (500%Z, err_text e)
  end.

Definition client_single (i : impl) (m : mode) (r : reply) (decoded : option obj) : cobs :=
  let '(resp, e) := http_proxy_outcome m r decoded in client_of i resp (err_of_single e).

(* several backends: the error is a merge error (one entry per failed backend, no status
   of its own, hence 500); texts joined by newlines in arrival order - the harness gives
   all failing backends of one case the same body so that the order does not show. *)
Definition client_multi (i : impl) (ms : list (mode * reply * option obj)) : cobs :=
  let outs := map (fun x => let '(m, r, d) := x in http_proxy_outcome m r d) ms in
  let '(resp, anyerr) := merge_outs outs in
  let texts := flat_map (fun o => match snd o with ENone => [] | e => [err_text e] end) outs in
  client_of i resp (if anyerr then Some (500%Z, join_nl texts) else None).
