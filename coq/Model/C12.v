(* C12 - classification of backend HTTP statuses (transport/http/client/status.go,
   proxy/http.go) and how the outcome surfaces at the client through the gin and mux
   endpoint handlers.  Executable model only. *)
Require Import Verif.Common.Base Verif.Common.Json.
From Coq Require Import DecimalString.

(* a value found (or not) under a key of the backend's extra_config namespace *)
Inductive cfgval := VAbsent | VStr (s : string) | VBool (b : bool) | VOtherType.

Inductive mode := MDefault | MErrorCode | MDetails (name : string).

(* GetHTTPStatusHandler: return_error_details wins when present; a present but unusable
   value (wrong type or "") falls to the default handler without looking at
   return_error_code (the else-if of the code). *)
Definition status_mode (details code : cfgval) : mode :=
  match details with
  | VAbsent => match code with VBool true => MErrorCode | _ => MDefault end
  | VStr s => if str_eqb s "" then MDefault else MDetails s
  | _ => MDefault
  end.

Record reply := { r_code : Z; r_body : string; r_enc : string }.

Inductive classification :=
| Use
| Fail
| FailWithCode (code : Z) (body enc : string)
| Detailed (name : string) (code : Z) (body enc : string).

Definition ok_status (code : Z) : bool := (code =? 200)%Z || (code =? 201)%Z.

Definition classify (m : mode) (r : reply) : classification :=
  if ok_status (r_code r) then Use
  else match m with
       | MDefault => Fail
       | MErrorCode => FailWithCode (r_code r) (r_body r) (r_enc r)
       | MDetails n => Detailed n (r_code r) (r_body r) (r_enc r)
       end.

(* what the http proxy hands to the pipeline *)
Inductive perr := ENone | EInvalidStatus | ECode (code : Z) (msg enc : string) | EDecode.
Record presp := { p_data : obj; p_complete : bool; p_status : Z }.
Definition pout := (option presp * perr)%type.

(* serialisation of HTTPResponseError (json tags, omitempty on body and encoding).
   z_lit: the decimal text encoding/json writes for an int - every integer, signed.
   z_lit3 is the three-digit printer the first version of this model used; Proof/C12.v shows
   that both agree on 0..999. *)
Definition z_lit (z : Z) : string := NilZero.string_of_int (Z.to_int z).

Definition z_lit3 (z : Z) : string :=
  let d (n : Z) := String (ascii_of_N (Z.to_N (48 + n))) "" in
  (if (z <? 10)%Z then d z
   else if (z <? 100)%Z then d (z / 10)%Z ++ d (z mod 10)%Z
   else d (z / 100)%Z ++ d ((z / 10) mod 10)%Z ++ d (z mod 10)%Z)%string.

Definition error_object (code : Z) (body enc : string) : json :=
  JObj ([("http_status_code", JNum (z_lit code))]
        ++ (if str_eqb body "" then [] else [("http_body", JStr body)])
        ++ (if str_eqb enc "" then [] else [("http_body_encoding", JStr enc)])).

(* decoded: what the configured decoder makes of the body (None: it fails).  The decoder
   is outside C12 (C13); the harness supplies an independent decoding of the body. *)
Definition http_proxy_outcome (m : mode) (r : reply) (decoded : option obj) : pout :=
  match classify m r with
  | Use => match decoded with
           | Some d => (Some {| p_data := d; p_complete := true; p_status := 0 |}, ENone)
           | None => (None, EDecode)
           end
  | Fail => (None, EInvalidStatus)
  | FailWithCode c b e => (None, ECode c b e)
  | Detailed n c b e =>
      (Some {| p_data := [(("error_" ++ n)%string, error_object c b e)];
               p_complete := false; p_status := c |}, ENone)
  end.

(* ---- client level ---- *)
Inductive impl := Gin | Mux.

Inductive cbody := BJson (v : json) | BRaw (s : string).
Record cobs := { c_status : Z; c_completed : string; c_body : cbody }.

(* merge of the backends' outcomes for a multi-backend endpoint (disjoint keys in the
   harness; union is then order independent). C01 owns the general statement. *)
Definition merge_outs (outs : list pout) : option presp * bool (* any error *) :=
  let payloads := flat_map (fun o => match fst o with Some p => [p] | None => [] end) outs in
  let anyerr := existsb (fun o => match fst o with None => true | Some _ => false end) outs in
  match payloads with
  | [] => (None, anyerr)
  | _ => (Some {| p_data := flat_map p_data payloads;
                  p_complete := forallb p_complete payloads && negb anyerr;
                  p_status := 0 |}, anyerr)
  end.

Definition nl : string := String (ascii_of_N 10) "".

Definition err_text (e : perr) : string :=
  match e with
  | ECode _ m _ => m | EInvalidStatus => "invalid status code"
  | EDecode => "decode" | ENone => "" end.

Fixpoint join_nl (l : list string) : string :=
  match l with [] => "" | [x] => x | x :: r => (x ++ nl ++ join_nl r)%string end.

(* gin: CustomErrorEndpointHandler with DefaultToHTTPError, returnErrorMsg = false;
   mux: CustomEndpointHandlerWithHTTPError (http.Error writes the error text + "\n").
   err: None = no error; Some (status, text) = the status the error maps to and its text. *)
Definition client_of (i : impl) (resp : option presp) (err : option (Z * string)) : cobs :=
  let nonempty := match resp with Some p => negb (Nat.eqb (List.length (p_data p)) 0) | None => false end in
  let completed := match resp with Some p => if nonempty && p_complete p then "true" else "false" | None => "false" end in
  match i with
  | Gin =>
      match resp, err with
      | None, None => {| c_status := 200; c_completed := completed; c_body := BJson (JObj []) |}
      | None, Some (st, _) => {| c_status := st; c_completed := completed; c_body := BRaw "" |}
      | Some p, _ => {| c_status := 200; c_completed := completed; c_body := BJson (JObj (p_data p)) |}
      end
  | Mux =>
      if nonempty then
        {| c_status := 200; c_completed := completed;
           c_body := BJson (JObj (match resp with Some p => p_data p | None => [] end)) |}
      else
        match err with
        | None => {| c_status := 200; c_completed := "false";
                     c_body := BJson (JObj (match resp with Some p => p_data p | None => [] end)) |}
        | Some (st, txt) => {| c_status := st; c_completed := "false"; c_body := BRaw (txt ++ nl) |}
        end
  end.

Definition err_of_single (e : perr) : option (Z * string) :=
  match e with
  | ENone => None
  | ECode c m _ => Some (c, m)
  | _ => Some (500%Z, err_text e)
  end.

Definition client_single (i : impl) (m : mode) (r : reply) (decoded : option obj) : cobs :=
  let '(resp, e) := http_proxy_outcome m r decoded in client_of i resp (err_of_single e).

(* several backends: the error is a merge error (one entry per failed backend, no status
   of its own, hence 500); texts joined by newlines in arrival order - the harness gives
   all failing backends of one case the same body so that the order does not show. *)
Definition client_multi (i : impl) (ms : list (mode * reply * option obj)) : cobs :=
  let outs := map (fun x => let '(m, r, d) := x in http_proxy_outcome m r d) ms in
  let '(resp, anyerr) := merge_outs outs in
  let texts := flat_map (fun o => match snd o with ENone => [] | e => [err_text e] end) outs in
  client_of i resp (if anyerr then Some (500%Z, join_nl texts) else None).

(* ======================================================================================
   Extension: mode selection from the RAW extra_config map, the endpoint-level stages that
   sit between the merger and the router (flatmap_filter, static data), the router family
   (gin with and without return_error_msg, behind middleware that already recorded c.Error
   entries; the mux handler mounted on the mux, chi, gorilla, httptreemux and negroni
   engines).
   ====================================================================================== *)

(* ---- GetHTTPStatusHandler over the raw map (config values as decoded JSON; a Go value of a
   type that JSON decoding never yields is a JOther) ---- *)
Definition ns_http : string := "github.com/devopsfaith/krakend/http".
Definition key_details : string := "return_error_details".
Definition key_code : string := "return_error_code".

Definition status_mode_raw (extra : obj) : mode :=
  match lookup ns_http extra with
  | Some (JObj m) =>
      match lookup key_details m with
      | Some v =>                       (* key present: return_error_code is not consulted *)
          match v with
          | JStr b => if str_eqb b "" then MDefault else MDetails b
          | _ => MDefault
          end
      | None =>
          match lookup key_code m with
          | Some (JBool true) => MErrorCode
          | _ => MDefault
          end
      end
  | _ => MDefault                       (* no namespace, or its value is not a map *)
  end.

(* the digest the first version of the model started from *)
Definition cfgval_of (v : option json) : cfgval :=
  match v with
  | None => VAbsent
  | Some (JStr s) => VStr s
  | Some (JBool b) => VBool b
  | Some _ => VOtherType
  end.

(* ---- endpoint level extra_config (namespace of the proxy package) ---- *)
Definition ns_proxy : string := "github.com/devopsfaith/krakend/proxy".

(* newFlatmapFormatter: a formatter exists iff flatmap_filter is a non-empty list with at
   least one map entry whose "type" is a string.  The operations themselves belong to the
   formatter (outside C12): the harness only declares operations that leave the data as it
   is (deleting an absent key, an unknown operation type), so the formatter is the identity
   here and what matters is what the MIDDLEWARE does with (response, error). *)
Definition flatmap_active (epx : obj) : bool :=
  match lookup ns_proxy epx with
  | Some (JObj e) =>
      match lookup "flatmap_filter" e with
      | Some (JArr vs) =>
          existsb (fun v => match v with
                            | JObj m => match lookup "type" m with Some (JStr _) => true | _ => false end
                            | _ => false end) vs
      | _ => false
      end
  | _ => false
  end.

(* getStaticMiddlewareCfg: (strategy name, data) *)
Definition static_cfg (epx : obj) : option (string * obj) :=
  match lookup ns_proxy epx with
  | Some (JObj e) =>
      match lookup "static" e with
      | Some (JObj tmp) =>
          match lookup "data" tmp with
          | Some (JObj data) =>
              Some (match lookup "strategy" tmp with Some (JStr n) => n | _ => "always" end, data)
          | _ => None
          end
      | _ => None
      end
  | _ => None
  end.

(* what travels from the proxy stack to the router: (response, error); the error as the
   status it maps to and its text.  EPanic: a nil response dereferenced (flatmap middleware
   handed (nil, nil)) - Proof/C12.v shows it is unreachable from the merger. *)
Inductive eout := EOut (resp : option presp) (err : option (Z * string)) | EPanic.

(* NewFlatmapMiddleware (only built for endpoints with several backends): an error passes
   through together with the partial response; otherwise the formatter runs on *resp *)
Definition flat_stage (active : bool) (x : eout) : eout :=
  if active then
    match x with
    | EOut (Some p) None => EOut (Some p) None
    | EOut None None => EPanic
    | _ => x
    end
  else x.

Definition static_match (name : string) (resp : option presp) (err : bool) : bool :=
  if str_eqb name "success" then negb err
  else if str_eqb name "errored" then err
  else if str_eqb name "complete" then
    negb err && match resp with Some p => p_complete p | None => false end
  else if str_eqb name "incomplete" then
    match resp with Some p => negb (p_complete p) | None => true end
  else true.                             (* "always" and every unknown name *)

Definition overlay (data base : obj) : obj :=
  fold_left (fun acc kv => set (fst kv) (snd kv) acc) data base.

(* NewStaticMiddleware *)
Definition static_stage (st : option (string * obj)) (x : eout) : eout :=
  match st, x with
  | Some (name, data), EOut resp err =>
      if static_match name resp (match err with Some _ => true | None => false end) then
        let p := match resp with
                 | Some p => p
                 | None => {| p_data := []; p_complete := false; p_status := 0 |}
                 end in
        EOut (Some {| p_data := overlay data (p_data p); p_complete := p_complete p;
                      p_status := p_status p |}) err
      else x
  | _, _ => x
  end.

(* proxy.NewDefaultFactory(...).New(endpoint) for the backends b0 :: rest *)
Definition backend := (mode * reply * option obj)%type.

Definition single_out (b : backend) : eout :=
  let '(m, r, d) := b in
  let '(resp, e) := http_proxy_outcome m r d in EOut resp (err_of_single e).

Definition multi_out (ms : list backend) : eout :=
  let outs := map (fun x => let '(m, r, d) := x in http_proxy_outcome m r d) ms in
  let '(resp, anyerr) := merge_outs outs in
  let texts := flat_map (fun o => match snd o with ENone => [] | e => [err_text e] end) outs in
  EOut resp (if anyerr then Some (500%Z, join_nl texts) else None).

Definition endpoint_out (epx : obj) (b0 : backend) (rest : list backend) : eout :=
  static_stage (static_cfg epx)
    (match rest with
     | [] => single_out b0
     | _ => flat_stage (flatmap_active epx) (multi_out (b0 :: rest))
     end).

(* ---- routers ---- *)
Inductive router :=
| RGin (return_error_msg : bool)       (* gin engine; the flag is the router option *)
| RMux | RChi | RGorilla | RTreemux | RNegroni.   (* all mount mux.CustomEndpointHandler *)

Definition impl_of (rt : router) : impl := match rt with RGin _ => Gin | _ => Mux end.

(* what the client sees when the handler panics: nothing of the model's business; a marker *)
Definition panicked : cobs := {| c_status := 0; c_completed := "panic"; c_body := BRaw "" |}.

(* prior: the c.Errors entries recorded by earlier middleware.  The handler walks them for
   logging only (the loop variable shadows the proxy's error), so they do not show. *)
Definition client_of_router (rt : router) (prior : list string)
           (resp : option presp) (err : option (Z * string)) : cobs :=
  match rt, resp, err with
  | RGin true, None, Some (st, txt) =>
      (* ErrorResponseWriter: the error text is the body *)
      {| c_status := st; c_completed := "false"; c_body := BRaw txt |}
  | _, _, _ => client_of (impl_of rt) resp err
  end.

Definition client_endpoint (rt : router) (prior : list string) (epx : obj)
           (b0 : backend) (rest : list backend) : cobs :=
  match endpoint_out epx b0 rest with
  | EOut resp err => client_of_router rt prior resp err
  | EPanic => panicked
  end.

Definition backend_of_raw (x : obj * reply * option obj) : backend :=
  let '(extra, r, d) := x in (status_mode_raw extra, r, d).

(* ======================================================================================
   Decoder interplay: which bodies count as decoded under each backend encoding.  JSON
   parsing itself stays outside (the harness supplies an independent parse of the body as
   a JSON VALUE, None when it is not JSON); what each encoding makes of that value, and
   the no-op encoding that bypasses the status handlers altogether, is modelled here.
   ====================================================================================== *)
Inductive encoding :=
| EncJson (is_collection : bool)   (* also every unregistered encoding name *)
| EncSafeJson | EncString
| EncNoop                          (* encoding spelt exactly "no-op": pass-through proxy *)
| EncNoopDecoder.                  (* another spelling of no-op ("No-Op"): the no-op DECODER behind
                                      the ordinary proxy - statuses are classified as usual *)

(* strings.ToLower on the ASCII letters (encoding names are ASCII) *)
Definition lower_ascii (c : ascii) : ascii :=
  let n := N_of_ascii c in
  if ((65 <=? n) && (n <=? 90))%N then ascii_of_N (n + 32) else c.
Fixpoint lower (s : string) : string :=
  match s with EmptyString => EmptyString | String c r => String (lower_ascii c) (lower r) end.

(* config: the decoder is looked up under strings.ToLower(name) (unregistered: json);
   proxy: the pass-through proxy is built iff the name is EXACTLY "no-op" *)
Definition enc_of (name : string) (is_collection : bool) : encoding :=
  if str_eqb name "no-op" then EncNoop
  else
    let l := lower name in
    if str_eqb l "no-op" then EncNoopDecoder
    else if str_eqb l "safejson" then EncSafeJson
    else if str_eqb l "string" then EncString
    else EncJson is_collection.

Definition decode_as (e : encoding) (body : string) (parsed : option json) : option obj :=
  match e with
  | EncString => Some [("content", JStr body)]          (* every body decodes *)
  | EncNoop => Some []
  | EncNoopDecoder => Some []                            (* the map is left nil *)
  | EncSafeJson =>
      match parsed with
      | Some (JObj m) => Some m
      | Some (JArr l) => Some [("collection", JArr l)]
      | Some v => Some [("content", v)]
      | None => None
      end
  | EncJson false =>
      match parsed with
      | Some (JObj m) => Some m
      | Some JNull => Some []                            (* null leaves the map nil *)
      | _ => None
      end
  | EncJson true =>
      match parsed with
      | Some (JArr l) => Some [("collection", JArr l)]
      | Some JNull => Some [("collection", JNull)]
      | _ => None
      end
  end.

(* NewHTTPProxyWithHTTPExecutor: with the no-op encoding the status handler is the no-op one
   and the parser hands the reply through - status classification does not apply *)
Definition http_proxy_outcome_enc (e : encoding) (m : mode) (r : reply) (parsed : option json) : pout :=
  match e with
  | EncNoop => (Some {| p_data := []; p_complete := true; p_status := r_code r |}, ENone)
  | _ => http_proxy_outcome m r (decode_as e (r_body r) parsed)
  end.
