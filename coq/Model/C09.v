(* C09 - endpoint path parameters reach the backend path under every router.
   Executable model of: config/config.go (initEndpoints, extractPlaceHoldersFromURLTemplate,
   initBackendURLMappings, uniqueOutput), config/uri.go (CleanPath, the two placeholder
   patterns), the parameter extractors of the five router adapters, proxy/request.go
   (GeneratePath) as called by the request-builder middleware (proxy/http.go).
   Everything is on byte strings (Coq [string] = list of bytes).  No proofs here.

   Modelled library behaviour (validated on every run by the correspondence check, never
   verified): regexp search of the two placeholder patterns and of sequentialParamsPattern,
   strings.ReplaceAll / bytes.ReplaceAll, sort.Strings, x/text cases.Title(language.Und) and
   net/textproto.CanonicalMIMEHeaderKey on ASCII, and the routers' path matching (abstracted:
   a request that matches the route yields the declared names with the request's segments).

   The model describes the code WITH the repair fixes/C09-ambiguous-params.diff: Init rejects an
   endpoint two of whose parameters differ only in the case of the first character. *)
Require Import Verif.Common.Base.

Inductive tok := Lit (s : string) | Ph (n : string).
Inductive adapter := Gin | Chi | Gorilla | Treemux | Negroni.

(* ---- characters ---------------------------------------------------------------------- *)
Definition code (c : ascii) : N := N_of_ascii c.
Definition in_range (lo hi : N) (c : ascii) : bool := (lo <=? code c)%N && (code c <=? hi)%N.
Definition is_lower := in_range 97 122.
Definition is_upper := in_range 65 90.
Definition is_digit := in_range 48 57.
Definition is_char (n : N) (c : ascii) : bool := (code c =? n)%N.
Definition to_upper (c : ascii) : ascii := if is_lower c then ascii_of_N (code c - 32) else c.
Definition to_lower (c : ascii) : ascii := if is_upper c then ascii_of_N (code c + 32) else c.

(* [a-zA-Z\-_0-9] : parameter names of an endpoint (endpointURLKeysPattern) *)
Definition name_char (c : ascii) : bool :=
  is_lower c || is_upper c || is_digit c || is_char 45 c || is_char 95 c.
(* [\w\-\.:/] : placeholder names of a backend url_pattern (simpleURLKeysPattern) *)
Definition out_char (c : ascii) : bool :=
  is_lower c || is_upper c || is_digit c || is_char 95 c || is_char 45 c || is_char 46 c
  || is_char 58 c || is_char 47 c.

Definition lbrace : ascii := ascii_of_N 123.
Definition rbrace : ascii := ascii_of_N 125.
Definition slash : ascii := ascii_of_N 47.

Fixpoint all_chars (p : ascii -> bool) (s : string) : bool :=
  match s with EmptyString => true | String c r => p c && all_chars p r end.

(* ---- the two casers, on ASCII ---------------------------------------------------------- *)
(* cases.Title(language.Und).String: first letter of a word upper, the other letters lower;
   '-' ends a word, '_' and digits neither start nor end one.  (Validated for names over the
   grammar alphabet and for every one-byte string.) *)
Fixpoint title_go (seen : bool) (s : string) : string :=
  match s with
  | EmptyString => EmptyString
  | String c r =>
      if is_char 45 c then String c (title_go false r)
      else if is_lower c then String (if seen then c else to_upper c) (title_go true r)
      else if is_upper c then String (if seen then to_lower c else c) (title_go true r)
      else String c (title_go seen r)
  end.
Definition title_und (s : string) : string := title_go false s.

(* textproto.CanonicalMIMEHeaderKey: unchanged when some byte is not a header token byte;
   otherwise upper-case the first letter and every letter after '-', lower-case the rest *)
Definition token_byte (c : ascii) : bool :=
  is_lower c || is_upper c || is_digit c ||
  existsb (fun n => is_char n c) [33; 35; 36; 37; 38; 39; 42; 43; 45; 46; 94; 95; 96; 124; 126]%N.
Fixpoint mime_go (up : bool) (s : string) : string :=
  match s with
  | EmptyString => EmptyString
  | String c r => String (if up then to_upper c else to_lower c) (mime_go (is_char 45 c) r)
  end.
Definition mime_canon (s : string) : string := if all_chars token_byte s then mime_go true s else s.

(* k[:1] and k[1:] (bytes); the callers never pass the empty string: the patterns demand one
   character at least and the gorilla/httptreemux extractors skip an empty key *)
Definition first1 (s : string) : string := match s with String c _ => String c EmptyString | EmptyString => EmptyString end.
Definition rest1 (s : string) : string := match s with String _ r => r | EmptyString => EmptyString end.

(* config/config.go: key := title.String(output[:1]) + output[1:] *)
Definition config_cap (n : string) : string := (title_und (first1 n) ++ rest1 n)%string.
(* gin: textproto.CanonicalMIMEHeaderKey(param.Key[:1]) + param.Key[1:];
   chi, gorilla (hence negroni), httptreemux: title.String(key[:1]) + key[1:] *)
Definition adapter_cap (a : adapter) (n : string) : string :=
  match a with
  | Gin => (mime_canon (first1 n) ++ rest1 n)%string
  | Chi | Gorilla | Treemux | Negroni => (title_und (first1 n) ++ rest1 n)%string
  end.

(* ---- text primitives ------------------------------------------------------------------- *)
Fixpoint prefix (p s : string) : bool :=
  match p, s with
  | EmptyString, _ => true
  | String a p', String b s' => Ascii.eqb a b && prefix p' s'
  | String _ _, EmptyString => false
  end.

(* strings.ReplaceAll / bytes.ReplaceAll for a non-empty [old]: leftmost, non-overlapping.
   [skip] = bytes of the current match still to be dropped. *)
Fixpoint replace_go (old new : string) (skip : nat) (s : string) : string :=
  match s with
  | EmptyString => EmptyString
  | String c r =>
      match skip with
      | S k => replace_go old new k r
      | O => if prefix old s then (new ++ replace_go old new (String.length old - 1) r)%string
             else String c (replace_go old new 0 r)
      end
  end.
Definition replace_all (old new s : string) : string := replace_go old new 0 s.

(* maximal run of characters of a class *)
Fixpoint span (p : ascii -> bool) (s : string) : string * string :=
  match s with
  | EmptyString => (EmptyString, EmptyString)
  | String c r => if p c then let '(a, b) := span p r in (String c a, b) else (EmptyString, s)
  end.

(* a match of \{(class+)\} starting exactly here *)
Definition brace_at (p : ascii -> bool) (s : string) : option string :=
  match s with
  | String c r =>
      if Ascii.eqb c lbrace then
        let '(n, t) := span p r in
        match n, t with
        | String _ _, String d _ => if Ascii.eqb d rbrace then Some n else None
        | _, _ => None
        end
      else None
  | EmptyString => None
  end.

(* FindAllStringSubmatch of \{([\w\-\.:/]+)\} : a matched region contains no other start *)
Fixpoint backend_outputs (s : string) : list string :=
  match s with
  | EmptyString => []
  | String _ r => (match brace_at out_char s with Some n => [n] | None => [] end) ++ backend_outputs r
  end.

(* FindAllStringSubmatch of /\{([a-zA-Z\-_0-9]+)\} *)
Fixpoint endpoint_params (s : string) : list string :=
  match s with
  | EmptyString => []
  | String c r =>
      (if Ascii.eqb c slash then match brace_at name_char r with Some n => [n] | None => [] end else [])
      ++ endpoint_params r
  end.

(* URI.CleanPath: "/" + strings.TrimPrefix(path, "/") *)
Definition clean_path (s : string) : string :=
  match s with
  | String c r => if Ascii.eqb c slash then s else String slash s
  | EmptyString => String slash EmptyString
  end.

(* sequentialParamsPattern ^(resp[\d]+_.+)?(JWT\.([\w\-\.:/]+))?$ on strings of the output
   class: resp<digits>_<something> or JWT.<something> (or empty) *)
Definition seq_ref (s : string) : bool :=
  match s with
  | EmptyString => true
  | _ =>
    (if prefix "resp" s then
       let '(d, t) := span is_digit (rest1 (rest1 (rest1 (rest1 s)))) in
       match d, t with
       | String _ _, String u (String _ _) => is_char 95 u
       | _, _ => false
       end
     else false)
    || (prefix "JWT." s && (4 <? String.length s)%nat)
  end.

(* invalidPattern of config.go on a cleaned path: a star followed by a character, or
   /__debug, /__echo, /__health followed by the end or by a slash and the rest of the line *)
Definition nl_char : ascii := ascii_of_N 10.
Fixpoint has_char (c : ascii) (s : string) : bool :=
  match s with EmptyString => false | String d r => Ascii.eqb c d || has_char c r end.
Definition reserved_tail (s : string) : bool :=
  match s with
  | EmptyString => true
  | String c r => Ascii.eqb c slash && negb (has_char nl_char r)
  end.
Definition drop (n : nat) (s : string) : string := String.substring n (String.length s - n) s.
Fixpoint invalid_endpoint (s : string) : bool :=
  match s with
  | EmptyString => false
  | String c r =>
      (is_char 42 c && match r with String d _ => negb (Ascii.eqb d nl_char) | EmptyString => false end)
      || (prefix "/__debug" s && reserved_tail (drop 8 s))
      || (prefix "/__echo" s && reserved_tail (drop 7 s))
      || (prefix "/__health" s && reserved_tail (drop 9 s))
      || invalid_endpoint r
  end.

(* ---- sort.Strings and uniqueOutput ------------------------------------------------------ *)
Fixpoint str_leb (a b : string) : bool :=
  match a, b with
  | EmptyString, _ => true
  | String _ _, EmptyString => false
  | String x a', String y b' =>
      if (code x <? code y)%N then true else if (code y <? code x)%N then false else str_leb a' b'
  end.
Fixpoint insert_sorted (x : string) (l : list string) : list string :=
  match l with
  | [] => [x]
  | y :: r => if str_leb x y then x :: l else y :: insert_sorted x r
  end.
Definition sort_str (l : list string) : list string := fold_right insert_sorted [] l.
Fixpoint dedup_adj (l : list string) : list string :=
  match l with
  | x :: r => match r with
              | y :: _ => if str_eqb x y then dedup_adj r else x :: dedup_adj r
              | [] => [x]
              end
  | [] => []
  end.
Fixpoint dedup (l : list string) : list string :=
  match l with [] => [] | x :: r => if str_mem x r then dedup r else x :: dedup r end.
(* uniqueOutput: the distinct outputs in sorted order, and its count of non-sequential
   distinct outputs, which leaves out the last one *)
Definition unique_output (outs : list string) : list string * nat :=
  let u := dedup_adj (sort_str outs) in
  (u, List.length (filter (fun o => negb (seq_ref o)) (removelast u))).

(* fix C09-ambiguous-params: two different parameters with one capitalised key *)
Fixpoint ambiguous (ins : list string) : bool :=
  match ins with
  | [] => false
  | p :: r => existsb (fun q => negb (str_eqb p q) && str_eqb (config_cap p) (config_cap q)) r || ambiguous r
  end.

Inductive reject := RInvalidEndpoint | RAmbiguous | RWrongNumber | RUndefined (p : string).
Inductive init_result := Accepted (pattern : string) (keys : list string) | Rejected (why : reject).

Definition lb : string := String lbrace EmptyString.
Definition rb : string := String rbrace EmptyString.
Definition placeholder (n : string) : string := (lb ++ n ++ rb)%string.          (* {n} *)
Definition template (k : string) : string := (lb ++ lb ++ "." ++ k ++ rb ++ rb)%string.  (* {{.k}} *)

(* the loop of initBackendURLMappings over the distinct sorted outputs *)
Fixpoint rewrite_loop (ins outs : list string) (pat : string) (keys : list string) : init_result :=
  match outs with
  | [] => Accepted pat keys
  | o :: r =>
      if negb (seq_ref o) && negb (str_mem o ins) then Rejected (RUndefined o)
      else rewrite_loop ins r (replace_all (placeholder o) (template (config_cap o)) pat)
                        (keys ++ [config_cap o])
  end.

(* ServiceConfig.Init for one endpoint with one backend (strict REST), as far as C09 goes.
   The routing-pattern mode only changes the route text handed to the router. *)
Definition init (ep be : string) : init_result :=
  let ep1 := clean_path ep in
  if invalid_endpoint ep1 then Rejected RInvalidEndpoint else
  let ins := endpoint_params ep1 in
  if ambiguous ins then Rejected RAmbiguous else
  let pat := clean_path be in
  let '(outs, size) := unique_output (backend_outputs pat) in
  if (List.length (dedup ins) <? size)%nat then Rejected RWrongNumber
  else rewrite_loop ins outs pat [].

Definition accepted_b (r : init_result) : bool :=
  match r with Accepted _ _ => true | Rejected _ => false end.

(* a configuration with several endpoints (one backend each): initEndpoints walks the list and
   returns the first error; every endpoint is checked against its OWN declared parameters *)
Definition init_config (eps : list (string * string)) : bool :=
  forallb (fun e => accepted_b (init (fst e) (snd e))) eps.

(* ---- request time ------------------------------------------------------------------------ *)
(* the Params map a router adapter builds for a request that matched the endpoint: one entry
   per declared parameter, keyed by the adapter's capitalisation.  The list order stands for
   the iteration order of the Go map. *)
Definition router_params (a : adapter) (names vals : list string) : list (string * string) :=
  map (fun nv => (adapter_cap a (fst nv), snd nv)) (combine names vals).

(* Request.GeneratePath: for k, v := range r.Params { ReplaceAll(buff, "{{."+k+"}}", v) } *)
Fixpoint generate_path (pat : string) (params : list (string * string)) : string :=
  match params with
  | [] => pat
  | (k, v) :: r => generate_path (replace_all (template k) v pat) r
  end.

(* ---- tokens: how the theorems and the generator write patterns ---------------------------- *)
Definition render_tok (t : tok) : string := match t with Lit s => s | Ph n => placeholder n end.
Fixpoint render (ts : list tok) : string :=
  match ts with [] => EmptyString | t :: r => (render_tok t ++ render r)%string end.
(* an endpoint is a list of segments, each a literal or one parameter *)
Fixpoint render_ep (segs : list tok) : string :=
  match segs with [] => EmptyString | t :: r => (String slash (render_tok t) ++ render_ep r)%string end.
Fixpoint ph_names (ts : list tok) : list string :=
  match ts with [] => [] | Lit _ :: r => ph_names r | Ph n :: r => n :: ph_names r end.

Inductive robs := ORejected | OPath (p : string) | ONotRouted (status : Z) | OPanic.

(* the whole chain for one request: Init, the adapter's extraction, path generation *)
Definition serve (a : adapter) (segs be : list tok) (vals : list string) : robs :=
  match init (render_ep segs) (render be) with
  | Rejected _ => ORejected
  | Accepted pat _ => OPath (generate_path pat (router_params a (ph_names segs) vals))
  end.

(* ---- the route text Init hands to the router (config/uri.go GetEndpointPath) ---------------- *)
Definition qmark : ascii := ascii_of_N 63.
Definition colon_c : ascii := ascii_of_N 58.
(* strings.Split(result, "?") ... strings.Join(parts, "?"): only the text before the first '?'
   is rewritten *)
Fixpoint split_q (s : string) : string * string :=
  match s with
  | EmptyString => (EmptyString, EmptyString)
  | String c r => if Ascii.eqb c qmark then (EmptyString, s)
                  else let '(a, b) := split_q r in (String c a, b)
  end.
Definition colon_step (res p : string) : string :=
  let '(a, b) := split_q res in
  (replace_all (placeholder p) (String colon_c p) a ++ b)%string.
(* colon mode (gin, httptreemux): every {p} becomes :p, parameter by parameter in the order of
   declaration; brackets mode (chi, gorilla, negroni): the cleaned endpoint text as it is *)
Definition route_pattern (colon : bool) (ep1 : string) (ins : list string) : string :=
  if colon then fold_left colon_step ins ep1 else ep1.
Definition init_route (colon : bool) (ep : string) : string :=
  route_pattern colon (clean_path ep) (endpoint_params (clean_path ep)).
Definition colon_mode (a : adapter) : bool :=
  match a with Gin | Treemux => true | Chi | Gorilla | Negroni => false end.

(* what the router is expected to be given for a tokenised endpoint *)
Fixpoint render_route (colon : bool) (segs : list tok) : string :=
  match segs with
  | [] => EmptyString
  | Lit s :: r => (String slash s ++ render_route colon r)%string
  | Ph n :: r => (String slash (if colon then String colon_c n else placeholder n) ++ render_route colon r)%string
  end.

(* ---- a generic segment router (what gin, chi, gorilla, httptreemux do with the routes C09
   speaks of: whole-segment parameters, no wildcards/regexps).  The third-party routers
   themselves are validated by the correspondence run only; this model says what is assumed of
   them and the theorems derive the extracted parameters from the route text Init produced. *)
Fixpoint split_slash (s : string) : list string :=
  match s with
  | EmptyString => [EmptyString]
  | String c r =>
      if Ascii.eqb c slash then EmptyString :: split_slash r
      else match split_slash r with
           | x :: l => String c x :: l
           | [] => [String c EmptyString]
           end
  end.
(* a route segment that stands for a parameter: ":name" (colon mode), "{name}" (brackets) *)
Definition seg_param (colon : bool) (seg : string) : option string :=
  if colon then
    match seg with
    | String c n => if Ascii.eqb c colon_c then Some n else None
    | EmptyString => None
    end
  else
    match brace_at name_char seg with
    | Some n => if str_eqb seg (placeholder n) then Some n else None
    | None => None
    end.
Fixpoint match_segs (colon : bool) (rs ps : list string) : option (list (string * string)) :=
  match rs, ps with
  | [], [] => Some []
  | r :: rs', p :: ps' =>
      match seg_param colon r with
      | Some n => if str_eqb p EmptyString then None
                  else option_map (cons (n, p)) (match_segs colon rs' ps')
      | None => if str_eqb r p then match_segs colon rs' ps' else None
      end
  | _, _ => None
  end.
Definition match_route (colon : bool) (route path : string) : option (list (string * string)) :=
  match_segs colon (split_slash route) (split_slash path).

(* the request path for given segment values *)
Fixpoint request_path (segs : list tok) (vals : list string) : string :=
  match segs with
  | [] => EmptyString
  | Lit s :: r => (String slash s ++ request_path r vals)%string
  | Ph _ :: r => match vals with
                 | v :: vs => (String slash v ++ request_path r vs)%string
                 | [] => (String slash EmptyString ++ request_path r [])%string
                 end
  end.

(* the whole chain with the router in it: Init (verdict, url_pattern, route text), the generic
   router on the route text, the adapter's capitalisation, path generation *)
Definition serve_routed (a : adapter) (segs be : list tok) (vals : list string) : robs :=
  match init (render_ep segs) (render be) with
  | Rejected _ => ORejected
  | Accepted pat _ =>
      match match_route (colon_mode a) (init_route (colon_mode a) (render_ep segs)) (request_path segs vals) with
      | Some bound => OPath (generate_path pat (map (fun nv => (adapter_cap a (fst nv), snd nv)) bound))
      | None => ONotRouted 404
      end
  end.
