(* C03 - parallel backends see isolated requests; processing is data-race free.
   Executable model only (no proofs).

   What is modelled (proxy/merging.go parallelMerge + hasUnsafeBackends, request.go Clone /
   CloneRequest, concurrent.go, graphql.go, headers_filter.go, query_strings_filter.go,
   balancing.go, http.go request builder and http proxy, factory.go newStack order):
   processing one client request is a fork tree (Common/Heap.v) of atomic accesses to
   OBJECTS - Request structs, Headers/Query/Params maps, Body readers.  The generator below
   is a symbolic execution of the default stack: it tracks, per pipeline, which object every
   reference field of its request points to (the view) and what it holds (the contents), and
   emits the reads and writes each middleware performs, with the values written.  What a
   backend is sent is what the http proxy stage READS (struct, headers, body) - i.e. a part
   of the read log of its goroutine. *)
Require Import Verif.Common.Base Verif.Common.Heap.
From Coq Require Import DecimalString.

Definition mmap := list (string * list string).   (* Go map[string][]string *)

(* ---------------- configuration and client request ---------------- *)
Inductive gql_kind := GQuery | GMutation.
(* g_out: what the GraphQL extractor produces for THIS request (body for the POST transport,
   query parameters for GET); None = it fails (the pipeline returns the error, nothing is
   sent).  The extractor is C07's subject: an explicit oracle argument here. *)
Record gql := { g_get : bool; g_kind : gql_kind; g_out : option (string * mmap) }.

Record backend := {
  b_method : string;          (* after config.Init: never empty, upper case in the harness *)
  b_hdrs : list string;       (* input_headers of the backend (HeadersToPass) *)
  b_qs : list string;         (* input_query_strings *)
  b_cc : nat;                 (* concurrent_calls *)
  b_host : string;
  b_path : string;            (* Request.GeneratePath(url_pattern) for this request's params: oracle (C09/C10) *)
  b_gql : option gql }.

Record request := {
  q_method : string; q_hdr : mmap; q_qry : mmap; q_par : list (string * string);
  q_body : option string }.   (* None: Body == nil (or http.NoBody) *)

Definition config := list backend.

(* strings.ToUpper / strings.ToTitle on ASCII method names (the harness uses ASCII only) *)
Definition upper_ascii (c : ascii) : ascii :=
  let n := N_of_ascii c in
  if (97 <=? n)%N && (n <=? 122)%N then ascii_of_N (n - 32) else c.
Fixpoint upper (s : string) : string :=
  match s with EmptyString => EmptyString | String c r => String (upper_ascii c) (upper r) end.

(* hasUnsafeBackends: strings.ToUpper(b.Method) is neither GET nor HEAD *)
Definition safe_method (m : string) : bool := str_eqb (upper m) "GET" || str_eqb (upper m) "HEAD".
Definition has_unsafe (cfg : config) : bool :=
  match cfg with
  | [_] => false
  | _ => existsb (fun b => negb (safe_method (b_method b))) cfg
  end.

(* ---------------- objects and values ---------------- *)
(* FVals: the value slices ([]string backing arrays) of the client's header entries.  A header
   MAP built by a filter or by the GraphQL middleware (cloneHeaderMap) is a new object, but
   its entries still point to these slices; only CloneRequestHeaders copies them. *)
Inductive field := FStruct | FHdr | FQry | FPar | FBody | FVals.
Inductive site :=
| SOrig                 (* the request the router built *)
| SMerge                (* clone made by parallelMerge for a branch *)
| SMergeSrc (k : nat)   (* body re-buffered into the source by the k-th CloneRequest of parallelMerge *)
| SConc                 (* clone made by the concurrent middleware for an attempt *)
| SConcSrc (a : nat)    (* body re-buffered into the source by the a-th CloneRequest of the concurrent middleware *)
| SQF | SHF | SGql.     (* objects allocated by the query filter, header filter, GraphQL middleware *)
(* who allocated it *)
Inductive owner := WEnd | WBr (k : nat) | WAt (k a : nat).
Record obj := Ob { o_own : owner; o_site : site; o_fld : field }.

Inductive val :=
| VStruct (method path : string) (url : option (string * mmap))   (* scalar fields of a Request *)
| VMap (m : mmap)
| VPar (m : list (string * string))
| VBody (rest : string)      (* unread bytes of an open reader *)
| VClosed                    (* a reader that was read to its end and closed: later reads fail *)
| VNil.

Definition field_eqb (a b : field) : bool :=
  match a, b with
  | FStruct, FStruct | FHdr, FHdr | FQry, FQry | FPar, FPar | FBody, FBody | FVals, FVals => true
  | _, _ => false
  end.
Definition site_eqb (a b : site) : bool :=
  match a, b with
  | SOrig, SOrig | SMerge, SMerge | SConc, SConc | SQF, SQF | SHF, SHF | SGql, SGql => true
  | SMergeSrc x, SMergeSrc y | SConcSrc x, SConcSrc y => Nat.eqb x y
  | _, _ => false
  end.
Definition owner_eqb (a b : owner) : bool :=
  match a, b with
  | WEnd, WEnd => true
  | WBr x, WBr y => Nat.eqb x y
  | WAt x a, WAt y b => Nat.eqb x y && Nat.eqb a b
  | _, _ => false
  end.
Definition obj_eqb (a b : obj) : bool :=
  owner_eqb (o_own a) (o_own b) && site_eqb (o_site a) (o_site b) && field_eqb (o_fld a) (o_fld b).

Notation acc := (Heap.acc obj val).
Notation item := (Heap.item obj val).
Notation prog := (list (Heap.item obj val)).

(* ---------------- a pipeline's knowledge of its request ---------------- *)
Definition view := field -> obj.
Definition vals := field -> val.
Record pst := { pv : view; px : vals }.
Definition vset {A} (m : field -> A) (f : field) (a : A) : field -> A :=
  fun f' => if field_eqb f' f then a else m f'.
Definition has_body (s : pst) : bool := match px s FBody with VNil => false | _ => true end.
Definition body_of (s : pst) : string := match px s FBody with VBody b => b | _ => "" end.
Definition hdr_of (s : pst) : mmap := match px s FHdr with VMap m => m | _ => [] end.
Definition qry_of (s : pst) : mmap := match px s FQry with VMap m => m | _ => [] end.

(* in place write / pointing a field to a new object *)
Definition wr (s : pst) (f : field) (v : val) : list acc * pst :=
  ([Wr (pv s f) v], {| pv := pv s; px := vset (px s) f v |}).
Definition alloc (s : pst) (f : field) (o : obj) (v : val) : list acc * pst :=
  ([Wr o v], {| pv := vset (pv s) f o; px := vset (px s) f v |}).
Definition rd (s : pst) (f : field) : list acc := [Rd (pv s f)].

(* ---------------- the middlewares ---------------- *)
(* header / query filters: same code shape.  Nothing to do when the map is empty or every key
   is allowed; otherwise a NEW map with the listed keys and a NEW Request struct. *)
Definition filter_map (allow : list string) (m : mmap) : mmap :=
  flat_map (fun k => match lookup k m with Some vs => [(k, vs)] | None => [] end) allow.
Definition all_allowed (allow : list string) (m : mmap) : bool :=
  forallb (fun kv => str_mem (fst kv) allow) m.

Definition filter_stage (own : owner) (st : site) (f : field) (allow : list string) (s : pst) : list acc * pst :=
  match allow with
  | [] => ([], s)                                  (* emptyMiddlewareFallback *)
  | _ =>
    let m := match px s f with VMap m => m | _ => [] end in
    let reads := rd s FStruct ++ rd s f in
    if all_allowed allow m then (reads, s)
    else
      let '(a1, s1) := alloc s f (Ob own st f) (VMap (filter_map allow m)) in
      let '(a2, s2) := alloc s1 FStruct (Ob own st FStruct) (px s FStruct) in
      (reads ++ a1 ++ a2, s2)
  end.

Definition set_method (v : val) (m : string) : val :=
  match v with VStruct _ p u => VStruct m p u | x => x end.
Definition nat_dec (n : nat) : string := NilZero.string_of_uint (Nat.to_uint n).

(* GET transport: a private copy of the query map in which the client's own query,
   operationName and variables entries are dropped and the operation's parameters are set *)
Definition add_values (q : mmap) (extra : mmap) : mmap :=
  fold_left (fun acc kv => set (fst kv) (snd kv) acc)
            extra (remove "variables" (remove "operationName" (remove "query" q))).

(* GraphQL middleware.  Result None in the second component: the extractor failed, the
   pipeline returns here and nothing below runs. *)
Definition gql_stage (own : owner) (g : gql) (s : pst) : list acc * option pst :=
  let src :=
    match g_kind g with
    | GQuery => rd s FStruct ++ rd s FPar
    | GMutation => rd s FStruct ++ (if has_body s then rd s FBody ++ [Wr (pv s FBody) VClosed] else [])
    end in
  let s0 := match g_kind g with
            | GMutation => if has_body s then {| pv := pv s; px := vset (px s) FBody VClosed |} else s
            | GQuery => s end in
  match g_out g with
  | None => (src, None)
  | Some (body, gq) =>
    if g_get g then
      let '(a1, s1) := alloc s0 FBody (Ob own SGql FBody) (VBody "") in
      let h := set "Content-Type" ["application/json"] (set "Content-Length" ["0"] (hdr_of s1)) in
      let '(a2, s2) := alloc s1 FHdr (Ob own SGql FHdr) (VMap h) in
      let '(a3, s3) := alloc s2 FQry (Ob own SGql FQry) (VMap (add_values (qry_of s2) gq)) in
      let '(a4, s4) := wr s3 FStruct (set_method (px s3 FStruct) "GET") in
      (src ++ a1 ++ rd s1 FHdr ++ a2 ++ rd s2 FQry ++ a3 ++ a4, Some s4)
    else
      let '(a1, s1) := alloc s0 FBody (Ob own SGql FBody) (VBody body) in
      let h := set "Content-Type" ["application/json"]
                 (set "Content-Length" [nat_dec (String.length body)] (hdr_of s1)) in
      let '(a2, s2) := alloc s1 FHdr (Ob own SGql FHdr) (VMap h) in
      let '(a4, s4) := wr s2 FStruct (set_method (px s2 FStruct) "POST") in
      (src ++ a1 ++ rd s1 FHdr ++ a2 ++ a4, Some s4)
  end.

(* load balancer: r.URL = host + path, RawQuery = Query.Encode() (keys without values vanish) *)
Definition url_query (q : mmap) : mmap :=
  filter (fun kv => match snd kv with [] => false | _ => true end) q.
Definition lb_stage (b : backend) (s : pst) : list acc * pst :=
  let v := match px s FStruct with
           | VStruct m p _ => VStruct m p (Some ((b_host b ++ p)%string, url_query (qry_of s)))
           | x => x end in
  let '(a, s1) := wr s FStruct v in
  (rd s FStruct ++ rd s FQry ++ a, s1).

(* A pipeline that consumes a body reads it to its end and closes it (GraphQL mutation:
   deferred Close; CloneRequest: ReadFrom + Close; http proxy: the executor reads, the proxy
   closes): one write of VClosed.  The bodies this code allocates itself are NopClosers.
   http proxy + executor: copies the header values (reads every value slice), reads
   method/URL and the header map, drains the body *)
Definition http_stage (s : pst) : list acc :=
  rd s FVals ++ rd s FStruct ++ rd s FHdr ++
  (if has_body s then rd s FBody ++ [Wr (pv s FBody) VClosed] else []).

(* request builder: GeneratePath (reads Params), Method = backend method *)
Definition rb_stage (b : backend) (s : pst) : list acc * pst :=
  let '(a, s1) := wr s FStruct (match px s FStruct with
                                | VStruct _ _ u => VStruct (b_method b) (b_path b) u
                                | x => x end) in
  (rd s FStruct ++ rd s FPar ++ a, s1).

(* the part of newStack below the concurrent middleware, run by one goroutine *)
Definition inner_accs (own : owner) (b : backend) (s : pst) : list acc :=
  let '(a1, s1) := filter_stage own SQF FQry (b_qs b) s in
  let '(a2, s2) := filter_stage own SHF FHdr (b_hdrs b) s1 in
  let '(a3, os3) := match b_gql b with
                    | None => ([], Some s2)
                    | Some g => gql_stage own g s2 end in
  match os3 with
  | None => a1 ++ a2 ++ a3
  | Some s3 =>
      let '(a4, s4) := lb_stage b s3 in
      a1 ++ a2 ++ a3 ++ a4 ++ http_stage s4
  end.

(* Request.Clone: a new struct, every reference field shared *)
Definition shallow_clone (o : obj) (s : pst) : list acc * pst :=
  let '(a, c) := alloc s FStruct o (px s FStruct) in (rd s FStruct ++ a, c).

(* CloneRequest: new struct, copies of Headers (map AND value slices) and Params, the Body is drained and
   re-buffered twice (one reader assigned back into the SOURCE struct, one for the clone);
   Query stays shared.  Returns the accesses, the source afterwards and the clone. *)
Definition deep_clone (own : owner) (st src_site : site) (src_own : owner) (s : pst) : list acc * pst * pst :=
  let '(av, c0) := alloc s FVals (Ob own st FVals) (px s FVals) in
  let '(ah, c1) := alloc c0 FHdr (Ob own st FHdr) (px s FHdr) in
  let '(ap, c2) := alloc c1 FPar (Ob own st FPar) (px s FPar) in
  if has_body s then
    let drain := rd s FBody ++ [Wr (pv s FBody) VClosed] in
    let '(ab1, s1) := alloc s FBody (Ob src_own src_site FBody) (px s FBody) in
    let '(aw, s2) := wr s1 FStruct (px s FStruct) in
    let '(ab2, c3) := alloc c2 FBody (Ob own st FBody) (px s FBody) in
    let '(as_, c4) := alloc c3 FStruct (Ob own st FStruct) (px s FStruct) in
    (rd s FStruct ++ rd s FHdr ++ rd s FVals ++ av ++ ah ++ rd s FPar ++ ap ++ drain ++ ab1 ++ aw ++ ab2 ++ as_, s2, c4)
  else
    let '(as_, c4) := alloc c2 FStruct (Ob own st FStruct) (px s FStruct) in
    (rd s FStruct ++ rd s FHdr ++ rd s FVals ++ av ++ ah ++ rd s FPar ++ ap ++ as_, s, c4).

(* concurrent middleware (proxy/concurrent.go): EVERY attempt gets a deep clone, made one
   after the other in the spawning goroutine while the earlier attempts already run; the
   caller's request is only read (and its body re-buffered) by the spawning goroutine.
   ls = true is the shape of the code before commit f5f9a56 (seeded patch
   C04-revert-concurrent-own-copy): the last attempt runs on the caller's request itself. *)
Fixpoint conc_loop (ls : bool) (k : nat) (b : backend) (src_own : owner) (todo a : nat) (s : pst) : prog :=
  match todo with
  | O => if ls then [Fork (map Acc (inner_accs (WAt k a) b s))] else []
  | S n =>
      let '(ac, s', c) := deep_clone (WAt k a) SConc (SConcSrc a) src_own s in
      map Acc ac ++ Fork (map Acc (inner_accs (WAt k a) b c)) :: conc_loop ls k b src_own n (S a) s'
  end.

(* one backend's stack, entered with the pipeline state s *)
Definition branch_prog (ls : bool) (k : nat) (src_own : owner) (b : backend) (s : pst) : prog :=
  let '(a, s1) := rb_stage b s in
  match b_cc b with
  | O | S O => map Acc (a ++ inner_accs (WAt k 0) b s1)
  | S n => map Acc a ++ conc_loop ls k b src_own (if ls then n else S n) 0 s1
  end.

(* parallelMerge: clone k is made in the parent right before `go requestPart(...)` *)
Fixpoint merge_loop (ls deep : bool) (bs : list backend) (k : nat) (s : pst) : prog :=
  match bs with
  | [] => []
  | b :: r =>
      if deep then
        let '(ac, s', c) := deep_clone (WBr k) SMerge (SMergeSrc k) WEnd s in
        map Acc ac ++ Fork (branch_prog ls k (WBr k) b c) :: merge_loop ls deep r (S k) s'
      else
        let '(ac, c) := shallow_clone (Ob (WBr k) SMerge FStruct) s in
        map Acc ac ++ Fork (branch_prog ls k (WBr k) b c) :: merge_loop ls deep r (S k) s
  end.

Definition orig (f : field) : obj := Ob WEnd SOrig f.
Definition init_vals (q : request) : vals :=
  fun f => match f with
           | FStruct => VStruct (q_method q) "" None
           | FHdr => VMap (q_hdr q)
           | FQry => VMap (q_qry q)
           | FPar => VPar (q_par q)
           | FBody => match q_body q with Some b => VBody b | None => VNil end
           | FVals => VMap (q_hdr q)
           end.
Definition init_pst (q : request) : pst := {| pv := orig; px := init_vals q |}.
(* every object that does not exist yet reads as VNil; the client's request is in place *)
Definition init_heap (q : request) : obj -> val :=
  fun o => match o with
           | Ob WEnd SOrig f => init_vals q f
           | _ => VNil
           end.

(* the whole processing of one request by defaultFactory.New(cfg) (parallel merge) *)
Definition endpoint_prog_gen (ls : bool) (cfg : config) (q : request) : prog :=
  match cfg with
  | [] => []
  | [b] => branch_prog ls 0 WEnd b (init_pst q)
  | _ => merge_loop ls (has_unsafe cfg) cfg 0 (init_pst q)
  end.
Definition endpoint_prog : config -> request -> prog := endpoint_prog_gen false.

Definition race_free_b (cfg : config) (q : request) : bool :=
  race_free obj_eqb (endpoint_prog cfg q).

(* ---------------- what a backend is sent ---------------- *)
Record sent := { s_method : string; s_url : string; s_query : mmap; s_hdr : mmap; s_body : string }.

(* the http proxy stage is the only reader of a struct whose URL is set; it then reads the
   headers and, when there is one, the body *)
Fixpoint sent_of_log (l : list val) : option sent :=
  match l with
  | [] => None
  | VStruct m p (Some (u, q)) :: VMap h :: r =>
      match sent_of_log r with
      | Some s => Some s
      | None =>
          Some {| s_method := upper m (* http.NewRequest(strings.ToTitle(Method), ...) *); s_url := u; s_query := q; s_hdr := h;
                  s_body := match r with VBody b :: _ => b | _ => "" end |}
      end
  | _ :: r => sent_of_log r
  end.

(* thread ids of the goroutines that end in an http proxy: fan-out branch k is the k-th fork
   of the root; attempt a of a concurrent middleware is the a-th fork of its branch *)
Definition leaf_tids (n : nat) (k : nat) (b : backend) : list (list nat) :=
  let pre := match n with 1 => [] | _ => [k] end in
  match b_cc b with
  | O | S O => [pre]
  | cc => map (fun a => (pre ++ [a])%list) (seq 0 cc)
  end.

(* schedule-free semantics: what every attempt of backend k is sent (None: its pipeline
   returned before the http proxy) *)
Definition sent_seq (cfg : config) (q : request) (k : nat) : list (option sent) :=
  match nth_error cfg k with
  | None => []
  | Some b =>
      let logs := seq_logs obj_eqb (endpoint_prog cfg q) (init_heap q) in
      map (fun t => match find_log t logs with Some l => sent_of_log l | None => None end)
          (leaf_tids (List.length cfg) k b)
  end.

(* the same backend configured as the endpoint's only backend *)
Definition solo (cfg : config) (k : nat) : config :=
  match nth_error cfg k with Some b => [b] | None => [] end.

(* contents of the client's own maps after the request (sequential semantics): final value of
   an original object = last value written to it anywhere in the tree, else the initial one *)
Definition final_orig (cfg : config) (q : request) (f : field) : val :=
  fold_left (fun v a => match a with
                        | Wr o w => if obj_eqb o (orig f) then w else v
                        | Rd _ => v end)
            (accs (endpoint_prog cfg q)) (init_vals q f).

(* ---------------- ownership effect of one function / middleware, unit level ----------------
   Which reference fields of the request a stage hands on are the SAME objects as the ones it
   was handed, and which are fresh.  Observed on the real functions by pointer identity. *)
Inductive akind := AClone | ACloneRequest | AHdrFilter | AQryFilter | ABuilder | AGraphQL | ABalancer.

(* (source state afterwards, state handed on); None: the stage returns without calling next *)
Definition stage_effect (kd : akind) (b : backend) (q : request) : option (pst * pst) :=
  let s := init_pst q in
  let own := WAt 0 0 in
  match kd with
  | AClone => Some (s, snd (shallow_clone (Ob own SMerge FStruct) s))
  | ACloneRequest => let '(_, s', c) := deep_clone own SConc (SConcSrc 0) WEnd s in Some (s', c)
  | AHdrFilter => Some (s, snd (filter_stage own SHF FHdr (b_hdrs b) s))
  | AQryFilter => Some (s, snd (filter_stage own SQF FQry (b_qs b) s))
  | ABuilder => let c := snd (rb_stage b s) in Some (c, c)   (* in place: the caller's struct *)
  | AGraphQL => match b_gql b with
                | None => Some (s, s)
                | Some g => match snd (gql_stage own g s) with Some c => Some (c, c) | None => None end
                end
  | ABalancer => let c := snd (lb_stage b s) in Some (c, c)
  end.

Definition all_fields : list field := [FStruct; FHdr; FQry; FPar; FBody; FVals].
(* per field: is the object handed on the one received? *)
Definition same_objects (s c : pst) : list bool := map (fun f => obj_eqb (pv c f) (pv s f)) all_fields.

(* ---------------- line-level models ----------------
   Request.Clone, CloneRequest (with CloneRequestHeaders / CloneRequestParams), the header and
   query-string filters and the request builder, statement by statement, as events on memory
   LOCATIONS finer than the objects of the summaries above: a field slot of a Request struct,
   a map header (len / make / range), one map entry, the backing array of one value slice, a
   reader.  Proof/C03_lines.v proves that the object-level summaries used by the fork-tree
   model cover these events. *)
Inductive fname := NMethod | NURL | NQuery | NPath | NBody | NParams | NHeaders.
Inductive loc :=
| LField (o : obj) (n : fname)
| LMapHdr (o : obj)
| LMapEntry (o : obj) (k : string)
| LElems (o : obj) (k : string)
| LReader (o : obj).
Inductive fev := FR (l : loc) | FW (l : loc).
Definition obj_of (l : loc) : obj :=
  match l with LField o _ | LMapHdr o | LMapEntry o _ | LElems o _ | LReader o => o end.
Definition floc (e : fev) : loc := match e with FR l | FW l => l end.
Definition is_fw (e : fev) : bool := match e with FW _ => true | FR _ => false end.

Definition all_fnames : list fname := [NMethod; NURL; NQuery; NPath; NBody; NParams; NHeaders].
Definition par_of (s : pst) : list (string * string) := match px s FPar with VPar m => m | _ => [] end.

(* request.go: func (r *Request) Clone() Request - reads r.URL (re-parsed into a private
   *url.URL) and every other field, builds the struct literal *)
Definition clone_lines (s : pst) (c : obj) : list fev :=
  (FR (LField (pv s FStruct) NURL) :: map (fun n => FR (LField (pv s FStruct) n)) all_fnames ++
   map (fun n => FW (LField c n)) all_fnames)%list.

(* request.go: CloneRequestHeaders - make(map, len(headers)); for k, vs := range headers
   { tmp := make([]string, len(vs)); copy(tmp, vs); m[k] = tmp } *)
Definition clone_headers_lines (s : pst) (newh newv : obj) : list fev :=
  (FR (LMapHdr (pv s FHdr)) :: FW (LMapHdr newh) ::
   flat_map (fun kv => [FR (LMapEntry (pv s FHdr) (fst kv)); FW (LElems newv (fst kv));
                        FR (LElems (pv s FVals) (fst kv)); FW (LElems newv (fst kv));
                        FW (LMapEntry newh (fst kv))]) (hdr_of s))%list.
(* request.go: CloneRequestParams *)
Definition clone_params_lines (s : pst) (newp : obj) : list fev :=
  (FR (LMapHdr (pv s FPar)) :: FW (LMapHdr newp) ::
   flat_map (fun kv => [FR (LMapEntry (pv s FPar) (fst kv)); FW (LMapEntry newp (fst kv))]) (par_of s))%list.

(* request.go: func CloneRequest(r *Request) *Request *)
Definition clonerequest_lines (own : owner) (st src_site : site) (src_own : owner) (s : pst) : list fev :=
  let c := Ob own st FStruct in
  (clone_lines s c ++                                             (* clone := r.Clone() *)
   FR (LField (pv s FStruct) NHeaders) :: clone_headers_lines s (Ob own st FHdr) (Ob own st FVals) ++
   FW (LField c NHeaders) ::                                      (* clone.Headers = CloneRequestHeaders(r.Headers) *)
   FR (LField (pv s FStruct) NParams) :: clone_params_lines s (Ob own st FPar) ++
   FW (LField c NParams) ::                                       (* clone.Params = CloneRequestParams(r.Params) *)
   FR (LField (pv s FStruct) NBody) ::                            (* if r.Body == nil { return &clone } *)
   (if has_body s then
      [FR (LReader (pv s FBody)); FW (LReader (pv s FBody));      (* buf.ReadFrom(r.Body) *)
       FW (LReader (pv s FBody));                                 (* r.Body.Close() *)
       FW (LReader (Ob src_own src_site FBody)); FW (LField (pv s FStruct) NBody);  (* r.Body = io.NopCloser(...) *)
       FW (LReader (Ob own st FBody)); FW (LField c NBody)]       (* clone.Body = io.NopCloser(buf) *)
    else []))%list.

(* headers_filter.go / query_strings_filter.go (same shape): len(map) == 0; count the allowed
   keys (range); all allowed -> hand the request on; else make a map, copy the listed entries
   (the value slices themselves are NOT copied) and build a new Request literal *)
Definition filter_lines (own : owner) (st : site) (f : field) (n : fname) (allow : list string) (s : pst) : list fev :=
  match allow with
  | [] => []
  | _ =>
    let m := match px s f with VMap m => m | _ => [] end in
    let head := (FR (LField (pv s FStruct) n) :: FR (LMapHdr (pv s f)) ::
                 map (fun kv => FR (LMapEntry (pv s f) (fst kv))) m)%list in
    if all_allowed allow m then head
    else (head ++ FW (LMapHdr (Ob own st f)) ::
          flat_map (fun k => FR (LMapEntry (pv s f) k) ::
                             match lookup k m with Some _ => [FW (LMapEntry (Ob own st f) k)] | None => [] end) allow ++
          map (fun x => FR (LField (pv s FStruct) x)) all_fnames ++
          map (fun x => FW (LField (Ob own st FStruct) x)) all_fnames)%list
  end.

(* http.go newRequestBuilderMiddleware: r.GeneratePath(remote.URLPattern) (request.go: len(r.Params),
   range r.Params, r.Path = ...); r.Method = remote.Method *)
Definition builder_lines (s : pst) : list fev :=
  (FR (LField (pv s FStruct) NParams) :: FR (LMapHdr (pv s FPar)) ::
   map (fun kv => FR (LMapEntry (pv s FPar) (fst kv))) (par_of s) ++
   [FW (LField (pv s FStruct) NPath); FW (LField (pv s FStruct) NMethod)])%list.
