(* C16 - shadow backends (proxy/shadow.go, proxy/request.go CloneRequest).
   Executable model only (no proofs).

   Three layers:
   1. configuration: isShadowBackend (extra_config parsing), the split made by
      shadowFactory.New, the maximum of the shadow timeouts, the calls made to the wrapped
      factory;
   2. the shadow proxy as a function: the caller gets the regular proxy's result on the
      request CloneRequest leaves behind, the shadow proxy is started on the deep clone under
      a context derived from context.Background() (Common/Ctx.v), its result is dropped;
   3. the same call as a fork tree of atomic accesses to the request's objects
      (Common/Heap.v): CloneRequest in the caller's goroutine, then `go shadow`, then the
      regular pipeline.  The Query map is NOT copied by CloneRequest: both pipelines hold it. *)
Require Import Verif.Common.Base Verif.Common.Ctx Verif.Common.Heap.
Close Scope Z_scope.   (* opened by Ctx.v *)

(* ------------------------------------------------------------------------------------ *)
(* 1. configuration *)

(* the value under "shadow_timeout": absent, not a string, or a string together with what
   time.ParseDuration makes of it (standard library: an oracle argument; nanoseconds) *)
Inductive tmo_cfg := TAbsent | TNotString | TStr (parsed : option Z).
(* the value under "shadow" *)
Inductive flag_cfg := FAbsent | FNotBool | FBool (b : bool).
(* the value under the proxy namespace of the backend's extra_config *)
Inductive ns_cfg := NsAbsent | NsNotMap | NsMap (f : flag_cfg) (t : tmo_cfg).

Record backend := {
  b_id : nat;            (* position in the endpoint's backend list *)
  b_timeout : Z;         (* backend.Timeout, ns *)
  b_ns : ns_cfg;
  b_method : string }.

(* isShadowBackend: (duration, is shadow) *)
Definition is_shadow_backend (b : backend) : Z * bool :=
  match b_ns b with
  | NsMap (FBool true) t =>
      (match t with TStr (Some d) => d | _ => b_timeout b end, true)
  | _ => (b_timeout b, false)
  end.

(* the loop of shadowFactory.New: regular and shadow backends in configuration order, and
   maxTimeout (starts at the zero Duration; `if maxTimeout < d`) *)
Fixpoint split_loop (bs reg sh : list backend) (mx : Z) : list backend * list backend * Z :=
  match bs with
  | [] => (reg, sh, mx)
  | b :: r =>
      let '(d, s) := is_shadow_backend b in
      if s then split_loop r reg (sh ++ [b]) (if (mx <? d)%Z then d else mx)
      else split_loop r (reg ++ [b]) sh mx
  end.
Definition shadow_split (bs : list backend) := split_loop bs [] [] 0%Z.

Inductive built :=
| BNoBackends                                            (* ErrNoBackends, nothing built *)
| BPlain (regular : list backend)                        (* the wrapped factory's proxy, unwrapped *)
| BShadowed (regular shadow : list backend) (timeout : Z).

Definition shadow_new (bs : list backend) : built :=
  match bs with
  | [] => BNoBackends
  | _ => let '(reg, sh, mx) := shadow_split bs in
         match sh with [] => BPlain reg | _ => BShadowed reg sh mx end
  end.

Definition ids (bs : list backend) : list nat := map b_id bs.

(* the backend lists the wrapped factory is asked to build, in call order *)
Definition factory_calls (b : built) : list (list nat) :=
  match b with
  | BNoBackends => []
  | BPlain r => [ids r]
  | BShadowed r s _ => [ids r; ids s]
  end.
Definition regular_of (b : built) : list backend :=
  match b with BNoBackends => [] | BPlain r => r | BShadowed r _ _ => r end.
Definition shadow_of (b : built) : list backend :=
  match b with BShadowed _ s _ => s | _ => [] end.

(* the error New returns: its own ErrNoBackends, or whatever the wrapped factory said for
   the regular list (ferr: the wrapped factory, an argument; the error of the second call
   is dropped by the code) *)
Definition new_error {E} (no_backends : E) (ferr : list nat -> option E) (bs : list backend) : option E :=
  match shadow_new bs with
  | BNoBackends => Some no_backends
  | BPlain r => ferr (ids r)
  | BShadowed r _ _ => ferr (ids r)
  end.

(* New as a transformer of the configuration value the caller passes (and may pass again: an
   endpoint registered twice, a stack rebuilt).  `cfgCopy := *cfg` copies the struct; regular
   and shadow are grown as NEW slices, so the caller's Backend array is never written: the
   configuration after New is the configuration before. *)
Definition new_on (cfg : list backend) : built * list backend := (shadow_new cfg, cfg).

(* n successive builds from the same configuration value *)
Fixpoint rebuilds (n : nat) (cfg : list backend) : list built * list backend :=
  match n with
  | 0 => ([], cfg)
  | S k => let '(b, cfg1) := new_on cfg in
           let '(bs, cfg2) := rebuilds k cfg1 in (b :: bs, cfg2)
  end.

(* the variant that filters the regular backends "in place" (regular := cfgCopy.Backend[:0]):
   the survivors are written over the first slots of the caller's array *)
Definition new_inplace (cfg : list backend) : built * list backend :=
  let '(reg, _, _) := shadow_split cfg in
  (shadow_new cfg, (reg ++ skipn (List.length reg) cfg)%list).

(* ------------------------------------------------------------------------------------ *)
(* 2. the shadow proxy as a function *)

Definition mmap := list (string * list string).
(* q_body: None = Body == nil; Some s = a reader with s still unread *)
Record request := {
  q_method : string; q_path : string; q_hdr : mmap; q_qry : mmap;
  q_par : list (string * string); q_body : option string }.

Definition copy_mmap (m : mmap) : mmap := map (fun kv => (fst kv, map (fun x => x) (snd kv))) m.
Definition copy_par (m : list (string * string)) : list (string * string) := map (fun kv => (fst kv, snd kv)) m.

(* CloneRequest: (what the argument holds afterwards, the clone).  The body is drained
   into a buffer; the argument gets a new reader over the bytes, the clone the buffer. *)
Definition clone_request (r : request) : request * request :=
  let hdr := copy_mmap (q_hdr r) in
  let par := copy_par (q_par r) in
  match q_body r with
  | None =>
      (r, {| q_method := q_method r; q_path := q_path r; q_hdr := hdr; q_qry := q_qry r;
             q_par := par; q_body := None |})
  | Some unread =>
      let buf := unread in
      ({| q_method := q_method r; q_path := q_path r; q_hdr := q_hdr r; q_qry := q_qry r;
          q_par := q_par r; q_body := Some buf |},
       {| q_method := q_method r; q_path := q_path r; q_hdr := hdr; q_qry := q_qry r;
          q_par := par; q_body := Some buf |})
  end.

(* the variant whose copy buffer is pre-sized with LENGTH n instead of capacity
   (bytes.NewBuffer(make([]byte, n)), n from the Content-Length header): both the reader put
   back into the argument and the clone start with n NUL bytes *)
Definition nul_prefix (n : nat) : string := string_of_list_ascii (repeat Ascii.zero n).
Definition clone_request_presized (n : nat) (r : request) : request * request :=
  match q_body r with
  | None => clone_request r
  | Some unread =>
      let buf := (nul_prefix n ++ unread)%string in
      ({| q_method := q_method r; q_path := q_path r; q_hdr := q_hdr r; q_qry := q_qry r;
          q_par := q_par r; q_body := Some buf |},
       {| q_method := q_method r; q_path := q_path r; q_hdr := copy_mmap (q_hdr r); q_qry := q_qry r;
          q_par := copy_par (q_par r); q_body := Some buf |})
  end.

(* newContextWrapperWithTimeout: WithTimeout(context.Background(), timeout) (the source
   expression is a regenerated fact, Generated/Facts_ctx_shadow.v); values are looked up in
   the caller's context (not modelled by Ctx.v; observed by the harness) *)
Definition shadow_ctx (tok : nat) (now timeout : Z) : ctx := with_timeout background tok now timeout.

Record spawned := { s_ctx : ctx; s_req : request }.

(* NewShadowProxyWithTimeout: what the caller gets and what the shadow goroutine is started
   with.  p2 does not occur: its result is dropped and it runs in its own goroutine. *)
Definition shadow_proxy {R} (p1 : ctx -> request -> R) (tok : nat) (now timeout : Z)
                        (c : ctx) (r : request) : R * spawned :=
  let sc := shadow_ctx tok now timeout in
  let '(src, cl) := clone_request r in
  (p1 c src, {| s_ctx := sc; s_req := cl |}).

(* the endpoint built by shadowFactory.New, called at time now (F: the proxy the wrapped
   factory builds for a list of backends) *)
Definition endpoint_call {R} (F : list backend -> ctx -> request -> R) (bs : list backend)
                         (tok : nat) (now : Z) (c : ctx) (r : request) : option (R * option spawned) :=
  match shadow_new bs with
  | BNoBackends => None
  | BPlain reg => Some (F reg c r, None)
  | BShadowed reg _ t => let '(x, s) := shadow_proxy (F reg) tok now t c r in Some (x, Some s)
  end.

(* ---- one endpoint serving a history of requests ----
   The endpoint's state between requests is the set of shadow calls still in flight (spawned,
   not yet returned: hung backends stay there until their context ends).  The code keeps no
   such state: a client call spawns its shadow goroutine unconditionally and never waits for
   an earlier one.  Events: a client call, or the k-th in-flight shadow call returning. *)
Inductive hevent :=
| HCall (tok : nat) (now : Z) (c : ctx) (r : request)
| HShadowEnds (k : nat).

Fixpoint remove_nth {A} (k : nat) (l : list A) : list A :=
  match l, k with
  | [], _ => []
  | _ :: r, O => r
  | x :: r, S k' => x :: remove_nth k' r
  end.

(* one client call given the shadow calls in flight: (what the caller gets, in flight after) *)
Definition serve {R} (F : list backend -> ctx -> request -> R) (bs : list backend)
                 (inflight : list spawned) (tok : nat) (now : Z) (c : ctx) (r : request)
  : option R * list spawned :=
  match endpoint_call F bs tok now c r with
  | None => (None, inflight)
  | Some (x, None) => (Some x, inflight)
  | Some (x, Some s) => (Some x, (inflight ++ [s])%list)
  end.

(* what the callers get along a history, starting with [inflight] pending shadow calls *)
Fixpoint history {R} (F : list backend -> ctx -> request -> R) (bs : list backend)
                 (inflight : list spawned) (es : list hevent) : list (option R) :=
  match es with
  | [] => []
  | HCall tok now c r :: rest =>
      let '(x, inflight') := serve F bs inflight tok now c r in x :: history F bs inflight' rest
  | HShadowEnds k :: rest => history F bs (remove_nth k inflight) rest
  end.

(* the variant with a per-endpoint bound on shadow calls in flight, acquired on the caller's
   goroutine before the regular proxy runs: with [cap] calls pending the client call does not
   return (None) until some shadow call ends *)
Definition serve_bounded {R} (cap : nat) (F : list backend -> ctx -> request -> R) (bs : list backend)
                         (inflight : list spawned) (tok : nat) (now : Z) (c : ctx) (r : request)
  : option R * list spawned :=
  match shadow_new bs with
  | BShadowed _ _ _ => if (cap <=? List.length inflight)%nat then (None, inflight)
                       else serve F bs inflight tok now c r
  | _ => serve F bs inflight tok now c r
  end.

(* ---- one call of the shadow proxy as a transition system ----
   The functional model above has no place for what the shadow proxy returns.  Here it has:
   labels are the steps of the caller's goroutine (clone, spawn, the regular proxy returning)
   and of the shadow goroutine (p2 returning ANY value y at ANY later point - before the
   regular proxy, after the caller has long returned, or never - then cancel()), plus the
   client's context being cancelled.  The state keeps the value p2 returned in a slot of its
   own; the caller's result is written by the LRegular step only. *)
Inductive phase := PStart | PCloned | PSpawned | PReturned.
Inductive plabel (S : Type) :=
| LClone               (* CloneRequest(request): reads the WHOLE body, synchronously *)
| LSpawn               (* go func() { p2(shadowCtx, shadowRequest); cancel() }() *)
| LRegular             (* p1(ctx, request) returns; the shadow proxy returns that *)
| LShadow (y : S)      (* p2 returns y *)
| LShadowCancel        (* cancel() after p2 *)
| LClientCancel.       (* the client's context is cancelled (client gone, endpoint timeout) *)
Arguments LClone {S}. Arguments LSpawn {S}. Arguments LRegular {S}. Arguments LShadow {S} y.
Arguments LShadowCancel {S}. Arguments LClientCancel {S}.

Record cstate (R S : Type) := {
  c_phase : phase;
  c_src : request;                 (* the caller's request (its body: what is still unread) *)
  c_clone : option request;        (* the shadow request *)
  c_result : option R;             (* what the caller of the shadow proxy got *)
  c_shadow_running : bool;
  c_shadow_value : option S;       (* what p2 returned: stored nowhere by the code *)
  c_shadow_cancelled : bool;       (* cancel() of the shadow context was called *)
  c_client_cancelled : bool }.
Arguments c_phase {R S}. Arguments c_src {R S}. Arguments c_clone {R S}. Arguments c_result {R S}.
Arguments c_shadow_running {R S}. Arguments c_shadow_value {R S}.
Arguments c_shadow_cancelled {R S}. Arguments c_client_cancelled {R S}.

Definition cinit {R S} (r : request) : cstate R S :=
  {| c_phase := PStart; c_src := r; c_clone := None; c_result := None; c_shadow_running := false;
     c_shadow_value := None; c_shadow_cancelled := false; c_client_cancelled := false |}.

(* p1: the regular proxy as a function of (client context cancelled?, the request it is handed);
   None = the label is not enabled in that state *)
Definition cstep {R S} (p1 : bool -> request -> R) (s : cstate R S) (l : plabel S) : option (cstate R S) :=
  match l with
  | LClone =>
      match c_phase s with
      | PStart => let '(src, cl) := clone_request (c_src s) in
                  Some {| c_phase := PCloned; c_src := src; c_clone := Some cl; c_result := c_result s;
                          c_shadow_running := false; c_shadow_value := c_shadow_value s;
                          c_shadow_cancelled := c_shadow_cancelled s; c_client_cancelled := c_client_cancelled s |}
      | _ => None
      end
  | LSpawn =>
      match c_phase s with
      | PCloned => Some {| c_phase := PSpawned; c_src := c_src s; c_clone := c_clone s; c_result := c_result s;
                           c_shadow_running := true; c_shadow_value := c_shadow_value s;
                           c_shadow_cancelled := c_shadow_cancelled s; c_client_cancelled := c_client_cancelled s |}
      | _ => None
      end
  | LRegular =>
      match c_phase s with
      | PSpawned => Some {| c_phase := PReturned; c_src := c_src s; c_clone := c_clone s;
                            c_result := Some (p1 (c_client_cancelled s) (c_src s));
                            c_shadow_running := c_shadow_running s; c_shadow_value := c_shadow_value s;
                            c_shadow_cancelled := c_shadow_cancelled s; c_client_cancelled := c_client_cancelled s |}
      | _ => None
      end
  | LShadow y =>
      if c_shadow_running s then
        Some {| c_phase := c_phase s; c_src := c_src s; c_clone := c_clone s; c_result := c_result s;
                c_shadow_running := false; c_shadow_value := Some y;
                c_shadow_cancelled := c_shadow_cancelled s; c_client_cancelled := c_client_cancelled s |}
      else None
  | LShadowCancel =>
      match c_shadow_value s, c_shadow_cancelled s with
      | Some _, false => Some {| c_phase := c_phase s; c_src := c_src s; c_clone := c_clone s; c_result := c_result s;
                                 c_shadow_running := false; c_shadow_value := c_shadow_value s;
                                 c_shadow_cancelled := true; c_client_cancelled := c_client_cancelled s |}
      | _, _ => None
      end
  | LClientCancel =>
      Some {| c_phase := c_phase s; c_src := c_src s; c_clone := c_clone s; c_result := c_result s;
              c_shadow_running := c_shadow_running s; c_shadow_value := c_shadow_value s;
              c_shadow_cancelled := c_shadow_cancelled s; c_client_cancelled := true |}
  end.

Fixpoint crun {R S} (p1 : bool -> request -> R) (s : cstate R S) (ls : list (plabel S)) : option (cstate R S) :=
  match ls with
  | [] => Some s
  | l :: r => match cstep p1 s l with Some s' => crun p1 s' r | None => None end
  end.

Definition is_shadow_label {S} (l : plabel S) : bool :=
  match l with LShadow _ | LShadowCancel => true | _ => false end.

(* merge timeout of a multi-backend pipeline: time.Duration(85*ns/100) *)
Definition merge_timeout (endpoint_timeout : Z) : Z := Z.quot (85 * endpoint_timeout)%Z 100%Z.

(* the context a shadow BACKEND is called with: two or more shadow backends form a parallel
   merge, which derives WithTimeout(85% of the endpoint timeout) at a later time now' *)
Definition shadow_backend_ctx (nshadow : nat) (tok tok' : nat) (now now' timeout ep_timeout : Z) : ctx :=
  if (2 <=? nshadow)%nat
  then with_timeout (shadow_ctx tok now timeout) tok' now' (merge_timeout ep_timeout)
  else shadow_ctx tok now timeout.

(* the relative deadline the model predicts for a shadow backend's context (relative to the
   moment(s) the contexts were made, which the harness brackets by an interval) *)
Definition expected_rel_deadline (nshadow : nat) (timeout ep_timeout : Z) : Z :=
  if (2 <=? nshadow)%nat then Z.min timeout (merge_timeout ep_timeout) else timeout.

(* what a backend without filters and without GraphQL is handed by the default stack, as far
   as the client's request goes: the request builder sets the backend's method *)
Definition handed (b : backend) (r : request) : request :=
  {| q_method := b_method b; q_path := q_path r; q_hdr := q_hdr r; q_qry := q_qry r;
     q_par := q_par r; q_body := q_body r |}.

(* ------------------------------------------------------------------------------------ *)
(* 3. the call as a fork tree over the request's objects *)

(* FHdr: the header MAP (keys, and which value slice each key refers to); FHdrVals: the
   backing arrays of its value slices (what `h[k][i] = v` writes) *)
Inductive field := FStruct | FUrl | FHdr | FHdrVals | FQry | FPar | FBody.
Inductive owner :=
| OClient                 (* the request the caller passed in: struct, URL, maps, "the reader
                             its Body field points to" *)
| OClone                  (* allocated by CloneRequest for the clone *)
| OShadowPriv (n : nat)   (* allocated later by the shadow pipeline *)
| ORegPriv (n : nat).     (* allocated by the regular pipeline *)
Record hobj := Ob { o_own : owner; o_fld : field }.

Definition field_eqb (a b : field) : bool :=
  match a, b with
  | FStruct, FStruct | FUrl, FUrl | FHdr, FHdr | FHdrVals, FHdrVals | FQry, FQry | FPar, FPar | FBody, FBody => true
  | _, _ => false
  end.
Definition owner_eqb (a b : owner) : bool :=
  match a, b with
  | OClient, OClient | OClone, OClone => true
  | OShadowPriv x, OShadowPriv y | ORegPriv x, ORegPriv y => Nat.eqb x y
  | _, _ => false
  end.
Definition hobj_eqb (a b : hobj) : bool := owner_eqb (o_own a) (o_own b) && field_eqb (o_fld a) (o_fld b).

Inductive val :=
| VStruct (method path : string)
| VUrl
| VMap (m : mmap)
| VPar (m : list (string * string))
| VBody (unread : option string)
| VUnset.

Notation acc := (Heap.acc hobj val).
Notation item := (Heap.item hobj val).
Notation prog := (list (Heap.item hobj val)).

(* the heap at the call: the client's objects hold the request *)
Definition heap_of (r : request) : hobj -> val :=
  fun o => match o_own o with
           | OClient =>
               match o_fld o with
               | FStruct => VStruct (q_method r) (q_path r)
               | FUrl => VUrl
               | FHdr => VMap (q_hdr r)
               | FHdrVals => VMap (q_hdr r)
               | FQry => VMap (q_qry r)
               | FPar => VPar (q_par r)
               | FBody => VBody (q_body r)
               end
           | _ => VUnset
           end.

Definition cl (f : field) : hobj := Ob OClient f.
Definition sh (f : field) : hobj := Ob OClone f.

(* CloneRequest(request), executed by the caller's goroutine.  Clone(): reads the struct and
   the URL, parses a new URL; CloneRequestHeaders / CloneRequestParams read the maps and fill
   new ones; a non-nil body is read to the end and closed, the request's Body field is
   pointed to a new reader over the same bytes (a write to the client's struct; "the reader
   Body points to" holds the same bytes as before), the clone gets the buffer.  The Query map
   is not touched: the clone's struct refers to the client's map. *)
Definition clone_accs (r : request) : list acc :=
  [Rd (cl FStruct); Rd (cl FUrl); Wr (sh FUrl) VUrl;
   Rd (cl FHdr); Rd (cl FHdrVals); Wr (sh FHdrVals) (VMap (copy_mmap (q_hdr r)));
   Wr (sh FHdr) (VMap (copy_mmap (q_hdr r)));
   Rd (cl FPar); Wr (sh FPar) (VPar (copy_par (q_par r)))] ++
  match q_body r with
  | None => []
  | Some b => [Rd (cl FBody); Wr (cl FBody) (VBody (Some b));
               Wr (cl FStruct) (VStruct (q_method r) (q_path r));
               Wr (sh FBody) (VBody (Some b))]
  end ++
  [Wr (sh FStruct) (VStruct (q_method r) (q_path r))].

(* the shadow-wrapped endpoint: clone, `go shadow`, regular pipeline; sp and rp are the two
   pipelines (any fork trees: merges, concurrent calls, ...) *)
Definition shadowed_prog (r : request) (sp rp : prog) : prog :=
  map Acc (clone_accs r) ++ Fork sp :: rp.

(* ownership discipline.  The shadow pipeline works on the clone: it may touch the clone's
   objects, whatever it allocates itself, and READ the client's Query map (the one object
   CloneRequest shares). *)
Definition shadow_may (a : acc) : bool :=
  match o_own (aobj a) with
  | OClone | OShadowPriv _ => true
  | OClient => field_eqb (o_fld (aobj a)) FQry && negb (is_wr a)
  | ORegPriv _ => false
  end.
(* the regular pipeline works on the client's request and its own allocations; it does not
   write the Query map in place either *)
Definition regular_may (a : acc) : bool :=
  match o_own (aobj a) with
  | OClient => negb (field_eqb (o_fld (aobj a)) FQry && is_wr a)
  | ORegPriv _ => true
  | _ => false
  end.
Definition shadow_disciplined (sp : prog) : bool := forallb shadow_may (accs sp).
Definition regular_disciplined (rp : prog) : bool := forallb regular_may (accs rp).

(* ---- the default backend stack (factory.go newStack, one backend, no concurrent calls) as
   accesses on a request whose struct/maps/body belong to [root] and whose Query map is
   [qry]; private allocations are numbered from the owner constructor [priv] ---- *)
Inductive gql := GNone | GPost (mutation : bool) | GGet (mutation : bool).
Record stackcfg := { k_qs : bool (* input_query_strings non-empty and dropping something *);
                     k_hs : bool (* same for input_headers *);
                     k_gql : gql }.

Record sview := { v_struct : hobj; v_hdr : hobj; v_hvals : hobj; v_qry : hobj; v_par : hobj; v_body : hobj }.
Definition root_view (root : owner) (qry : hobj) : sview :=
  {| v_struct := Ob root FStruct; v_hdr := Ob root FHdr; v_hvals := Ob root FHdrVals; v_qry := qry; v_par := Ob root FPar;
     v_body := Ob root FBody |}.

Definition stack_accs (priv : nat -> owner) (k : stackcfg) (v0 : sview) : list acc :=
  (* request builder: GeneratePath reads Params, writes Path and Method *)
  let a0 := [Rd (v_struct v0); Rd (v_par v0); Wr (v_struct v0) VUnset] in
  (* query-string filter: a new map and a new Request struct *)
  let '(a1, v1) :=
    if k_qs k then
      ([Rd (v_struct v0); Rd (v_qry v0); Wr (Ob (priv 0) FQry) VUnset; Wr (Ob (priv 0) FStruct) VUnset],
       {| v_struct := Ob (priv 0) FStruct; v_hdr := v_hdr v0; v_hvals := v_hvals v0; v_qry := Ob (priv 0) FQry;
          v_par := v_par v0; v_body := v_body v0 |})
    else ([Rd (v_struct v0); Rd (v_qry v0)], v0) in
  (* header filter: a new map that refers to the SAME value slices *)
  let '(a2, v2) :=
    if k_hs k then
      ([Rd (v_struct v1); Rd (v_hdr v1); Wr (Ob (priv 1) FHdr) VUnset; Wr (Ob (priv 1) FStruct) VUnset],
       {| v_struct := Ob (priv 1) FStruct; v_hdr := Ob (priv 1) FHdr; v_hvals := v_hvals v1; v_qry := v_qry v1;
          v_par := v_par v1; v_body := v_body v1 |})
    else ([Rd (v_struct v1); Rd (v_hdr v1)], v1) in
  (* GraphQL: source is Params (query) or the body (mutation); new body reader, PRIVATE copy
     of the header map (same value slices; the two entries it sets get fresh slices), for the GET transport a PRIVATE copy of the query map; Body, Method,
     Headers, Query fields of the struct it was handed are overwritten *)
  let src (m : bool) := if m then [Rd (v_struct v2); Rd (v_body v2); Wr (v_body v2) VUnset]
                        else [Rd (v_struct v2); Rd (v_par v2)] in
  let '(a3, v3) :=
    match k_gql k with
    | GNone => ([], v2)
    | GPost m =>
        (src m ++ [Wr (Ob (priv 2) FBody) VUnset; Rd (v_hdr v2); Wr (Ob (priv 2) FHdr) VUnset;
                   Wr (v_struct v2) VUnset],
         {| v_struct := v_struct v2; v_hdr := Ob (priv 2) FHdr; v_hvals := v_hvals v2; v_qry := v_qry v2;
            v_par := v_par v2; v_body := Ob (priv 2) FBody |})
    | GGet m =>
        (src m ++ [Wr (Ob (priv 2) FBody) VUnset; Rd (v_hdr v2); Wr (Ob (priv 2) FHdr) VUnset;
                   Rd (v_qry v2); Wr (Ob (priv 2) FQry) VUnset; Wr (v_struct v2) VUnset],
         {| v_struct := v_struct v2; v_hdr := Ob (priv 2) FHdr; v_hvals := v_hvals v2; v_qry := Ob (priv 2) FQry;
            v_par := v_par v2; v_body := Ob (priv 2) FBody |})
    end in
  (* load balancer: URL = host + Path, RawQuery from Query.Encode(): a new URL object *)
  let a4 := [Rd (v_struct v3); Rd (v_qry v3); Wr (Ob (priv 3) FUrl) VUnset; Wr (v_struct v3) VUnset] in
  (* backend (http proxy / stub): reads method, URL, headers; drains the body *)
  let a5 := [Rd (v_struct v3); Rd (Ob (priv 3) FUrl); Rd (v_hdr v3); Rd (v_hvals v3); Rd (v_body v3); Wr (v_body v3) VUnset] in
  a0 ++ a1 ++ a2 ++ a3 ++ a4 ++ a5.

(* the GraphQL GET stage as it was before the repair (seeded/C03-revert-graphql-private-maps):
   req.Query.Add(...) on the map it was handed *)
Definition unrepaired_gql_get_accs (v : sview) : list acc :=
  [Rd (v_struct v); Rd (v_par v); Wr (v_hdr v) VUnset; Wr (v_qry v) VUnset; Wr (v_struct v) VUnset].

Definition shadow_stack (k : stackcfg) : prog :=
  map Acc (stack_accs OShadowPriv k (root_view OClone (cl FQry))).
Definition regular_stack (k : stackcfg) : prog :=
  map Acc (stack_accs ORegPriv k (root_view OClient (cl FQry))).

(* ---- sequential merge (merging.go sequentialMerge, two backends) on a request in view v ----
   Per backend: reqCloner(request) (CloneRequest when some backend method is unsafe, the
   shallow Clone otherwise), sequentialRequestPart (a deep copy kept aside, the backend stack
   on the part's request, then `*request = *copyRequest`); between the backends the merger
   writes the propagated value into request.Params (the Params map of the request it was
   handed: an in-place write).  priv numbers the allocations of this side. *)
Definition clone_into (o : owner) (v : sview) : list acc * sview :=
  ([Rd (v_struct v); Rd (v_hdr v); Rd (v_hvals v); Wr (Ob o FHdrVals) VUnset; Wr (Ob o FHdr) VUnset;
    Rd (v_par v); Wr (Ob o FPar) VUnset; Rd (v_body v); Wr (v_body v) VUnset; Wr (v_struct v) VUnset;
    Wr (Ob o FBody) VUnset; Wr (Ob o FStruct) VUnset],
   {| v_struct := Ob o FStruct; v_hdr := Ob o FHdr; v_hvals := Ob o FHdrVals; v_qry := v_qry v;
      v_par := Ob o FPar; v_body := Ob o FBody |}).
Definition shallow_into (o : owner) (v : sview) : list acc * sview :=
  ([Rd (v_struct v); Wr (Ob o FStruct) VUnset],
   {| v_struct := Ob o FStruct; v_hdr := v_hdr v; v_hvals := v_hvals v; v_qry := v_qry v;
      v_par := v_par v; v_body := v_body v |}).

Definition seq_part (priv : nat -> owner) (base : nat) (deep : bool) (k : stackcfg) (v : sview) : list acc :=
  let '(a1, c) := (if deep then clone_into else shallow_into) (priv base) v in
  let '(a2, _) := clone_into (priv (base + 1)) c in
  (a1 ++ a2 ++ stack_accs (fun n => priv (base + 2 + n)) k c ++ [Wr (v_struct c) VUnset])%list.

Definition seq_merge_accs (priv : nat -> owner) (deep : bool) (k1 k2 : stackcfg) (v : sview) : list acc :=
  (seq_part priv 10 deep k1 v ++
   [Rd (v_struct v); Rd (v_par v); Wr (v_par v) VUnset] ++      (* request.Params[Resp0_x] = ... *)
   seq_part priv 20 deep k2 v)%list.

Definition shadow_seq (deep : bool) (k1 k2 : stackcfg) : prog :=
  map Acc (seq_merge_accs OShadowPriv deep k1 k2 (root_view OClone (cl FQry))).
Definition regular_seq (deep : bool) (k1 k2 : stackcfg) : prog :=
  map Acc (seq_merge_accs ORegPriv deep k1 k2 (root_view OClient (cl FQry))).

(* ---- value slices ---- *)
(* a stage that rewrites header values in place (h[k][0] = "redacted": a request modifier may),
   on a request whose header map is [hdr] and whose value slices are [vals] *)
Definition inplace_header_writer (hdr vals : hobj) : list acc := [Rd hdr; Rd vals; Wr vals VUnset].

(* CloneRequestHeaders without the element copy (m[k] = vs[:len(vs):len(vs)]): a new map whose
   entries alias the client's backing arrays - no write to (sh FHdrVals), and the clone's view
   of the value slices is the client's object *)
Definition aliasing_clone_accs (r : request) : list acc :=
  [Rd (cl FStruct); Rd (cl FUrl); Wr (sh FUrl) VUrl;
   Rd (cl FHdr); Wr (sh FHdr) (VMap (q_hdr r));
   Rd (cl FPar); Wr (sh FPar) (VPar (copy_par (q_par r)));
   Wr (sh FStruct) (VStruct (q_method r) (q_path r))].
