(* C15 - executable model of sd/dnssrv/subscriber.go (resolve, compact, normalize, gcd, the
   cache of the subscriber with update/Hosts) and of sd.NewRandomFixedSubscriber as far as the
   property can see it (a permutation).  No proofs here. *)
Require Import Verif.Common.Base.
Local Open Scope Z_scope.

(* one SRV record as returned by the lookup function (net.SRV): all four fields are uint16 *)
Record srv := Srv { target : string; port : Z; prio : Z; weight : Z }.

(* ---- arithmetic: normalize / gcd / compact on []uint16 ---- *)

(* the conversion uint16(int64 value) *)
Definition u16 (x : Z) : Z := x mod 65536.
Definition sumZ (l : list Z) : Z := fold_right Z.add 0 l.
(* `scale := 100; if l := len(ws); l > scale { scale = l }`; the literal is regenerated from the
   sources on every check (Generated/Facts_srv.v: srv_scale_lits = [100]) *)
Definition srv_scale : Z := 100.
Definition scale_of (ws : list Z) : Z := Z.max srv_scale (Z.of_nat (List.length ws)).

Definition normalize (ws : list Z) : list Z :=
  let sc := scale_of ws in
  let s := sumZ ws in
  if s <=? sc then ws else map (fun w => u16 (w * sc / s)) ws.

(* gcd: 0 for the empty slice, otherwise the left fold of Euclid's algorithm (localGCD a 0 = a,
   localGCD 0 b = b: Z.gcd on non-negative numbers) *)
Definition gcdl (ws : list Z) : Z :=
  match ws with [] => 0 | w :: r => fold_left Z.gcd r w end.

Definition compact (ws : list Z) : list Z :=
  let tmp := normalize ws in
  let d := gcdl tmp in
  if d <? 2 then tmp else map (fun w => w / d) tmp.

(* ---- resolve ---- *)

(* the comparator handed to sort.Slice: priority ascending, weight descending, target, port.
   Go compares strings bytewise, as String.ltb does *)
Definition srv_ltb (a b : srv) : bool :=
  if prio a =? prio b then
    if weight a =? weight b then
      if str_eqb (target a) (target b) then port a <? port b
      else String.ltb (target a) (target b)
    else weight b <? weight a
  else prio a <? prio b.

(* sort.Slice is not stable, but two records that the comparator does not separate are equal in
   all four fields, so every correct sort yields the same list: insertion sort describes it *)
Fixpoint insert_srv (x : srv) (l : list srv) : list srv :=
  match l with
  | [] => [x]
  | y :: r => if srv_ltb y x then y :: insert_srv x r else x :: l
  end.
Definition sort_srv (l : list srv) : list srv := fold_right insert_srv [] l.

Fixpoint take_while {A} (f : A -> bool) (l : list A) : list A :=
  match l with
  | [] => []
  | x :: r => if f x then x :: take_while f r else []
  end.

(* `for _, a := range srvs { if a.Priority > srvs[0].Priority { break } ... }` *)
Definition low_group (sorted : list srv) : list srv :=
  match sorted with
  | [] => []
  | s0 :: _ => take_while (fun a => negb (prio s0 <? prio a)) sorted
  end.

(* fmt.Sprint of a uint16 (decimal) *)
Definition digit (z : Z) : ascii := ascii_of_N (Z.to_N (48 + z)).
Fixpoint dec_aux (fuel : nat) (z : Z) (acc : string) : string :=
  match fuel with
  | O => acc
  | S f => let acc' := String (digit (z mod 10)) acc in
           if z <? 10 then acc' else dec_aux f (z / 10) acc'
  end.
Definition dec (z : Z) : string := dec_aux 20 z "".

Fixpoint has_colon (s : string) : bool :=
  match s with
  | EmptyString => false
  | String c r => Ascii.eqb c ":"%char || has_colon r
  end.
(* net.JoinHostPort: a host containing a colon is taken for an IPv6 literal and bracketed *)
Definition join_host_port (h p : string) : string :=
  (if has_colon h then "[" ++ h ++ "]:" ++ p else h ++ ":" ++ p)%string.

(* NewDetailedWithScheme: an empty scheme means http *)
Definition eff_scheme (s : string) : string := if str_eqb s "" then "http" else s.

Definition host_of (scheme : string) (a : srv) : string :=
  (scheme ++ "://" ++ join_host_port (target a) (dec (port a)))%string.

(* `for i, times := range compact(ws) { for j := 0; j < times; j++ { append(host[i]) } }` *)
Definition expand (hosts : list string) (times : list Z) : list string :=
  flat_map (fun p => repeat (fst p) (Z.to_nat (snd p))) (combine hosts times).

(* scheme: the effective scheme stored in the subscriber *)
Definition resolve (scheme : string) (rs : list srv) : list string :=
  let g := low_group (sort_srv rs) in
  expand (map (host_of scheme) g) (compact (map weight g)).

(* the part of resolve after the sort, for any list the sort may have produced *)
Definition resolve_from (scheme : string) (sorted : list srv) : list string :=
  let g := low_group sorted in
  expand (map (host_of scheme) g) (compact (map weight g)).

(* sd.NewRandomFixedSubscriber: res[j] = hosts[perm[j]] for perm = rand.Perm(len(hosts)) *)
Definition shuffle_with (perm : list nat) (hosts : list string) : list string :=
  map (fun i => nth i hosts "") perm.

(* what update stores for the answer rs when rand.Perm returns perm *)
Definition update_store (scheme : string) (rs : list srv) (perm : list nat) : list string :=
  let inst := resolve scheme rs in
  if (100 <? List.length inst)%nat then shuffle_with perm inst else inst.

(* ---- the subscriber: cache, update, Hosts; slices have identities ---- *)

(* what a history is made of.  ELookup ok rs: the next refresh (the first one is the
   synchronous update inside the constructor) calls the lookup function, which returns the
   records rs and, when ok = false, also an error.  ERead: some caller calls Hosts().
   EScribble k m: the caller that made the k-th read (0-based) overwrites every element of the
   slice it was given with m. *)
Inductive event :=
| ELookup (ok : bool) (rs : list srv)
| ERead
| EScribble (k : nat) (m : string).

Definition slice_id := nat.
Record st := St {
  heap : list (slice_id * list string);   (* backing store of every slice allocated so far *)
  cache : slice_id;                       (* the slice *(s.cache) points to *)
  next : slice_id;                        (* allocator *)
  handed : list slice_id                  (* slices returned by Hosts(), oldest first *)
}.

Fixpoint hget (h : list (slice_id * list string)) (i : slice_id) : list string :=
  match h with
  | [] => []
  | (j, l) :: r => if Nat.eqb i j then l else hget r i
  end.
Definition hset (h : list (slice_id * list string)) (i : slice_id) (l : list string) :=
  (i, l) :: h.

(* `cache: &sd.FixedSubscriber{}`: the empty list *)
Definition init_st : st := St [(O, [])] O 1%nat [].

(* one event; the second component is what a read returned (at the time it returned) *)
Definition apply (scheme : string) (s : st) (e : event) : st * option (list string) :=
  match e with
  | ELookup true rs =>
      (* update: resolve allocates `instances` (NewRandomFixedSubscriber allocates another one
         when there are more than 100: still a fresh slice holding a permutation) *)
      (St (hset (heap s) (next s) (resolve scheme rs)) (next s) (S (next s)) (handed s), None)
  | ELookup false _ => (s, None)   (* `if err != nil { return }` *)
  | ERead =>
      (* res := make([]string, len(hs)); copy(res, hs) *)
      let l := hget (heap s) (cache s) in
      (St (hset (heap s) (next s) l) (cache s) (S (next s)) (handed s ++ [next s])%list, Some l)
  | EScribble k m =>
      match nth_error (handed s) k with
      | Some id => (St (hset (heap s) id (map (fun _ => m) (hget (heap s) id))) (cache s) (next s) (handed s), None)
      | None => (s, None)
      end
  end.

Fixpoint run (scheme : string) (s : st) (evs : list event) : list (list string) :=
  match evs with
  | [] => []
  | e :: r => let '(s', o) := apply scheme s e in
              match o with Some l => l :: run scheme s' r | None => run scheme s' r end
  end.

(* what the callers of Hosts() see along a history, for a subscriber built with `scheme` *)
Definition reads (scheme : string) (evs : list event) : list (list string) :=
  run (eff_scheme scheme) init_st evs.
