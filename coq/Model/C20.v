(* C20 - executable models (no proofs here).
   (a) back-off arithmetic of backoff/backoff.go on Z with the int64 wrap written out;
   (b) the sequential behaviour of the registries (register.Untyped and everything built on it,
       register.Namespaced, the render registers): a finite map;
   (c) an interleaving machine: any number of threads, each executing a list of operations whose
       bodies are the typed event lists [list lev] that harness/cmd/facts regenerates from the
       sources (Common/LockEv.v), over shared objects protected by reader/writer locks.  An access
       that is simultaneously enabled with a conflicting access of another thread is a data race:
       a racy read yields [RTorn], a racy write destroys the object (catch-fire semantics). *)
Require Import Verif.Common.Base Verif.Common.LockEv.
Open Scope Z_scope.

(* ------------------------------------------------------------------------------------ *)
(* (a) back-off                                                                          *)

(* 2^63 and 2^64 as literals (the cases are evaluated by vm_compute: no exponentiation per call) *)
Definition two63 : Z := 9223372036854775808.
Definition two64 : Z := 18446744073709551616.
Definition wrap64 (z : Z) : Z := (z + two63) mod two64 - two63.

Definition second : Z := 1000000000.      (* time.Second in ns *)
Definition millisecond : Z := 1000000.

(* 1 << uint(i) on a 64 bit int: shifts of 64 and more (and negative i, converted to a huge uint)
   give 0 *)
Definition shl1 (i : Z) : Z := if (0 <=? i) && (i <? 64) then wrap64 (Z.shiftl 1 i) else 0.

Inductive strat := SDefault | SLinear | SExponential.
Inductive jstrat := JLinear | JExponential.

Definition default_backoff (_ : Z) : Z := second.
Definition linear_backoff (i : Z) : Z := wrap64 (i * second).
Definition exponential_backoff (i : Z) : Z := wrap64 (shl1 i * second).

Definition backoff (s : strat) (i : Z) : Z :=
  match s with
  | SDefault => default_backoff i
  | SLinear => linear_backoff i
  | SExponential => exponential_backoff i
  end.

(* jitter(i): ms := i*1000; maxJitter := ms/3+1; ms += Intn(2*maxJitter) - maxJitter;
   if ms <= 0 { ms = 1 }; Duration(ms) * Millisecond.   r is the value Intn returned. *)
Definition max_jitter (n : Z) : Z := Z.quot (wrap64 (n * 1000)) 3 + 1.
Definition jitter_ms (n r : Z) : Z :=
  let ms := wrap64 (wrap64 (n * 1000) + wrap64 (r - max_jitter n)) in
  if ms <=? 0 then 1 else ms.
Definition jitter (n r : Z) : Z := wrap64 (jitter_ms n r * millisecond).

(* the argument handed to jitter, and the nominal (non-jittered) delay *)
Definition jarg (s : jstrat) (i : Z) : Z := match s with JLinear => i | JExponential => shl1 i end.
Definition jbackoff (s : jstrat) (i r : Z) : Z := jitter (jarg s i) r.
Definition nominal (s : jstrat) (i : Z) : Z :=
  match s with JLinear => linear_backoff i | JExponential => exponential_backoff i end.
(* Intn(n) is defined for n > 0 and returns 0 <= r < n *)
Definition intn_arg (s : jstrat) (i : Z) : Z := wrap64 (2 * max_jitter (jarg s i)).

Fixpoint zseq (from : Z) (n : nat) : list Z :=
  match n with O => [] | S n' => from :: zseq (from + 1) n' end.

(* ------------------------------------------------------------------------------------ *)
(* (b) sequential registries: name -> value (values are identified by integers)            *)

Definition rmap := list (string * Z).

Inductive rop :=
| RReg (k : string) (v : Z)                (* Register / SetResponseCombiner / RegisterRender *)
| RGet (k : string) (r : option Z)         (* Get and what it returned (None: absent / fallback) *)
| RClone (snap : rmap).                    (* Clone and the snapshot it returned *)

(* run a sequence of operations in one goroutine: the operations with the results the model
   predicts, and the final contents *)
Fixpoint seq_run (d : rmap) (ops : list rop) : list rop * rmap :=
  match ops with
  | [] => ([], d)
  | RReg k v :: r => let '(o, d') := seq_run (set k v d) r in (RReg k v :: o, d')
  | RGet k _ :: r => let '(o, d') := seq_run d r in (RGet k (lookup k d) :: o, d')
  | RClone _ :: r => let '(o, d') := seq_run d r in (RClone d :: o, d')
  end.

(* register.Namespaced: namespace -> (name -> value) *)
Definition nsmap := list (string * rmap).
Definition ns_register (ns name : string) (v : Z) (d : nsmap) : nsmap :=
  match lookup ns d with
  | Some inner => set ns (set name v inner) d
  | None => set ns [(name, v)] d
  end.
Fixpoint ns_run (d : nsmap) (regs : list (string * string * Z)) : nsmap :=
  match regs with
  | [] => d
  | (ns, name, v) :: r => ns_run (ns_register ns name v d) r
  end.

(* ------------------------------------------------------------------------------------ *)
(* (c) the interleaving machine                                                            *)

Close Scope Z_scope.

Fixpoint set_nth {A} (l : list A) (n : nat) (x : A) : list A :=
  match l, n with
  | [], _ => []
  | _ :: r, O => x :: r
  | y :: r, S n' => y :: set_nth r n' x
  end.

(* does some element other than the t-th satisfy f *)
Fixpoint any_other {A} (f : A -> bool) (l : list A) (t : nat) : bool :=
  match l with
  | [] => false
  | x :: r => match t with O => existsb f r | S t' => f x || any_other f r t' end
  end.

(* an access to a shared object: (object, is it a write) *)
Definition access := (string * bool)%type.
Definition acc_of (e : lev) : option access :=
  match e with LRead o => Some (o, false) | LWrite o => Some (o, true) | _ => None end.
Definition conflicts (a b : access) : bool := String.eqb (fst a) (fst b) && (snd a || snd b).

Definition holds_any (h : held) (m : string) : bool :=
  match h with HNone => false | HRead x => String.eqb x m | HWrite x => String.eqb x m end.
Definition holds_write (h : held) (m : string) : bool :=
  match h with HWrite x => String.eqb x m | _ => false end.

Section Machine.
  Variable D : Type.   (* contents of a shared object *)
  Variable X : Type.   (* what a read observes *)

  Inductive res := RNone | RTorn | RVal (x : X).

  (* an operation: its event list (from the sources) and what its accesses do.  A read sets the
     result to [o_rd contents]; a write replaces the contents by [o_wr contents]; a call of a
     self-locking method f on the object is one atomic step [o_call f result contents]. *)
  Record op := mkop {
    o_body : list lev;
    o_rd : D -> X;
    o_wr : D -> D;
    o_call : string -> res -> D -> res * D }.

  Record thread := mkth {
    t_held : held;                           (* the lock this thread holds *)
    t_cur : option (op * list lev * res);    (* operation in flight: rest of its body, result so far *)
    t_todo : list op;                        (* operations not yet invoked *)
    t_log : list (op * res) }.               (* completed operations with their results *)

  Record state := mkst {
    s_threads : list thread;
    s_data : string -> option D }.           (* None: destroyed by a racy write *)

  Definition next_acc (th : thread) : option access :=
    match t_cur th with Some (_, e :: _, _) => acc_of e | _ => None end.

  (* thread t is about to perform access a: does another thread stand before a conflicting one *)
  Definition racy (s : state) (t : nat) (a : access) : bool :=
    any_other (fun th => match next_acc th with Some b => conflicts a b | None => false end) (s_threads s) t.

  Definition lock_free_for (s : state) (t : nat) (e : lev) : bool :=
    match e with
    | LLock m => negb (any_other (fun th => holds_any (t_held th) m) (s_threads s) t)
    | LRLock m => negb (any_other (fun th => holds_write (t_held th) m) (s_threads s) t)
    | _ => true
    end.

  Definition upd (f : string -> option D) (o : string) (v : option D) : string -> option D :=
    fun x => if String.eqb x o then v else f x.

  Definition put (s : state) (t : nat) (th : thread) (dat : string -> option D) : state :=
    mkst (set_nth (s_threads s) t th) dat.

  (* one step of thread t; None: t does not exist, has finished, or is blocked *)
  Definition step (s : state) (t : nat) : option state :=
    match nth_error (s_threads s) t with
    | None => None
    | Some th =>
      match t_cur th with
      | None =>
          match t_todo th with
          | [] => None
          | o :: rest => Some (put s t (mkth (t_held th) (Some (o, o_body o, RNone)) rest (t_log th)) (s_data s))   (* invocation *)
          end
      | Some (o, [], r) =>
          Some (put s t (mkth (t_held th) None (t_todo th) (t_log th ++ [(o, r)])) (s_data s))                      (* return *)
      | Some (o, e :: rem, r) =>
          let go h r' dat := Some (put s t (mkth h (Some (o, rem, r')) (t_todo th) (t_log th)) dat) in
          match e with
          | LLock _ | LRLock _ | LUnlock _ | LRUnlock _ =>
              if lock_free_for s t e then
                match lev_step (t_held th) e with Some h' => go h' r (s_data s) | None => None end
              else None
          | LRead ob =>
              let r' := if racy s t (ob, false) then RTorn
                        else match s_data s ob with Some d => RVal (o_rd o d) | None => RTorn end in
              go (t_held th) r' (s_data s)
          | LWrite ob =>
              let v := if racy s t (ob, true) then None else option_map (o_wr o) (s_data s ob) in
              go (t_held th) r (upd (s_data s) ob v)
          | LSafeCall ob f =>
              match s_data s ob with
              | Some d => let '(r', d') := o_call o f r d in go (t_held th) r' (upd (s_data s) ob (Some d'))
              | None => go (t_held th) RTorn (s_data s)
              end
          end
      end
    end.

  (* a schedule names, step by step, the thread that moves *)
  Fixpoint run (s : state) (sched : list nat) : option state :=
    match sched with
    | [] => Some s
    | t :: r => match step s t with Some s' => run s' r | None => None end
    end.

  Definition init_thread (p : list op) : thread := mkth HNone None p [].
  Definition init (progs : list (list op)) (dat : string -> option D) : state :=
    mkst (map init_thread progs) dat.

  Definition finished (s : state) : bool :=
    forallb (fun th => match t_cur th, t_todo th with None, [] => true | _, _ => false end) (s_threads s).
End Machine.

Arguments RNone {X}. Arguments RTorn {X}. Arguments RVal {X} x.
Arguments mkop {D X}. Arguments o_body {D X}. Arguments o_rd {D X}. Arguments o_wr {D X}. Arguments o_call {D X}.
Arguments mkth {D X}. Arguments t_held {D X}. Arguments t_cur {D X}. Arguments t_todo {D X}. Arguments t_log {D X}.
Arguments mkst {D X}. Arguments s_threads {D X}. Arguments s_data {D X}.
Arguments next_acc {D X}. Arguments racy {D X}. Arguments lock_free_for {D X}. Arguments upd {D}.
Arguments put {D X}. Arguments step {D X}. Arguments run {D X}. Arguments init_thread {D X}.
Arguments init {D X}. Arguments finished {D X}.

(* all lock events of a body name the lock m *)
Definition locks_named (m : string) (l : list lev) : bool :=
  forallb (fun e => match e with
                    | LLock x | LUnlock x | LRLock x | LRUnlock x => String.eqb x m
                    | _ => true end) l.
Definition is_read (e : lev) : bool := match e with LRead _ => true | _ => false end.
Definition is_call (e : lev) : bool := match e with LSafeCall _ _ => true | _ => false end.
(* a lookup body: reads the object at least once and calls nothing *)
Definition lookup_body (l : list lev) : bool := existsb is_read l && negb (existsb is_call l).

(* ---- instances: the operations of a registry over one map object ---- *)
Inductive obs := OKey (v : option Z) | OSnap (d : rmap).
Definition no_call {D X} : string -> @res X -> D -> @res X * D := fun _ r d => (r, d).
Definition get_op (body : list lev) (k : string) : @op rmap obs :=
  mkop body (fun d => OKey (lookup k d)) (fun d => d) no_call.
Definition clone_op (body : list lev) : @op rmap obs :=
  mkop body (fun d => OSnap d) (fun d => d) no_call.
Definition reg_op (body : list lev) (k : string) (v : Z) : @op rmap obs :=
  mkop body (fun d => OKey (lookup k d)) (set k v) no_call.

(* Namespaced.Register(ns, name, v) over the outer register "data": the call data.Get(ns) keeps
   what it found; the call data.Register stores name under the namespace found, or a new
   namespace holding only name when none was found *)
Inductive nobs := NFound (r : option rmap).
Definition ns_reg_op (body : list lev) (ns name : string) (v : Z) : @op nsmap nobs :=
  mkop body (fun d => NFound (lookup ns d)) (fun d => d)
    (fun f r d =>
       if String.eqb f "Get" then (RVal (NFound (lookup ns d)), d)
       else match r with
            | RVal (NFound (Some _)) =>
                (r, match lookup ns d with Some cur => set ns (set name v cur) d | None => set ns [(name, v)] d end)
            | _ => (r, set ns [(name, v)] d)
            end).

(* the event lists of Namespaced.Register: before the repair (two self-locking calls, no lock)
   and as regenerated from the repaired sources *)
Definition ns_register_old : list lev := [LSafeCall "data" "Get"; LSafeCall "data" "Register"].
Definition ns_register_new : list lev :=
  [LLock "mutex"; LSafeCall "data" "Get"; LSafeCall "data" "Register"; LUnlock "mutex"].
Definition untyped_register_body : list lev := [LLock "mutex"; LWrite "data"; LUnlock "mutex"].
Definition untyped_get_body : list lev := [LRLock "mutex"; LRead "data"; LRUnlock "mutex"].

(* all schedules of length n over k threads *)
Fixpoint all_scheds (k n : nat) : list (list nat) :=
  match n with
  | O => [[]]
  | S n' => flat_map (fun s => map (fun t => t :: s) (seq 0 k)) (all_scheds k n')
  end.

(* ------------------------------------------------------------------------------------ *)
(* (d) register.Namespaced in general: any number of goroutines performing Register /
   AddNamespace / Get, each operation executing an arbitrary event list (a control-flow path as
   regenerated from the sources).  The outer register (object obj, contents nsmap) is only touched
   through its self-locking methods:
     a call "Get":   looks the namespace up and keeps whether it was found; in a Register
                     operation that found it, the name is stored in the register found (the call
                     inner.Register(name, v): the inner register is an object of its own, does its
                     own locking, and is never replaced while present; the extractor does not list
                     it; the model performs it in the same atomic step as the Get that found it);
     any other call: data.Register(namespace, fresh register): executed only when the lookup did
                     not find the namespace (the path with the early return does not reach it),
                     it OVERWRITES whatever is stored under the namespace. *)
Inductive ns_kind :=
| KReg (ns name : string) (v : Z)      (* Namespaced.Register(ns, name, v) *)
| KAdd (ns : string)                   (* Namespaced.AddNamespace(ns) *)
| KGet (ns : string).                  (* Namespaced.Get(ns) *)
Definition kind_ns (k : ns_kind) : string :=
  match k with KReg ns _ _ => ns | KAdd ns => ns | KGet ns => ns end.

Inductive nres := NKind (k : ns_kind) | NFoundT | NNotFound | NStored.

Definition ns_call (k : ns_kind) (f : string) (r : @res nres) (d : nsmap) : @res nres * nsmap :=
  if String.eqb f "Get" then
    match lookup (kind_ns k) d with
    | Some inner =>
        (RVal NFoundT, match k with KReg ns name v => set ns (set name v inner) d | _ => d end)
    | None => (RVal NNotFound, d)
    end
  else
    match r with
    | RVal NNotFound =>
        match k with
        | KReg ns name v => (RVal NStored, set ns [(name, v)] d)
        | KAdd ns => (RVal NStored, set ns [] d)
        | KGet _ => (r, d)
        end
    | _ => (r, d)
    end.

Definition ns_op (k : ns_kind) (body : list lev) : @op nsmap nres :=
  mkop body (fun _ => NKind k) (fun d => d) (ns_call k).

(* the shape of a compound check-then-act on the object obj, as an executable check of a path:
   every self-locking call is on obj; every mutating call (anything but "Get") happens under the
   WRITE lock, after a "Get" made in the same critical section.  (LockEv.calls_atomic does not ask
   for the write lock: see Properties, C20_ex_calls_atomic_rlock.) *)
Definition is_hwrite (h : held) : bool := match h with HWrite _ => true | _ => false end.
Definition is_lock_ev (e : lev) : bool :=
  match e with LLock _ | LUnlock _ | LRLock _ | LRUnlock _ => true | _ => false end.
Fixpoint cta_run (obj : string) (h : held) (got : bool) (l : list lev) : bool :=
  match l with
  | [] => true
  | e :: r =>
      match e with
      | LSafeCall ob f =>
          String.eqb ob obj &&
          (if String.eqb f "Get" then cta_run obj h (is_hwrite h) r
           else is_hwrite h && got && cta_run obj h got r)
      | _ => match lev_step h e with
             | Some h' => cta_run obj h' (if is_lock_ev e then false else got) r
             | None => false
             end
      end
  end.
Definition cta_ok (obj : string) (l : list lev) : bool := cta_run obj HNone false l.

(* the paths of the three methods as regenerated from the sources today *)
Definition ns_paths_today : list (list lev) :=
  [ [LLock "mutex"; LSafeCall "data" "Get"; LUnlock "mutex"];
    [LLock "mutex"; LSafeCall "data" "Get"; LSafeCall "data" "Register"; LUnlock "mutex"];
    [LSafeCall "data" "Get"] ].

(* ------------------------------------------------------------------------------------ *)
(* (e) the histories of the interleaving machine itself.  A registry program is given by kinds
   (register k v / get k / clone) with the event list each operation executes; the machine runs
   [gop] of them.  A ghost observer (it never influences the machine) stamps every step with a
   time 1, 2, 3, ..., remembers when each operation was invoked, appends an event when an
   operation performs its access to the object obj (a register: its write; a lookup / snapshot:
   its read, with what the object held at that very step) and fills in the return time when the
   operation returns.  [hist_of] is the recorded history in the format of the oracle (hev). *)
Inductive gkind := GReg (k : string) (v : Z) | GGet (k : string) | GClone.
Definition gop (x : gkind * list lev) : @op rmap obs :=
  match fst x with
  | GReg k v => reg_op (snd x) k v
  | GGet k => get_op (snd x) k
  | GClone => clone_op (snd x)
  end.
Definition is_lin (g : gkind) (e : lev) : bool :=
  match g, e with
  | GReg _ _, LWrite _ => true
  | GGet _, LRead _ => true
  | GClone, LRead _ => true
  | _, _ => false
  end.
Definition lin_rop (g : gkind) (d : rmap) : rop :=
  match g with GReg k v => RReg k v | GGet k => RGet k (lookup k d) | GClone => RClone d end.

Record gentry := mkge { ge_t : nat; ge_i : nat; ge_op : rop; ge_inv : Z; ge_ret : option Z }.
Record ghost := mkgh { gh_now : Z; gh_inv : nat -> Z; gh_ents : list gentry }.
Definition ghost0 : ghost := mkgh 1 (fun _ => 0%Z) [].

Definition kind_at (kp : list (list (gkind * list lev))) (t i : nat) : option gkind :=
  match nth_error kp t with
  | Some l => match nth_error l i with Some x => Some (fst x) | None => None end
  | None => None
  end.

Definition gstep (kp : list (list (gkind * list lev))) (obj : string)
                 (s : @state rmap obs) (t : nat) (g : ghost) : ghost :=
  let now := gh_now g in
  let tick := mkgh (now + 1)%Z (gh_inv g) (gh_ents g) in
  match nth_error (s_threads s) t with
  | None => g
  | Some th =>
      let idx := List.length (t_log th) in
      match t_cur th with
      | None => mkgh (now + 1)%Z (fun u => if Nat.eqb u t then now else gh_inv g u) (gh_ents g)
      | Some (_, [], _) =>
          mkgh (now + 1)%Z (gh_inv g)
               (map (fun e => if Nat.eqb (ge_t e) t && Nat.eqb (ge_i e) idx
                              then mkge (ge_t e) (ge_i e) (ge_op e) (ge_inv e) (Some now) else e) (gh_ents g))
      | Some (_, e :: _, _) =>
          match kind_at kp t idx, s_data s obj with
          | Some gk, Some d =>
              if is_lin gk e
              then mkgh (now + 1)%Z (gh_inv g) (gh_ents g ++ [mkge t idx (lin_rop gk d) (gh_inv g t) None])
              else tick
          | _, _ => tick
          end
      end
  end.

Fixpoint irun (kp : list (list (gkind * list lev))) (obj : string)
              (s : @state rmap obs) (g : ghost) (sched : list nat) : option (@state rmap obs * ghost) :=
  match sched with
  | [] => Some (s, g)
  | t :: r => match step s t with Some s' => irun kp obj s' (gstep kp obj s t g) r | None => None end
  end.

(* what a recorded lookup / snapshot event says the operation observed *)
Definition obs_of (ro : rop) : option obs :=
  match ro with RGet _ res => Some (OKey res) | RClone d => Some (OSnap d) | RReg _ _ => None end.

Definition hist_of (g : ghost) : list (rop * Z * Z) :=
  map (fun e => (ge_op e, ge_inv e, match ge_ret e with Some r => r | None => 0%Z end)) (gh_ents g).

(* what is asked of a registry operation besides the lock discipline: it reads and writes only
   the object obj, and a lookup / snapshot does not write at all *)
Definition is_write (e : lev) : bool := match e with LWrite _ => true | _ => false end.
Definition kind_body_ok (obj : string) (x : gkind * list lev) : bool :=
  forallb (fun e => match e with LWrite ob | LRead ob => String.eqb ob obj | _ => true end) (snd x) &&
  match fst x with GReg _ _ => true | _ => negb (existsb is_write (snd x)) end.
