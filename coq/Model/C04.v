(* C04 - every backend call is bounded by the endpoint timeout; nothing outlives it.
   Executable model only (no proofs here).

   What is modelled (router/gin/endpoint.go:46, router/mux/endpoint.go:54, proxy/merging.go
   parallelMerge / sequentialMerge / requestPart, proxy/concurrent.go, proxy/http.go:76-80):

     router handler      requestCtx = WithTimeout(parent, T), cancel() on both return paths
                         (gin: the parent is the *gin.Context, which carries no deadline and is
                          never done with the default engine; mux: the request's context)
     merge (n >= 2)      localCtx = WithTimeout(ctx, num*T/den)  [85/100], cancel() on every
                         return path (parallel: one; sequential: two)
       parallel part     WithCancel(localCtx), cancel() on the three paths of requestPart
       sequential part   called under localCtx itself
     concurrent (cc > 1) localCtx = WithTimeout(ctx, num*T/den)  [75/100 of the backend timeout,
                         which config.Init sets to the endpoint timeout], cancel() on first
                         complete answer and at exit; each attempt under WithCancel(localCtx)

   Contexts are Common/Ctx.v frame lists.  The moments at which the WithTimeout calls are
   executed are not determined by the code: they are the argument [clock]. *)
Require Import Verif.Common.Base Verif.Common.Ctx.
Open Scope Z_scope.

(* ---- configuration of one request ---- *)
Inductive level := LProxy | LGin | LMux.

(* what a backend (attempt) does:
   Answer      complete response, at once
   Incomplete  response flagged incomplete, at once
   Fail        error, at once
   NilResp     (nil, nil), at once
   Hang        never answers: returns ctx.Err() once its context is done
   Late        answers late: returns a complete response once its context is done
   Slow        answers (complete) after a quarter of the endpoint timeout, or returns ctx.Err()
               if its context is done first; nothing is certain about what becomes of it, it only
               moves the later derivations away from the arrival
   Mid         answers (complete) at 80 % of the endpoint timeout - after the 75 % deadline of a
               concurrent stage, before the 85 % deadline of a merge - or returns ctx.Err() if its
               context is done first *)
Inductive beh := Answer | Incomplete | Fail | NilResp | Hang | Late | Slow | Mid.

Record factors := { fm_num : Z; fm_den : Z; fc_num : Z; fc_den : Z }.
(* the instantiation the source facts pin (Generated/Facts_timeouts.v) *)
Definition lura_factors : factors := {| fm_num := 85; fm_den := 100; fc_num := 75; fc_den := 100 |}.

(* Go: time.Duration(num*T.Nanoseconds()/den): integer division truncating towards zero *)
Definition reduced (num den T : Z) : Z := Z.quot (num * T) den.

Record config := {
  c_level : level;
  c_seq : bool;                    (* "sequential": true in the endpoint's extra_config *)
  c_T : Z;                         (* endpoint timeout, ns *)
  c_parent : option Z;             (* deadline of the context handed in (harness / client), ns after arrival *)
  c_http : bool;                   (* backends are proxy.NewHTTPProxy... over a stub executor *)
  c_backends : list (list beh);    (* per REGULAR backend: what each of its concurrent_calls attempts does *)
  c_shadow : option Z              (* Some s: the pipeline is built by proxy.NewShadowFactory around the
                                      default factory and the endpoint also has a shadow backend whose
                                      shadow_timeout is s ns (the backend timeout when not configured).
                                      shadowFactory.New builds the regular pipe from a copy of the endpoint
                                      definition restricted to the regular backends, with the endpoint's own
                                      timeout; the shadow pipe runs detached under context.Background() +
                                      s and is C16's business.  Nothing below reads this field: the regular
                                      calls' contexts are derived from the endpoint timeout alone. *)
}.

(* the same endpoint with another (or no) shadow backend *)
Definition with_shadow (c : config) (s : option Z) : config :=
  {| c_level := c_level c; c_seq := c_seq c; c_T := c_T c; c_parent := c_parent c; c_http := c_http c;
     c_backends := c_backends c; c_shadow := s |}.

Definition nbackends (c : config) : nat := List.length (c_backends c).
Definition multi (c : config) : bool := (1 <? nbackends c)%nat.
Definition cc_of (c : config) (i : nat) : nat := List.length (nth i (c_backends c) []).
Definition concurrent (c : config) (i : nat) : bool := (1 <? cc_of c i)%nat.
Definition routed (c : config) : bool := match c_level c with LProxy => false | _ => true end.

(* ---- tokens of the cancel functions ---- *)
Definition tok_parent : nat := 0.
Definition tok_router : nat := 1.
Definition tok_merge : nat := 2.
Definition tok_part (i : nat) : nat := (10 + 10 * i)%nat.
Definition tok_conc (i : nat) : nat := (11 + 10 * i)%nat.
Definition tok_att (i j : nat) : nat := (12 + 10 * i + j)%nat.   (* j < 8 *)

(* ---- derivation sites and their clock ---- *)
Inductive site := SRouter | SMerge | SConc (i : nat).
Definition clock := site -> Z.

(* the context the caller hands in: WithCancel(Background) or WithDeadline(Background, p) *)
Definition parent_ctx (c : config) : ctx :=
  match c_parent c with
  | None => with_cancel background tok_parent
  | Some p => [{| tok := tok_parent; dl := Some p |}]
  end.

Section Pipeline.
  Variable F : factors.
  Variable c : config.
  Variable clk : clock.

  Definition ctx_router : ctx :=
    match c_level c with
    | LProxy => parent_ctx c
    | LGin => with_timeout background tok_router (clk SRouter) (c_T c)
    | LMux => with_timeout (parent_ctx c) tok_router (clk SRouter) (c_T c)
    end.

  Definition ctx_merge : ctx :=
    if multi c then with_timeout ctx_router tok_merge (clk SMerge) (reduced (fm_num F) (fm_den F) (c_T c))
    else ctx_router.

  Definition ctx_part (i : nat) : ctx :=
    if multi c && negb (c_seq c) then with_cancel ctx_merge (tok_part i) else ctx_merge.

  Definition ctx_conc (i : nat) : ctx :=
    if concurrent c i
    then with_timeout (ctx_part i) (tok_conc i) (clk (SConc i)) (reduced (fc_num F) (fc_den F) (c_T c))
    else ctx_part i.

  (* the context attempt j of backend i is invoked with *)
  Definition ctx_call (i j : nat) : ctx :=
    if concurrent c i then with_cancel (ctx_conc i) (tok_att i j) else ctx_conc i.
End Pipeline.

(* the detached context of the shadow pipe (proxy/shadow.go newContextWrapperWithTimeout):
   Background + shadow timeout, its own token *)
Definition tok_shadow : nat := 3.
Definition ctx_shadow (c : config) (now : Z) : option ctx :=
  match c_shadow c with
  | Some s => Some (with_timeout background tok_shadow now s)
  | None => None
  end.

(* the pipeline derived at least one context on the way to backend i *)
Definition derived (c : config) (i : nat) : bool := routed c || multi c || concurrent c i.

(* ---- return paths and the cancel functions called on them ----
   Every function that derives a context calls its cancel function on each of its return
   paths (the number of cancel() call sites per function is a regenerated source fact:
   parallelMerge 1, sequentialMerge 2, requestPart 3, concurrent 2, processConcurrentCall 3,
   router handlers 2).  A path choice names, for each function instance, which return path
   was taken. *)
Record paths := {
  router_err_path : bool;          (* handler returned through "response == nil" *)
  seq_first_err_path : bool;       (* sequentialMerge returned through "i == 0" error *)
  conc_early_path : nat -> bool    (* concurrent middleware of backend i returned on a complete answer *)
}.

Definition router_cancels (c : config) (_ : bool) : list nat :=
  if routed c then [tok_router] else [].
Definition merge_cancels (c : config) (_ : bool) : list nat :=
  if multi c then [tok_merge] else [].
Definition conc_cancels (c : config) (i : nat) (_ : bool) : list nat :=
  if concurrent c i then [tok_conc i] else [].

(* backends whose stack was entered: all of them except in sequential mode, where it is a
   prefix of length [reached] *)
Definition cancelled_at_return (c : config) (p : paths) (called : list nat) : list nat :=
  router_cancels c (router_err_path p) ++ merge_cancels c (seq_first_err_path p) ++
  flat_map (fun i => conc_cancels c i (conc_early_path p i)) called.

(* ---- what the outcome definitely is (no race involved) ---- *)
Definition is_late (b : beh) : bool := match b with Hang | Late => true | _ => false end.
Definition beh_eqb (a b : beh) : bool :=
  match a, b with
  | Answer, Answer | Incomplete, Incomplete | Fail, Fail | NilResp, NilResp | Hang, Hang | Late, Late | Slow, Slow | Mid, Mid => true
  | _, _ => false
  end.
Definition has (b : beh) (l : list beh) : bool := existsb (beh_eqb b) l.

(* the stack of a backend definitely hands a complete response to its caller, at once *)
Definition completes_now (att : list beh) : bool := has Answer att.

(* ... definitely hands over a response carrying the backend's data, at once *)
Definition delivers_now (att : list beh) : bool :=
  match att with
  | [b] => beh_eqb b Answer || beh_eqb b Incomplete
  | _ => has Answer att ||
         (has Incomplete att && negb (existsb is_late att) && negb (has Fail att) && negb (has NilResp att) &&
          negb (has Slow att) && negb (has Mid att))
  end.

(* ... returns only once its context is done *)
Definition returns_late (att : list beh) : bool :=
  negb (has Answer att) && negb (has Slow att) && negb (has Mid att) && existsb is_late att.

(* sequential mode: length of the prefix of backends that is certainly called *)
Fixpoint certain_prefix (bs : list (list beh)) : nat :=
  match bs with
  | [] => O
  | att :: r => S (if completes_now att then certain_prefix r else O)
  end.

Definition certainly_called (c : config) (i : nat) : bool :=
  if multi c && c_seq c then (i <? certain_prefix (c_backends c))%nat else (i <? nbackends c)%nat.

Fixpoint upto (a n : nat) : list nat := match n with O => [] | S k => a :: upto (S a) k end.

(* a sole attempt that answers at 80 % of T is in time under every deadline the pipeline derives
   for it (T behind a router, 85 % in a merge; it has no concurrent stage) and under a deadline
   of the context handed in that lies beyond 85 % of T; outside sequential mode its answer then
   certainly reaches the client - whatever the siblings do, in particular a sibling whose
   concurrent stage gives up at 75 % *)
Definition parent_after (c : config) (t : Z) : bool :=
  match c_level c with
  | LGin => true
  | _ => match c_parent c with None => true | Some p => t <? p end
  end.
Definition mid_delivers (c : config) (i : nat) : bool :=
  match nth i (c_backends c) [] with
  | [Mid] => negb (multi c && c_seq c) && parent_after c (reduced 85 100 (c_T c))
  | _ => false
  end.

(* backends whose data the client certainly receives *)
Definition must_keys (c : config) : list nat :=
  filter (fun i => certainly_called c i &&
                   (delivers_now (nth i (c_backends c) []) || mid_delivers c i)) (upto 0 (nbackends c)).

(* backends whose deadline the return of the pipeline certainly has to wait for *)
Definition must_wait (c : config) : list nat :=
  filter (fun i => certainly_called c i && returns_late (nth i (c_backends c) [])) (upto 0 (nbackends c)).

(* well-formed configurations (what the harness generates) *)
Definition wf_config (c : config) : bool :=
  (0 <? c_T c) && (1 <=? nbackends c)%nat &&
  forallb (fun att => (1 <=? List.length att)%nat && (List.length att <=? 8)%nat) (c_backends c) &&
  (negb (c_http c) || forallb (forallb (fun b => negb (beh_eqb b Incomplete || beh_eqb b NilResp))) (c_backends c)).

(* ---- the nesting as data --------------------------------------------------------------
   What defaultFactory.New / newMulti / newStack and the router handler factories wire up, as
   the list of context derivations between the context handed in and a backend call, outermost
   first.  [build] replays such a list; it is defined for ANY list of derivations, not only
   for those the factory can produce. *)
Inductive stage :=
| StT (t : nat) (now d : Z)      (* context.WithTimeout(ctx, d) executed at [now], cancel function t *)
| StC (t : nat).                 (* context.WithCancel(ctx), cancel function t *)

Fixpoint build (base : ctx) (st : list stage) : ctx :=
  match st with
  | [] => base
  | StT t now d :: r => build (with_timeout base t now d) r
  | StC t :: r => build (with_cancel base t) r
  end.

Definition stage_tok (s : stage) : nat := match s with StT t _ _ => t | StC t => t end.

(* the deadline a chain of derivations ends with: the minimum over the base's deadline and
   now + d of every WithTimeout on the way *)
Fixpoint min_dl (a : option Z) (st : list stage) : option Z :=
  match st with
  | [] => a
  | StT _ now d :: r => min_dl (Some (omin a (now + d))) r
  | StC _ :: r => min_dl a r
  end.

(* the context the outermost derivation starts from: the one handed in, except under gin,
   whose *gin.Context neither carries the request's deadline nor is ever done *)
Definition base_ctx (c : config) : ctx :=
  match c_level c with LGin => background | _ => parent_ctx c end.

Definition opt_stage (b : bool) (s : stage) : list stage := if b then [s] else [].

(* router handler, merge, part, concurrent stage, attempt - each present or not *)
Definition stages (F : factors) (c : config) (clk : clock) (i j : nat) : list stage :=
  opt_stage (routed c) (StT tok_router (clk SRouter) (c_T c)) ++
  opt_stage (multi c) (StT tok_merge (clk SMerge) (reduced (fm_num F) (fm_den F) (c_T c))) ++
  opt_stage (multi c && negb (c_seq c)) (StC (tok_part i)) ++
  opt_stage (concurrent c i) (StT (tok_conc i) (clk (SConc i)) (reduced (fc_num F) (fc_den F) (c_T c))) ++
  opt_stage (concurrent c i) (StC (tok_att i j)).

(* the deadlines that bound a call of backend i, as a plain list: the one handed in (not under
   gin), the router's, the merge's, the concurrent stage's *)
Definition frame_deadlines (F : factors) (c : config) (clk : clock) (i : nat) : list Z :=
  match base_ctx c with [] => [] | f :: _ => match dl f with Some p => [p] | None => [] end end ++
  (if routed c then [clk SRouter + c_T c] else []) ++
  (if multi c then [clk SMerge + reduced (fm_num F) (fm_den F) (c_T c)] else []) ++
  (if concurrent c i then [clk (SConc i) + reduced (fc_num F) (fc_den F) (c_T c)] else []).

Fixpoint lmin (l : list Z) : option Z :=
  match l with
  | [] => None
  | x :: r => match lmin r with None => Some x | Some y => Some (Z.min x y) end
  end.

(* the contexts of the derived frames of a chain, innermost last: what one finds walking up from
   a backend call's context to (excluding) the context handed in *)
Fixpoint derived_ctxs (base : ctx) (st : list stage) : list ctx :=
  match st with
  | [] => []
  | StT t now d :: r => with_timeout base t now d :: derived_ctxs (with_timeout base t now d) r
  | StC t :: r => with_cancel base t :: derived_ctxs (with_cancel base t) r
  end.

(* every derived frame's context is done *)
Definition chain_done (cs : list nat) (now : Z) (base : ctx) (st : list stage) : bool :=
  forallb (done cs now) (derived_ctxs base st).

(* number of contexts the pipeline derives on the way to attempt j of backend i *)
Definition depth (c : config) (i : nat) : nat :=
  ((if routed c then 1 else 0) + (if multi c then 1 else 0) + (if multi c && negb (c_seq c) then 1 else 0) +
   (if concurrent c i then 2 else 0))%nat.
