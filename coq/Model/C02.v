(* C02 - sequential merge (proxy/merging.go: sequentialMerge, sequentialRequestPart,
   incrementalMergeAccumulator, combineData; proxy/request.go: GeneratePath; proxy/http.go:
   request builder middleware; config/config.go: rewriting of {resp<i>_...} placeholders).
   Executable model only.

   The model describes the code WITH fixes/C02-seq-parts-alias.diff applied: the answers kept
   for the propagation of values (parts[]) are private copies.  Without that patch the
   accumulator merges every later answer into the data map of the first answer, which IS
   parts[0]; [seq_run_aliased] below models that unrepaired behaviour (used only for the
   refutation witness in Properties/C02.v).

   Assumed about the caller (every router adapter does this): request.Params is a non-nil
   map.  Backends are scripted: what backend i returns does not depend on the request. *)
Require Import Verif.Common.Base Verif.Common.Json.
From Coq Require Import DecimalString.
Local Open Scope string_scope.

(* ---------- responses, errors, the accumulator (same code as the parallel merge) ------- *)

Record resp := { data : option obj; complete : bool }.

Inductive err :=
| EBackend (tag : string)      (* the error value returned by a backend *)
| ENull                        (* errNullResult: a backend returned (nil, nil) *)
| EOther (text : string).      (* anything else (context errors, ...) *)

Inductive outcome :=
| OResp (r : resp)             (* a response and a nil error *)
| OErr (e : err)               (* nil and an error *)
| OEmpty.                      (* nil, nil *)

Inductive msg := MP (r : resp) | MF (e : err).

Record acc := { pending : Z; errs : list err; cur : option resp }.

Definition acc_init (n : nat) : acc := {| pending := Z.of_nat n; errs := []; cur := None |}.

(* later members win *)
Definition overlay (d db : obj) : obj := fold_left (fun m kv => set (fst kv) (snd kv) m) db d.

(* combineData(2, [a; b]) *)
Definition combine2 (a b : resp) : resp :=
  let '(ic, ret) := match data a with
                    | None => (false, None)
                    | Some da => (complete a, Some da)
                    end in
  match data b with
  | None => {| data := Some (match ret with Some d => d | None => [] end); complete := false |}
  | Some db =>
      let ic' := ic && complete b in
      match ret with
      | None => {| data := Some db; complete := ic' |}
      | Some d => {| data := Some (overlay d db); complete := ic' |}
      end
  end.

Definition acc_merge (a : acc) (m : msg) : acc :=
  match m with
  | MF e => {| pending := pending a - 1; errs := (errs a ++ [e])%list;
               cur := option_map (fun r => {| data := data r; complete := false |}) (cur a) |}
  | MP r => {| pending := pending a - 1; errs := errs a;
               cur := Some (match cur a with None => r | Some d => combine2 d r end) |}
  end.

Definition is_nil {A} (l : list A) : bool := match l with [] => true | _ => false end.

Definition acc_result (a : acc) : option resp * list err :=
  match cur a with
  | None => (None, errs a)
  | Some r => (Some (if negb (pending a =? 0)%Z || negb (is_nil (errs a))
                     then {| data := data r; complete := false |} else r), errs a)
  end.

(* the error value handed to the caller *)
Inductive rerr :=
| RNone
| RRaw (e : err)               (* the first backend's own error, unwrapped *)
| RMerge (l : list err).       (* mergeError *)

Definition result := (option resp * rerr)%type.

Definition finish (a : acc) : result :=
  let '(r, es) := acc_result a in (r, match es with [] => RNone | _ => RMerge es end).

(* ---------- url patterns: template view and text ---------------------------------------- *)

Inductive seg :=
| Lit (s : string)
| Hole (j : nat) (p : list string)   (* {{.Resp<j>_<p1.p2...>}} *)
| PHole (k : string).                (* {{.<k>}}: an endpoint parameter *)
Definition tmpl := list seg.

Definition dec (n : nat) : string := NilEmpty.string_of_uint (Nat.to_uint n).

Fixpoint join (sep : string) (l : list string) : string :=
  match l with
  | [] => ""
  | x :: r => match r with [] => x | _ => x ++ sep ++ join sep r end
  end.

Definition dest_key (j : nat) (p : list string) : string :=
  "Resp" ++ dec j ++ "_" ++ join "." p.

Definition ph (k : string) : string := "{{." ++ k ++ "}}".

Definition render_seg (s : seg) : string :=
  match s with
  | Lit s => s
  | Hole j p => ph (dest_key j p)
  | PHole k => ph k
  end.

Definition cat (l : list string) : string := fold_right append "" l.

Definition render (t : tmpl) : string := cat (map render_seg t).

(* one entry of sequentialReplacements[i] *)
Record repl := { r_idx : nat; r_dest : string; r_src : list string }.

(* reUrlPatterns.FindAllStringSubmatch over the pattern: one entry per placeholder
   occurrence, in order (tied to the regular expression by the correspondence run) *)
Definition table_of (t : tmpl) : list repl :=
  flat_map (fun s => match s with
                     | Hole j p => [{| r_idx := j; r_dest := dest_key j p; r_src := p |}]
                     | _ => []
                     end) t.

Record bcfg := { b_pat : string; b_tab : list repl }.
Definition bcfg_of (t : tmpl) : bcfg := {| b_pat := render t; b_tab := table_of t |}.

(* ---------- Request.GeneratePath: textual replacement ------------------------------------ *)

Fixpoint strip_prefix (p s : string) : option string :=
  match p with
  | EmptyString => Some s
  | String a p' => match s with
                   | String b s' => if Ascii.eqb a b then strip_prefix p' s' else None
                   | EmptyString => None
                   end
  end.

(* bytes.ReplaceAll for a non-empty old: leftmost, non-overlapping occurrences *)
Fixpoint replace_fuel (fuel : nat) (old new s : string) : string :=
  match fuel with
  | O => s
  | S f =>
      match strip_prefix old s with
      | Some rest => new ++ replace_fuel f old new rest
      | None => match s with
                | EmptyString => EmptyString
                | String c s' => String c (replace_fuel f old new s')
                end
      end
  end.

(* only ever called with old = "{{." ++ k ++ "}}", which is not empty *)
Definition replace_all (old new s : string) : string :=
  replace_fuel (S (String.length s)) old new s.

Definition params := list (string * string).

(* map iteration order = list order *)
Definition generate_path (pat : string) (ps : params) : string :=
  fold_left (fun buf kv => replace_all (ph (fst kv)) (snd kv) buf) ps pat.

(* ---------- values: lookup with the `break` quirk, formatting ---------------------------- *)

(* r.source = strings.Split(<path>, "."), never empty.  All but the last segment are
   walked through objects; when a segment is missing or is not an object the loop breaks
   and the LAST segment is looked up in the object reached so far. *)
Fixpoint lookup_src (d : obj) (p : list string) : option json :=
  match p with
  | [] => None
  | k :: r =>
      match r with
      | [] => lookup k d
      | _ => match lookup k d with
             | Some (JObj m) => lookup_src m r
             | _ => lookup (last r k) d
             end
      end
  end.

(* fmt "%v" (maps print with sorted keys: the emitter sorts object members) *)
Fixpoint fmt_v (v : json) : string :=
  match v with
  | JNull => "<nil>"
  | JBool b => if b then "true" else "false"
  | JNum l => l
  | JStr s => s
  | JArr l => "[" ++ (fix go (l : list json) : string :=
                        match l with
                        | [] => ""
                        | x :: r => match r with [] => fmt_v x | _ => fmt_v x ++ " " ++ go r end
                        end) l ++ "]"
  | JObj m => "map[" ++ (fix go (m : list (string * json)) : string :=
                           match m with
                           | [] => ""
                           | (k, x) :: r => match r with
                                            | [] => k ++ ":" ++ fmt_v x
                                            | _ => k ++ ":" ++ fmt_v x ++ " " ++ go r
                                            end
                           end) m ++ "]"
  | JOther _ => "?"
  end.

(* the type switch of the loop; numbers are json.Number (default branch: literal text) *)
Definition param_of (v : json) : string :=
  match v with
  | JArr l => join "," (map fmt_v l)
  | _ => fmt_v v
  end.

Definition data_or_empty (r : resp) : obj := match data r with Some d => d | None => [] end.

(* one replacement for backend i; st = (request.Params, sequentialMergeRegistry) *)
Definition apply_repl (i : nat) (parts : list (option resp)) (st : params * params) (r : repl)
  : params * params :=
  let '(ps, reg) := st in
  if (i <=? r_idx r)%nat then st else
  match nth_error parts (r_idx r) with
  | Some (Some part) =>
      let compute :=
        match lookup_src (data_or_empty part) (r_src r) with
        | None => st
        | Some v => let p := param_of v in (set (r_dest r) p ps, set (r_dest r) p reg)
        end in
      match lookup (r_dest r) reg with
      | Some found => if str_eqb found "" then compute else (set (r_dest r) found ps, reg)
      | None => compute
      end
  | _ => st
  end.

(* ---------- the loop ------------------------------------------------------------------------ *)

Inductive event := ECall (i : nat) (path : string) | ERet (i : nat).

Section Loop.
  (* how an answer is kept in parts[] given the answers merged after it: the repaired code
     keeps a private copy; see seq_run_aliased for the unrepaired variant *)
  Variable aliased : bool.

  (* unrepaired: the accumulator's data map is the map of the first answer with non-nil
     data, and every later answer is written into it *)
  Definition pollute (parts : list (option resp)) (r : resp) : list (option resp) :=
    match data r with
    | None => parts
    | Some db =>
        let upd (p : resp) (d : obj) := Some {| data := Some (overlay d db); complete := complete p |} in
        match parts with
        | Some p0 :: rest =>
            match data p0 with
            | Some d => upd p0 d :: rest
            | None =>
                (* first answer had nil data: the second answer's map became the base *)
                match rest with
                | Some p1 :: rest' =>
                    match data p1 with Some d1 => Some p0 :: upd p1 d1 :: rest' | None => parts end
                | _ => parts
                end
            end
        | _ => parts
        end
    end.

  Fixpoint seq_loop (bes : list (bcfg * outcome)) (i : nat) (parts : list (option resp))
           (ps reg : params) (a : acc) : list event * result :=
    match bes with
    | [] => ([], finish a)
    | (b, o) :: rest =>
        let '(ps', reg') :=
          if (i =? 0)%nat then (ps, reg) else fold_left (apply_repl i parts) (b_tab b) (ps, reg) in
        let evs := [ECall i (generate_path (b_pat b) ps'); ERet i] in
        match o with
        | OResp r =>
            let a' := acc_merge a (MP r) in
            if complete r then
              let parts' := ((if aliased then pollute parts r else parts) ++ [Some r])%list in
              let '(tr, res) := seq_loop rest (S i) parts' ps' reg' a' in
              ((evs ++ tr)%list, res)
            else (evs, finish a')
        | OErr e =>
            if (i =? 0)%nat then (evs, (None, RRaw e)) else (evs, finish (acc_merge a (MF e)))
        | OEmpty =>
            if (i =? 0)%nat then (evs, (None, RRaw ENull)) else (evs, finish (acc_merge a (MF ENull)))
        end
    end.
End Loop.

Definition seq_run_cfg (bes : list (bcfg * outcome)) (ps0 : params) : list event * result :=
  seq_loop false bes 0 [] ps0 [] (acc_init (List.length bes)).

(* the model of one endpoint call: templates of the N backends, their scripted outcomes,
   the endpoint parameters *)
Definition seq_run (ts : list tmpl) (outs : list outcome) (ps0 : params) : list event * result :=
  seq_run_cfg (combine (map bcfg_of ts) outs) ps0.

Definition seq_run_aliased (ts : list tmpl) (outs : list outcome) (ps0 : params) : list event * result :=
  let bes := combine (map bcfg_of ts) outs in
  seq_loop true bes 0 [] ps0 [] (acc_init (List.length bes)).

(* ---------- a backend behind the real HTTP proxy (proxy/http.go NewHTTPProxyDetailed,
   transport/http/client/status.go): how an HTTP reply becomes the outcome of the step ------ *)

Inductive hmode :=
| HDefault                     (* DefaultHTTPStatusHandler *)
| HErrorCode                   (* return_error_code: true *)
| HDetails (name : string).    (* return_error_details: "<name>" (not empty) *)

(* h_decoded: what the backend's decoder makes of the body (None: it fails; the decoder
   itself is outside C02) *)
Record hreply := { h_code : Z; h_body : string; h_enc : string; h_decoded : option obj }.

Definition ok_status (c : Z) : bool := (c =? 200)%Z || (c =? 201)%Z.

(* json tags of HTTPResponseError: http_body and http_body_encoding are omitempty *)
Definition error_object (code : Z) (body enc : string) : json :=
  JObj ([("http_status_code", JNum (dec (Z.to_nat code)))]
        ++ (if str_eqb body "" then [] else [("http_body", JStr body)])
        ++ (if str_eqb enc "" then [] else [("http_body_encoding", JStr enc)]))%list.

(* 200/201: the decoded body, complete.  Anything else: the plain error, the error carrying
   the code (its text is the body), or - with details - a response that holds only
   error_<name> and is NOT complete: for the sequential merger an incomplete answer *)
Definition http_outcome (m : hmode) (r : hreply) : outcome :=
  if ok_status (h_code r) then
    match h_decoded r with
    | Some d => OResp {| data := Some d; complete := true |}
    | None => OErr (EOther "decode")
    end
  else
    match m with
    | HDefault => OErr (EOther "invalid status code")
    | HErrorCode => OErr (EOther (h_body r))
    | HDetails n => OResp {| data := Some [("error_" ++ n, error_object (h_code r) (h_body r) (h_enc r))];
                             complete := false |}
    end.

Definition seq_run_http (ts : list tmpl) (hs : list (hmode * hreply)) (ps0 : params) : list event * result :=
  seq_run ts (map (fun x => http_outcome (fst x) (snd x)) hs) ps0.

(* ---------- sequential_propagated_params: entries added to the replacement table of every
   backend but the first (rePropagatedParams over the configured strings, here already as
   (index, path) pairs; entries whose index is not a backend are dropped at configuration
   time).  They only fill request.Params; the extended loop also reports the parameter
   table each backend is called with. ---------- *)

Definition repl_of (jp : nat * list string) : repl :=
  {| r_idx := fst jp; r_dest := dest_key (fst jp) (snd jp); r_src := snd jp |}.

Fixpoint seq_loop_x (extra : list repl) (bes : list (bcfg * outcome)) (i : nat) (parts : list (option resp))
         (ps reg : params) (a : acc) : list event * list (nat * params) * result :=
  match bes with
  | [] => ([], [], finish a)
  | (b, o) :: rest =>
      let '(ps', reg') :=
        if (i =? 0)%nat then (ps, reg)
        else fold_left (apply_repl i parts) (b_tab b ++ extra)%list (ps, reg) in
      let evs := [ECall i (generate_path (b_pat b) ps'); ERet i] in
      let pv := [(i, ps')] in
      match o with
      | OResp r =>
          let a' := acc_merge a (MP r) in
          if complete r then
            let '(tr, pr, res) := seq_loop_x extra rest (S i) (parts ++ [Some r])%list ps' reg' a' in
            ((evs ++ tr)%list, (pv ++ pr)%list, res)
          else (evs, pv, finish a')
      | OErr e =>
          if (i =? 0)%nat then (evs, pv, (None, RRaw e)) else (evs, pv, finish (acc_merge a (MF e)))
      | OEmpty =>
          if (i =? 0)%nat then (evs, pv, (None, RRaw ENull)) else (evs, pv, finish (acc_merge a (MF ENull)))
      end
  end.

Definition seq_run_x (ts : list tmpl) (props : list (nat * list string)) (outs : list outcome) (ps0 : params)
  : list event * list (nat * params) * result :=
  let bes := combine (map bcfg_of ts) outs in
  let extra := map repl_of (filter (fun jp => (fst jp <? List.length ts)%nat) props) in
  seq_loop_x extra bes 0 [] ps0 [] (acc_init (List.length bes)).
