(* C01 - parallel merge (proxy/merging.go): combineData, incrementalMergeAccumulator
   (Merge / Result), newMergeError, and the messages requestPart delivers.
   Executable model only; generic in the type V of the field values (the merge never
   looks inside a value).  The goroutine/channel layer is Common/Fanout.v. *)
Require Import Verif.Common.Base.

(* the errors that can reach the accumulator, as far as the property distinguishes them *)
Inductive ekind :=
| EBackend (tag : string)   (* the error a backend returned (tagged by the harness) *)
| ENull                     (* errNullResult: the backend returned (nil, nil) *)
| ECancelled                (* context.Canceled *)
| EDeadline                 (* context.DeadlineExceeded *)
| EOther (s : string).      (* anything else (never produced by the model's inputs) *)

Definition ekind_eqb (a b : ekind) : bool :=
  match a, b with
  | EBackend x, EBackend y => str_eqb x y
  | ENull, ENull | ECancelled, ECancelled | EDeadline, EDeadline => true
  | EOther x, EOther y => str_eqb x y
  | _, _ => false
  end.

Definition is_nil {A} (l : list A) : bool := match l with [] => true | _ => false end.

Section Model.
  Variable V : Type.

  (* map[string]interface{}: association list, list order = one iteration order *)
  Definition dmap := list (string * V).

  (* *Response as far as the merge reads it: Data (nil or a map) and IsComplete *)
  Record resp := { data : option dmap; complete : bool }.

  (* for k, v := range src { dst[k] = v } *)
  Definition merge_into (dst src : dmap) : dmap :=
    fold_left (fun m kv => set (fst kv) (snd kv) m) src dst.

  (* the loop of combineData; a part is None for a nil *Response.  ic = isComplete,
     ret = retResponse.Data (None while retResponse == nil) *)
  Fixpoint combine_loop (parts : list (option resp)) (ic : bool) (ret : option dmap)
    : bool * option dmap :=
    match parts with
    | [] => (ic, ret)
    | p :: rest =>
        match p with
        | None => combine_loop rest false ret
        | Some r =>
            match data r with
            | None => combine_loop rest false ret
            | Some d =>
                let ic' := ic && complete r in
                match ret with
                | None => combine_loop rest ic' (Some d)
                | Some a => combine_loop rest ic' (Some (merge_into a d))
                end
            end
        end
    end.

  (* combineData(total, parts): never returns nil Data *)
  Definition combine_data (total : Z) (parts : list (option resp)) : resp :=
    let '(ic, ret) := combine_loop parts (Z.of_nat (List.length parts) =? total)%Z None in
    match ret with
    | None => {| data := Some []; complete := ic |}
    | Some d => {| data := Some d; complete := ic |}
    end.

  (* incrementalMergeAccumulator *)
  Record acc := { pending : Z; cur : option resp; errs : list ekind }.

  Definition acc_init (total : Z) : acc := {| pending := total; cur := None; errs := [] |}.

  (* Merge(res, err) *)
  Definition acc_call (a : acc) (res : option resp) (err : option ekind) : acc :=
    match err with
    | Some e =>
        {| pending := pending a - 1;
           (* i.data.IsComplete = false (through the pointer) *)
           cur := match cur a with
                  | Some r => Some {| data := data r; complete := false |}
                  | None => None end;
           errs := errs a ++ [e] |}
    | None =>
        match res with
        | None => {| pending := pending a - 1; cur := cur a; errs := errs a ++ [ENull] |}
        | Some r =>
            {| pending := pending a - 1;
               cur := match cur a with
                      | None => Some r            (* i.data = res, Data possibly nil *)
                      | Some d => Some (combine_data 2 [Some d; Some r])
                      end;
               errs := errs a |}
        end
    end.

  (* newMergeError: nil for no error *)
  Definition merge_error (es : list ekind) : option (list ekind) :=
    match es with [] => None | _ => Some es end.

  (* what a merging proxy returns: (response or nil, error or nil with its Errors()) *)
  Definition result := (option resp * option (list ekind))%type.

  (* Result() *)
  Definition acc_result (a : acc) : result :=
    match cur a with
    | None => (None, merge_error (errs a))
    | Some r =>
        (Some (if negb (pending a =? 0)%Z || negb (is_nil (errs a))
               then {| data := data r; complete := false |} else r),
         merge_error (errs a))
    end.

  (* the message a requestPart goroutine delivers: on parts (MP) or on failed (MF) *)
  Inductive msg := MP (r : resp) | MF (e : ekind).

  Definition acc_merge (a : acc) (m : msg) : acc :=
    match m with
    | MP r => acc_call a (Some r) None     (* case response := <-parts *)
    | MF e => acc_call a None (Some e)     (* case err := <-failed *)
    end.

  (* parallelMerge for n backends whose messages are dequeued in the order [arrivals] *)
  Definition merge_run (n : nat) (arrivals : list msg) : result :=
    acc_result (fold_left acc_merge arrivals (acc_init (Z.of_nat n))).

  (* what a backend did, in the words of the property *)
  Inductive outcome :=
  | OPayload (c : bool) (d : option dmap)  (* answered: complete/incomplete, Data or null *)
  | OErr (e : ekind)                       (* failed *)
  | OEmpty                                 (* returned (nil, nil) *)
  | OCancelled (deadline : bool)           (* silent until its context was cancelled *)
  (* failed, but handed a response over together with its error (the concurrent middleware
     and nested merges do that): requestPart reports the error only *)
  | OErrWith (e : ekind) (c : bool) (d : option dmap).

  Definition ctx_err (deadline : bool) : ekind := if deadline then EDeadline else ECancelled.

  (* requestPart: exactly one message per backend *)
  Definition msg_of (o : outcome) : msg :=
    match o with
    | OPayload c d => MP {| data := d; complete := c |}
    | OErr e => MF e
    | OEmpty => MF ENull
    | OCancelled dl => MF (ctx_err dl)
    | OErrWith e _ _ => MF e
    end.

  (* ---- requestPart, one level below msg_of: from what the backend proxy returned ---- *)
  (* (in, err) as returned by next(localCtx, request) *)
  Definition backend_return := (option resp * option ekind)%type.

  (* requestPart.  ctx_first = Some ce: the final select took <-ctx.Done() (possible only
     once the merge context is done; ce is ctx.Err()); None: it took out <- in. *)
  Definition request_part (ret : backend_return) (ctx_first : option ekind) : msg :=
    match snd ret with
    | Some e => MF e                           (* err != nil: failed <- err (in is dropped) *)
    | None =>
        match fst ret with
        | None => MF ENull                     (* in == nil: failed <- errNullResult *)
        | Some r => match ctx_first with
                    | None => MP r             (* case out <- in *)
                    | Some ce => MF ce         (* case <-ctx.Done(): failed <- ctx.Err() *)
                    end
        end
    end.

  (* what a backend with a given outcome returns *)
  Definition return_of (o : outcome) : backend_return :=
    match o with
    | OPayload c d => (Some {| data := d; complete := c |}, None)
    | OErr e => (None, Some e)
    | OEmpty => (None, None)
    | OCancelled dl => (None, Some (ctx_err dl))   (* returns ctx.Err() once its context is done *)
    | OErrWith e c d => (Some {| data := d; complete := c |}, Some e)
    end.

  (* the outcome as the merging goroutine sees it: a payload that lost the select against
     the cancellation counts as a cancelled backend *)
  Definition effective (o : outcome) (ctx_first : option ekind) : outcome :=
    match o, ctx_first with
    | OPayload _ _, Some ce => OErr ce
    | _, _ => o
    end.
End Model.

Arguments data {V}.
Arguments complete {V}.
Arguments Build_resp {V}.
Arguments merge_into {V}.
Arguments combine_loop {V}.
Arguments combine_data {V}.
Arguments pending {V}.
Arguments cur {V}.
Arguments errs {V}.
Arguments Build_acc {V}.
Arguments acc_init {V}.
Arguments acc_call {V}.
Arguments acc_result {V}.
Arguments MP {V}.
Arguments MF {V}.
Arguments acc_merge {V}.
Arguments merge_run {V}.
Arguments OPayload {V}.
Arguments OErr {V}.
Arguments OEmpty {V}.
Arguments OCancelled {V}.
Arguments OErrWith {V}.
Arguments msg_of {V}.
Arguments request_part {V}.
Arguments return_of {V}.
Arguments effective {V}.
