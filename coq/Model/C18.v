(* C18 - static data middleware (proxy/static.go), modifier plugin middleware
   (proxy/plugin.go, proxy/plugin/modifier.go) and their position in the stack built by
   proxy.DefaultFactory (proxy/factory.go).  Executable model only, no proofs. *)
Require Import Verif.Common.Base Verif.Common.Json.

(* ---------- what a proxy call yields ---------- *)
Inductive level := LEndpoint | LBackend.

(* error values, by identity: none / the inner (stub) proxy's error / the error returned by
   the modifier configured at position pos of the "name" list of that level / anything else *)
Inductive err := ENone | EInner (msg : string) | EMod (lv : level) (pos : nat) | EOther (msg : string).

(* *proxy.Response projected on what C18 speaks of: Data (None = nil map) and IsComplete *)
Record resp := { r_data : option obj; r_complete : bool }.

(* (resp, err) of a call, resp None = nil pointer; OPanic = the call panicked *)
Inductive outcome := ORet (r : option resp) (e : err) | OPanic.

(* the call log: a modifier (by level and configured position) was invoked / the innermost
   proxy (the backend) was contacted *)
Inductive event := EvReq (lv : level) (pos : nat) | EvBackend | EvResp (lv : level) (pos : nat).

(* a proxy call in a given situation: the events it causes when it is called, and its result *)
Definition comp := (list event * outcome)%type.

Definition is_err (e : err) : bool := match e with ENone => false | _ => true end.

(* ---------- static middleware ---------- *)

(* the value found under "strategy" *)
Inductive sval := VAbsent | VStr (s : string) | VOther.

(* shape of the endpoint's extra_config as getStaticMiddlewareCfg walks it *)
Inductive sshape :=
| ShNoNamespace                 (* no proxy namespace *)
| ShNamespaceNotMap             (* namespace value is not a map *)
| ShNoStatic                    (* no "static" key *)
| ShStaticNotMap                (* "static" is not a map *)
| ShDataNotMap (st : sval)      (* "data" missing or not a map *)
| ShOk (data : obj) (st : sval).

(* getStaticMiddlewareCfg: (data, strategy name); a strategy that is not a string is "always" *)
Definition static_cfg (s : sshape) : option (obj * string) :=
  match s with
  | ShOk d st => Some (d, match st with VStr n => n | _ => "always" end)
  | _ => None
  end.

Definition match_always (r : option resp) (e : err) : bool := true.
Definition match_success (r : option resp) (e : err) : bool := negb (is_err e).
Definition match_errored (r : option resp) (e : err) : bool := is_err e.
Definition match_complete (r : option resp) (e : err) : bool :=
  negb (is_err e) && match r with Some x => r_complete x | None => false end.
Definition match_incomplete (r : option resp) (e : err) : bool :=
  match r with None => true | Some x => negb (r_complete x) end.

(* the switch of getStaticMiddlewareCfg: unknown names keep the initial staticAlwaysMatch *)
Definition strategy_match (name : string) : option resp -> err -> bool :=
  if str_eqb name "always" then match_always
  else if str_eqb name "success" then match_success
  else if str_eqb name "errored" then match_errored
  else if str_eqb name "complete" then match_complete
  else if str_eqb name "incomplete" then match_incomplete
  else match_always.

(* for k, v := range cfg.Data { result.Data[k] = v }  (keys of a Go map are distinct, the
   iteration order is immaterial; the list order below is one of them) *)
Definition overlay (d base : obj) : obj :=
  (d ++ filter (fun kv => negb (mem (fst kv) d)) base)%list.

Definition data_of (r : option resp) : obj :=
  match r with
  | Some x => match r_data x with Some m => m | None => [] end
  | None => []
  end.
Definition complete_of (r : option resp) : bool :=
  match r with Some x => r_complete x | None => false end.

Definition static_apply (cfg : option (obj * string)) (r : option resp) (e : err) : outcome :=
  match cfg with
  | None => ORet r e                                   (* emptyMiddlewareFallback *)
  | Some (d, name) =>
      if strategy_match name r e
      then ORet (Some {| r_data := Some (overlay d (data_of r)); r_complete := complete_of r |}) e
      else ORet r e
  end.

Definition static_mw (cfg : option (obj * string)) (inner : comp) : comp :=
  let '(lg, o) := inner in
  match o with
  | OPanic => (lg, OPanic)
  | ORet r e => (lg, static_apply cfg r e)
  end.

(* ---------- modifier plugins ---------- *)

(* how a name is registered (plugin.RegisterModifier); not in the list = not registered *)
Inductive reg := RReq | RResp | RBoth.
Definition registry := list (string * reg).

(* what the factory / the modifier registered for one configured entry does *)
Inductive beh :=
| BOk           (* returns its input wrapper *)
| BModify       (* returns a new wrapper: its input with its own tag appended to the trace *)
| BStrip        (* returns a new wrapper without any header / param (nil maps): empty trace *)
| BFail         (* returns an error *)
| BIgnored      (* returns a value that is no wrapper (skipped by the type assertion) *)
| BNilFactory.  (* the factory returns a nil modifier: not added *)

Definition is_fail (b : beh) : bool := match b with BFail => true | _ => false end.

(* an element of the "name" array *)
Inductive centry := CStr (n : string) | CNotString.

(* shape of the plugin namespace of an endpoint's / backend's extra_config *)
Inductive pshape :=
| PNoNamespace | PNamespaceNotMap | PNoName | PNameNotList
| PNames (l : list (centry * beh)).

(* modifiers as (configured position, behaviour) in the order they will run *)
Definition mods := list (nat * beh).

(* the lookup loop of newPluginMiddleware: request namespace first (then `continue`, also
   when the factory returned nil), response namespace otherwise; unknown names and
   non-strings are skipped *)
Fixpoint resolve (R : registry) (pos : nat) (l : list (centry * beh)) : mods * mods :=
  match l with
  | [] => ([], [])
  | (c, b) :: rest =>
      let '(rq, rs) := resolve R (S pos) rest in
      match c with
      | CNotString => (rq, rs)
      | CStr n =>
          match lookup n R with
          | Some RReq | Some RBoth =>
              match b with BNilFactory => (rq, rs) | _ => ((pos, b) :: rq, rs) end
          | Some RResp =>
              match b with BNilFactory => (rq, rs) | _ => (rq, (pos, b) :: rs) end
          | None => (rq, rs)
          end
      end
  end.

(* executeRequestModifiers / executeResponseModifiers: the loop; (positions invoked,
   position of the modifier whose error ended the loop) *)
Fixpoint run_mods (l : mods) : list nat * option nat :=
  match l with
  | [] => ([], None)
  | (p, b) :: rest =>
      if is_fail b then ([p], Some p)
      else let '(c, f) := run_mods rest in (p :: c, f)
  end.

(* the proxy returned by the middleware (the three closures of newPluginMiddleware agree
   with this one function: with no request modifiers the first loop is empty, with no
   response modifiers next's result is returned as it is).  executeResponseModifiers
   starts with `if r == nil { return nil, nil }`: a nil response without error is handed
   through and no response modifier is invoked. *)
Definition plugin_run (lv : level) (rq rs : mods) (inner : comp) : comp :=
  let '(c1, f1) := run_mods rq in
  let l1 := map (EvReq lv) c1 in
  match f1 with
  | Some p => (l1, ORet None (EMod lv p))
  | None =>
      let '(li, oi) := inner in
      match oi with
      | OPanic => ((l1 ++ li)%list, OPanic)
      | ORet r e =>
          if is_err e then ((l1 ++ li)%list, ORet r e)
          else match rs with
               | [] => ((l1 ++ li)%list, ORet r e)
               | _ :: _ =>
                   match r with
                   | None => ((l1 ++ li)%list, ORet None ENone)   (* nothing to modify *)
                   | Some x =>
                       let '(c2, f2) := run_mods rs in
                       let l2 := map (EvResp lv) c2 in
                       match f2 with
                       | Some p => ((l1 ++ li ++ l2)%list, ORet None (EMod lv p))
                       | None => ((l1 ++ li ++ l2)%list, ORet (Some x) ENone)
                       end
                   end
               end
      end
  end.

Definition plugin_mw (lv : level) (R : registry) (s : pshape) (inner : comp) : comp :=
  match s with
  | PNames l =>
      let '(rq, rs) := resolve R 0 l in
      match rq, rs with
      | [], [] => inner                                (* emptyMiddlewareFallback *)
      | _, _ => plugin_run lv rq rs inner
      end
  | _ => inner
  end.

(* ---------- the stack of defaultFactory.New / newStack for one backend ---------- *)

(* the innermost proxy (backend factory's product) with a scripted result *)
Definition backend_call (r : option resp) (e : err) : comp := ([EvBackend], ORet r e).

(* New: p = Static(Plugin(newStack)); newStack: BackendPlugin wraps the backend proxy
   directly; the stages in between hand (response, error) through unchanged *)
Definition endpoint_stack (ss : sshape) (R : registry) (pe pb : pshape)
           (r : option resp) (e : err) : comp :=
  static_mw (static_cfg ss)
    (plugin_mw LEndpoint R pe (plugin_mw LBackend R pb (backend_call r e))).

(* ---------- values handed from modifier to modifier ---------- *)

(* The request / response value is observed through a trace: the list of tags of the
   modifiers that changed it so far (a header on the request, a metadata header on the
   response).  A BModify modifier returns a new wrapper carrying its input's trace plus its
   own tag; BStrip returns a new wrapper whose Headers()/Params() are nil (the copy-back
   `r.Headers = tmp.Headers()` is unconditional: the stripped value reaches the next stage);
   BOk returns its input; BIgnored returns something that is no wrapper, which the
   loop skips (`continue`: tmp keeps the previous value); BFail ends the loop. *)
Definition tag := (level * nat)%type.
Definition trace := list tag.

Inductive vevent :=
| VReq (lv : level) (pos : nat) (seen : trace)     (* request modifier invoked with this value *)
| VBackend (seen : trace)                          (* the backend received this request value *)
| VResp (lv : level) (pos : nat) (seen : trace).   (* response modifier invoked with this value *)

(* the caller gets a response carrying this trace and no error / anything else *)
Inductive vresult := VNone | VRet (t : trace).
Definition vproxy := trace -> (list vevent * vresult)%type.

(* the loop of executeRequestModifiers / executeResponseModifiers on values: what each
   invoked modifier saw, and the value left in tmp (None: a modifier failed) *)
Fixpoint thread (lv : level) (l : mods) (v : trace) : list (nat * trace) * option trace :=
  match l with
  | [] => ([], Some v)
  | (p, b) :: rest =>
      match b with
      | BFail => ([(p, v)], None)
      | BModify => let '(s, o) := thread lv rest (v ++ [(lv, p)])%list in ((p, v) :: s, o)
      | BStrip => let '(s, o) := thread lv rest [] in ((p, v) :: s, o)
      | _ => let '(s, o) := thread lv rest v in ((p, v) :: s, o)
      end
  end.

Definition vreq (lv : level) (s : list (nat * trace)) : list vevent := map (fun x => VReq lv (fst x) (snd x)) s.
Definition vresp (lv : level) (s : list (nat * trace)) : list vevent := map (fun x => VResp lv (fst x) (snd x)) s.

(* r.Headers = tmp.Headers() ... then next(ctx, r); resp -> wrapper -> loop -> r.Metadata.Headers *)
Definition plugin_vrun (lv : level) (rq rs : mods) (inner : vproxy) : vproxy := fun v =>
  let '(s1, o1) := thread lv rq v in
  match o1 with
  | None => (vreq lv s1, VNone)
  | Some v' =>
      let '(li, ri) := inner v' in
      match ri with
      | VNone => ((vreq lv s1 ++ li)%list, VNone)
      | VRet t =>
          let '(s2, o2) := thread lv rs t in
          ((vreq lv s1 ++ li ++ vresp lv s2)%list, match o2 with Some t' => VRet t' | None => VNone end)
      end
  end.

Definition plugin_vmw (lv : level) (R : registry) (s : pshape) (inner : vproxy) : vproxy :=
  match s with
  | PNames l => let '(rq, rs) := resolve R 0 l in plugin_vrun lv rq rs inner
  | _ => inner
  end.

(* the backend: records the request value; answers with a response carrying t0, or fails *)
Definition vbackend (t0 : option trace) : vproxy := fun v =>
  ([VBackend v], match t0 with Some t => VRet t | None => VNone end).

(* endpoint modifiers around backend modifiers around the backend (the static middleware
   and the stages in between do not touch the two headers) *)
Definition vstack (R : registry) (pe pb : pshape) (t0 : option trace) : vproxy :=
  plugin_vmw LEndpoint R pe (plugin_vmw LBackend R pb (vbackend t0)).

(* defaultFactory.New wraps the stack with the plugin and static middlewares whatever the
   endpoint's output encoding is (json, no-op, ...): the encoding is no argument of the stack *)
Definition factory_stack (output_encoding : string) := endpoint_stack.
Definition factory_vstack (output_encoding : string) := vstack.
