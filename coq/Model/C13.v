(* C13 - payloads pass through the gateway: decoders (encoding/encoding.go), default and
   no-op response parsers (proxy/http_response.go), the context-bound body reader
   (proxy/proxy.go NewReadCloserWrapper), the concurrent middleware's cancellations
   (proxy/concurrent.go) and the json / json-collection / string / no-op renders of the gin
   and mux routers (router/gin/render.go, router/mux/render.go).  Executable model only.

   Documents are Json.v trees whose numbers carry the literal text (all decoders call
   UseNumber, the renders marshal json.Number verbatim).  The text <-> tree step itself
   (encoding/json tokenising and printing) is NOT modelled: it is validated by the harness. *)
Require Import Verif.Common.Base Verif.Common.Json Verif.Common.Ctx.
Close Scope Z_scope.
Open Scope string_scope.
Open Scope list_scope.

Inductive router := Gin | Mux.
Inductive benc := EJson | ESafe | EString.                   (* backend "encoding" *)
Inductive oenc := OJson | OJsonCollection | OString.         (* endpoint "output_encoding" *)

(* what the backend sent: a JSON document (as a tree), any text (string encoding), or bytes
   that are not a JSON document *)
Inductive bbody := BDoc (v : json) | BText (s : string) | BBad.

(* Response.Data: a nil map (json decoder fed the literal null) or a map *)
Inductive pdata := DNil | DMap (m : obj).

(* ---- decoders: encoding.go:46-95.  None = the decoder returns an error ---- *)
Definition decode (e : benc) (coll : bool) (b : bbody) : option pdata :=
  match e, b with
  | EString, BText s => Some (DMap [("content", JStr s)])            (* StringDecoder: io.ReadAll *)
  | EString, BDoc _ => Some (DMap [("content", JOther "text of the document")])  (* not generated *)
  | EString, BBad => Some (DMap [("content", JOther "text")])
  | _, BBad => None
  | _, BText _ => None                                               (* not generated *)
  | EJson, BDoc v =>
      if coll then
        match v with                                                 (* JSONCollectionDecoder: Decode(&[]interface{}) *)
        | JArr l => Some (DMap [("collection", JArr l)])
        | JNull => Some (DMap [("collection", JNull)])               (* nil slice under the key *)
        | _ => None
        end
      else
        match v with                                                 (* JSONDecoder: Decode(&map) *)
        | JObj m => Some (DMap m)
        | JNull => Some DNil                                         (* the map stays nil *)
        | _ => None
        end
  | ESafe, BDoc v =>                                                 (* SafeJSONDecoder: type switch *)
      match v with
      | JObj m => Some (DMap m)
      | JArr l => Some (DMap [("collection", JArr l)])
      | _ => Some (DMap [("content", v)])
      end
  end.

(* ---- the pipeline between parser and render when nothing is configured ----
   entityFormatter.Format with Target "", empty allow/deny lists, no mapping, Group "";
   concurrent middleware (first complete answer of identical attempts), plugin and static
   middlewares without configuration.  Written with the empty lists so that it computes. *)
Definition data_len (d : pdata) : nat := match d with DNil => 0 | DMap m => List.length m end.
Definition deny_top (bl : list string) (m : obj) : obj := fold_left (fun acc k => remove k acc) bl m.
Definition apply_mapping (mp : list (string * string)) (m : obj) : obj :=
  fold_left (fun acc kv => match lookup (fst kv) acc with
                           | Some v => set (snd kv) v (remove (fst kv) acc)
                           | None => acc end) mp m.
Definition format_with (deny : list string) (mp : list (string * string)) (group : string) (d : pdata) : pdata :=
  let d1 := match d with DMap m => if Nat.ltb 0 (List.length m) then DMap (apply_mapping mp (deny_top deny m)) else d | DNil => DNil end in
  if str_eqb group "" then d1
  else DMap [(group, match d1 with DMap m => JObj m | DNil => JNull end)].
Definition pipeline_no_manipulation (d : pdata) : pdata := format_with [] [] "" d.

(* ---- renders (tree level): what the client's JSON parser sees / raw text ---- *)
Inductive cbody := BJson (v : json) | BRaw (s : string).

Definition data_lookup (k : string) (d : pdata) : option json :=
  match d with DNil => None | DMap m => lookup k m end.

(* gin: c.JSON(status, response.Data) / c.JSON(status, col) / c.String(status, msg) *)
Definition render_gin (o : oenc) (d : pdata) : cbody :=
  match o with
  | OJson => BJson (match d with DNil => JNull | DMap m => JObj m end)
  | OJsonCollection => match data_lookup "collection" d with Some c => BJson c | None => BJson (JArr []) end
  | OString => match data_lookup "content" d with Some (JStr s) => BRaw s | _ => BRaw "" end
  end.
(* mux: json.Marshal(response.Data) / json.Marshal(col) / w.Write([]byte(msg)) *)
Definition render_mux (o : oenc) (d : pdata) : cbody :=
  match o with
  | OJson => match d with DNil => BJson JNull | DMap m => BJson (JObj m) end
  | OJsonCollection => match data_lookup "collection" d with None => BJson (JArr []) | Some c => BJson c end
  | OString => match data_lookup "content" d with
               | Some v => match v with JStr s => BRaw s | _ => BRaw "" end
               | None => BRaw "" end
  end.
Definition render (r : router) := match r with Gin => render_gin | Mux => render_mux end.

Record cobs := { c_status : Z; c_body : cbody }.

(* one backend, status 200/201, nothing configured.  cc = concurrent_calls: the attempts get
   the same reply, the first complete one is used (C05) *)
Definition client_body (r : router) (e : benc) (coll : bool) (o : oenc) (cc : nat) (b : bbody) : cobs :=
  match decode e coll b with
  | None => {| c_status := 500; c_body := BRaw "" |}
  | Some d => {| c_status := 200; c_body := render r o (pipeline_no_manipulation d) |}
  end.

(* ---- no-op: status, headers and the body stream ---- *)
(* a piece of the body as written by the backend: (length, content token) *)
Definition chunk := (N * string)%type.
Definition header := (string * string)%type.

Inductive rstate := Open | Closed.
(* the request goroutine: reads of the render's copy loop, calls of cancel functions *)
Inductive action := ARead | ACancel (t : nat).
(* a schedule: which goroutine moves next - the handler or the closer (closeOnCancel) *)
Inductive label := LH | LC | LTick (d : N).

Record nst := {
  rd : rstate;               (* the backend body (resp.Body) *)
  rest : list chunk;         (* not yet read *)
  got : list chunk;          (* copied to the client so far *)
  cancelled : list nat;      (* cancel functions called so far (Ctx.v tokens) *)
  prog : list action;        (* what the handler still has to do *)
  trunc : bool;              (* the copy hit a closed reader with data left *)
  clock : Z
}.

(* the context the body reader is bound to.  Token 0: the endpoint handler's
   context.WithTimeout (router/*/endpoint.go); token 1: the concurrent middleware's
   WithTimeout (75 percent), token 2: the attempt's WithCancel (concurrent.go:30,75).  The stages
   between them pass the context through unchanged. *)
Definition reader_ctx (cc : nat) (now0 tmo : Z) : ctx :=
  let c0 := with_timeout background 0 now0 tmo in
  if Nat.leb cc 1 then c0
  else with_cancel (with_timeout c0 1 now0 (75 * tmo / 100)%Z) 2.

(* the handler after the proxy stack has returned the response: for concurrent calls the
   middleware has called cancel() just before returning (concurrent.go:53,61; the attempt's own
   cancel at :92 is implied: token 1 is an ancestor); then noopRender copies (one Read per
   chunk plus the one that sees EOF); then the handler's own cancel() *)
Definition handler_prog (cc : nat) (body : list chunk) : list action :=
  (if Nat.leb cc 1 then [] else [ACancel 1]) ++ repeat ARead (S (List.length body)) ++ [ACancel 0].

Definition init_st (cc : nat) (body : list chunk) (now0 : Z) : nst :=
  {| rd := Open; rest := body; got := []; cancelled := []; prog := handler_prog cc body;
     trunc := false; clock := now0 |}.

Definition step (c : ctx) (s : nst) (l : label) : nst :=
  match l with
  | LTick d => {| rd := rd s; rest := rest s; got := got s; cancelled := cancelled s; prog := prog s;
                  trunc := trunc s; clock := (clock s + Z.of_N d)%Z |}
  | LC => (* closeOnCancel: <-ctx.Done(); rc.Close() - blocked (no effect) until the context is done *)
      if done (cancelled s) (clock s) c
      then {| rd := Closed; rest := rest s; got := got s; cancelled := cancelled s; prog := prog s;
              trunc := trunc s; clock := clock s |}
      else s
  | LH =>
      match prog s with
      | [] => s
      | ACancel t :: p =>
          {| rd := rd s; rest := rest s; got := got s; cancelled := t :: cancelled s; prog := p;
             trunc := trunc s; clock := clock s |}
      | ARead :: p =>
          if trunc s then (* io.Copy already returned with the read error *)
            {| rd := rd s; rest := rest s; got := got s; cancelled := cancelled s; prog := p;
               trunc := true; clock := clock s |}
          else match rest s with
               | [] => {| rd := rd s; rest := []; got := got s; cancelled := cancelled s; prog := p;
                          trunc := false; clock := clock s |}
               | ch :: r =>
                   match rd s with
                   | Open => {| rd := Open; rest := r; got := got s ++ [ch]; cancelled := cancelled s;
                                prog := p; trunc := false; clock := clock s |}
                   | Closed => {| rd := Closed; rest := rest s; got := got s; cancelled := cancelled s;
                                  prog := p; trunc := true; clock := clock s |}
                   end
               end
      end
  end.

Definition run (c : ctx) (s : nst) (sched : list label) : nst := fold_left (step c) sched s.
Definition finished (s : nst) : bool := match prog s with [] => true | _ => false end.

(* the schedule in which the closer goroutine runs as soon as it can (after every handler step) *)
Fixpoint eager_sched (n : nat) : list label :=
  match n with O => [] | S k => LH :: LC :: eager_sched k end.

Definition gateway_headers : list header := [("X-Krakend-Completed", "false")].

Definition noop_status (r : router) (st : Z) : Z :=
  match r with Gin => st | Mux => if (st =? 0)%Z then 200%Z else st end.

(* the http client's error-reporting flags in the backend's extra_config (return_error_details /
   return_error_code).  NewHTTPProxyWithHTTPExecutor (proxy/http.go:44-46) wires NoOpHTTPStatusHandler
   for a no-op backend BEFORE anything looks at extra_config: the flags are ignored, every status
   passes with its headers and body.  (For the decoding encodings they are C12's subject.) *)
Inductive errflag := FNone | FDetails (name : string) | FCode.
Inductive status_handler := HNoOp | HDefault | HDetailed (name : string) | HErrorCode.
Definition noop_backend_status_handler (f : errflag) : status_handler := HNoOp.

Record nobs := { n_status : Z; n_headers : list header; n_body : list chunk; n_err : bool }.

Definition noop_client_sched (r : router) (cc : nat) (st : Z) (hs : list header) (body : list chunk)
           (tmo : Z) (sched : list label) : nobs :=
  let fin := run (reader_ctx cc 0 tmo) (init_st cc body 0) sched in
  {| n_status := noop_status r st;
     n_headers := gateway_headers ++ hs;          (* Header().Add for every backend value *)
     n_body := got fin; n_err := trunc fin |}.

Definition noop_client (r : router) (cc : nat) (st : Z) (hs : list header) (body : list chunk) : nobs :=
  noop_client_sched r cc st hs body 1000 (eager_sched (List.length (handler_prog cc body))).

(* ================= encoding/json at the byte level: string literals =================
   go_escape: what encodeState.string writes between the quotes with HTML escaping on (gin c.JSON
   and mux json.Marshal): double quote and backslash get a backslash; backspace, form feed, newline,
   carriage return and tab their short forms; other bytes below 0x20 and the three characters
   less-than, greater-than, ampersand become backslash-u-00xx (lower-case hex); U+2028 and U+2029
   become backslash-u-2028 / 2029; every other byte is copied (valid UTF-8 is copied; invalid
   UTF-8 - outside the property - is not modelled).
   go_unquote: what the decoder (and any JSON client) makes of the text after the opening quote,
   up to the closing quote; None = malformed, a raw control character, or an escaped surrogate
   (D800..DFFF: pairs are not modelled, the encoder never writes them). *)
Definition hexd (n : N) : ascii :=
  ascii_of_N (if (n <? 10)%N then 48 + n else 87 + n)%N.

Definition esc_byte (a : ascii) : string :=
  let n := N_of_ascii a in
  if (n =? 34)%N then "\""" else if (n =? 92)%N then "\\"
  else if (n =? 8)%N then "\b" else if (n =? 12)%N then "\f"
  else if (n =? 10)%N then "\n" else if (n =? 13)%N then "\r" else if (n =? 9)%N then "\t"
  else if (n <? 32)%N || (n =? 60)%N || (n =? 62)%N || (n =? 38)%N
       then String "\" (String "u" (String "0" (String "0" (String (hexd (n / 16)) (String (hexd (n mod 16)) "")))))
  else String a "".

Definition is_byte (a : ascii) (n : N) : bool := (N_of_ascii a =? n)%N.

Fixpoint go_escape (s : string) : string :=
  match s with
  | EmptyString => ""
  | String a r =>
      match r with
      | String b (String c r3) =>
          if is_byte a 226 && is_byte b 128 && (is_byte c 168 || is_byte c 169)
          then ("\u202" ++ String (hexd (N_of_ascii c - 160)) (go_escape r3))%string
          else (esc_byte a ++ go_escape r)%string
      | _ => (esc_byte a ++ go_escape r)%string
      end
  end.

Definition hexv (a : ascii) : option N :=
  let n := N_of_ascii a in
  if (48 <=? n)%N && (n <=? 57)%N then Some (n - 48)%N
  else if (97 <=? n)%N && (n <=? 102)%N then Some (n - 87)%N
  else if (65 <=? n)%N && (n <=? 70)%N then Some (n - 55)%N
  else None.

Definition hex4 (a b c d : ascii) : option N :=
  match hexv a, hexv b, hexv c, hexv d with
  | Some x, Some y, Some z, Some w => Some (x * 4096 + y * 256 + z * 16 + w)%N
  | _, _, _, _ => None
  end.

(* UTF-8 of a code point of the basic plane (surrogates excluded by the caller) *)
Definition utf8 (n : N) : string :=
  if (n <? 128)%N then String (ascii_of_N n) ""
  else if (n <? 2048)%N then String (ascii_of_N (192 + n / 64)) (String (ascii_of_N (128 + n mod 64)) "")
  else String (ascii_of_N (224 + n / 4096))
         (String (ascii_of_N (128 + (n / 64) mod 64)) (String (ascii_of_N (128 + n mod 64)) "")).

Definition pre (p : string) (x : option (string * string)) : option (string * string) :=
  match x with Some (s, rest) => Some ((p ++ s)%string, rest) | None => None end.

Fixpoint go_unquote (s : string) : option (string * string) :=
  match s with
  | EmptyString => None                                   (* no closing quote *)
  | String a r =>
      if is_byte a 34 then Some ("", r)
      else if is_byte a 92 then
        match r with
        | String e r1 =>
            if is_byte e 117 then
              match r1 with
              | String h1 (String h2 (String h3 (String h4 r5))) =>
                  match hex4 h1 h2 h3 h4 with
                  | Some n => if (55296 <=? n)%N && (n <=? 57343)%N then None
                              else pre (utf8 n) (go_unquote r5)
                  | None => None
                  end
              | _ => None
              end
            else if is_byte e 34 then pre """" (go_unquote r1)
            else if is_byte e 92 then pre "\" (go_unquote r1)
            else if is_byte e 47 then pre "/" (go_unquote r1)
            else if is_byte e 98 then pre (String (ascii_of_N 8) "") (go_unquote r1)
            else if is_byte e 102 then pre (String (ascii_of_N 12) "") (go_unquote r1)
            else if is_byte e 110 then pre (String (ascii_of_N 10) "") (go_unquote r1)
            else if is_byte e 114 then pre (String (ascii_of_N 13) "") (go_unquote r1)
            else if is_byte e 116 then pre (String (ascii_of_N 9) "") (go_unquote r1)
            else None
        | EmptyString => None
        end
      else if (N_of_ascii a <? 32)%N then None            (* raw control character *)
      else pre (String a "") (go_unquote r)
  end.

(* number literals: the scanner takes the longest run of number characters; the decoder with
   UseNumber keeps exactly that text, Marshal writes a json.Number as it is *)
Definition num_char (a : ascii) : bool :=
  let n := N_of_ascii a in
  ((48 <=? n)%N && (n <=? 57)%N) || (n =? 45)%N || (n =? 43)%N || (n =? 46)%N || (n =? 101)%N || (n =? 69)%N.
Fixpoint scan_number (s : string) : string * string :=
  match s with
  | EmptyString => ("", "")
  | String a r => if num_char a then let '(l, rest) := scan_number r in (String a l, rest) else ("", s)
  end.
Fixpoint all_chars (p : ascii -> bool) (s : string) : bool :=
  match s with EmptyString => true | String a r => p a && all_chars p r end.

(* ================= glue between parser and render =================
   (1) NewEntityFormatter (proxy/formatter.go:41-46): the allow list is used only when
   len(AllowList) > 0; an explicitly empty list ("allow": [], a zero-length non-nil slice) is the
   same as no list.  Lists here are Coq lists: [] stands for both.
   (2) a response-modifier plugin that hands back what it got (observer / audit / metrics), named
   in the endpoint's or the backend's extra_config: executeResponseModifiers (proxy/plugin.go:164-200)
   copies Data, IsComplete, Io, headers and status code into a wrapper and back - every field. *)
Inductive plug := PNone | PEndpoint | PBackend | PBoth.
Record extra := { x_plugin : plug; x_empty_lists : bool }.

Definition allow_top (al : list string) (m : obj) : obj := filter (fun kv => str_mem (fst kv) al) m.
Definition format_full (allow deny : list string) (mp : list (string * string)) (group : string) (d : pdata) : pdata :=
  if Nat.ltb 0 (List.length allow)
  then match d with
       | DMap m => if Nat.ltb 0 (List.length m) then DMap (apply_mapping mp (allow_top allow m)) else d
       | DNil => DNil end
  else format_with deny mp group d.

(* what travels through the stack *)
Record mresp := { m_data : pdata; m_complete : bool; m_status : Z; m_headers : list header }.
(* responseWrapper built from the response, then the response rebuilt from the wrapper *)
Definition wrap_unwrap (r : mresp) : mresp :=
  {| m_data := m_data r; m_complete := m_complete r; m_status := m_status r; m_headers := m_headers r |}.
Definition plugin_layers (p : plug) : nat :=
  match p with PNone => 0 | PEndpoint => 1 | PBackend => 1 | PBoth => 2 end.
Definition through_plugins (p : plug) (r : mresp) : mresp := Nat.iter (plugin_layers p) wrap_unwrap r.

Definition client_body_x (r : router) (e : benc) (coll : bool) (o : oenc) (cc : nat) (x : extra) (b : bbody) : cobs :=
  match decode e coll b with
  | None => {| c_status := 500; c_body := BRaw "" |}
  | Some d =>
      let d1 := format_full [] [] [] "" d in      (* explicit empty lists or none: the same [] *)
      let r1 := through_plugins (x_plugin x) {| m_data := d1; m_complete := true; m_status := 0; m_headers := [] |} in
      {| c_status := 200; c_body := render r o (m_data r1) |}
  end.

Definition noop_client_x (r : router) (cc : nat) (x : extra) (st : Z) (hs : list header) (body : list chunk) : nobs :=
  let r1 := through_plugins (x_plugin x) {| m_data := DMap []; m_complete := true; m_status := st; m_headers := hs |} in
  noop_client r cc (m_status r1) (m_headers r1) body.
