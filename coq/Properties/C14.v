(* C14 - Load balancers pick only live hosts and spread calls evenly.
   Only theorem statements, each closed by an exact lemma, and Print Assumptions. *)
Require Import Verif.Common.Base.
Require Import Verif.Model.C14 Verif.Spec.C14 Verif.Proof.C14.
Require Import Permutation.
Open Scope Z_scope.

(* ---- membership, empty list, subscriber error: both balancers, every history ---- *)
(* round robin: every counter value, every sequence of reports of a dynamic subscriber *)
Theorem C14_membership_rr : forall c rs, Forall2 CallOk rs (snd (rr_run c rs)).
Proof. exact (fun c rs => rr_run_ok rs c). Qed.
Print Assumptions C14_membership_rr.

(* random: every 32-bit output of the generator, every report *)
Theorem C14_membership_random : forall x r, 0 <= x < two32 -> CallOk r (rnd_step x r).
Proof. exact rnd_step_ok. Qed.
Print Assumptions C14_membership_random.

(* ---- balance of round robin over a fixed list ---- *)
(* the sequential run of the balancer on a fixed non-empty list draws the tickets
   c0, c0+1, ... (mod 2^64) and leaves the counter at c0 + M (mod 2^64) *)
Theorem C14_rr_run_is_tickets : forall hs, hs <> [] -> forall M c0, 0 <= c0 < two64 ->
  rr_run c0 (repeat {| rp_hosts := hs; rp_err := None |} M)
  = ((c0 + Z.of_nat M) mod two64, picks_of hs (tickets c0 M)).
Proof. exact rr_run_fixed. Qed.
Print Assumptions C14_rr_run_is_tickets.

(* n distinct hosts, M selections starting at any counter value c0 that do not cross the
   uint64 wrap: every host gets floor(M/n) or ceil(M/n) of them *)
Theorem C14_rr_balance : forall hs c0 M, NoDup hs -> hs <> [] -> 0 <= c0 -> c0 + Z.of_nat M <= two64 ->
  Fair hs (oks (picks_of hs (tickets c0 M))).
Proof. exact rr_balance. Qed.
Print Assumptions C14_rr_balance.

(* ... and exactly M mod n of the n residues (hosts, by zcount_picks) get the larger share
   floor(M/n) + 1 *)
Theorem C14_rr_larger_share : forall n c0 M, (0 < n)%nat -> 0 <= c0 -> c0 + Z.of_nat M <= two64 ->
  Z.of_nat (List.length (filter (fun v => v =? Z.of_nat M / Z.of_nat n + 1)
                          (map (fun r => rcount (Z.of_nat n) r (tickets c0 M)) (residues n))))
  = Z.of_nat M mod Z.of_nat n.
Proof. exact rr_larger_share. Qed.
Print Assumptions C14_rr_larger_share.

(* a stable list whose lookups sometimes fail (subscriber error, empty answer) in between:
   failed calls draw no ticket - the selections made over ANY such history are those of
   succ_count calls on the fixed list, the counter advanced by exactly that number, hence
   every window of the selections that were made is fair (and the sequential oracle holds) *)
Theorem C14_rr_failed_lookups_draw_no_ticket : forall hs, hs <> [] -> forall rs c0,
  0 <= c0 < two64 -> Stable hs rs ->
  oks (snd (rr_run c0 rs)) = oks (picks_of hs (tickets c0 (succ_count rs))) /\
  fst (rr_run c0 rs) = (c0 + Z.of_nat (succ_count rs)) mod two64.
Proof. exact rr_run_stable. Qed.
Print Assumptions C14_rr_failed_lookups_draw_no_ticket.

Theorem C14_rr_stable_history_fair : forall hs rs c0, NoDup hs -> hs <> [] -> 0 <= c0 < two64 ->
  Stable hs rs -> c0 + Z.of_nat (succ_count rs) <= two64 ->
  RRFair hs (oks (snd (rr_run c0 rs))) /\
  rr_seq_b hs (oks (snd (rr_run c0 rs))) = true.
Proof. exact rr_stable_fair. Qed.
Print Assumptions C14_rr_stable_history_fair.

Theorem C14_stable_oracle_sound : forall hs rs, stable_b hs rs = true -> Stable hs rs.
Proof. exact stable_b_sound. Qed.
Print Assumptions C14_stable_oracle_sound.

(* across the wrap the same holds when the number of hosts divides 2^64 ... *)
Theorem C14_rr_balance_wrap_divides : forall hs c0 M, NoDup hs -> hs <> [] ->
  two64 mod Z.of_nat (List.length hs) = 0 ->
  Fair hs (oks (picks_of hs (tickets c0 M))).
Proof. exact rr_balance_divides. Qed.
Print Assumptions C14_rr_balance_wrap_divides.

(* ... and fails otherwise: three hosts, counter 2^64-2, three calls: one host is
   chosen twice and one not at all (the hypothesis c0 + M <= 2^64 is needed) *)
Theorem C14_rr_wrap_refuted :
  exists hs c0 M, NoDup hs /\ hs <> [] /\ 0 <= c0 < two64 /\ two64 < c0 + Z.of_nat M /\
    ~ Fair hs (oks (snd (rr_run c0 (repeat {| rp_hosts := hs; rp_err := None |} M)))).
Proof. exact rr_wrap_refuted. Qed.
Print Assumptions C14_rr_wrap_refuted.

(* ---- concurrent callers: EVERY interleaving of the atomic increments ---- *)
(* k callers with calls_i pending calls each; a schedule is any order in which their atomic
   adds take effect.  Whatever the schedule, once all calls are made: the multiset of
   tickets handed out is {c0 .. c0+M-1} (mod 2^64), caller i got exactly calls_i of them,
   and the counter stands at c0 + M (mod 2^64) *)
Theorem C14_rr_concurrent : forall c0 calls sched s,
  0 <= c0 < two64 -> run_sched (t_init c0 calls) sched = Some s -> t_done s = true ->
  Permutation (map snd (t_issued s)) (tickets c0 (nsum calls)) /\
  (forall i, List.length (tickets_of s i) = nth i calls O) /\
  t_ctr s = (c0 + Z.of_nat (nsum calls)) mod two64.
Proof. exact rr_concurrent. Qed.
Print Assumptions C14_rr_concurrent.

(* hence the same balance for every interleaving *)
Theorem C14_rr_concurrent_balance : forall hs c0 calls sched s,
  NoDup hs -> hs <> [] -> 0 <= c0 < two64 ->
  c0 + Z.of_nat (nsum calls) <= two64 \/ two64 mod Z.of_nat (List.length hs) = 0 ->
  run_sched (t_init c0 calls) sched = Some s -> t_done s = true ->
  Fair hs (oks (picks_of hs (map snd (t_issued s)))).
Proof. exact rr_concurrent_balance. Qed.
Print Assumptions C14_rr_concurrent_balance.

(* ---- random balancer: non-vanishing share ---- *)
(* n <= 2^32 hosts: the generator outputs that select host i are exactly the integer
   interval [lo i, lo (i+1)) of [0, 2^32); the intervals tile the range (lo 0 = 0,
   lo n = 2^32) and each holds floor(2^32/n) >= 1 up to ceil(2^32/n) values *)
Theorem C14_random_share : forall n i, 0 < n <= two32 -> 0 <= i < n ->
  (forall x, 0 <= x < two32 ->
     (uint32n x n = i <-> lo two32 n i <= x < lo two32 n (i + 1))) /\
  0 <= lo two32 n i /\ lo two32 n (i + 1) <= two32 /\
  1 <= two32 / n <= lo two32 n (i + 1) - lo two32 n i /\
  lo two32 n (i + 1) - lo two32 n i <= (two32 + n - 1) / n.
Proof. exact random_share. Qed.
Print Assumptions C14_random_share.

Theorem C14_random_tiles : forall n, 0 < n -> lo two32 n 0 = 0 /\ lo two32 n n = two32.
Proof. exact (fun n H => conj (lo_0 two32 n H) (lo_n two32 n H)). Qed.
Print Assumptions C14_random_tiles.

(* for ANY list of draws the number of selections of host i is the number of draws that
   fell into its interval (so a generator that is close to uniform on 32 bits gives every
   host a share close to 1/n) *)
Theorem C14_random_counts : forall hs i xs, NoDup hs -> (i < List.length hs)%nat ->
  Z.of_nat (List.length hs) <= two32 ->
  (forall x, In x xs -> 0 <= x < two32) ->
  zcount (nth i hs "") (oks (map (fun x => rnd_step x {| rp_hosts := hs; rp_err := None |}) xs))
  = Z.of_nat (List.length (filter (fun x => (lo two32 (Z.of_nat (List.length hs)) (Z.of_nat i) <=? x)
                                           && (x <? lo two32 (Z.of_nat (List.length hs)) (Z.of_nat i + 1))) xs)).
Proof. exact random_counts. Qed.
Print Assumptions C14_random_counts.

(* ---- fastrand.Uint32n as Go computes it ---- *)
(* uint32((uint64(x) * uint64(n)) >> 32) with every conversion and the 64-bit product written
   with its wrap is the plain quotient (no wrap occurs), and an index below n *)
Theorem C14_uint32n_as_computed : forall x n, 0 <= x < two32 -> 0 < n < two32 ->
  uint32n_go x n = uint32n x n /\ 0 <= uint32n_go x n < n.
Proof. exact (fun x n Hx Hn => conj (uint32n_go_eq x n Hx ltac:(lia)) (uint32n_go_range x n Hx Hn)). Qed.
Print Assumptions C14_uint32n_as_computed.

(* ---- a dynamic subscriber: the windows between changes of the list ---- *)
(* runs compose, and the counter counts exactly the successful lookups of ANY history *)
Theorem C14_rr_counter_counts_selections : forall rs c, 0 <= c < two64 ->
  fst (rr_run c rs) = (c + Z.of_nat (succ_count rs)) mod two64.
Proof. exact rr_counter. Qed.
Print Assumptions C14_rr_counter_counts_selections.

(* whatever was reported before (pre) and is reported afterwards (post): the selections made
   during a stretch of calls whose successful lookups all report hs are fair over every window *)
Theorem C14_rr_dynamic_windows : forall hs pre blk post c0,
  NoDup hs -> hs <> [] -> 0 <= c0 < two64 -> Stable hs blk ->
  c0 + Z.of_nat (succ_count (pre ++ blk)) <= two64 ->
  exists o_pre o_blk o_post,
    snd (rr_run c0 (pre ++ blk ++ post)) = (o_pre ++ o_blk ++ o_post)%list /\
    List.length o_pre = List.length pre /\ List.length o_blk = List.length blk /\
    RRFair hs (oks o_blk) /\ rr_seq_b hs (oks o_blk) = true.
Proof. exact rr_dynamic_window. Qed.
Print Assumptions C14_rr_dynamic_windows.

(* ---- constructors ---- *)
(* the round robin balancer as NewRoundRobinLB builds it over a fixed list of distinct hosts,
   for every draw of its start position: the counter hypothesis of C14_rr_balance is
   discharged (the start lies inside the list), every window of its first M <= 2^64 - 2^32
   selections is fair *)
Theorem C14_constructed_rr_fair : forall hs x (xs : list Z), NoDup hs -> hs <> [] -> 0 <= x < two32 ->
  Z.of_nat (List.length hs) <= two32 -> Z.of_nat (List.length xs) + two32 <= two64 ->
  RRFair hs (oks (bal_run (new_rr (SFixed hs) x) hs xs)).
Proof. exact constructed_rr_fair. Qed.
Print Assumptions C14_constructed_rr_fair.

(* whichever constructor (generic / round robin / random), processor count and draw: a
   balancer over a fixed subscriber only answers hosts of its list (the single-host
   balancer, which never asks the subscriber, is only built for exactly that host) *)
Theorem C14_constructed_membership : forall k procs hs x xs, hs <> [] ->
  (forall y, In y xs -> 0 <= y < two32) ->
  Forall (CallOk {| rp_hosts := hs; rp_err := None |}) (bal_run (build k procs (SFixed hs) x) hs xs).
Proof. exact constructed_membership. Qed.
Print Assumptions C14_constructed_membership.

(* the round robin constructors ignore the processor count and never build the random
   balancer; NewBalancer is round robin exactly when GOMAXPROCS = 1 *)
Theorem C14_constructor_choice : forall procs s x,
  build CRoundRobin procs s x = new_rr s x /\ new_rr s x <> BRandom /\
  (procs = 1 -> build CGeneric procs s x = new_rr s x) /\
  (procs <> 1 -> build CGeneric procs s x = new_random s).
Proof. exact rr_constructors_fixed_kind. Qed.
Print Assumptions C14_constructor_choice.

(* the middleware passes the balancer's error on and otherwise shows the next proxy
   host ++ path for a host of the list reported for that call *)
Theorem C14_middleware_step : forall r o path, CallOk r o ->
  match mw_step o path with
  | MwNext u => exists h, u = (h ++ path)%string /\ In h (rp_hosts r) /\ rp_err r = None
  | MwErr e => o = Err e /\ (rp_err r <> None \/ rp_hosts r = [])
  | MwPanic => False
  end.
Proof. exact mw_step_ok. Qed.
Print Assumptions C14_middleware_step.

(* ---- the boolean oracles are the Props ---- *)
Theorem C14_call_oracle : forall r o, call_ok_b r o = true <-> CallOk r o.
Proof. exact call_ok_b_iff. Qed.
Print Assumptions C14_call_oracle.

Theorem C14_fair_oracle : forall hs p, fair_b hs p = true <-> Fair hs p.
Proof. exact fair_b_iff. Qed.
Print Assumptions C14_fair_oracle.

Theorem C14_share_oracle : forall hs p, share_b hs p = true <-> Share hs p.
Proof. exact share_b_iff. Qed.
Print Assumptions C14_share_oracle.

(* sequential histories: the oracle (period n, first n selections distinct members)
   implies that ANY M consecutive selections of the history are fair *)
Theorem C14_seq_oracle_sound : forall hs picks, NoDup hs -> hs <> [] ->
  rr_seq_b hs picks = true -> RRFair hs picks.
Proof. exact rr_seq_sound. Qed.
Print Assumptions C14_seq_oracle_sound.

(* the executable model satisfies the per-call oracle on every input *)
Theorem C14_model_meets_oracle : forall c r x,
  call_ok_b r (snd (rr_step c r)) = true /\
  (0 <= x < two32 -> call_ok_b r (rnd_step x r) = true).
Proof. exact model_meets_call_oracle. Qed.
Print Assumptions C14_model_meets_oracle.

(* ... and, on a fixed list of distinct hosts, the sequential oracle (hence every window of
   the model's history is fair: C14_seq_oracle_sound) *)
Theorem C14_model_meets_seq_oracle : forall hs c0 M, NoDup hs -> hs <> [] -> 0 <= c0 < two64 ->
  c0 + Z.of_nat M <= two64 ->
  rr_seq_b hs (oks (snd (rr_run c0 (repeat {| rp_hosts := hs; rp_err := None |} M)))) = true.
Proof. exact rr_model_seq_oracle. Qed.
Print Assumptions C14_model_meets_seq_oracle.

(* ... and, over ANY history of a dynamic subscriber, the block oracle of the dynamic cases
   (every maximal stretch of calls on one list is fair over every window) *)
Theorem C14_model_meets_block_oracle : forall rs c, 0 <= c -> c + Z.of_nat (List.length rs) < two64 ->
  blocks_b None [] (combine rs (snd (rr_run c rs))) = true.
Proof. exact blocks_model_meets. Qed.
Print Assumptions C14_model_meets_block_oracle.

(* non-vacuity *)
Example C14_ex_balance_hyp : exists hs c0 M, NoDup hs /\ hs <> [] /\ 0 <= c0 /\ c0 + Z.of_nat M <= two64
  /\ oks (picks_of hs (tickets c0 M)) = ["b"; "c"; "a"; "b"].
Proof.
  exists ["a"; "b"; "c"], 4, 4%nat. split; [repeat constructor; simpl; intuition discriminate|].
  split; [discriminate|]. split; [lia|]. split; [vm_compute; discriminate|]. vm_compute. reflexivity.
Qed.
Example C14_ex_empty : snd (rr_step 5 {| rp_hosts := []; rp_err := None |}) = Err ENoHosts.
Proof. vm_compute. reflexivity. Qed.
Example C14_ex_error_wins : rnd_step 7 {| rp_hosts := ["a"]; rp_err := Some "boom" |} = Err (ESub "boom").
Proof. vm_compute. reflexivity. Qed.
Example C14_ex_schedule : exists sched s, run_sched (t_init 7 [2; 1]%nat) sched = Some s /\ t_done s = true
  /\ tickets_of s 0 = [7; 9] /\ tickets_of s 1 = [8].
Proof. exists [0; 1; 0]%nat. eexists. split; [vm_compute; reflexivity|]. vm_compute. auto. Qed.
Example C14_ex_interval : lo two32 3 1 = 1431655766 /\ uint32n 1431655765 3 = 0 /\ uint32n 1431655766 3 = 1.
Proof. vm_compute. auto. Qed.
Example C14_ex_seq_oracle : rr_seq_b ["a"; "b"; "c"] ["b"; "c"; "a"; "b"; "c"; "a"; "b"] = true
  /\ rr_seq_b ["a"; "b"; "c"] ["b"; "c"; "a"; "a"] = false.
Proof. vm_compute. auto. Qed.
Example C14_ex_stable : exists rs, Stable ["a"; "b"] rs /\ succ_count rs = 3%nat /\
  oks (snd (rr_run 0 rs)) = ["a"; "b"; "a"].
Proof.
  exists [{| rp_hosts := ["a"; "b"]; rp_err := None |}; {| rp_hosts := []; rp_err := Some "x" |};
          {| rp_hosts := ["a"; "b"]; rp_err := None |}; {| rp_hosts := []; rp_err := None |};
          {| rp_hosts := ["a"; "b"]; rp_err := None |}].
  split; [|split; vm_compute; reflexivity].
  intros r [H|[H|[H|[H|[H|[]]]]]]; subst; vm_compute; eauto.
Qed.
Example C14_ex_constructors :
  new_rr (SFixed ["a"]) 7 = BNop "a" /\ new_rr (SFixed ["a"; "b"; "c"]) 4294967295 = BRR 2 /\
  new_rr SOther 9 = BRR 0 /\ new_balancer 1 SOther 0 = BRR 0 /\ new_balancer 16 SOther 0 = BRandom /\
  lookup "NewRoundRobinLoadBalancedMiddlewareWithLogger" mw_constructors = Some CRoundRobin.
Proof. vm_compute. repeat split; reflexivity. Qed.
Example C14_ex_blocks :
  blocks_b None [] [({| rp_hosts := ["a"; "b"]; rp_err := None |}, Ok "b");
                    ({| rp_hosts := []; rp_err := Some "x" |}, Err (ESub "x"));
                    ({| rp_hosts := ["a"; "b"]; rp_err := None |}, Ok "a");
                    ({| rp_hosts := ["c"; "a"; "b"]; rp_err := None |}, Ok "c");
                    ({| rp_hosts := ["c"; "a"; "b"]; rp_err := None |}, Ok "a")] = true /\
  blocks_b None [] [({| rp_hosts := ["a"; "b"]; rp_err := None |}, Ok "b");
                    ({| rp_hosts := ["a"; "b"]; rp_err := None |}, Ok "b")] = false.
Proof. vm_compute. auto. Qed.
