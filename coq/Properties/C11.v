(* C11 - Client-visible completeness, cache and error signalling are truthful.
   Only theorem statements, each closed by an exact lemma, and Print Assumptions; plus
   Examples (non-vacuity, reachable branches).

   handler i is the executable model of the gin handler (Gin), the mux handler (Mux) and the
   mux handler behind the BasicEngine with its HTTPErrorInterceptor (MuxEngine); an outcome
   is `Reply o` or `Panic` (net/http refuses a status outside 100..999: no reply).
   cond i  =  "there is a non-empty, complete response". *)
Require Import Verif.Common.Base Verif.Common.Json.
Require Import Verif.Model.C11 Verif.Spec.C11 Verif.Proof.C11.

(* X-Krakend-Completed is exactly [true] when there is a non-empty complete response and
   exactly [false] otherwise - every implementation, render, response, error, ttl, context
   state.  Hypotheses: the response metadata does not name the header (F-C11, see
   C11_completed_header_refuted) and the input is not the engine-override cell (see
   C11_engine_override_refuted). *)
Theorem C11_completed_header : forall i o,
  handler i = Reply o -> meta_vals H_completed (meta_of i) = [] -> engine_override i = false ->
  o_completed o = [if cond i then V_true else V_false].
Proof. exact completed_header. Qed.
Print Assumptions C11_completed_header.

(* Cache-Control: the gateway's value, present exactly when the response is non-empty and
   complete and a ttl is configured (value: whole seconds, truncated) *)
Theorem C11_cache_header : forall i o,
  handler i = Reply o -> meta_vals H_cache (meta_of i) = [] ->
  o_cache o = if cond i && cache_enabled (i_ttl i) then [cache_value (i_ttl i)] else [].
Proof. exact cache_header. Qed.
Print Assumptions C11_cache_header.

(* the identification header is always there and its first value is the gateway's - no
   hypothesis at all *)
Theorem C11_version_header : forall i o,
  handler i = Reply o -> exists rest, o_version o = i_ver i :: rest.
Proof. exact version_header. Qed.
Print Assumptions C11_version_header.

(* error and no response: a reply exists, its status is the error's own code if it has one,
   else the translator's answer; flagged incomplete, no cache header *)
Theorem C11_error_status : forall i e,
  i_resp i = None -> eff_err i = Some e -> valid_code (err_status i e) = true ->
  exists o, handler i = Reply o /\ o_status o = err_status i e /\
            o_completed o = [V_false] /\ o_cache o = [] /\ o_version o = [i_ver i].
Proof. exact error_status. Qed.
Print Assumptions C11_error_status.

Theorem C11_error_status_own : forall i e n,
  i_resp i = None -> eff_err i = Some e -> e_status e = Some n -> (100 <= n <= 999)%Z ->
  exists o, handler i = Reply o /\ o_status o = n /\ o_completed o = [V_false] /\ o_cache o = [].
Proof. exact error_status_own. Qed.
Print Assumptions C11_error_status_own.

(* ... and 500 otherwise (stock translator) *)
Theorem C11_error_status_500 : forall i e,
  i_resp i = None -> eff_err i = Some e -> e_status e = None -> i_errf i = 500%Z ->
  exists o, handler i = Reply o /\ o_status o = 500%Z /\ o_completed o = [V_false] /\ o_cache o = [].
Proof. exact error_status_500. Qed.
Print Assumptions C11_error_status_500.

(* a JSON body is rendered only by the json / json-collection renders and is the response
   data (resp. its "collection" member; {} resp. [] without a response) *)
Theorem C11_json_body : forall i o v,
  handler i = Reply o -> o_body o = BJson v ->
  (i_render i = RJson -> v = json_of (i_resp i)) /\
  (i_render i = RCollection -> v = collection (i_resp i)) /\
  (i_render i = RJson \/ i_render i = RCollection).
Proof. exact json_body. Qed.
Print Assumptions C11_json_body.

(* the three header lists in general: own value(s) followed by what the metadata adds *)
Theorem C11_headers_closed_form : forall i o,
  handler i = Reply o ->
  o_completed o = completed_of i /\ o_cache o = cache_of i /\ o_version o = version_of i.
Proof. exact headers_closed_form. Qed.
Print Assumptions C11_headers_closed_form.

(* metadata that names neither header cannot touch them: the input is outside the recorded
   finding, and with the identification header left alone the whole reply is the one the
   gateway produces without any metadata *)
Theorem C11_no_spoof : forall i,
  meta_disjoint i ->
  hdr_pair (handler i) = hdr_pair (handler (strip_meta i)) /\ in_finding i = false.
Proof. intros i H. split; [exact (no_spoof_pair i H)|exact (no_spoof i H)]. Qed.
Print Assumptions C11_no_spoof.

Theorem C11_no_spoof_full : forall i,
  meta_disjoint i -> meta_vals H_version (meta_of i) = [] -> handler i = handler (strip_meta i).
Proof. exact no_spoof_full. Qed.
Print Assumptions C11_no_spoof_full.

(* F-C11: without the hypothesis the clause fails, on every implementation: the no-op render
   appends the backend's header next to the gateway's own *)
Theorem C11_completed_header_refuted : forall im,
  exists o, handler (spoof_input im "x-krakend-completed" "true") = Reply o /\
            cond (spoof_input im "x-krakend-completed" "true") = false /\
            o_completed o = ["false"; "true"].
Proof. exact completed_spoof. Qed.
Print Assumptions C11_completed_header_refuted.

Theorem C11_cache_header_refuted : forall im,
  exists o, handler (spoof_input im "Cache-Control" "public, max-age=3600") = Reply o /\
            cond (spoof_input im "Cache-Control" "public, max-age=3600") = false /\
            i_ttl (spoof_input im "Cache-Control" "public, max-age=3600") = 0%Z /\
            o_cache o = ["public, max-age=3600"].
Proof. exact cache_spoof. Qed.
Print Assumptions C11_cache_header_refuted.

(* the engine-override cell: non-empty complete data, no-op render, explicit status 201
   behind the mux engine: the interceptor answers false *)
Theorem C11_engine_override_refuted :
  exists o, handler override_input = Reply o /\ cond override_input = true /\
            meta_disjoint override_input /\ o_completed o = ["false"].
Proof. exact engine_override_witness. Qed.
Print Assumptions C11_engine_override_refuted.

(* HTTPErrorInterceptor: behind the mux engine every reply whose status is not 200 is
   flagged incomplete, whatever the metadata *)
Theorem C11_interceptor : forall i o,
  i_impl i = MuxEngine -> handler i = Reply o -> o_status o <> 200%Z -> o_completed o = [V_false].
Proof. exact interceptor. Qed.
Print Assumptions C11_interceptor.

(* a multi-error is treated like any other error (it is only logged entry by entry) *)
Theorem C11_multi_error_irrelevant : forall b i, handler (with_multi b i) = handler i.
Proof. exact multi_irrelevant. Qed.
Print Assumptions C11_multi_error_irrelevant.

(* errors that earlier handlers of the gin chain left in c.Errors do not reach the reply: it
   is a function of THIS pipeline's (response, error) pair *)
Theorem C11_context_errors_irrelevant : forall l i, handler (with_ctx_errs l i) = handler i.
Proof. exact ctx_errs_irrelevant. Qed.
Print Assumptions C11_context_errors_irrelevant.

(* a status code carried by something the error merely wraps (fmt %w, errors.Join, Unwrap()
   []error, As methods, entries of a merge error) plays no role: both handlers ask the error
   itself, and such an error gets the translator's verdict (500 by default) *)
Theorem C11_buried_status_irrelevant : forall b i, handler (with_buried b i) = handler i.
Proof. exact buried_irrelevant. Qed.
Print Assumptions C11_buried_status_irrelevant.

Theorem C11_wrapped_status_error : forall i e n,
  i_resp i = None -> i_err i = Some e -> e_status e = None -> e_buried e = Some n ->
  valid_code (i_errf i) = true ->
  exists o, handler i = Reply o /\ o_status o = i_errf i.
Proof. exact wrapped_status. Qed.
Print Assumptions C11_wrapped_status_error.

(* whether the error (or something it wraps) is a timeout plays no role; under the stock
   translator (DefaultToHTTPError = 500 for every error) an error without a status of its own
   is answered with 500 *)
Theorem C11_timeout_irrelevant : forall b i, handler (with_timeout b i) = handler i.
Proof. exact timeout_irrelevant. Qed.
Print Assumptions C11_timeout_irrelevant.

Theorem C11_stock_translator_500 : forall i e,
  i_resp i = None -> i_err i = Some e -> e_status e = None -> i_errf i = stock_translator e ->
  exists o, handler i = Reply o /\ o_status o = 500%Z.
Proof. exact stock_translator_500. Qed.
Print Assumptions C11_stock_translator_500.

(* hide_version_header replaces the identification value by a constant, it never empties it:
   with the process value version_value build hide every reply starts X-Krakend with it, and it
   is not the empty string (gin's c.Header would drop an empty header) *)
Theorem C11_hidden_version_still_identifies : forall build hide i o,
  build <> "" -> i_ver i = version_value build hide -> handler i = Reply o ->
  version_value build hide <> "" /\ exists rest, o_version o = version_value build hide :: rest.
Proof.
  intros build hide i o Hb Hv H. split; [exact (version_value_nonempty build hide Hb)|exact (version_shown build hide i o Hv H)].
Qed.
Print Assumptions C11_hidden_version_still_identifies.

(* the independently written implementations send the same two headers *)
Theorem C11_impls_agree : forall i im1 im2 o1 o2,
  meta_disjoint i ->
  engine_override (with_impl im1 i) = false -> engine_override (with_impl im2 i) = false ->
  handler (with_impl im1 i) = Reply o1 -> handler (with_impl im2 i) = Reply o2 ->
  o_completed o1 = o_completed o2 /\ o_cache o1 = o_cache o2.
Proof. exact impls_agree. Qed.
Print Assumptions C11_impls_agree.

(* no reply at all only when a status on the way is not a valid HTTP status *)
Theorem C11_panic_only_invalid : forall i, handler i = Panic -> codes_valid i = false.
Proof. exact panic_only_invalid. Qed.
Print Assumptions C11_panic_only_invalid.

(* ... and exactly then: closed form of the inputs without a reply; a reply exists whenever
   every status on the way is valid *)
Theorem C11_panic_iff : forall i, handler i = Panic <-> panics i = true.
Proof. exact panic_iff. Qed.
Print Assumptions C11_panic_iff.

Theorem C11_reply_exists : forall i, codes_valid i = true -> exists o, handler i = Reply o.
Proof. exact reply_exists. Qed.
Print Assumptions C11_reply_exists.

(* which render serves an endpoint (model of getRender / renderRegister / negotiatedRender):
   a registered, non-empty output_encoding wins; otherwise the encoding of the only backend
   if registered, else json *)
Theorem C11_render_selection : forall im out backs,
  (forall r, out <> "" -> registered im out = Some r -> get_render im out backs = r) /\
  (out = "" \/ registered im out = None ->
   get_render im out backs =
   match backs with [e] => with_fallback im e (NRender RJson) | _ => NRender RJson end).
Proof.
  intros im out backs. split.
  - intros r. exact (get_render_output im out backs r).
  - exact (get_render_fallback im out backs).
Qed.
Print Assumptions C11_render_selection.

(* the mux family only ever serves json / no-op / string / json-collection; no-op is selected
   by output_encoding on every implementation, whatever the Accept header *)
Theorem C11_mux_renders : forall im out backs a,
  im <> Gin -> In (render_of_config im out backs a) [RJson; RNoop; RString; RCollection].
Proof. exact mux_renders. Qed.
Print Assumptions C11_mux_renders.

Theorem C11_noop_selected : forall im backs a, render_of_config im "no-op" backs a = RNoop.
Proof. exact noop_selected. Qed.
Print Assumptions C11_noop_selected.

(* one layer down: the handlers and renders as sequences of writer operations (Set / Add /
   c.Status / WriteHeader / Write, in source order) run against the writers (gin's remembered
   status, net/http's header snapshot at the first WriteHeader or Write, the interceptor):
   the reply is the one of the functional model, for every input - so every theorem above
   holds of the operation-level model, for every output encoding *)
Theorem C11_writer_ops_refine : forall i, handler_ops i = handler i.
Proof. exact handler_ops_refines. Qed.
Print Assumptions C11_writer_ops_refine.

(* and no handler or render touches a header after an operation that sends the status line *)
Theorem C11_headers_before_status_line : forall i, headers_first (ops_of i) = true.
Proof. exact ops_headers_first. Qed.
Print Assumptions C11_headers_before_status_line.

(* the boolean oracle evaluated on the implementation's observations is the property *)
Theorem C11_oracle_exact : forall i o, spec_b i o = true <-> Spec i o.
Proof. exact spec_b_iff. Qed.
Print Assumptions C11_oracle_exact.

(* and the model satisfies it on every input outside the recorded finding *)
Theorem C11_model_meets_oracle : forall i,
  data_wf i = true -> meta_disjoint i -> spec_out_b i (handler i) = true.
Proof. exact model_meets_oracle. Qed.
Print Assumptions C11_model_meets_oracle.

(* ---- non-vacuity ---- *)
Definition ex_resp (meta : list (string * list string)) (complete : bool) : resp :=
  {| r_data := Some [("k", JStr "v")]; r_complete := complete; r_meta := meta; r_status := 0; r_io := None |}.
Definition ex_input (im : impl) (r : option resp) (e : option perr) (ttl : Z) : input :=
  {| i_impl := im; i_render := RJson; i_resp := r; i_err := e; i_ttl := ttl; i_ctx_done := false;
     i_errf := 500; i_ver := "Version undefined"; i_ctx_errs := [] |}.

Example C11_ex_names : (H_completed, H_cache, H_version) = ("X-Krakend-Completed", "Cache-Control", "X-Krakend").
Proof. vm_compute. reflexivity. Qed.
Example C11_ex_canon :
  map canon ["x-krakend-completed"; "CACHE-CONTROL"; "x-krakend-completed "; "a_b-c"]
  = ["X-Krakend-Completed"; "Cache-Control"; "x-krakend-completed "; "A_b-C"].
Proof. vm_compute. reflexivity. Qed.
(* hypotheses satisfiable with metadata present *)
Example C11_ex_disjoint :
  meta_disjoint (ex_input Mux (Some (ex_resp [("X-Meta", ["m"]); ("cache control", ["x"])] true)) None 0).
Proof. vm_compute. split; reflexivity. Qed.
Example C11_ex_complete_cached : forall im,
  handler (ex_input im (Some (ex_resp [("X-Meta", ["m"])] true)) None 3600000000000) =
  Reply {| o_status := 200; o_completed := ["true"]; o_cache := ["public, max-age=3600"];
           o_version := ["Version undefined"]; o_body := BJson (JObj [("k", JStr "v")]) |}.
Proof. destruct im; vm_compute; reflexivity. Qed.
Example C11_ex_incomplete_not_cached : forall im,
  handler (ex_input im (Some (ex_resp [] false)) None 3600000000000) =
  Reply {| o_status := 200; o_completed := ["false"]; o_cache := [];
           o_version := ["Version undefined"]; o_body := BJson (JObj [("k", JStr "v")]) |}.
Proof. destruct im; vm_compute; reflexivity. Qed.
Example C11_ex_max_age :
  map cache_value [500000000; 1500000000; 999999999; (-1500000000); 86400000000000]%Z
  = ["public, max-age=0"; "public, max-age=1"; "public, max-age=0"; "public, max-age=-1"; "public, max-age=86400"].
Proof. vm_compute. reflexivity. Qed.
Example C11_ex_error_status : forall im,
  exists o, handler (ex_input im None (Some {| e_status := Some 418%Z; e_multi := false; e_msg := "tea"; e_buried := None; e_timeout := false |}) 0) = Reply o
            /\ o_status o = 418%Z /\ o_completed o = ["false"].
Proof. destruct im; eexists; vm_compute; repeat split; reflexivity. Qed.
Example C11_ex_error_500 : forall im,
  exists o, handler (ex_input im None (Some {| e_status := None; e_multi := true; e_msg := "a"; e_buried := None; e_timeout := false |}) 0) = Reply o
            /\ o_status o = 500%Z.
Proof. destruct im; eexists; vm_compute; repeat split; reflexivity. Qed.
(* latitude of the statement: empty response with an error - gin renders it, mux answers with the error *)
Example C11_ex_empty_with_error :
  let e := Some {| e_status := Some 404%Z; e_multi := false; e_msg := "nf"; e_buried := None; e_timeout := false |} in
  let r := Some {| r_data := Some []; r_complete := true; r_meta := []; r_status := 0; r_io := None |} in
  (exists o, handler (ex_input Gin r e 0) = Reply o /\ o_status o = 200%Z /\ o_body o = BJson (JObj [])) /\
  (exists o, handler (ex_input Mux r e 0) = Reply o /\ o_status o = 404%Z /\ o_body o = BRaw ("nf" ++ nl)).
Proof. split; eexists; vm_compute; repeat split; reflexivity. Qed.
(* the panic branch is reachable, and only with an invalid status *)
Example C11_ex_panic :
  handler (ex_input Mux None (Some {| e_status := Some 0%Z; e_multi := false; e_msg := ""; e_buried := None; e_timeout := false |}) 0) = Panic /\
  exists o, handler (ex_input Gin None (Some {| e_status := Some 0%Z; e_multi := false; e_msg := ""; e_buried := None; e_timeout := false |}) 0) = Reply o
            /\ o_status o = 200%Z.
Proof. split; [|eexists]; vm_compute; repeat split; reflexivity. Qed.
Example C11_ex_ctx_errs :
  let e := Some {| e_status := Some 418%Z; e_multi := false; e_msg := "tea"; e_buried := None; e_timeout := false |} in
  exists o, handler (with_ctx_errs [CEPlain; CEStatus 503; CEMeta] (ex_input Gin None e 0)) = Reply o /\ o_status o = 418%Z.
Proof. eexists; vm_compute; split; reflexivity. Qed.
Example C11_ex_wrapped : forall im,
  exists o, handler (ex_input im None (Some {| e_status := None; e_multi := false; e_msg := "w: no content"; e_buried := Some 204%Z; e_timeout := false |}) 0) = Reply o
            /\ o_status o = 500%Z.
Proof. destruct im; eexists; vm_compute; split; reflexivity. Qed.
Example C11_ex_negotiate :
  map (render_of_config Gin "negotiate" ["json"]) [AcNone; AcJson; AcPlain; AcXml; AcYaml; AcOther]
  = [RJson; RJson; RYaml; RXml; RYaml; RJson] /\
  render_of_config Mux "negotiate" ["string"] AcXml = RString /\
  render_of_config Gin "" ["no-op"; "no-op"] AcNone = RJson /\
  render_of_config MuxEngine "bogus" ["no-op"] AcNone = RNoop.
Proof. vm_compute. repeat split; reflexivity. Qed.
Example C11_ex_panics :
  panics (ex_input Mux None (Some {| e_status := Some 1000%Z; e_multi := false; e_msg := ""; e_buried := None; e_timeout := false |}) 0) = true /\
  panics (ex_input Gin None (Some {| e_status := Some 0%Z; e_multi := false; e_msg := ""; e_buried := None; e_timeout := false |}) 0) = false.
Proof. vm_compute. split; reflexivity. Qed.
Example C11_ex_timeout_500 : forall im,
  exists o, handler (ex_input im None (Some {| e_status := None; e_multi := false; e_msg := "context deadline exceeded"; e_buried := None; e_timeout := true |}) 0) = Reply o
            /\ o_status o = 500%Z.
Proof. destruct im; eexists; vm_compute; split; reflexivity. Qed.
Example C11_ex_version_value :
  version_value "Version 2.7.0" true = "Version undefined" /\ version_value "Version 2.7.0" false = "Version 2.7.0".
Proof. split; reflexivity. Qed.
(* the recorded finding has inputs, and they are recognised *)
Example C11_ex_in_finding : forall im, in_finding (spoof_input im "x-krakend-completed" "true") = true.
Proof. destruct im; vm_compute; reflexivity. Qed.
Example C11_ex_spoof_fails_oracle : forall im,
  spec_out_b (spoof_input im "x-krakend-completed" "true") (handler (spoof_input im "x-krakend-completed" "true")) = false.
Proof. destruct im; vm_compute; reflexivity. Qed.
