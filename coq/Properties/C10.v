(* C10 - Backend URL is host + generated path + forwarded query, nothing injected.
   Only theorem statements, each closed by an exact lemma, and Print Assumptions. *)
Require Import Verif.Common.Base.
Require Import Verif.Model.C10 Verif.Spec.C10 Verif.Proof.C10.

(* ---- the codec ---- *)

(* decoding the encoding of ANY byte string gives the string back (QueryEscape/QueryUnescape) *)
Theorem C10_escape_roundtrip : forall s, query_unescape (query_escape s) = Some s.
Proof. exact (escape_roundtrip MQuery). Qed.
Print Assumptions C10_escape_roundtrip.

(* also in the path and fragment modes used by URL.String / url.Parse *)
Theorem C10_escape_roundtrip_all_modes : forall m s, unescape m (escape m s) = Some s.
Proof. exact escape_roundtrip. Qed.
Print Assumptions C10_escape_roundtrip_all_modes.

(* ParseQuery (Values.Encode q) succeeds and yields exactly the pairs Encode wrote (keys in
   sorted order, values of a key in their order), for every map, every byte in keys/values *)
Theorem C10_values_roundtrip_pairs : forall q,
  parse_query (values_encode q) = (pairs_of (sort_keys q), true).
Proof. exact values_roundtrip_pairs. Qed.
Print Assumptions C10_values_roundtrip_pairs.

(* hence every key decodes to exactly its list of values (q is a Go map: distinct keys) *)
Theorem C10_values_roundtrip : forall q,
  nodup_keys q = true ->
  exists pairs, parse_query (values_encode q) = (pairs, true) /\
                forall k, pvals k pairs = vals k q.
Proof. exact values_roundtrip. Qed.
Print Assumptions C10_values_roundtrip.

(* escape is a byte-wise homomorphism and unescape is compositional: the behaviour of the codec
   on every string is determined by its behaviour on single bytes and on %XY triples *)
Theorem C10_escape_homomorphism : forall m a b,
  escape m (a ++ b) = (escape m a ++ escape m b)%string.
Proof. exact escape_app. Qed.
Print Assumptions C10_escape_homomorphism.

Theorem C10_unescape_compositional : forall m a a' b,
  unescape m a = Some a' ->
  unescape m (a ++ b) = option_map (fun t => (a' ++ t)%string) (unescape m b).
Proof. exact unescape_app'. Qed.
Print Assumptions C10_unescape_compositional.

(* NO NEW DELIMITER, every byte string, every mode: the output of escape contains no control
   byte, space or '#'; in path mode no '?'; in query mode none of ? & = ; / either *)
Theorem C10_escape_no_new_delimiter : forall m s, delimiter_free m (escape m s).
Proof. exact escape_delimiter_free. Qed.
Print Assumptions C10_escape_no_new_delimiter.

(* the default escaping of any byte string is a valid encoding (EscapedPath / EscapedFragment
   never re-escape their own output) *)
Theorem C10_escape_output_valid : forall s,
  valid_encoded MPath (escape MPath s) = true /\ valid_encoded MFragment (escape MFragment s) = true.
Proof. exact (fun s => conj (escape_valid_path s) (escape_valid_fragment s)). Qed.
Print Assumptions C10_escape_output_valid.

(* Values.Encode never writes an empty pair: the forwarded piece of the query carries exactly
   the forwarded parameters and nothing else (the oracle rejects a stray '&') *)
Theorem C10_encode_no_empty_pair : forall q, no_empty_piece (values_encode q) = true.
Proof. exact encode_no_empty_piece. Qed.
Print Assumptions C10_encode_no_empty_pair.

(* ---- the gin parameter checker ---- *)

Theorem C10_checker_sound : forall v,
  param_ok v = true ->
  has_byte c_pct v = false /\ has_byte c_qm v = false /\ has_byte c_hash v = false.
Proof. exact checker_sound. Qed.
Print Assumptions C10_checker_sound.

Theorem C10_checker_rejects : forall v,
  has_byte c_pct v = true \/ has_byte c_qm v = true \/ has_byte c_hash v = true ->
  param_ok v = false.
Proof. exact checker_rejects. Qed.
Print Assumptions C10_checker_rejects.

Theorem C10_checker_exact : forall v, param_ok v = true <-> tainted v = false.
Proof. exact param_ok_iff. Qed.
Print Assumptions C10_checker_exact.

(* an accepted parameter is a fixed point of PathUnescape: nothing is left to decode twice *)
Theorem C10_checker_decode_stable : forall v, param_ok v = true -> path_unescape v = Some v.
Proof. exact checker_decode_stable. Qed.
Print Assumptions C10_checker_decode_stable.

(* double encoding, for every byte string v: if the client encodes v twice, the router's single
   decoding leaves escape(v); whenever that differs from v it contains '%' and is rejected *)
Theorem C10_double_encoding_rejected : forall v,
  escape MPath v <> v -> param_ok (escape MPath v) = false.
Proof. exact double_encoding_rejected. Qed.
Print Assumptions C10_double_encoding_rejected.

(* ---- path generation adds none of '%' '?' '#' ---- *)
(* for every pattern, every parameter list in every (map iteration) order *)
Theorem C10_generate_no_injection : forall c, special c -> forall params pattern,
  (forall k v, In (k, v) params -> has_byte c k = false /\ has_byte c v = false) ->
  count_byte c (generate_path pattern params) = count_byte c pattern.
Proof. exact generate_counts. Qed.
Print Assumptions C10_generate_no_injection.

(* POSITIONAL FORM.  Substitution commutes with the split at any byte that no placeholder
   contains - no condition on the values *)
Theorem C10_generate_split : forall c params,
  (forall k v, In (k, v) params -> has_byte (code c) (placeholder k) = false) ->
  forall a b,
  generate_path (a ++ String c b) params =
  (generate_path a params ++ String c (generate_path b params))%string.
Proof. exact generate_split. Qed.
Print Assumptions C10_generate_split.

(* hence, for parameters free of '?', the first-'?' split of the generated path (the one
   url.Parse makes) is (substituted path part, substituted query part) of url_pattern: a
   parameter written in the path part stays in the path part, one written in the static query
   stays in the query part *)
Theorem C10_generate_positional : forall pattern pp sq f params,
  cut c_qm pattern = (pp, sq, f) ->
  (forall k v, In (k, v) params -> has_byte c_qm k = false /\ has_byte c_qm v = false) ->
  cut c_qm (generate_path pattern params) = (generate_path pp params, generate_path sq params, f).
Proof. exact generate_positional. Qed.
Print Assumptions C10_generate_positional.

(* a static query in which no placeholder is written reaches the URL exactly as written *)
Theorem C10_static_query_unchanged : forall pattern pp sq f params,
  cut c_qm pattern = (pp, sq, f) ->
  (forall k v, In (k, v) params -> has_byte c_qm k = false /\ has_byte c_qm v = false) ->
  (forall k v, In (k, v) params -> occurs (placeholder k) sq = false) ->
  cut c_qm (generate_path pattern params) = (generate_path pp params, sq, f).
Proof. exact static_query_unchanged. Qed.
Print Assumptions C10_static_query_unchanged.

(* the count form is a corollary of the positional form (oracle level) *)
Theorem C10_positional_implies_counts : forall pattern path,
  same_counts_pos pattern path = true -> same_counts pattern path = true.
Proof. exact same_counts_pos_counts. Qed.
Print Assumptions C10_positional_implies_counts.

(* ---- URL assembly (load balancer + http proxy) ---- *)

(* explicit shape: configured host, a generated path without control bytes and '#', whose part
   before the first '?' has no '%': the backend is called, with that host, exactly that path,
   no fragment, and the query = static query [&] Encode(forwarded) *)
Theorem C10_assembly : forall h path pp sq f q,
  wf_host h = true -> starts_with_slash path = true ->
  has_ctl path = false -> has_byte c_hash path = false ->
  cut c_qm path = (pp, sq, f) -> has_byte c_pct pp = false ->
  exists c, assemble h path q = Some c /\
    o_host c = h /\ o_path c = pp /\ o_frag c = EmptyString /\
    o_rawquery c = match q with
                   | [] => sq
                   | _ => if str_eqb sq "" then values_encode q
                          else (sq ++ String (chr c_amp) (values_encode q))%string
                   end.
Proof. exact assemble_explicit. Qed.
Print Assumptions C10_assembly.

(* every path without '#' (any other bytes, any number of '?', '%' escapes), every forwarded
   map: whenever a backend is called, the URL satisfies the property *)
Theorem C10_url_ok : forall hosts h path q c,
  In h hosts -> nodup_keys q = true -> has_byte c_hash path = false ->
  assemble h path q = Some c -> url_ok hosts path q c.
Proof. exact assemble_url_ok. Qed.
Print Assumptions C10_url_ok.

(* the request target (what is written on the wire) carries the generated path byte for byte
   whenever that path is a valid escaped path: a %2F of url_pattern stays %2F, ! ' ( ) * [ ]
   of a parameter stay raw; nothing is decoded and re-encoded on the way *)
Theorem C10_wire_exact : forall hosts h path q c pp sq f,
  In h hosts -> nodup_keys q = true -> has_byte c_hash path = false ->
  assemble h path q = Some c -> cut c_qm path = (pp, sq, f) -> valid_encoded MPath pp = true ->
  exists f', cut c_qm (o_wire c) = (pp, o_rawquery c, f').
Proof. exact wire_exact. Qed.
Print Assumptions C10_wire_exact.

(* GLUE: NewHTTPProxyDetailed serialises the balancer's URL and http.NewRequest parses the
   string again.  assemble_glue models exactly that (parse, append, String, parse, observe);
   it is what the correspondence compares with the executor.  For every '#'-free path, every
   host, every forwarded map the second parse changes nothing the executor sees *)
Theorem C10_reparse_identity : forall h path q,
  has_byte c_hash path = false -> assemble_glue h path q = assemble h path q.
Proof. exact reparse_identity. Qed.
Print Assumptions C10_reparse_identity.

Theorem C10_glue_url_ok : forall hosts h path q c,
  In h hosts -> nodup_keys q = true -> has_byte c_hash path = false ->
  assemble_glue h path q = Some c -> url_ok hosts path q c.
Proof. exact glue_url_ok. Qed.
Print Assumptions C10_glue_url_ok.

Theorem C10_glue_meets_oracle : forall hosts h path q,
  In h hosts -> nodup_keys q = true ->
  asm_spec_b hosts path q (assemble_glue h path q) = true.
Proof. exact glue_meets_oracle. Qed.
Print Assumptions C10_glue_meets_oracle.

(* the boolean oracle used on the implementation's observations is sound for the Prop *)
Theorem C10_oracle_sound : forall hosts path q o,
  url_ok_b hosts path q o = true -> url_ok hosts path q o.
Proof. exact url_ok_b_sound. Qed.
Print Assumptions C10_oracle_sound.

Theorem C10_assembly_meets_oracle : forall hosts h path q,
  In h hosts -> nodup_keys q = true ->
  asm_spec_b hosts path q (assemble h path q) = true.
Proof. exact assemble_meets_oracle. Qed.
Print Assumptions C10_assembly_meets_oracle.

(* split_url (host ++ generate pat ps): url_pattern with parameters free of '%' '?' '#' and
   control bytes - the backend IS called, with the configured host, path = substituted path part,
   no fragment, query = substituted query part [&] Encode(forwarded) *)
Theorem C10_positional_url : forall h pattern pp sq f params q,
  wf_host h = true -> starts_with_slash pattern = true -> has_ctl pattern = false ->
  has_byte c_hash pattern = false -> cut c_qm pattern = (pp, sq, f) -> has_byte c_pct pp = false ->
  clean_params params -> (forall k v, In (k, v) params -> has_ctl v = false) ->
  exists c, assemble h (generate_path pattern params) q = Some c /\
    o_host c = h /\ o_path c = generate_path pp params /\ o_frag c = EmptyString /\
    o_rawquery c = match q with
                   | [] => generate_path sq params
                   | _ => if str_eqb (generate_path sq params) "" then values_encode q
                          else (generate_path sq params ++ String (chr c_amp) (values_encode q))%string
                   end.
Proof. exact positional_url. Qed.
Print Assumptions C10_positional_url.

(* ---- the gin engine with default options ---- *)

(* a request whose extracted parameter contains '%', '?' or '#' is rejected (400, no proxy) *)
Theorem C10_gin_rejects : forall route allow be_allow pattern h target dp rawq ps,
  wire_parse target = Some (dp, rawq) -> route_match route dp = Some ps ->
  existsb (fun kv => tainted (snd kv)) ps = true ->
  gin_request route allow be_allow pattern h target = GReject.
Proof. exact gin_rejects. Qed.
Print Assumptions C10_gin_rejects.

(* whatever the client puts on the wire (raw, encoded, double encoded): when the proxy is
   reached, the generated path has exactly the '%', '?' and '#' written in url_pattern *)
Theorem C10_gin_no_injection : forall route allow be_allow pattern h target params path qep q c b,
  clean_names route -> special b ->
  gin_request route allow be_allow pattern h target = GProxy params path qep q c ->
  count_byte b path = count_byte b pattern.
Proof. exact gin_no_injection. Qed.
Print Assumptions C10_gin_no_injection.

(* positional form for the gin engine: whenever the proxy is reached, the generated path splits
   at its first '?' exactly where url_pattern does *)
Theorem C10_gin_positional : forall route allow be_allow pattern h target params path qep q c pp sq f,
  clean_names route -> cut c_qm pattern = (pp, sq, f) ->
  gin_request route allow be_allow pattern h target = GProxy params path qep q c ->
  cut c_qm path = (generate_path pp params, generate_path sq params, f).
Proof. exact gin_positional. Qed.
Print Assumptions C10_gin_positional.

(* BOUNDARY of the 400 guarantee (refuted reading): "a path parameter can never add query
   parts" does not hold for '&' / '=' when url_pattern has a placeholder INSIDE its static
   query: the request below passes the checker, stays in the query part (positional oracle
   true), and the backend URL carries admin=true, a key neither in url_pattern nor sent as
   a query parameter by the client.  The checker excludes exactly '%', '?', '#'. *)
Theorem C10_query_pair_via_static_placeholder_refuted :
  exists target params path c,
    gin_request [Lit "a"; Par "p"] ["*"] [] "/b?id={{.P}}&s=1" "http://h" target
      = GProxy params path [] [] (Some c) /\
    forallb (fun kv => param_ok (snd kv)) params = true /\
    pvals "admin" (fst (parse_query "id={{.P}}&s=1")) = [] /\
    pvals "admin" (fst (parse_query (o_rawquery c))) = ["true"] /\
    same_counts_pos "/b?id={{.P}}&s=1" path = true.
Proof. exact static_query_placeholder_refuted. Qed.
Print Assumptions C10_query_pair_via_static_placeholder_refuted.

(* the executable model satisfies the boolean oracle for every request line *)
Theorem C10_model_meets_oracle : forall route allow be_allow pattern hosts h target,
  In h hosts -> clean_names route -> has_byte c_hash pattern = false ->
  gin_spec_b (extracted_of route target) pattern hosts
             (obs_of (gin_request route allow be_allow pattern h target)) = true.
Proof. exact gin_meets_oracle. Qed.
Print Assumptions C10_model_meets_oracle.

(* the property for the gin engine, as a Prop: whenever a request line makes the engine call a
   backend, every extracted parameter is free of '%' '?' '#', the generated path has exactly
   the '%' '?' '#' of url_pattern, and the URL is host + that path + static query + forwarded
   parameters with their exact values *)
Theorem C10_gin_url_ok : forall route allow be_allow pattern hosts h target params path qep q c,
  In h hosts -> clean_names route -> has_byte c_hash pattern = false ->
  gin_request route allow be_allow pattern h target = GProxy params path qep q (Some c) ->
  url_ok hosts path q c /\
  (forall b, special b -> count_byte b path = count_byte b pattern) /\
  (forall k v, In (k, v) params -> tainted v = false).
Proof. exact gin_url_ok. Qed.
Print Assumptions C10_gin_url_ok.

(* ---- non-vacuity, reachable branches, and the boundary of the statement ---- *)

Example C10_ex_hosts : wf_host "http://127.0.0.1:8080" = true /\ wf_host "https://api-1.x_y.local:443" = true.
Proof. vm_compute. auto. Qed.

Example C10_ex_clean_names : clean_names [Lit "a"; Par "p"; Lit "t"; Par "q"].
Proof. exact clean_names_example. Qed.

(* the request target keeps non-canonical but valid escapes and raw sub-delimiters *)
Example C10_ex_wire_as_generated :
  option_map o_wire (assemble "http://h" "/b/2024%2FQ1/it's(draft)!?s=1" []) =
  Some "/b/2024%2FQ1/it's(draft)!?s=1".
Proof. vm_compute. reflexivity. Qed.

(* the re-parse is really exercised: with a fragment (outside the statement) the model still runs *)
Example C10_ex_glue_fragment :
  option_map o_frag (assemble_glue "http://h" "/b/x#a b?s=1" []) = Some "a b?s=1".
Proof. vm_compute. reflexivity. Qed.

Example C10_ex_double_encoding :
  escape MPath (escape MPath "a b") = "a%2520b" /\ param_ok (escape MPath "a b") = false.
Proof. vm_compute. auto. Qed.

(* url_pattern ending in a bare '?': the forwarded parameters follow directly, no stray '&' *)
Example C10_ex_bare_question_mark :
  option_map o_rawquery (assemble_glue "http://h" "/b?" [("k", ["v"])]) = Some "k=v" /\
  fwd_ok_b [("k", ["v"])] "&k=v" = false.
Proof. vm_compute. auto. Qed.

Example C10_ex_assemble :
  assemble "http://h" "/b/x y?s=1" [("k", ["a b"; "&=?#%"]); ("", [""])] =
  Some {| o_host := "http://h"; o_path := "/b/x y"; o_rawquery := "s=1&=&k=a+b&k=%26%3D%3F%23%25";
          o_frag := ""; o_wire := "/b/x%20y?s=1&=&k=a+b&k=%26%3D%3F%23%25" |}.
Proof. vm_compute. reflexivity. Qed.

Definition ex_route := [Lit "a"; Par "p"].

(* encoded '?', encoded '#', double encoding: 400, the proxy is not reached *)
Example C10_ex_gin_rejects :
  gin_request ex_route ["*"] [] "/b/{{.P}}?s=1" "http://h" "/a/x%3Fy%3D1" = GReject /\
  gin_request ex_route ["*"] [] "/b/{{.P}}?s=1" "http://h" "/a/x%23frag" = GReject /\
  gin_request ex_route ["*"] [] "/b/{{.P}}?s=1" "http://h" "/a/x%2541" = GReject.
Proof. vm_compute. auto. Qed.

(* an encoded space is accepted and reaches the backend once-encoded *)
Example C10_ex_gin_forwards :
  gin_request ex_route ["*"] [] "/b/{{.P}}?s=1" "http://h" "/a/x%20y?k=a%26b" =
  GProxy [("P", "x y")] "/b/x y?s=1" [("k", ["a&b"])] [("k", ["a&b"])]
         (Some {| o_host := "http://h"; o_path := "/b/x y"; o_rawquery := "s=1&k=a%26b";
                  o_frag := ""; o_wire := "/b/x%20y?s=1&k=a%26b" |}).
Proof. vm_compute. reflexivity. Qed.

(* why the checker is needed (routers without it): the same assembly lets a parameter add a
   query part, open a fragment that swallows the static query, or be decoded a second time *)
Example C10_ex_injection_without_checker :
  option_map o_rawquery (assemble "http://h" (generate_path "/b/{{.P}}?s=1" [("P", "x?y=1")]) []) = Some "y=1?s=1" /\
  option_map o_frag (assemble "http://h" (generate_path "/b/{{.P}}?s=1" [("P", "x#frag")]) []) = Some "frag?s=1" /\
  option_map o_path (assemble "http://h" (generate_path "/b/{{.P}}?s=1" [("P", "x%41")]) []) = Some "/b/xA".
Proof. vm_compute. auto. Qed.

(* boundary: a placeholder written INSIDE the static query of url_pattern is substituted as
   text; '&' and '=' are not excluded by the checker, so such a configuration lets a path
   parameter add a query pair.  The guarantees above concern '%', '?' and '#'. *)
Example C10_ex_placeholder_in_static_query :
  param_ok "x&admin=true" = true /\
  option_map (fun c => fst (parse_query (o_rawquery c)))
    (assemble "http://h" (generate_path "/b?id={{.P}}&s=1" [("P", "x&admin=true")]) [])
  = Some [("id", "x"); ("admin", "true"); ("s", "1")].
Proof. vm_compute. auto. Qed.
